(* Props/ParserShape.v — the tree-shape clauses of the renderer theorems, proved OF THE PARSER MODEL.  Only pinned
   statements, each closed by `exact` and followed by Print Assumptions.

   The renderer theorems (C02_events, C10_nested_weak, C10_html_total, C09_xml_total, C04 ...) are conditional on
   clauses about the tree: s2 (root is the Document), s3 (table shape), s4 (heading levels 1..6), s7 (no Raw node,
   inert EscapedTag payloads), s6w (the first footnote definition is a child of the root).  Until now these
   were only EVALUATED on the trees the compiled parser dumps.  Here they are theorems about the parser models,
   for every option set and every input:

   1. BLOCK PHASE (Model/Blocks.parse_blocks, tied to the compiled parser by tools/checks/blocks_tie.py).
        ParserShape_blocks_s2 / _s4 / _s7 / _s3         the four clauses of `to_node (br_root r)`
        ParserShape_blocks_values                       every value is one of the twenty block values (a Heading
                                                        only with level 1..6, FootnoteDefinition only with the
                                                        footnotes extension, Table/TableRow/TableCell only with
                                                        the table extension): never Raw, EscapedTag, an inline
        ParserShape_blocks_tables_ok                    Spec.Valid.tables_ok (s3 + num_columns = |alignments|)
        ParserShape_blocks_structurally_valid           Spec.Valid.structurally_valid: all of C04's tree clause
        ParserShape_blocks_ids_distinct                 the node identifiers of the arena model are pairwise
                                                        distinct (what makes `bdetach` remove the node meant)
        ParserShape_blocks_s6_no_footnotes              without the extension there is no definition at all
   2. INLINE PHASE (Model/Inlines.parse_inlines / postprocess_block, tied by tools/checks/inlines_tie.py).
        ParserShape_inline_values                       every child list parse_inlines returns consists of inline
                                                        trees: values in InlinesProofs.ival (never Document,
                                                        Heading, Table, TableRow, TableCell, FootnoteDefinition,
                                                        Raw, TaskItem ...) and every EscapedTag payload is made of
                                                        inert bytes (the payloads are one or two tildes or a bar,
                                                        created by insert_emph when strikethrough / spoiler
                                                        delimiters match with the extension arm not taken)
        ParserShape_inline_kinds_valid                  = Props/Inlines.v inline_kinds_valid_full_statement
        ParserShape_postprocess_values                  postprocess_block keeps inline trees
        ParserShape_inline_tree_clauses                 an inline tree satisfies s4, s7, nofn, no_table and s3_go
                                                        in every context
        ParserShape_attach_preserves                    `attach` (ParserShapeAttach.v: the children of the
                                                        Paragraph / Heading / TableCell leaves are replaced by inline
                                                        trees) preserves s2, s3, s4, s7, s6w, s6
        ParserShape_taskify_preserves                   the task-list effects on the ancestors (Item -> TaskItem,
                                                        List flag, removal of the emptied paragraph) preserve them
   3. FOOTNOTE PASS (Model/Footnotes.process, tied by tools/checks/c15.py), for every fold / pres / perm.
        ParserShape_footnotes_s6w                       s6w of the result, for EVERY input tree whose root is no
                                                        definition
        ParserShape_footnotes_defs_at_root_tail         = Props/C15.v C15_defs_at_root_tail_full_statement (without
                                                        its Permutation premise)
        ParserShape_footnotes_s6                        s6 under Footnotes.no_nested_defs;
        Parser_s6_refuted                               and s6 is FALSE of the parser without it: the witness of the
                                                        known finding F22 (a definition indented into a definition)
        ParserShape_footnotes_preserves                 process preserves s2, s3, s4, s7
   4. COMPOSITION.  final_tree (ParserShapeCompose.v) = taskify (attach inl2 (footnotes? (attach inl1 (block tree)))).
        Parser_shape                                    s2, s3, s4, s7, s6w of the final tree
        Parser_C02 / Parser_C10 / Parser_html_total / Parser_xml_total
                                                        C02_events, C10_nested_weak, C10_html_total, C09_xml_total
                                                        with their shape premises discharged
        Parser_inline_model_ok / Parser_post_model_ok   the premise `inl_ok` holds when the lists are what the inline
                                                        model returns

   WHAT REMAINS ASSUMED (explicit premises or outside Coq):
     * inl_ok inl1, inl_ok inl2: proved for the outputs of the inline model (Parser_inline_model_ok,
       Parser_post_model_ok); that the content / line offsets / reference map handed to parse_inlines are those of
       the leaf is irrelevant for the shape and is not stated;
     * that Parser::finalize_document + postprocess_text_nodes of the compiled parser IS this composition of the
       three tied models (the glue code: the loop over descendants, the call order) is not modelled as one function:
       C02 / C10 keep evaluating the clauses on every dumped final tree;
     * totality of parse_blocks (Props/Blocks.v Blocks_total_full_statement) is not proved: all statements are about
       runs that return Ok. *)
From Coq Require Import List NArith Arith Bool Strings.String.
From V Require Import Base.Bytes Base.Res Gen.Nodes Model.Ast Model.Blocks Model.Inlines Model.Footnotes Model.Html Model.Xml
  Spec.Shape Spec.HtmlSpec Spec.XmlLex Spec.Valid Spec.FootnoteSpec Spec.NestSpec
  Proofs.InlinesProofs Proofs.FootnoteProofs
  Proofs.ParserShapeBlocks Proofs.ParserShapeBlocksRead Proofs.ParserShapeTree Proofs.ParserShapeTablesRead
  Proofs.ParserShapeInl Proofs.ParserShapeFn Proofs.ParserShapeAttach Proofs.ParserShapeCompose.
Import ListNotations.
Local Open Scope string_scope.
Local Open Scope list_scope.

(* ================================================================== 1. block phase *)
Theorem ParserShape_blocks_s2 : forall o x r, parse_blocks o x = Ok r -> s2 (to_node (br_root r)) = true.
Proof. exact parse_blocks_s2. Qed.
Print Assumptions ParserShape_blocks_s2.

Theorem ParserShape_blocks_s4 : forall o x r, parse_blocks o x = Ok r -> s4 (to_node (br_root r)) = true.
Proof. exact parse_blocks_s4. Qed.
Print Assumptions ParserShape_blocks_s4.

Theorem ParserShape_blocks_s7 : forall o x r, parse_blocks o x = Ok r -> s7 (to_node (br_root r)) = true.
Proof. exact parse_blocks_s7. Qed.
Print Assumptions ParserShape_blocks_s7.

Theorem ParserShape_blocks_s3 : forall o x r, parse_blocks o x = Ok r -> s3 (to_node (br_root r)) = true.
Proof. exact parse_blocks_s3. Qed.
Print Assumptions ParserShape_blocks_s3.

Theorem ParserShape_blocks_values : forall o x r,
  parse_blocks o x = Ok r -> nall (bvok o) (to_node (br_root r)) = true.
Proof. exact parse_blocks_values. Qed.
Print Assumptions ParserShape_blocks_values.

(* what bvok allows, spelled out *)
Theorem ParserShape_bvok_spec : forall o v, bvok o v = true ->
  match v with
  | Heading l _ => (1 <= l <= 6)%N
  | FootnoteDefinition _ _ => bo_footnotes o = true
  | Table _ | TableRow _ | TableCell => bo_table o = true
  | Raw _ | EscapedTag _ | Text _ | TaskItem _ | SoftBreak | LineBreak | Code _ _ | HtmlInline _ | Emph | Strong
  | Strikethrough | Superscript | Link _ _ | Image _ _ | FootnoteReference _ _ _ | Math _ _ _ | Escaped | WikiLink _
  | Underline | Subscript | SpoileredText => False
  | _ => True
  end.
Proof. exact bvok_spec. Qed.
Print Assumptions ParserShape_bvok_spec.

Theorem ParserShape_blocks_tables_ok : forall o x r,
  parse_blocks o x = Ok r -> tables_ok (to_node (br_root r)) = true.
Proof. exact parse_blocks_tables_ok. Qed.
Print Assumptions ParserShape_blocks_tables_ok.

Theorem ParserShape_blocks_structurally_valid : forall o x r,
  parse_blocks o x = Ok r -> structurally_valid (to_node (br_root r)) = true.
Proof. exact blocks_structurally_valid. Qed.
Print Assumptions ParserShape_blocks_structurally_valid.

Theorem ParserShape_blocks_ids_distinct : forall o x r, parse_blocks o x = Ok r -> NoDup (ids (br_root r)).
Proof. exact parse_blocks_ids_distinct. Qed.
Print Assumptions ParserShape_blocks_ids_distinct.

Theorem ParserShape_blocks_s6_no_footnotes : forall o x r,
  bo_footnotes o = false -> parse_blocks o x = Ok r -> s6 (to_node (br_root r)) = true.
Proof. exact parse_blocks_s6_no_footnotes. Qed.
Print Assumptions ParserShape_blocks_s6_no_footnotes.

(* ================================================================== 2. inline phase *)
Theorem ParserShape_inline_values : forall memo o u inp lo sl refmap maxref rs0 ch rs,
  parse_inlines memo o u inp lo sl refmap maxref rs0 = Ok (ch, rs) -> forallb inl_tree7 ch = true.
Proof. exact inl_parse_inlines_tree7. Qed.
Print Assumptions ParserShape_inline_values.

Theorem ParserShape_inline_kinds_valid : InlinesProofs.inline_kinds_valid_full_statement.
Proof. exact inl_kinds_valid. Qed.
Print Assumptions ParserShape_inline_kinds_valid.

Theorem ParserShape_postprocess_values : forall o ctx children ch' eff,
  forallb inl_tree7 children = true -> postprocess_block o ctx children = Ok (ch', eff) -> forallb inl_tree7 ch' = true.
Proof. exact inl_postprocess_tree7. Qed.
Print Assumptions ParserShape_postprocess_values.

(* the values of an inline tree; the payload of an EscapedTag *)
Theorem ParserShape_inline_value_spec : forall v, inl_val7 v = true ->
  v <> Document /\ (forall l s, v <> Heading l s) /\ (forall t, v <> Table t) /\ (forall h, v <> TableRow h)
  /\ v <> TableCell /\ (forall n t, v <> FootnoteDefinition n t) /\ (forall l, v <> Raw l) /\ (forall s, v <> TaskItem s).
Proof. exact inl_val7_not_block. Qed.
Print Assumptions ParserShape_inline_value_spec.

Theorem ParserShape_escaped_tag_payload : forall l, inl_val7 (EscapedTag l) = true -> forallb inert_byte l = true.
Proof. exact escaped_tag_payload. Qed.
Print Assumptions ParserShape_escaped_tag_payload.

Theorem ParserShape_inline_tree_clauses : forall n, inl_tree7 n = true ->
  s4 n = true /\ s7 n = true /\ nofn n = true /\ no_table n = true /\ forall pv gv, s3_go pv gv n = true.
Proof. exact inline_tree_clauses. Qed.
Print Assumptions ParserShape_inline_tree_clauses.

Theorem ParserShape_attach_preserves : forall inl path t,
  (forall p, forallb inl_tree7 (inl p) = true) ->
  nval (attach inl path t) = nval t /\
  (s2 t = true -> s2 (attach inl path t) = true) /\ (s3 t = true -> s3 (attach inl path t) = true) /\
  (s4 t = true -> s4 (attach inl path t) = true) /\ (s7 t = true -> s7 (attach inl path t) = true) /\
  (s6w t = true -> s6w (attach inl path t) = true) /\ (s2 t = true -> s6 t = true -> s6 (attach inl path t) = true).
Proof. exact attach_preserves. Qed.
Print Assumptions ParserShape_attach_preserves.

Theorem ParserShape_taskify_preserves : forall act path t,
  (s2 t = true -> s2 (taskify act path t) = true) /\ (s3 t = true -> s3 (taskify act path t) = true) /\
  (s4 t = true -> s4 (taskify act path t) = true) /\ (s7 t = true -> s7 (taskify act path t) = true) /\
  (s6w t = true -> s6w (taskify act path t) = true).
Proof. exact taskify_preserves. Qed.
Print Assumptions ParserShape_taskify_preserves.

(* ================================================================== 3. footnote pass *)
Theorem ParserShape_footnotes_s6w : forall (fold pres : bytes -> bytes) (perm : list fdef -> list fdef) root,
  is_def root = false -> s6w (process fold pres perm root) = true.
Proof. exact fnp_s6w_process. Qed.
Print Assumptions ParserShape_footnotes_s6w.

Theorem ParserShape_footnotes_defs_at_root_tail : forall (fold pres : bytes -> bytes) (perm : list fdef -> list fdef) root,
  is_def root = false -> defs_at_root_tail (process fold pres perm root) = true.
Proof. exact fnp_defs_at_root_tail. Qed.
Print Assumptions ParserShape_footnotes_defs_at_root_tail.

Theorem ParserShape_footnotes_s6 : forall (fold pres : bytes -> bytes) (perm : list fdef -> list fdef) root,
  is_def root = false -> no_nested_defs root = true -> s6 (process fold pres perm root) = true.
Proof. exact fnp_s6_process. Qed.
Print Assumptions ParserShape_footnotes_s6.

Theorem ParserShape_footnotes_preserves : forall (fold pres : bytes -> bytes) (perm : list fdef -> list fdef) root,
  s2 root = true ->
  s2 (process fold pres perm root) = true /\
  (s3 root = true -> s3 (process fold pres perm root) = true) /\
  (s4 root = true -> s4 (process fold pres perm root) = true) /\
  (s7 root = true -> s7 (process fold pres perm root) = true).
Proof. exact footnotes_preserves. Qed.
Print Assumptions ParserShape_footnotes_preserves.

(* ================================================================== 4. composition *)
Theorem Parser_shape : forall o x r fold pres perm inl1 inl2 act,
  parse_blocks o x = Ok r -> inl_ok inl1 -> inl_ok inl2 ->
  let t := final_tree (bo_footnotes o) fold pres perm inl1 inl2 act (to_node (br_root r)) in
  s2 t = true /\ s3 t = true /\ s4 t = true /\ s7 t = true /\ s6w t = true.
Proof. exact final_shape. Qed.
Print Assumptions Parser_shape.

Theorem Parser_C02 : forall o x r fold pres perm inl1 inl2 act slug ro evs,
  parse_blocks o x = Ok r -> inl_ok inl1 -> inl_ok inl2 ->
  o_unsafe ro = false -> (forall h, forallb inert_byte (slug h) = true) ->
  events slug ro (final_tree (bo_footnotes o) fold pres perm inl1 inl2 act (to_node (br_root r))) = Ok evs ->
  forallb safe_ev evs = true.
Proof. exact final_html_safe. Qed.
Print Assumptions Parser_C02.

Theorem Parser_C10 : forall o x r fold pres perm inl1 inl2 act slug ro evs,
  parse_blocks o x = Ok r -> inl_ok inl1 -> inl_ok inl2 ->
  events slug ro (final_tree (bo_footnotes o) fold pres perm inl1 inl2 act (to_node (br_root r))) = Ok evs ->
  well_nested evs = true.
Proof. exact final_html_nested. Qed.
Print Assumptions Parser_C10.

Theorem Parser_html_total : forall o x r fold pres perm inl1 inl2 act slug ro,
  parse_blocks o x = Ok r -> inl_ok inl1 -> inl_ok inl2 ->
  exists evs, events slug ro (final_tree (bo_footnotes o) fold pres perm inl1 inl2 act (to_node (br_root r))) = Ok evs.
Proof. exact final_html_total. Qed.
Print Assumptions Parser_html_total.

Theorem Parser_xml_total : forall o x r fold pres perm inl1 inl2 act ro,
  parse_blocks o x = Ok r -> inl_ok inl1 -> inl_ok inl2 ->
  exists b, xml ro (final_tree (bo_footnotes o) fold pres perm inl1 inl2 act (to_node (br_root r))) = Ok b.
Proof. exact final_xml_total. Qed.
Print Assumptions Parser_xml_total.

Theorem Parser_inline_model_ok : forall a, inl_ok (inl_of_model a).
Proof. exact inl_of_model_ok. Qed.
Print Assumptions Parser_inline_model_ok.

Theorem Parser_post_model_ok : forall io ctx before, inl_ok before -> inl_ok (inl_post_model io ctx before).
Proof. exact inl_post_model_ok. Qed.
Print Assumptions Parser_post_model_ok.

(* s6 proper is false of the parser (known finding F22, class nested_definition): the block phase puts the
   indented definition inside the first one, the footnote pass moves the outer one to the end of the root with
   the inner one still inside *)
Theorem Parser_s6_refuted :
  exists r, parse_blocks o_fn doc_nested = Ok r /\ inl_ok inl_nested /\
    let t := final_tree true (fun v => v) (fun v => v) (fun l => l) inl_nested inl_nested act_none (to_node (br_root r)) in
    s6 t = false /\ s6w t = true.
Proof. exact final_s6_refuted. Qed.
Print Assumptions Parser_s6_refuted.

(* ================================================================== non-vacuity *)
(* a heading, a table whose body row is short (autocompleted) and one whose row is long (truncated), a footnote
   reference and its definition: table and footnotes extensions on *)
Example ParserShape_example :
  exists r, parse_blocks ex_opts ex_doc = Ok r /\ inl_ok ex_inl /\
    let t0 := to_node (br_root r) in
    let t := final_tree true (fun v => v) (fun v => v) (fun l => l) ex_inl ex_inl act_none t0 in
    map (fun c => kind_of (nval c)) (nch t0) = [KHeading; KTable; KParagraph; KFootnoteDefinition] /\
    map (fun c => kind_of (nval c)) (nch t) = [KHeading; KTable; KParagraph; KFootnoteDefinition] /\
    map (fun row => List.length (nch row)) (flat_map nch (filter (fun c => is_table_v (nval c)) (nch t))) = [2; 2; 2] /\
    structurally_valid t0 = true /\
    s2 t && s3 t && s4 t && s7 t && s6w t && s6 t = true.
Proof. exact shape_example. Qed.
