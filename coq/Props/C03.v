(* Props/C03.v — canonical documents parse to exactly the structure they spell: pinned statements.
   `doc`, `canonical`, `write`, `ref_html`, `tree_of`, `wf_doc` are in Spec/Doc.v (written from
   CommonMark 0.31.2 / GFM, independent of comrak); `html` is the renderer model of Model/Html.v (tied
   to src/html.rs by the correspondence check render.html).
   Proved here: the RENDERER half — the model renderer applied to the intended tree gives the
   reference HTML — for every document of the fragment `wf_doc` (all inline constructs; paragraphs,
   ATX / setext headings, thematic breaks, fenced / indented code, block quotes, tight and loose
   bullet / ordered / task lists at any nesting, HTML blocks; NOT tables, footnotes, and fenced blocks
   whose info string is exactly math), and for every inline construct without restriction.
   The PARSER half (the real parser reads `write d` back as `tree_of d`) is evaluated by
   tools/checks/c03.py on generated documents; it is not a theorem.  The same check evaluates the full
   renderer statement below on every generated canonical document (tables and footnotes included)
   and that every canonical document without tables / footnotes / math info satisfies wf_doc. *)
From Coq Require Import List NArith Bool.
From V Require Import Base.Bytes Base.Res Model.Ast Model.Html Spec.Doc Proofs.DocRender.
Import ListNotations.
From Coq Require Import Strings.String.
Local Open Scope string_scope.
Local Open Scope list_scope.

(* the renderer half of C03 in full: every construct, every canonical document (not proved) *)
Definition C03_render_full_statement : Prop :=
  forall slug d, canonical d = true -> html slug std_opts (tree_of d) = Ok (ref_html d).

(* proved part: every document of the fragment, no bound on size or depth *)
Theorem C03_render_partial : forall slug d,
  wf_doc d = true -> html slug std_opts (tree_of d) = Ok (ref_html d).
Proof. exact render_wf_doc. Qed.
Print Assumptions C03_render_partial.

(* every inline construct (emphasis, strong, strikethrough, code spans, links, images, reference
   links, autolinks, breaks, entities, escapes, footnote references), at any nesting depth, in any
   context and renderer state: rendered without panic, state unchanged, no carriage-return event,
   bytes = the reference bytes *)
Theorem C03_inlines : forall slug i E k c st, exists evs,
  render slug std_opts c (t_inl E k i) st = Ok (evs, st) /\ nocr evs = true /\
  flat_map ser_ev evs = r_inl E k i.
Proof. intros slug i E k c st. exact (inl_all slug i E k c st). Qed.
Print Assumptions C03_inlines.

(* every block of the fragment in its context: an item inside its list, any other block under the
   document, a quote or an item; `run` is the serialiser with the pending-line-ending state explicit:
   a bare paragraph of a tight item prints its inlines and leaves the line open, every other block
   starts on a fresh line and ends with a line ending *)
Theorem C03_blocks : forall slug b as_item t, wf_b as_item t b = true ->
  forall E li k c st, ctx_ok as_item t c ->
  exists evs, render slug std_opts c (t_block E li k b) st = Ok (evs, st) /\
    forall lf, run lf evs = if is_bare t b then (r_block E t k b, false) else (lead lf ++ r_block E t k b, true).
Proof. intros slug b as_item t W. exact (blk_all slug b as_item t W). Qed.
Print Assumptions C03_blocks.

(* `run` is the serialiser of the model *)
Theorem C03_run_is_ser : forall evs, fst (run true evs) = ser evs.
Proof. intro evs. exact (run_ser evs true). Qed.
Print Assumptions C03_run_is_ser.

(* non-vacuity: a canonical document of the fragment with a tight list nested in a loose one, a
   quote, code, emphasis, a link and an image; the theorem's equation computed *)
Definition ex_doc : doc :=
  mkDoc [mkDef (B "Foo") (mkDest (B "/u") false (Some (0, B "t")))] true
    [ BAtx 2 0 [IStr (B "h"); ISp; IEm false [IStr (B "e")]];
      BBullet false x2d
        [ BItem None [BPara [IStr (B "a"); ISp; IRef false RShortcut [IStr (B "foo")] (B "foo")];
                      BBullet true x2a [BItem (Some true) [BPara [IStrong false [IStr (B "b")]]; BFence false 3 (B "rust") [B "x"]]]];
          BItem None [BQuote [BPara [IImg [IStr (B "i")] (mkDest (B "/p") false None); ISoft; ICode (B "c")]]] ] ].
Example C03_nonvacuous :
  canonical ex_doc = true /\ wf_doc ex_doc = true /\
  html (fun _ => []) std_opts (tree_of ex_doc) = Ok (ref_html ex_doc) /\
  ref_html ex_doc <> [].
Proof. vm_compute. repeat split. discriminate. Qed.
