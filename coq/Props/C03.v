(* Props/C03.v — canonical documents parse to exactly the structure they spell: pinned statements.
   `doc`, `canonical`, `write`, `ref_html`, `tree_of` are in Spec/Doc.v (written from CommonMark 0.31.2 /
   GFM, independent of comrak); `html` is the renderer model of Model/Html.v (tied to src/html.rs by the
   correspondence check render.html).  The parser half (the real parser reads `write d` back as
   `tree_of d`) is evaluated by tools/checks/c03.py on generated documents; it is not a theorem. *)
From Coq Require Import List NArith Bool.
From V Require Import Base.Bytes Base.Res Model.Ast Model.Html Spec.Doc Proofs.DocRender.
Import ListNotations.

(* the renderer half of C03 in full: every construct, every canonical document *)
Definition C03_render_full_statement : Prop :=
  forall slug d, canonical d = true -> html slug std_opts (tree_of d) = Ok (ref_html d).

(* every inline construct (emphasis, strong, strikethrough, code spans, links, images, reference
   links, autolinks, breaks, entities, escapes, footnote references), at any nesting depth, in any
   context and renderer state: rendered without panic, state unchanged, bytes = the reference bytes *)
Theorem C03_inlines : forall slug i E k c st, exists evs,
  render slug std_opts c (t_inl E k i) st = Ok (evs, st) /\ nocr evs = true /\
  flat_map ser_ev evs = r_inl E k i.
Proof. intros slug i E k c st. exact (inl_all slug i E k c st). Qed.
Print Assumptions C03_inlines.
