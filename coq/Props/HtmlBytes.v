(* Props/HtmlBytes.v — the byte-level forms of C02 / C10 / C18 for the HTML renderer model.
   Only pinned statements.

   Props/C02.v, C10.v, C18.v state their theorems over the EVENTS of Model/Html.v; the byte-level
   checks of Spec/HtmlSpec.v Part B (html_safe_check, html_balanced_check, strip_sourcepos,
   relex_identity: a strict lexer html_lex of comrak's output language plus token predicates) were
   only evaluated on real output.  Here the gap is closed: the lexer inverts the serialiser,

       lexable evs = true  ->  html_lex (ser evs) = Some (toks_of evs),

   where `toks_of` (Proofs/HtmlLexRt.v) is the event list as the lexer sees its serialisation: one
   token per Open / Void / Close / Cmt with attribute values in serialised (escaped) form, maximal
   runs of text-producing events (Txt, Lit, RawHtml, the newline a Cr resolves to) merged into one
   TText, empty text dropped; it threads the same last_lf state as ser_chunks.  `lexable` asks of
   every event: tag names non-empty over tag_byte, attribute names non-empty over attrname_byte,
   attribute value parts written as is (PConst, PPre) free of QUOTE LT GT, text written as is
   (Lit, RawHtml) free of LT; escaped parts and escaped text need no condition.  The token
   predicates then follow from the event predicates, and the event-level theorems give the
   byte-level ones.  No defect of the lexer of Spec/HtmlSpec.v was found (it is unchanged). *)
From Coq Require Import List NArith Bool.
From V Require Import Base.Bytes Base.Res Model.Ast Model.Html Spec.EscapeSpec Spec.HtmlSpec Spec.Shape
  Proofs.HtmlSafe Proofs.HtmlNest Proofs.HtmlSp Proofs.HtmlLexRt.
Import ListNotations.
From Coq Require Import Strings.String.
Local Open Scope string_scope.
Local Open Scope list_scope.

(* ------------------------------------------------------------------ the lexer round trip *)
(* printing: the tokens of an event list print back to its serialisation (no hypothesis) *)
Theorem HtmlBytes_print : forall evs, flat_map tok_bytes (toks_of evs) = ser evs.
Proof. exact toks_of_print. Qed.
Print Assumptions HtmlBytes_print.

(* the lexer is a left inverse of the printer on canonical token lists (names lexable, values free
   of QUOTE LT GT, text tokens non-empty, free of LT and never adjacent) *)
Theorem HtmlBytes_lex_print : forall ts, canon ts = true -> html_lex (flat_map tok_bytes ts) = Some ts.
Proof. exact html_lex_print. Qed.
Print Assumptions HtmlBytes_lex_print.

(* MAIN *)
Theorem HtmlBytes_lex_ser : forall evs, lexable evs = true -> html_lex (ser evs) = Some (toks_of evs).
Proof. exact html_lex_ser. Qed.
Print Assumptions HtmlBytes_lex_ser.

Theorem HtmlBytes_relex_identity : forall evs, lexable evs = true -> relex_identity (ser evs) = true.
Proof. exact relex_identity_ser. Qed.
Print Assumptions HtmlBytes_relex_identity.

(* the lexer is strict, for EVERY byte string: whatever it accepts prints back to the input byte
   for byte, so relex_identity says no more than that the input lexes *)
Theorem HtmlBytes_lex_sound : forall s ts, html_lex s = Some ts -> flat_map tok_bytes ts = s.
Proof. exact html_lex_sound. Qed.
Print Assumptions HtmlBytes_lex_sound.

Theorem HtmlBytes_relex_identity_of_lex : forall s,
  relex_identity s = match html_lex s with Some _ => true | None => false end.
Proof. exact relex_identity_of_lex. Qed.
Print Assumptions HtmlBytes_relex_identity_of_lex.

(* ------------------------------------------------------------------ when events are lexable *)
Theorem HtmlBytes_safe_lexable : forall evs, forallb safe_ev evs = true -> lexable evs = true.
Proof. exact safe_lexable. Qed.
Print Assumptions HtmlBytes_safe_lexable.

(* for EVERY option record and tree (no S4, no S7): if raw HTML is not passed through (raw_ok: every
   HtmlBlock / HtmlInline node is rendered under escape or with unsafe off) and the literals
   written as is (Raw, EscapedTag) carry no LT, and the slug stage emits no QUOTE LT GT, the events
   are lexable and carry no attribute named data-sourcepos other than the SpAttr ones *)
Theorem HtmlBytes_events_lexable : forall slug o t evs,
  (forall h, forallb no_active_byte (slug h) = true) -> raw_ok o t = true ->
  events slug o t = Ok evs -> lexable evs = true /\ no_own_sp evs = true.
Proof. exact events_lexable. Qed.
Print Assumptions HtmlBytes_events_lexable.

Theorem HtmlBytes_raw_ok_intro : forall o t,
  lits_notlt t = true ->
  (o_unsafe o = false \/ o_escape o = true \/ no_html_nodes t = true) -> raw_ok o t = true.
Proof. exact raw_ok_intro. Qed.
Print Assumptions HtmlBytes_raw_ok_intro.

Theorem HtmlBytes_s7_lits : forall t, s7 t = true -> lits_notlt t = true.
Proof. exact s7_lits_notlt. Qed.
Print Assumptions HtmlBytes_s7_lits.

(* ------------------------------------------------------------------ token predicates from event predicates *)
Theorem HtmlBytes_toks_safe : forall evs, forallb safe_ev evs = true -> forallb tok_safe (toks_of evs) = true.
Proof. exact toks_of_safe. Qed.
Print Assumptions HtmlBytes_toks_safe.

Theorem HtmlBytes_toks_nest : forall evs s, tok_nest s (toks_of evs) = nest s evs.
Proof. exact tok_nest_toks_of. Qed.
Print Assumptions HtmlBytes_toks_nest.

Theorem HtmlBytes_toks_erase : forall evs, no_own_sp evs = true ->
  toks_of (map erase_sp evs) = map drop_sp_attr (toks_of evs).
Proof. exact toks_of_erase. Qed.
Print Assumptions HtmlBytes_toks_erase.

(* the token check tests the SERIALISED href / src value, the event check the URL before
   escape_href; the scheme test cannot tell them apart *)
Theorem HtmlBytes_dangerous_href : forall u, dangerous_spec (escape_href_spec u) = dangerous_spec u.
Proof. exact dangerous_href. Qed.
Print Assumptions HtmlBytes_dangerous_href.

(* text_ok, position-wise: every ampersand begins one of the four entities, no other byte is
   QUOTE LT GT (this form is closed under concatenation, which is what merging text needs) *)
Theorem HtmlBytes_text_ok_positionwise : forall s, text_ok s = true <-> txt_okp s = true.
Proof. exact text_ok_okp. Qed.
Print Assumptions HtmlBytes_text_ok_positionwise.

(* the checks on the serialisation of any event list *)
Theorem HtmlBytes_safe_check_ser : forall evs, forallb safe_ev evs = true -> html_safe_check (ser evs) = 0%N.
Proof. exact safe_check_ser. Qed.
Print Assumptions HtmlBytes_safe_check_ser.

Theorem HtmlBytes_balanced_check_ser : forall evs,
  lexable evs = true -> well_nested evs = true -> html_balanced_check (ser evs) = 0%N.
Proof. exact balanced_check_ser. Qed.
Print Assumptions HtmlBytes_balanced_check_ser.

Theorem HtmlBytes_strip_sourcepos_ser : forall evs,
  lexable evs = true -> no_own_sp evs = true ->
  strip_sourcepos (ser evs) = Some (ser (map erase_sp evs)).
Proof. exact strip_sourcepos_ser. Qed.
Print Assumptions HtmlBytes_strip_sourcepos_ser.

(* ------------------------------------------------------------------ C02, bytes *)
(* with unsafe off, the OUTPUT BYTES lex and every token is safe (tags and attribute names in the
   vocabulary, values well-formed escaped text, no dangerous URL scheme, text well-formed escaped
   text): the full byte-level statement, same hypotheses as C02_events *)
Theorem C02_bytes : forall slug o t b,
  o_unsafe o = false -> s7 t = true -> s4 t = true ->
  (forall h, forallb inert_byte (slug h) = true) ->
  html slug o t = Ok b -> html_safe_check b = 0%N.
Proof. exact c02_bytes. Qed.
Print Assumptions C02_bytes.

(* ------------------------------------------------------------------ C10, bytes *)
(* the statement with no clause about raw HTML is false: with `unsafe` the document's own tags are
   in the output and are lexed as tags *)
Definition C10_bytes_full_statement : Prop :=
  forall slug o t b, s2 t = true -> s3 t = true -> s6w t = true ->
    html slug o t = Ok b -> html_balanced_check b = 0%N.

Theorem C10_bytes_full_statement_refuted : ~ C10_bytes_full_statement.
Proof. exact c10_bytes_without_raw_clause_refuted. Qed.
Print Assumptions C10_bytes_full_statement_refuted.

(* raw HTML not passed through: unsafe off, or escape on, or no HtmlBlock / HtmlInline node; the
   literals written as is (Raw, EscapedTag) carry no LT (the parser only builds EscapedTag with the
   literals ~ ~~ | — src/parser/inlines.rs — and never builds Raw; S7 implies the clause:
   HtmlBytes_s7_lits); any option record otherwise; no S4 / S7 *)
Theorem C10_bytes : forall slug o t b,
  s2 t = true -> s3 t = true -> s6w t = true ->
  (forall h, forallb no_active_byte (slug h) = true) -> lits_notlt t = true ->
  (o_unsafe o = false \/ o_escape o = true \/ no_html_nodes t = true) ->
  html slug o t = Ok b -> html_balanced_check b = 0%N.
Proof. exact c10_bytes. Qed.
Print Assumptions C10_bytes.

(* the same from any proof that the events are lexable *)
Theorem C10_bytes_lexable : forall slug o t b,
  s2 t = true -> s3 t = true -> s6w t = true ->
  (forall evs, events slug o t = Ok evs -> lexable evs = true) ->
  html slug o t = Ok b -> html_balanced_check b = 0%N.
Proof. exact c10_bytes_lexable. Qed.
Print Assumptions C10_bytes_lexable.

(* ------------------------------------------------------------------ C18, bytes *)
(* the statement for every option record is false (Props/C18.v C18_html_lexer_full_statement_refuted:
   with unsafe the document's own raw HTML may carry a data-sourcepos attribute).  With raw HTML not
   passed through, the token-wise deletion of data-sourcepos from the option-on output is the
   option-off output, and both outputs relex to themselves.  Holds for every tree (no shape clause). *)
Theorem C18_bytes : forall slug o t on,
  (forall h, forallb no_active_byte (slug h) = true) -> lits_notlt t = true ->
  (o_unsafe o = false \/ o_escape o = true \/ no_html_nodes t = true) ->
  html slug (set_sp true o) t = Ok on ->
  exists off, html slug (set_sp false o) t = Ok off /\ strip_sourcepos on = Some off /\
              relex_identity on = true /\ relex_identity off = true.
Proof. exact c18_bytes. Qed.
Print Assumptions C18_bytes.

(* the general form: whenever the option-on events are lexable and carry no attribute written by
   name as data-sourcepos *)
Theorem C18_bytes_events : forall slug o t evs,
  events slug (set_sp true o) t = Ok evs -> lexable evs = true -> no_own_sp evs = true ->
  html slug (set_sp true o) t = Ok (ser evs) /\
  html slug (set_sp false o) t = Ok (ser (map erase_sp evs)) /\
  strip_sourcepos (ser evs) = Some (ser (map erase_sp evs)).
Proof. exact c18_bytes_events. Qed.
Print Assumptions C18_bytes_events.

(* ------------------------------------------------------------------ non-vacuity *)
(* a tree with headings (ids on), code blocks (info string with hostile bytes, math), a three-row
   table, tight list with a task item, images (one with a dangerous URL), links (one dangerous),
   footnote reference and definition, inline and block HTML (replaced by the placeholder; the block
   carries its own data-sourcepos attribute), an EscapedTag, hostile text everywhere *)
Definition hb_hostile : bytes := B """<>&'".
Definition hb_opts : opts :=
  mkOpts true (Some (B "user-content-")) true false false true false true true 0 false false 0
         true true true false true true 0 false false.
Definition hb_tree : node :=
  nd Document
    [ nd (Heading 1 false) [txt "T"];
      nd (Heading 2 false) [nd (Text hb_hostile) []];
      nd (CodeBlock (mkCB true 96 3 0 (B "rust a""b<c d") (B "<x> & y"))) [];
      nd (CodeBlock (mkCB true 96 3 0 (B "math") (B "a<b"))) [];
      nd (Table tbl3)
        [ nd (TableRow true) [cell "h1"; cell "h2"];
          nd (TableRow false) [cell "a"; nd TableCell [nd (Text hb_hostile) []]];
          nd (TableRow false) [cell "c"; cell "d"] ];
      nd (NList (lst true))
        [ nd (Item (lst true)) [para [txt "t"; nd Strong [nd Strong [txt "s"]]]];
          nd (TaskItem (Some (B "x"))) [para [txt "task"]] ];
      para [ nd (Image (B "i.png") hb_hostile) [nd (Text hb_hostile) []; nd (Code 1 hb_hostile) []];
             nd (Image (B "javascript:x") (B "")) [];
             nd (Link (B "http://x/?a=1&b='2'""<") hb_hostile) [txt "l"];
             nd (Link (B "JavaScript:alert(1)") (B "")) [txt "bad"];
             nd (FootnoteReference (B "a""<") 1 1) []; nd (FootnoteReference (B "a""<") 2 1) [];
             nd (HtmlInline (B "<b>")) []; nd (EscapedTag (B "~~")) []; nd LineBreak [];
             nd (Code 1 hb_hostile) []; nd (Math true false hb_hostile) [] ];
      nd (HtmlBlock 6 (B "<div data-sourcepos=""9:9-9:9"">")) [];
      nd (Alert (mkAlert Note (Some hb_hostile) false 0 0)) [para [txt "al"]];
      nd (FootnoteDefinition (B "a""<") 2) [para [txt "fa"]] ].

Definition hb_slug (h : bytes) : bytes := filter inert_byte h.

Definition hb_slug_inert : forall h, forallb inert_byte (hb_slug h) = true := filter_inert_slug.
Definition hb_slug_no_active : forall h, forallb no_active_byte (hb_slug h) = true :=
  inert_slug_no_active hb_slug hb_slug_inert.

Example HtmlBytes_nonvacuous :
  o_unsafe hb_opts = false /\ o_sourcepos hb_opts = true /\
  s2 hb_tree = true /\ s3 hb_tree = true /\ s6w hb_tree = true /\ s7 hb_tree = true /\ s4 hb_tree = true /\
  lits_notlt hb_tree = true /\ raw_ok hb_opts hb_tree = true /\
  exists evs on off,
    events hb_slug hb_opts hb_tree = Ok evs /\
    html hb_slug (set_sp true hb_opts) hb_tree = Ok on /\
    html hb_slug (set_sp false hb_opts) hb_tree = Ok off /\
    on = ser evs /\ on <> off /\
    lexable evs = true /\ no_own_sp evs = true /\ forallb safe_ev evs = true /\ well_nested evs = true /\
    Nat.ltb 150 (List.length evs) = true /\
    Nat.ltb (List.length (toks_of evs)) (List.length evs) = true /\
    Nat.ltb 100 (List.length (toks_of evs)) = true /\
    canon (toks_of evs) = true /\
    html_lex on = Some (toks_of evs) /\
    html_safe_check on = 0%N /\ html_balanced_check on = 0%N /\
    strip_sourcepos on = Some off /\ relex_identity on = true.
Proof.
  repeat (split; [vm_compute; reflexivity|]).
  destruct (events hb_slug hb_opts hb_tree) as [evs| |] eqn:E; [|vm_compute in E; discriminate E ..].
  exists evs, (ser evs), (ser (map erase_sp evs)).
  assert (Some evs = match events hb_slug hb_opts hb_tree with Ok e => Some e | _ => None end) as X
    by (rewrite E; reflexivity).
  split; [reflexivity|].
  assert (html hb_slug (set_sp true hb_opts) hb_tree = Ok (ser evs)) as Hon.
  { change (set_sp true hb_opts) with hb_opts. unfold html. rewrite E. reflexivity. }
  split; [exact Hon|].
  assert (html hb_slug (set_sp false hb_opts) hb_tree = Ok (ser (map erase_sp evs))) as Hoff.
  { rewrite html_sp_bytes. change (set_sp true hb_opts) with hb_opts. rewrite E. reflexivity. }
  split; [exact Hoff|]. split; [reflexivity|].
  vm_compute in X. injection X as ->.
  split; [intro D; vm_compute in D; discriminate D|].
  repeat (split; [vm_compute; reflexivity|]). vm_compute. reflexivity.
Qed.

(* the hypotheses of the three byte-level theorems are met by the example, so their conclusions
   are obtained from the theorems (not by computation) *)
Example HtmlBytes_theorems_apply :
  forall on, html hb_slug hb_opts hb_tree = Ok on ->
    html_safe_check on = 0%N /\ html_balanced_check on = 0%N /\
    exists off, html hb_slug (set_sp false hb_opts) hb_tree = Ok off /\ strip_sourcepos on = Some off.
Proof.
  intros on H. split; [|split].
  - apply (C02_bytes hb_slug hb_opts hb_tree on); try (vm_compute; reflexivity); [exact hb_slug_inert | exact H].
  - apply (C10_bytes hb_slug hb_opts hb_tree on); try (vm_compute; reflexivity);
      [exact hb_slug_no_active | left; reflexivity | exact H].
  - destruct (C18_bytes hb_slug hb_opts hb_tree on hb_slug_no_active) as (off & A & B & _);
      [vm_compute; reflexivity | left; reflexivity | exact H |].
    exists off. split; assumption.
Qed.
