(* Props/ParseTotal.v — C01: what the block phase guarantees of the leaves it hands to the inline phase, and the
   totality of the inline phase of parse_document_model after the block phase.  Only pinned statements.

   The inline phase of one leaf is total under the premises of Props/Inlines.v inlines_total; for a whole tree this is
   inline_phase_total_given_leaves (every leaf, after the right-trim run_inlines_gen does: empty, or NUL-free, valid UTF-8,
   first line not blank, line_endings < |line_offsets|).  Here those clauses are PROVED of the tree parse_blocks answers,
   each as an invariant carried along the Ok path of every function of the block phase, for EVERY input and EVERY option
   set.  There is no premise `utf8_valid x` / `has_nul x = false`: on the Ok path every from_utf8 of the block phase
   succeeded (a line suffix that is not valid UTF-8 is a Panic of parse_blocks), and feed replaces NUL.

     clause                              invariant (per node)                                      files (coq/Proofs)
     NUL-free, no CR, valid UTF-8,       LeafPremBytes.LP, for Paragraph / Heading / TableCell      LeafPremBytes, LeafPremRow,
       #LF(rtrim c) < |line_offsets|                                                                LeafPremWalk, LeafPremMain
     first line not blank, TableCell     no CR / LF in a cell (ParseCellsWalk)                      LeafPremCells
     first line not blank, Paragraph /   every line of the content is non-blank (LeafPremBlank.ALS) LeafPremBlank (resolve_refdefs stops at
       Heading                                                                                      a line start), LeafPremPct + LeafPremCur
                                                                                                    (cursor: add_line appends a non-blank
                                                                                                    suffix), LeafPremPreface (table preface),
                                                                                                    LeafPremFirst, LeafPremFirstMain

   Consequently parse_document_model o u x is, whenever parse_blocks answers Ok, the text post-pass
   (postprocess_text_nodes + task lists) applied to a tree the inline phase and the footnote pass DID produce:
   the remaining panic sites of the whole parser model are those of parse_blocks (Props/Blocks.v: 22 named sites) and of
   post_phase. *)
From Coq Require Import List NArith Arith Bool Strings.String.
From V Require Import Base.Bytes Base.Res Model.Ast Model.Strings Model.Blocks Model.Inlines Model.Parse Proofs.InlinesTotal2
  Proofs.LeafPremFirstMain.
From V Require Spec.EscapeSpec.
Import ListNotations.
Local Open Scope string_scope.
Local Open Scope list_scope.

Definition Parse_inline_phase_total_full_statement : Prop :=
  forall o u x r, parse_blocks (bopts_of o u) x = Ok r ->
    exists t, inline_phase o u (br_root r) (br_refmap r) (br_max_ref_size r) = Ok t.

(* every leaf (Paragraph, Heading, TableCell) of the block-phase tree meets the premises of inlines_total *)
Theorem Parse_leaf_premises : forall o x r p i,
  parse_blocks o x = Ok r -> In (p, i) (bleaves [] (br_root r)) ->
  let c := rtrim_slice (bi_content i) in
  c = [] \/ (has_nul c = false /\ Spec.EscapeSpec.utf8_valid c = true /\ first_line_not_blank c = true
             /\ line_endings c < List.length (bi_lo i)).
Proof. exact parse_blocks_leaf_ok. Qed.
Print Assumptions Parse_leaf_premises.

Theorem Parse_inline_phase_total : Parse_inline_phase_total_full_statement.
Proof. exact inline_phase_total_after_blocks. Qed.
Print Assumptions Parse_inline_phase_total.

Theorem Parse_document_after_blocks : forall o u x r,
  parse_blocks (bopts_of o u) x = Ok r ->
  exists t1, inline_phase o u (br_root r) (br_refmap r) (br_max_ref_size r) = Ok t1 /\
             parse_document_model o u x = post_phase o (footnote_phase o u t1).
Proof. exact parse_document_after_blocks. Qed.
Print Assumptions Parse_document_after_blocks.

(* non-vacuity: a document with a preface paragraph, a table (header and body cells, one filler cell), an ATX heading with
   closing hashes, an empty ATX heading, a setext heading after a stripped reference definition, a non-ASCII paragraph
   and a NUL: the block phase answers Ok, 11 leaves, the inline phase answers Ok *)
Definition ex_o : popts :=
  mkPO true true true true true true false false None None
       true true false false false false false false false true false false false false false.
Definition ex_u : oracle := mkOracle (fun _ => false) (fun _ => false) (fun v => v).
Definition ex_doc : bytes :=
  B "p" ++ [x0a] ++ B "|a|b|" ++ [x0a] ++ B "|-|-|" ++ [x0a] ++ B "|c|d|" ++ [x0a] ++ B "|e|" ++ [x0a] ++ [x0a] ++
  B "# h #" ++ [x0a] ++ B "#" ++ [x0a] ++ B "[r]: /u" ++ [x0a] ++ B "t" ++ [x0a] ++ B "===" ++ [x0a] ++
  [xc3; xa9; x00] ++ B " x" ++ [x0a].

Example Parse_total_example :
  match parse_blocks (bopts_of ex_o ex_u) ex_doc with
  | Ok r => List.length (bleaves [] (br_root r)) = 11 /\
            exists t, inline_phase ex_o ex_u (br_root r) (br_refmap r) (br_max_ref_size r) = Ok t
  | _ => False
  end.
Proof.
  assert (K : exists r, parse_blocks (bopts_of ex_o ex_u) ex_doc = Ok r /\ List.length (bleaves [] (br_root r)) = 11).
  { vm_compute. eexists. split; [reflexivity|]. vm_compute. reflexivity. }
  destruct K as (r & E & N). rewrite E. split; [exact N|]. exact (Parse_inline_phase_total _ _ _ _ E).
Qed.
