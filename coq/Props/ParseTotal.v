(* Props/ParseTotal.v — C01: what the block phase guarantees of the leaves it hands to the inline phase, and the
   totality of the inline phase of parse_document_model after the block phase.  Only pinned statements.

   The inline phase of one leaf is total under the premises of Props/Inlines.v inlines_total; for a whole tree this is
   inline_phase_total_given_leaves (every leaf, after the right-trim run_inlines_gen does: empty, or NUL-free, valid UTF-8,
   first line not blank, line_endings < |line_offsets|).  Here those clauses are PROVED of the tree parse_blocks answers,
   as an invariant carried along the Ok path of every function of the block phase (Proofs/LeafPremBytes.v, LeafPremRow.v,
   LeafPremWalk.v, LeafPremMain.v), for EVERY input and option set (no premise `utf8_valid x`, `has_nul x = false`: on the
   Ok path every from_utf8 of the block phase succeeded; feed replaces NUL) — except the clause `first line not blank`
   for Paragraph / Heading leaves, which stays the premise of Parse_inline_phase_total_partial:

     Parse_leaf_clauses                    NUL-free, valid UTF-8, line_endings c < |bi_lo| (or c = []) for every leaf
     Parse_inline_phase_total_partial      if no Paragraph / Heading leaf starts with a blank line, the inline phase is total
                                           (a TableCell never does: Proofs/LeafPremCells.v)
     Parse_document_inline_phase_partial   and parse_document_model = the text post-pass of its (footnote-processed) result

   Parse_inline_phase_total_full_statement (no premise on the leaves) is NOT proved: it needs the cursor invariant of
   add_text_to_container (the suffix add_line appends to a fresh Paragraph / ATX Heading starts at first_nonspace of a
   line that is not blank; a setext heading / finalized paragraph keeps has_content = !is_blank).  tools/leaf_premises.py
   found the clause true on 35,681 leaves of the compiled parser. *)
From Coq Require Import List NArith Arith Bool Strings.String.
From V Require Import Base.Bytes Base.Res Model.Ast Model.Strings Model.Blocks Model.Inlines Model.Parse Proofs.InlinesTotal2
  Proofs.LeafPremMain Proofs.LeafPremCells Proofs.LeafPremFirstMain.
From V Require Spec.EscapeSpec.
Import ListNotations.
Local Open Scope string_scope.
Local Open Scope list_scope.

Definition Parse_inline_phase_total_full_statement : Prop :=
  forall o u x r, parse_blocks (bopts_of o u) x = Ok r ->
    exists t, inline_phase o u (br_root r) (br_refmap r) (br_max_ref_size r) = Ok t.

Theorem Parse_leaf_clauses : forall o x r p i,
  parse_blocks o x = Ok r -> In (p, i) (bleaves [] (br_root r)) ->
  let c := rtrim_slice (bi_content i) in
  c = [] \/ (has_nul c = false /\ Spec.EscapeSpec.utf8_valid c = true /\ line_endings c < List.length (bi_lo i)).
Proof. exact parse_blocks_leaf_clauses. Qed.
Print Assumptions Parse_leaf_clauses.

Theorem Parse_inline_phase_total_partial : forall o u x r,
  parse_blocks (bopts_of o u) x = Ok r ->
  (forall p i, In (p, i) (bleaves [] (br_root r)) -> bi_val i <> TableCell ->
     rtrim_slice (bi_content i) = [] \/ first_line_not_blank (rtrim_slice (bi_content i)) = true) ->
  exists t, inline_phase o u (br_root r) (br_refmap r) (br_max_ref_size r) = Ok t.
Proof. exact inline_phase_total_blocks2. Qed.
Print Assumptions Parse_inline_phase_total_partial.

Theorem Parse_document_inline_phase_partial : forall o u x r,
  parse_blocks (bopts_of o u) x = Ok r ->
  (forall p i, In (p, i) (bleaves [] (br_root r)) ->
     rtrim_slice (bi_content i) = [] \/ first_line_not_blank (rtrim_slice (bi_content i)) = true) ->
  exists t1, inline_phase o u (br_root r) (br_refmap r) (br_max_ref_size r) = Ok t1 /\
             parse_document_model o u x = post_phase o (footnote_phase o u t1).
Proof. exact parse_document_inline_phase. Qed.
Print Assumptions Parse_document_inline_phase_partial.

(* without tables: every premise of the inline phase is established by the block phase (Proofs/LeafPremBlank.v,
   LeafPremPct.v, LeafPremCur.v, LeafPremFirst.v: no Paragraph / Heading starts with a blank line) *)
Theorem Parse_inline_phase_total_no_tables : forall o u x r,
  po_table o = false -> parse_blocks (bopts_of o u) x = Ok r ->
  exists t, inline_phase o u (br_root r) (br_refmap r) (br_max_ref_size r) = Ok t.
Proof. exact inline_phase_total_no_tables. Qed.
Print Assumptions Parse_inline_phase_total_no_tables.

Theorem Parse_document_no_tables : forall o u x r,
  po_table o = false -> parse_blocks (bopts_of o u) x = Ok r ->
  exists t1, inline_phase o u (br_root r) (br_refmap r) (br_max_ref_size r) = Ok t1 /\
             parse_document_model o u x = post_phase o (footnote_phase o u t1).
Proof. exact parse_document_no_tables. Qed.
Print Assumptions Parse_document_no_tables.

(* non-vacuity: a document with a preface paragraph, a table (header and body cells, one filler cell), an ATX heading with
   closing hashes, an empty ATX heading, a setext heading after a stripped reference definition, a non-ASCII paragraph
   and a NUL: the block phase answers Ok, 11 leaves, the premise holds, the inline phase answers Ok *)
Definition ex_o : popts :=
  mkPO true true true true true true false false None None
       true true false false false false false false false true false false false false false.
Definition ex_u : oracle := mkOracle (fun _ => false) (fun _ => false) (fun v => v).
Definition ex_doc : bytes :=
  B "p" ++ [x0a] ++ B "|a|b|" ++ [x0a] ++ B "|-|-|" ++ [x0a] ++ B "|c|d|" ++ [x0a] ++ B "|e|" ++ [x0a] ++ [x0a] ++
  B "# h #" ++ [x0a] ++ B "#" ++ [x0a] ++ B "[r]: /u" ++ [x0a] ++ B "t" ++ [x0a] ++ B "===" ++ [x0a] ++
  [xc3; xa9; x00] ++ B " x" ++ [x0a].

Example Parse_total_example :
  match parse_blocks (bopts_of ex_o ex_u) ex_doc with
  | Ok r => List.length (bleaves [] (br_root r)) = 11 /\
            exists t, inline_phase ex_o ex_u (br_root r) (br_refmap r) (br_max_ref_size r) = Ok t
  | _ => False
  end.
Proof.
  assert (K : exists r, parse_blocks (bopts_of ex_o ex_u) ex_doc = Ok r
                        /\ List.length (bleaves [] (br_root r)) = 11
                        /\ forallb (fun e => match rtrim_slice (bi_content (snd e)) with [] => true | c => first_line_not_blank c end)
                                   (bleaves [] (br_root r)) = true).
  { vm_compute. eexists. split; [reflexivity|]. vm_compute. split; reflexivity. }
  destruct K as (r & E & N & F). rewrite E. split; [exact N|].
  eapply Parse_inline_phase_total_partial; [exact E|]. intros p i Hin _.
  rewrite forallb_forall in F. specialize (F (p, i) Hin). cbn [snd] in F.
  destruct (rtrim_slice (bi_content i)); [left; reflexivity | right; exact F].
Qed.
