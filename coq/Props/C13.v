(* Props/C13.v — Extensions are inert on documents that do not use their syntax.
   Only pinned statements.  What is proved concerns the INLINE parser's three character tables
   (Subject::new), its scan (find_special_char) and the arm selection of parse_inline, all regenerated from
   /repo/src/parser/inlines.rs on every run (translator item `special`), together with the audit of every
   place that reads an extension / parse option.
   Part 2 (below, `PARSER MODEL`) states C13 for the two phases of the parser model: the inline phase
   (Model/Inlines.v: parse_inline, inline_loop, process_emphasis, parse_inlines; Proofs/InertInlines.v,
   Proofs/InertFeatures.v) and the block phase (Model/Blocks.v: parse_blocks; Proofs/InertRegex.v,
   Proofs/InertBlocks.v).  Both models are tied to the compiled parser (tools/checks/inlines_tie.py, blocks_tie.py).
   NOT proved: the composition blocks -> inlines -> postprocess -> HTML (C13_full_statement stays a Definition and is
   what the metamorphic search of tools/checks/c13.py evaluates on the compiled library); see the gap comments. *)
From Coq Require Import List NArith Bool Strings.String.
From V Require Import Model.Ast Model.Inlines Model.Blocks Model.Feed Proofs.InlinesProofs Proofs.InertInlines Proofs.InertFeatures
     Proofs.InertRegex Proofs.InertBlocks.
From V Require Import Base.Bytes Base.Res Gen.Special Gen.AuditOptions Model.Special Spec.Triggers Proofs.SpecialProofs.
Import ListNotations.
Local Open Scope string_scope.
Local Open Scope list_scope.

(* the property itself, for an arbitrary Markdown-to-HTML function; not proved *)
Definition C13_full_statement := c13_full_statement.

(* ---- ties: the read sites of every option are the ones the specification was written for *)
Theorem C13_audit_option_reads : option_reads = map (fun e => fst e) expected_option_reads.
Proof. exact audit_option_reads. Qed.
Print Assumptions C13_audit_option_reads.

Theorem C13_audit_no_struct_escape : option_struct_escapes = [].
Proof. exact audit_no_struct_escape. Qed.
Print Assumptions C13_audit_no_struct_escape.

Theorem C13_audit_table_uses : special_table_uses = expected_table_uses.
Proof. exact audit_table_uses. Qed.
Print Assumptions C13_audit_table_uses.

Theorem C13_audit_guard_names_known : forallb (fun n => str_mem n known_names) all_guard_names = true.
Proof. exact audit_guard_names_known. Qed.
Print Assumptions C13_audit_guard_names_known.

(* ---- the bytes a feature adds to special_chars / skip_chars / smart_chars begin one of its trigger strings *)
Theorem C13_special_delta : forall F b, In b (added_bytes F) -> In b (trigger_heads F).
Proof. exact special_delta. Qed.
Print Assumptions C13_special_delta.

(* ---- the three tables agree, outside those bytes, for any two option sets that differ only on F *)
Theorem C13_table_inert : forall F o1 o2 b,
  agree_except F o1 o2 -> ~ In b (added_bytes F) ->
  special_chars o1 b = special_chars o2 b /\ skip_chars o1 b = skip_chars o2 b /\ smart_chars o1 b = smart_chars o2 b.
Proof. exact table_inert. Qed.
Print Assumptions C13_table_inert.

(* ---- find_special_char: same result with F on or off (every other option arbitrary) on input that has no
   byte beginning a trigger string of F *)
Theorem C13_find_special_inert : forall F o1 o2 wb input pos,
  agree_except F o1 o2 -> free_of_heads F input = true ->
  find_special_char o1 wb input pos = find_special_char o2 wb input pos.
Proof. exact find_special_inert_heads. Qed.
Print Assumptions C13_find_special_inert.

(* ... and under the specification's own free_of for every feature but three *)
Theorem C13_find_special_inert_free : forall F o1 o2 wb input pos,
  F <> Autolink -> F <> Spoiler -> F <> Smart ->
  agree_except F o1 o2 -> free_of F input = true ->
  find_special_char o1 wb input pos = find_special_char o2 wb input pos.
Proof.
  intros F o1 o2 wb input pos H1 H2 H3. apply find_special_inert_free.
  apply exact_heads_all_but_three; assumption.
Qed.
Print Assumptions C13_find_special_inert_free.

(* the three exceptions are real at this level: a lone w (autolink), a lone vertical bar (spoiler), a lone
   hyphen (smart) stop the scan although the document is free of the documented syntax.  The split text
   nodes are merged again later; that part is covered by the search only. *)
Theorem C13_find_special_free_refuted_autolink :
  free_of Autolink (B "aw") = true /\
  find_special_char (opts_with (option_path Autolink) true opts_none) false (B "aw") 0
  <> find_special_char (opts_with (option_path Autolink) false opts_none) false (B "aw") 0.
Proof. exact find_special_autolink_splits. Qed.
Print Assumptions C13_find_special_free_refuted_autolink.

Theorem C13_find_special_free_refuted_spoiler :
  free_of Spoiler (B "a|b") = true /\
  find_special_char (opts_with (option_path Spoiler) true opts_none) false (B "a|b") 0
  <> find_special_char (opts_with (option_path Spoiler) false opts_none) false (B "a|b") 0.
Proof. exact find_special_spoiler_splits. Qed.
Print Assumptions C13_find_special_free_refuted_spoiler.

Theorem C13_find_special_free_refuted_smart :
  free_of Smart (B "a-b") = true /\
  find_special_char (opts_with (option_path Smart) true opts_none) false (B "a-b") 0
  <> find_special_char (opts_with (option_path Smart) false opts_none) false (B "a-b") 0.
Proof. exact find_special_smart_splits. Qed.
Print Assumptions C13_find_special_free_refuted_smart.

(* ---- parse_inline: every arm whose guard or body reads F is keyed on bytes that begin a trigger of F *)
Theorem C13_dispatch_guard_inert : forall F a,
  In a dispatch_arms -> arm_mentions F a = true ->
  exists bs, arm_pat a = Some bs /\ forall b, In b bs -> In b (trigger_heads F).
Proof. exact dispatch_guard_inert. Qed.
Print Assumptions C13_dispatch_guard_inert.

(* hence the arm taken for any other byte does not depend on F *)
Theorem C13_select_arm_inert : forall F o1 o2 wb c,
  agree_except F o1 o2 -> ~ In c (trigger_heads F) -> select_arm o1 wb c = select_arm o2 wb c.
Proof. exact select_arm_inert. Qed.
Print Assumptions C13_select_arm_inert.

Theorem C13_select_arm_total : forall o wb c, select_arm o wb c <> None.
Proof. exact select_arm_total. Qed.
Print Assumptions C13_select_arm_total.

(* ---- the hypothesis used above is implied by having none of the head bytes; toggling F is an instance of
   agree_except *)
Theorem C13_heads_free : forall F d, free_of_heads F d = true -> free_of F d = true.
Proof. exact heads_free. Qed.
Print Assumptions C13_heads_free.

Theorem C13_toggle_agrees : forall F v1 v2 o,
  agree_except F (opts_with_all (read_names F) v1 o) (opts_with_all (read_names F) v2 o).
Proof. exact agree_except_with. Qed.
Print Assumptions C13_toggle_agrees.

(* non-vacuity: strikethrough adds the tilde to special_chars and skip_chars; on a document with a tilde the
   scan does differ, on one without it cannot *)
Example C13_nonvacuous_tables :
  added_bytes Strikethrough = [x7e; x7e] /\
  special_chars (opts_with "extension.strikethrough" true opts_none) x7e = true /\
  special_chars opts_none x7e = false /\
  find_special_char (opts_with "extension.strikethrough" true opts_none) false (B "a~b") 0 = 1%N /\
  find_special_char opts_none false (B "a~b") 0 = 3%N /\
  select_arm (opts_with "extension.strikethrough" true opts_none) false x7e = Some 14 /\
  select_arm opts_none false x7e = Some 18 /\
  free_of Footnotes (B "[\^a]") = true /\ free_of Footnotes (B "[^a]") = false.
Proof. vm_compute. repeat split; reflexivity. Qed.


(* ====================================================================== PARSER MODEL, inline phase
   T = a set of trigger bytes; `tfree T inp`: the block content has none of them; `iagree T o1 o2 inp`: the option
   records agree on every field except those all of whose reads are guarded by a byte of T (Proofs/InertInlines.v),
   and the special-character tables agree outside T (discharged per feature from C13_table_inert /
   C13_find_special_inert above).  `Inv T s`: the invariant of the dispatcher loop (no open bracket when the left
   bracket is in T; no stacked delimiter whose byte is in T or whose Text node begins with a byte of T). *)

(* (a)+(b) one call of parse_inline: same arm, same result, whatever the state reached *)
Theorem C13_inline_step_generic : forall memo T o1 o2 u inp lo sl refmap maxref s,
  tfree T inp -> iagree T o1 o2 inp -> Inv T s ->
  parse_inline memo o1 u inp lo sl refmap maxref s = parse_inline memo o2 u inp lo sl refmap maxref s.
Proof. exact step_eq_rec. Qed.
Print Assumptions C13_inline_step_generic.

(* the invariant holds initially and is kept by every step, for every option record *)
Theorem C13_inline_invariant_init : forall T sl r0, Inv T (init_st sl r0).
Proof. exact Inv_init. Qed.
Print Assumptions C13_inline_invariant_init.

Theorem C13_inline_invariant_step : forall memo T o u inp lo sl refmap maxref s s',
  tfree T inp -> (forall b, is_ascii b = false -> T b = false) -> Inv T s ->
  parse_inline memo o u inp lo sl refmap maxref s = Ok (Some s') -> Inv T s'.
Proof. exact step_inv_rec. Qed.
Print Assumptions C13_inline_invariant_step.

(* the sequence of dispatcher calls *)
Theorem C13_inline_loop_generic : forall memo T o1 o2 u inp lo sl refmap maxref fuel s,
  tfree T inp -> iagree T o1 o2 inp -> Inv T s ->
  inline_loop memo o1 u inp lo sl refmap maxref fuel s = inline_loop memo o2 u inp lo sl refmap maxref fuel s.
Proof. exact loop_eq_rec. Qed.
Print Assumptions C13_inline_loop_generic.

(* process_emphasis: the option reads (is_emph_char, insert_emph, emph_value) are reachable only from a delimiter
   whose byte is a trigger *)
Theorem C13_process_emphasis_inert : forall T o1 o2 inp s n0 items ds bottom,
  iagree T o1 o2 inp -> (forall d, In d ds -> dgood T items d) ->
  process_emphasis o1 inp s n0 items ds bottom = process_emphasis o2 inp s n0 items ds bottom.
Proof. exact process_emphasis_inert_rec. Qed.
Print Assumptions C13_process_emphasis_inert.

(* (c) the whole block *)
Theorem C13_inline_inert_generic : forall memo T o1 o2 u inp lo sl refmap maxref r0,
  tfree T inp -> iagree T o1 o2 inp ->
  parse_inlines memo o1 u inp lo sl refmap maxref r0 = parse_inlines memo o2 u inp lo sl refmap maxref r0.
Proof. exact parse_inlines_inert_rec. Qed.
Print Assumptions C13_inline_inert_generic.

(* ... per feature of Spec/Triggers.v (io_with F v o sets the field of the inline option record that F switches;
   for the features of the block phase and of the renderer the record is unchanged), every other option arbitrary *)
Theorem C13_inline_step_inert : forall F memo o u inp lo sl refmap maxref s,
  free_of_heads F inp = true -> Inv (T_of F) s ->
  parse_inline memo (io_with F true o) u inp lo sl refmap maxref s
  = parse_inline memo (io_with F false o) u inp lo sl refmap maxref s.
Proof. exact inline_step_inert. Qed.
Print Assumptions C13_inline_step_inert.

Theorem C13_inline_inert : forall F memo o u inp lo sl refmap maxref r0,
  free_of_heads F inp = true ->
  parse_inlines memo (io_with F true o) u inp lo sl refmap maxref r0
  = parse_inlines memo (io_with F false o) u inp lo sl refmap maxref r0.
Proof. exact inline_inert. Qed.
Print Assumptions C13_inline_inert.

(* GAP 1: the statement under the specification's free_of (trigger STRINGS) is false for the parse itself: a lone
   hyphen is a text node of its own under smart punctuation.  The HTML is the same (adjacent Text nodes are merged
   by postprocess_text_nodes); a statement modulo merging is not proved. *)
Definition C13_inline_full_statement : Prop := inline_inert_full_statement.
Theorem C13_inline_free_of_refuted : ~ C13_inline_full_statement.
Proof. exact inline_inert_free_refuted. Qed.
Print Assumptions C13_inline_free_of_refuted.

(* GAP 2 (finding C13-f): postprocess_text_nodes (task list marker, e-mail autolinks) reads the DECODED text of the
   merged Text nodes: a character reference for the at sign / the left bracket is enough, so inertness of the
   post-processing hooks is FALSE for content free of the trigger bytes.  Witnesses replayed on the compiled
   library by tools/checks/c13.py (corpus). *)
Theorem C13_postprocess_autolink_refuted :
  free_of_heads Autolink at_witness = true /\
  is_ok (inline_post (io_with Autolink false io_default) None at_witness) = true /\
  inline_post (io_with Autolink true io_default) None at_witness
  <> inline_post (io_with Autolink false io_default) None at_witness.
Proof. exact postprocess_autolink_refuted. Qed.
Print Assumptions C13_postprocess_autolink_refuted.

Theorem C13_postprocess_tasklist_refuted :
  free_of_heads Tasklist lbracket_witness = true /\
  is_ok (inline_post (io_with Tasklist false io_default) (Some 1%N) lbracket_witness) = true /\
  inline_post (io_with Tasklist true io_default) (Some 1%N) lbracket_witness
  <> inline_post (io_with Tasklist false io_default) (Some 1%N) lbracket_witness.
Proof. exact postprocess_tasklist_refuted. Qed.
Print Assumptions C13_postprocess_tasklist_refuted.

(* non-vacuity: with the trigger present the switch changes the parse; without it the theorem applies *)
Example C13_inline_nonvacuous :
  let run F v d := parse_inlines true (io_with F v io_default) oracle_ascii d [0%N] 1%N [] 100000%N 0%N in
  run Strikethrough true (B "~~a~~") <> run Strikethrough false (B "~~a~~") /\
  free_of_heads Strikethrough (B "*a* b") = true /\
  run Strikethrough true (B "*a* b") = run Strikethrough false (B "*a* b") /\
  run Footnotes true (B "x[^a]") <> run Footnotes false (B "x[^a]") /\
  run Smart true (B "a--b") <> run Smart false (B "a--b").
Proof. exact inline_inert_nonvacuous. Qed.

(* ====================================================================== PARSER MODEL, block phase
   `okle r1 r2`: whenever r1 is Ok x, r2 is Ok x.  Statements: whenever the block phase WITH the feature succeeds, the
   block phase WITHOUT it gives exactly the same tree and reference map.
   GAP 3: full equality of results (also when the run with the feature panics) is not proved: an enabled opener
   evaluates line[first_nonspace] under its own panic-site string, so equality needs the cursor invariant
   first_nonspace < |line| for every reachable state (Proofs/BlocksCursor.v has it only locally). *)
Definition C13_blocks_full_statement : Prop :=
  forall (set : bool -> bopts -> bopts) (t : byte) o x, nob t x -> parse_blocks (set true o) x = parse_blocks (set false o) x.

(* scanners: a rule set all of whose rules need a byte of P answers its default on input without such a byte *)
Theorem C13_regex_needs : forall P r s, needs P r = true -> Regex.matches r s -> exists b, In b s /\ P b = true.
Proof. exact needs_sound. Qed.
Print Assumptions C13_regex_needs.

(* four openers at once, any combination switched (f d m a = footnotes, description_lists, multiline_block_quotes,
   alerts), hypothesis on the LINES handed to process_line (front matter may contain anything) *)
Theorem C13_blocks_inert4_lines : forall tb f1 d1 m1 a1 f2 d2 m2 a2 o x,
  (forall l, block_lines o x l -> line_ok f1 d1 m1 a1 f2 d2 m2 a2 (norm_line l)) ->
  okle (parse_blocks (bo4 tb f1 d1 m1 a1 o) x) (parse_blocks (bo4 tb f2 d2 m2 a2 o) x).
Proof. exact blocks_inert4_lines. Qed.
Print Assumptions C13_blocks_inert4_lines.

Theorem C13_blocks_footnotes_inert : forall o x, nob x5b x ->
  okle (parse_blocks (bo_with_footnotes true o) x) (parse_blocks (bo_with_footnotes false o) x).
Proof. exact footnotes_blocks_inert. Qed.
Print Assumptions C13_blocks_footnotes_inert.

Theorem C13_blocks_alerts_inert : forall o x, nob x5b x ->
  okle (parse_blocks (bo_with_alerts true o) x) (parse_blocks (bo_with_alerts false o) x).
Proof. exact alerts_blocks_inert. Qed.
Print Assumptions C13_blocks_alerts_inert.

Theorem C13_blocks_alerts_inert_gt : forall o x, nob x3e x ->
  okle (parse_blocks (bo_with_alerts true o) x) (parse_blocks (bo_with_alerts false o) x).
Proof. exact alerts_blocks_inert_gt. Qed.
Print Assumptions C13_blocks_alerts_inert_gt.

Theorem C13_blocks_multiline_block_quotes_inert : forall o x, nob x3e x ->
  okle (parse_blocks (bo_with_multiline_block_quotes true o) x) (parse_blocks (bo_with_multiline_block_quotes false o) x).
Proof. exact multiline_block_quotes_blocks_inert. Qed.
Print Assumptions C13_blocks_multiline_block_quotes_inert.

(* description lists: the documented trigger is the colon; the scanner also accepts a tilde (known class C13-b) *)
Theorem C13_blocks_description_lists_inert : forall o x, nob x3a x -> nob x7e x ->
  okle (parse_blocks (bo_with_description_lists true o) x) (parse_blocks (bo_with_description_lists false o) x).
Proof. exact description_lists_blocks_inert. Qed.
Print Assumptions C13_blocks_description_lists_inert.

Theorem C13_blocks_description_lists_colon_refuted :
  nob x3a doc_tilde /\
  is_ok (parse_blocks (bo_with_description_lists true o_plain) doc_tilde) = true /\
  is_ok (parse_blocks (bo_with_description_lists false o_plain) doc_tilde) = true /\
  ~ okle (parse_blocks (bo_with_description_lists true o_plain) doc_tilde)
         (parse_blocks (bo_with_description_lists false o_plain) doc_tilde).
Proof. exact description_lists_colon_only_refuted. Qed.
Print Assumptions C13_blocks_description_lists_colon_refuted.

(* tables: no table can do without a hyphen (delimiter row); invariant: no Table node in the tree *)
Theorem C13_blocks_table_inert : forall o x, nob x2d x ->
  okle (parse_blocks (bo_with_table true o) x) (parse_blocks (bo_with_table false o) x).
Proof. exact table_blocks_inert. Qed.
Print Assumptions C13_blocks_table_inert.

(* greentext: its read in add_text_to_container needs no right angle bracket at all (known class C13-a, DESIGN F20) *)
Theorem C13_blocks_greentext_refuted :
  nob x3e doc_fn_lazy /\
  is_ok (parse_blocks (bo_with_greentext true o_footnotes) doc_fn_lazy) = true /\
  is_ok (parse_blocks (bo_with_greentext false o_footnotes) doc_fn_lazy) = true /\
  ~ okle (parse_blocks (bo_with_greentext true o_footnotes) doc_fn_lazy)
         (parse_blocks (bo_with_greentext false o_footnotes) doc_fn_lazy).
Proof. exact greentext_blocks_refuted. Qed.
Print Assumptions C13_blocks_greentext_refuted.

(* ... while its two guarded read sites are inert (equalities) *)
Theorem C13_blocks_greentext_prefix_inert : forall v v' o st line, nob x3e line ->
  parse_block_quote_prefix (bo_with_greentext v o) st line = parse_block_quote_prefix (bo_with_greentext v' o) st line.
Proof. exact parse_block_quote_prefix_greentext_inert. Qed.
Print Assumptions C13_blocks_greentext_prefix_inert.

Theorem C13_blocks_greentext_opener_inert : forall v v' o st c line ind, nob x3e line ->
  handle_blockquote (bo_with_greentext v o) st c line ind = handle_blockquote (bo_with_greentext v' o) st c line ind.
Proof. exact handle_blockquote_greentext_inert. Qed.
Print Assumptions C13_blocks_greentext_opener_inert.

(* GAP 4: bo_spoiler (read by the table row scanner) and bo_front_matter_delimiter are not covered by a block-phase
   theorem; both stay with the metamorphic search. *)

(* non-vacuity: a trigger-free document on which the block phase succeeds and all four switches are inert; with the
   trigger the switch matters *)
Example C13_blocks_nonvacuous :
  (is_ok (parse_blocks (bo4 false true true true true o_plain) [x61; x0a; x0a; x2d; x20; x62; x0a]) = true /\
   parse_blocks (bo4 false true true true true o_plain) [x61; x0a; x0a; x2d; x20; x62; x0a]
   = parse_blocks (bo4 false false false false false o_plain) [x61; x0a; x0a; x2d; x20; x62; x0a]) /\
  block_kinds (bo_with_footnotes true o_plain) [x5b; x5e; x61; x5d; x3a; x20; x62]
  <> block_kinds (bo_with_footnotes false o_plain) [x5b; x5e; x61; x5d; x3a; x20; x62].
Proof. exact (conj inert_applies footnotes_matter). Qed.

(* ====================================================================== PARSER MODEL, the whole parser
   Model/Parse.v `parse_document_model o u x` is the whole of parse_document (block phase, inline phase on every leaf,
   footnote pass, text post-pass), tied end to end to the compiled parser (tools/checks/parse_tie.py, run by
   tools/checks/c13.py).  `po_with F v o` sets the switch of feature F in the parser's option record.
   Proofs/InertParse.v (composition), Proofs/InertParseContent.v (leaf contents), Proofs/InertParseFeatures.v. *)
From V Require Import Model.Parse Model.Html Proofs.InertParse Proofs.InertParseContent Proofs.InertParseFeatures.

(* ---- step 1: the content of every leaf block consists of bytes of the document and of the bytes the block phase
   inserts: x20 (add_line, partially consumed tab), x0a (line end added to the last line), U+FFFD (NUL); hence a
   document without the first bytes of F's trigger strings has leaf contents without them.
   (One Print Assumptions walks the whole parser model: related statements are pinned as one conjunction.) *)
Theorem C13_leaf_contents :
  (forall (Q : byte -> bool) o x r p i,
     (Q x20 = true /\ Q x0a = true /\ forallb Q [xef; xbf; xbd] = true) -> forallb Q x = true ->
     parse_blocks o x = Ok r -> In (p, i) (bleaves [] (br_root r)) -> forallb Q (bi_content i) = true) /\
  (forall t o x r p i,
     beqb x20 t = false -> plain_trigger t -> nob t x -> parse_blocks o x = Ok r ->
     In (p, i) (bleaves [] (br_root r)) -> nob t (bi_content i)) /\
  (forall F o x r p i,
     free_of_heads F x = true -> parse_blocks o x = Ok r -> In (p, i) (bleaves [] (br_root r)) ->
     free_of_heads F (bi_content i) = true).
Proof. exact (conj parse_blocks_leaf_contents (conj leaf_contents_nob leaf_free_of_heads)). Qed.
Print Assumptions C13_leaf_contents.

(* ---- composition.
   (1) the inline parser as process_inlines calls it (trailing white space trimmed, reference budget threaded);
   (2) the text post-pass reads autolink, tasklist, relaxed_autolinks, relaxed_tasklist_matching and nothing else;
   (3) everything after the block phase; (4) the whole parser *)
Theorem C13_parse_compose :
  (forall F io u c lo sl refmap maxref rs,
     free_of_heads F c = true ->
     run_inlines_gen true (io_with F true io) u c lo sl refmap maxref rs
     = run_inlines_gen true (io_with F false io) u c lo sl refmap maxref rs) /\
  (forall a b, post_agree a b -> forall ctx ch, postprocess_block a ctx ch = postprocess_block b ctx ch) /\
  (forall o1 o2 u root refmap maxref,
     (forall p i, In (p, i) (bleaves [] root) -> forall rs,
        run_inlines_gen true (iopts_of o1) u (bi_content i) (map N.of_nat (bi_lo i)) (N.of_nat (bi_sl i)) refmap maxref rs
        = run_inlines_gen true (iopts_of o2) u (bi_content i) (map N.of_nat (bi_lo i)) (N.of_nat (bi_sl i)) refmap maxref rs) ->
     (forall t1, inline_phase o2 u root refmap maxref = Ok t1 -> footnote_phase o1 u t1 = footnote_phase o2 u t1) ->
     post_agree (iopts_of o1) (iopts_of o2) ->
     after_blocks o1 u root refmap maxref = after_blocks o2 u root refmap maxref) /\
  (forall o1 o2 u x,
     okle (parse_blocks (bopts_of o1 u) x) (parse_blocks (bopts_of o2 u) x) ->
     (forall r, parse_blocks (bopts_of o1 u) x = Ok r ->
        after_blocks o1 u (br_root r) (br_refmap r) (br_max_ref_size r)
        = after_blocks o2 u (br_root r) (br_refmap r) (br_max_ref_size r)) ->
     okle (parse_document_model o1 u x) (parse_document_model o2 u x)).
Proof. exact (conj run_inlines_gen_inert (conj postprocess_block_ext (conj after_blocks_ext parse_compose_okle))). Qed.
Print Assumptions C13_parse_compose.

(* post_agree is exactly the agreement on the four switches *)
Theorem C13_post_agree_fields : forall a b,
  post_agree a b <->
  (io_tasklist a = io_tasklist b /\ io_autolink a = io_autolink b /\
   io_relaxed_tasklist a = io_relaxed_tasklist b /\ io_relaxed_autolinks a = io_relaxed_autolinks b).
Proof. exact post_agree_fields. Qed.
Print Assumptions C13_post_agree_fields.

(* ---- the statement for every feature; what is proved, what is refuted, what is open.
   parse_inert_statement F = forall o u x t, free_of_heads F x = true ->
        parse_document_model (po_with F true o) u x = Ok t -> parse_document_model (po_with F false o) u x = Ok t.
   PROVED   strikethrough, subscript, superscript, underline, math_dollars, math_code, wikilinks_title_after_pipe,
            wikilinks_title_before_pipe, smart (these nine with EQUALITY of the two runs of the whole parser: clause 1),
            alerts, multiline_block_quotes, table (okle: clause 3; the hyphen alone is enough for table), tagfilter,
            header_ids (the parser has no such switch; the renderer reads them: not covered by the HTML corollary's
            fixed renderer record); description_lists only with the tilde excluded as well (last part of clause 3).
   REFUTED  (C13_parse_refuted, witnesses computed on the model): greentext (known class C13-a), description_lists with
            the documented trigger only (C13-b), autolink, tasklist, relaxed_tasklist_matching, relaxed_autolinks
            (C13-f: the text post-pass works on decoded text).
   OPEN     footnotes (missing: the footnote pass is the identity on the tree -- needs `no FootnoteReference` out of the
            inline parser when the switch is off), spoiler (missing: block phase, table.rs `row` reads the switch),
            front_matter_delimiter (missing: block phase).  See Proofs/InertParseFeatures.v parse_inert_open. *)
Definition C13_parse_full_statement : Prop := parse_inert_full_statement.

Theorem C13_parse_inert :
  (* 1: the features read by the inline phase only *)
  (forall F o u x, inline_only F = true -> free_of_heads F x = true ->
     parse_document_model (po_with F true o) u x = parse_document_model (po_with F false o) u x) /\
  (* 2: which ones *)
  (forall F, inline_only F = true <->
     In F [Strikethrough; Subscript; Superscript; Underline; MathDollars; MathCode; WikilinksAfterPipe;
           WikilinksBeforePipe; Smart]) /\
  (* 3: the features read by the block phase only *)
  ((forall o u x, free_of_heads Alerts x = true ->
      okle (parse_document_model (po_with Alerts true o) u x) (parse_document_model (po_with Alerts false o) u x)) /\
   (forall o u x, free_of_heads MultilineBlockQuotes x = true ->
      okle (parse_document_model (po_with MultilineBlockQuotes true o) u x)
           (parse_document_model (po_with MultilineBlockQuotes false o) u x)) /\
   (forall o u x, nob x2d x ->
      okle (parse_document_model (po_with Table true o) u x) (parse_document_model (po_with Table false o) u x)) /\
   (forall o u x, free_of_heads DescriptionLists x = true -> nob x7e x ->
      okle (parse_document_model (po_with DescriptionLists true o) u x)
           (parse_document_model (po_with DescriptionLists false o) u x))) /\
  (* 4: in the uniform shape *)
  (forall F, parse_inert_proved F = true -> parse_inert_statement F).
Proof.
  exact (conj (fun F o u x h => parse_inline_feature_inert F h o u x)
        (conj inline_only_list
        (conj (conj parse_alerts_inert (conj parse_multiline_block_quotes_inert
                (conj parse_table_inert_hyphen parse_description_lists_inert)))
              parse_inert_partial))).
Qed.
Print Assumptions C13_parse_inert.

Theorem C13_parse_refuted :
  (forall F, parse_inert_refuted F = true -> ~ parse_inert_statement F) /\
  ~ C13_parse_full_statement /\
  (filter parse_inert_proved all_features
   = [Strikethrough; Tagfilter; Table; Superscript; HeaderIds; MultilineBlockQuotes; Alerts; MathDollars; MathCode;
      WikilinksAfterPipe; WikilinksBeforePipe; Underline; Subscript; Smart] /\
   filter parse_inert_refuted all_features
   = [Autolink; Tasklist; DescriptionLists; Greentext; RelaxedTasklist; RelaxedAutolinks] /\
   filter parse_inert_open all_features = [Footnotes; FrontMatter; Spoiler]).
Proof. exact (conj parse_inert_refuted_sound (conj parse_inert_full_refuted parse_inert_status_lists)). Qed.
Print Assumptions C13_parse_refuted.

(* ---- HTML: `html slug ro t` (Model/Html.v) is a function of the tree and of the renderer's own record ro.  That
   record has no field for the features of C13_parse_inert except tagfilter / header_ids (read by the renderer: their
   HTML statement is NOT covered) and the two wikilinks switches / footnotes (fields Model/Html.v never reads).
   relaxed_autolinks is read by render_link (known class C13-e). *)
Theorem C13_html_inert :
  (forall F slug ro o u x,
     inline_only F = true -> free_of_heads F x = true ->
     md_html slug ro (po_with F true o) u x = md_html slug ro (po_with F false o) u x) /\
  (forall F slug ro o u x h,
     parse_inert_proved F = true -> free_of_heads F x = true ->
     md_html slug ro (po_with F true o) u x = Ok h -> md_html slug ro (po_with F false o) u x = Ok h).
Proof. exact (conj html_inert_eq html_inert_partial). Qed.
Print Assumptions C13_html_inert.

(* non-vacuity: a document with a block quote, emphasis and a list, free of the tilde: both runs give the same tree
   (ten nodes); with the tilde the switch matters *)
Example C13_parse_nonvacuous :
  (free_of_heads Strikethrough strike_doc = true /\
   exists t, parse_document_model (po_with Strikethrough true po_none) u_id strike_doc = Ok t /\
             parse_document_model (po_with Strikethrough false po_none) u_id strike_doc = Ok t /\
             nkinds t = [KDocument; KBlockQuote; KParagraph; KEmph; KText; KText; KList; KItem; KParagraph; KText]) /\
  (free_of_heads Strikethrough strike_doc_tilde = false /\
   res_map nkinds (parse_document_model (po_with Strikethrough true po_none) u_id strike_doc_tilde)
   <> res_map nkinds (parse_document_model (po_with Strikethrough false po_none) u_id strike_doc_tilde)).
Proof. exact parse_inert_nonvacuous. Qed.

(* the inserted bytes do reach leaf contents (NUL becomes U+FFFD, the last line gets its LF) *)
Example C13_inserted_bytes_real :
  exists r, parse_blocks o_plain [x61; x00] = Ok r /\
            map (fun e => bi_content (snd e)) (bleaves [] (br_root r)) = [[x61; xef; xbf; xbd; x0a]].
Proof. exact inserted_bytes_real. Qed.

(* ====================================================================== PARSER MODEL, the whole parser, second round
   The three features C13_parse_refuted lists as OPEN (footnotes, front_matter_delimiter, spoiler) are proved:
   Proofs/InertParse2Blocks.v (block phase: bo_spoiler, bo_front_matter_delimiter = GAP 4 above),
   Proofs/InertParse2Fn.v (no FootnoteReference out of the inline parser with the switch off; Footnotes.process is the
   identity on a tree without FootnoteReference / FootnoteDefinition), Proofs/InertParse2Features.v (composition, status
   lists), Proofs/InertParse2Html.v (which feature fields the HTML renderer's own record reads). *)
From V Require Import Model.Footnotes Model.FrontMatter Spec.FrontMatterSpec Proofs.InertParse2Blocks Proofs.InertParse2Fn
  Proofs.InertParse2Features Proofs.InertParse2Html.
From V Require Spec.EscapeSpec.

(* ---- block phase, EQUALITY of the two runs (panics included).
   1: the row scanner.  scanners.re `table_spoiler = ['|']['|']` is two bytes of the CLASS {apostrophe, bar}; without a
      bar in s both rule blocks of table_cell agree; 2: the documented trigger (two bars) is not enough (FINDING,
      class spoiler_quote_bar); 3: table.rs row; 4, 5: the block phase for bo_spoiler; 6..8: for
      bo_front_matter_delimiter (nothing but the feed prologue reads it) *)
Definition C13_blocks_spoiler_front_matter_statement : Prop :=
  (forall s sp sp', nob x7c s -> Scan.scan_table_cell s sp = Scan.scan_table_cell s sp') /\
  (Triggers.occurs [x7c; x7c] quote_bar = false /\
   Scan.scan_table_cell quote_bar true = Some 4 /\ Scan.scan_table_cell quote_bar false = Some 2) /\
  (forall s sp sp', nob x7c s -> row s sp = row s sp') /\
  (forall v v' o x, (forall l, block_lines o x l -> nob x7c (Feed.norm_line l)) ->
     parse_blocks (bo_with_spoiler v o) x = parse_blocks (bo_with_spoiler v' o) x) /\
  (forall v v' o x, nob x7c x -> parse_blocks (bo_with_spoiler v o) x = parse_blocks (bo_with_spoiler v' o) x) /\
  (forall d d' o st ls, run_lines (bo_with_front_matter d o) st ls = run_lines (bo_with_front_matter d' o) st ls) /\
  (forall d o x, split_off_front_matter x d = Ok None ->
     parse_blocks (bo_with_front_matter (Some d) o) x = parse_blocks (bo_with_front_matter None o) x) /\
  (forall d o x, EscapeSpec.utf8_valid x = true -> delim_ok d = true -> first_line_is d x = false ->
     parse_blocks (bo_with_front_matter (Some d) o) x = parse_blocks (bo_with_front_matter None o) x).

(* ---- footnotes: the invariant through the inline parser and the footnote pass.
   nfr_tree t: no node of t is a FootnoteReference or a FootnoteDefinition.
   With the switch ON and no definition the pass is not the identity on references (each becomes the text [^name]:
   Proofs/InertParse2Fn.process_no_defs_example); on a tree without references and definitions it is. *)
Definition C13_footnote_pass_clean_statement : Prop :=
  (forall memo o u inp lo sl refmap maxref rs0 ch rs, io_footnotes o = false ->
     parse_inlines memo o u inp lo sl refmap maxref rs0 = Ok (ch, rs) -> forallb nfr_tree ch = true) /\
  (forall fold pres perm t, nfr_tree t = true -> process fold pres perm t = t) /\
  (forall o u x r t1, po_footnotes o = false -> parse_blocks (bopts_of o u) x = Ok r ->
     inline_phase o u (br_root r) (br_refmap r) (br_max_ref_size r) = Ok t1 -> nfr_tree t1 = true).

(* ---- the whole parser.  1: footnotes; 2: spoiler (equality); 3: front matter with the check's delimiter; 4..6: front
   matter with any delimiter (equality when the splitter / the line-based specification of Props/C20.v finds none);
   7: every feature of the second list; 8..10: that list extends the first, contains every feature that was open, and
   together with the refuted list covers all_features *)
Definition C13_parse_inert2_statement : Prop :=
  parse_inert_statement Footnotes /\
  (forall o u x, free_of_heads Spoiler x = true ->
     parse_document_model (po_with Spoiler true o) u x = parse_document_model (po_with Spoiler false o) u x) /\
  parse_inert_statement FrontMatter /\
  (forall d o u x, split_off_front_matter x d = Ok None ->
     parse_document_model (po_with_fm (Some d) o) u x = parse_document_model (po_with_fm None o) u x) /\
  (forall d o u x, EscapeSpec.utf8_valid x = true -> delim_ok d = true -> first_line_is d x = false ->
     parse_document_model (po_with_fm (Some d) o) u x = parse_document_model (po_with_fm None o) u x) /\
  (forall d t o u x, In t d -> nob t x ->
     okle (parse_document_model (po_with_fm (Some d) o) u x) (parse_document_model (po_with_fm None o) u x)) /\
  (forall F, parse_inert_proved2 F = true -> parse_inert_statement F) /\
  (forall F, parse_inert_proved F = true -> parse_inert_proved2 F = true) /\
  (forall F, parse_inert_open F = true -> parse_inert_proved2 F = true) /\
  (forall F, xorb (parse_inert_proved2 F) (parse_inert_refuted2 F) = true).

(* ---- the final status: 17 proved, 6 refuted (the same six as in C13_parse_refuted), none open; and under the
   documented trigger STRING (two bars) spoiler is refuted on the whole parser: two single bars (known class C13-c) and an
   apostrophe next to a bar in a table row (FINDING, class spoiler_quote_bar) *)
Definition C13_parse_status2_statement : Prop :=
  (filter parse_inert_proved2 all_features
   = [Strikethrough; Tagfilter; Table; Superscript; HeaderIds; Footnotes; FrontMatter; MultilineBlockQuotes; Alerts;
      MathDollars; MathCode; WikilinksAfterPipe; WikilinksBeforePipe; Underline; Subscript; Spoiler; Smart] /\
   filter parse_inert_refuted2 all_features
   = [Autolink; Tasklist; DescriptionLists; Greentext; RelaxedTasklist; RelaxedAutolinks] /\
   filter parse_inert_open2 all_features = []) /\
  (forall F, parse_inert_refuted2 F = true -> ~ parse_inert_statement F) /\
  ~ parse_inert_free_statement Spoiler /\
  parse_free_witness Spoiler (po_with Table true po_none) quote_bar_witness.

(* ---- HTML.  1: the corollary of C13_html_inert for the larger list; 2: spoiler with equality;
   3..5: the renderer's record has the fields o_footnotes, o_wikilinks_after, o_wikilinks_before and never reads them;
   6..8: it READS o_tagfilter (at HtmlBlock / HtmlInline nodes only), o_header_ids (at Heading nodes only) and
   o_relaxed_autolinks (at a Link whose parent is a Link only: known class C13-e) *)
Definition C13_html_inert2_statement : Prop :=
  (forall F slug ro o u x h, parse_inert_proved2 F = true -> free_of_heads F x = true ->
     md_html slug ro (po_with F true o) u x = Ok h -> md_html slug ro (po_with F false o) u x = Ok h) /\
  (forall slug ro o u x, free_of_heads Spoiler x = true ->
     md_html slug ro (po_with Spoiler true o) u x = md_html slug ro (po_with Spoiler false o) u x) /\
  (forall slug v ro t, html slug (ro_with_footnotes v ro) t = html slug ro t) /\
  (forall slug v ro t, html slug (ro_with_wikilinks_after v ro) t = html slug ro t) /\
  (forall slug v ro t, html slug (ro_with_wikilinks_before v ro) t = html slug ro t) /\
  (forall slug v v' ro t, allp not_raw_html None t = true ->
     html slug (ro_with_tagfilter v ro) t = html slug (ro_with_tagfilter v' ro) t) /\
  (forall slug v v' ro t, allp not_heading None t = true ->
     html slug (ro_with_header_ids v ro) t = html slug (ro_with_header_ids v' ro) t) /\
  (forall slug v v' ro t, allp not_link_in_link None t = true ->
     html slug (ro_with_relaxed_autolinks v ro) t = html slug (ro_with_relaxed_autolinks v' ro) t).

(* one pinned theorem for the five statements above (one Print Assumptions walks the whole parser model once) *)
Theorem C13_second_round :
  C13_blocks_spoiler_front_matter_statement /\ C13_footnote_pass_clean_statement /\ C13_parse_inert2_statement /\
  C13_parse_status2_statement /\ C13_html_inert2_statement.
Proof.
  exact (conj (conj scan_table_cell_nobar (conj scan_table_cell_quote_bar_refuted (conj row_nobar
        (conj spoiler_blocks_inert_lines (conj spoiler_blocks_inert (conj run_lines_front_matter_blind
        (conj front_matter_blocks_inert front_matter_blocks_inert_first_line)))))))
        (conj (conj nfr_parse_inlines (conj process_clean inline_phase_clean))
        (conj (conj parse_footnotes_inert (conj parse_spoiler_inert (conj parse_front_matter_inert
        (conj parse_front_matter_inert_split (conj parse_front_matter_inert_spec
        (conj parse_front_matter_inert_missing_byte (conj parse_inert_partial2 (conj parse_inert_proved2_extends
        (conj parse_inert_open2_closed parse_inert_status_complete2)))))))))
        (conj (conj parse_inert_status_lists2 (conj parse_inert_refuted_sound
        (conj parse_spoiler_free_refuted_single_bar parse_spoiler_free_refuted_quote_bar)))
              (conj html_inert_partial2 (conj html_spoiler_inert (conj html_footnotes_blind (conj html_wikilinks_after_blind
        (conj html_wikilinks_before_blind (conj html_tagfilter (conj html_header_ids html_relaxed_autolinks))))))))))).
Qed.
Print Assumptions C13_second_round.

(* non-vacuity: a document without left bracket on which both runs give the same tree, one with a footnote on which
   they differ; a table without bar (same block tree either way) and the quote-bar document; front matter that is
   split off; the three renderer reads are real *)
Example C13_parse2_nonvacuous :
  ((free_of_heads Footnotes fn_free_doc = true /\
    exists t, parse_document_model (po_with Footnotes true po_none) u_id fn_free_doc = Ok t /\
              parse_document_model (po_with Footnotes false po_none) u_id fn_free_doc = Ok t) /\
   (free_of_heads Footnotes fn_doc = false /\
    res_map nkinds (parse_document_model (po_with Footnotes true po_none) u_id fn_doc)
    <> res_map nkinds (parse_document_model (po_with Footnotes false po_none) u_id fn_doc))) /\
  (allp not_link_in_link None link_in_link = false /\
   html (fun x => x) (ro_with_relaxed_autolinks true ro_plain) link_in_link
   <> html (fun x => x) (ro_with_relaxed_autolinks false ro_plain) link_in_link).
Proof. exact (conj parse_inert2_nonvacuous html_relaxed_autolinks_read). Qed.
