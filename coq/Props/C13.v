(* Props/C13.v — Extensions are inert on documents that do not use their syntax.
   Only pinned statements.  What is proved concerns the INLINE parser's three character tables
   (Subject::new), its scan (find_special_char) and the arm selection of parse_inline, all regenerated from
   /repo/src/parser/inlines.rs on every run (translator item `special`), together with the audit of every
   place that reads an extension / parse option.
   NOT proved: inertness of the block openers and of the whole parser (there is no Coq model of the block
   parser, nor of the handle_* functions): C13_full_statement stays a Definition and is what the metamorphic
   search of tools/checks/c13.py evaluates on the compiled library. *)
From Coq Require Import List NArith Bool Strings.String.
From V Require Import Base.Bytes Gen.Special Gen.AuditOptions Model.Special Spec.Triggers Proofs.SpecialProofs.
Import ListNotations.
Local Open Scope string_scope.
Local Open Scope list_scope.

(* the property itself, for an arbitrary Markdown-to-HTML function; not proved *)
Definition C13_full_statement := c13_full_statement.

(* ---- ties: the read sites of every option are the ones the specification was written for *)
Theorem C13_audit_option_reads : option_reads = map (fun e => fst e) expected_option_reads.
Proof. exact audit_option_reads. Qed.
Print Assumptions C13_audit_option_reads.

Theorem C13_audit_no_struct_escape : option_struct_escapes = [].
Proof. exact audit_no_struct_escape. Qed.
Print Assumptions C13_audit_no_struct_escape.

Theorem C13_audit_table_uses : special_table_uses = expected_table_uses.
Proof. exact audit_table_uses. Qed.
Print Assumptions C13_audit_table_uses.

Theorem C13_audit_guard_names_known : forallb (fun n => str_mem n known_names) all_guard_names = true.
Proof. exact audit_guard_names_known. Qed.
Print Assumptions C13_audit_guard_names_known.

(* ---- the bytes a feature adds to special_chars / skip_chars / smart_chars begin one of its trigger strings *)
Theorem C13_special_delta : forall F b, In b (added_bytes F) -> In b (trigger_heads F).
Proof. exact special_delta. Qed.
Print Assumptions C13_special_delta.

(* ---- the three tables agree, outside those bytes, for any two option sets that differ only on F *)
Theorem C13_table_inert : forall F o1 o2 b,
  agree_except F o1 o2 -> ~ In b (added_bytes F) ->
  special_chars o1 b = special_chars o2 b /\ skip_chars o1 b = skip_chars o2 b /\ smart_chars o1 b = smart_chars o2 b.
Proof. exact table_inert. Qed.
Print Assumptions C13_table_inert.

(* ---- find_special_char: same result with F on or off (every other option arbitrary) on input that has no
   byte beginning a trigger string of F *)
Theorem C13_find_special_inert : forall F o1 o2 wb input pos,
  agree_except F o1 o2 -> free_of_heads F input = true ->
  find_special_char o1 wb input pos = find_special_char o2 wb input pos.
Proof. exact find_special_inert_heads. Qed.
Print Assumptions C13_find_special_inert.

(* ... and under the specification's own free_of for every feature but three *)
Theorem C13_find_special_inert_free : forall F o1 o2 wb input pos,
  F <> Autolink -> F <> Spoiler -> F <> Smart ->
  agree_except F o1 o2 -> free_of F input = true ->
  find_special_char o1 wb input pos = find_special_char o2 wb input pos.
Proof.
  intros F o1 o2 wb input pos H1 H2 H3. apply find_special_inert_free.
  apply exact_heads_all_but_three; assumption.
Qed.
Print Assumptions C13_find_special_inert_free.

(* the three exceptions are real at this level: a lone w (autolink), a lone vertical bar (spoiler), a lone
   hyphen (smart) stop the scan although the document is free of the documented syntax.  The split text
   nodes are merged again later; that part is covered by the search only. *)
Theorem C13_find_special_free_refuted_autolink :
  free_of Autolink (B "aw") = true /\
  find_special_char (opts_with (option_path Autolink) true opts_none) false (B "aw") 0
  <> find_special_char (opts_with (option_path Autolink) false opts_none) false (B "aw") 0.
Proof. exact find_special_autolink_splits. Qed.
Print Assumptions C13_find_special_free_refuted_autolink.

Theorem C13_find_special_free_refuted_spoiler :
  free_of Spoiler (B "a|b") = true /\
  find_special_char (opts_with (option_path Spoiler) true opts_none) false (B "a|b") 0
  <> find_special_char (opts_with (option_path Spoiler) false opts_none) false (B "a|b") 0.
Proof. exact find_special_spoiler_splits. Qed.
Print Assumptions C13_find_special_free_refuted_spoiler.

Theorem C13_find_special_free_refuted_smart :
  free_of Smart (B "a-b") = true /\
  find_special_char (opts_with (option_path Smart) true opts_none) false (B "a-b") 0
  <> find_special_char (opts_with (option_path Smart) false opts_none) false (B "a-b") 0.
Proof. exact find_special_smart_splits. Qed.
Print Assumptions C13_find_special_free_refuted_smart.

(* ---- parse_inline: every arm whose guard or body reads F is keyed on bytes that begin a trigger of F *)
Theorem C13_dispatch_guard_inert : forall F a,
  In a dispatch_arms -> arm_mentions F a = true ->
  exists bs, arm_pat a = Some bs /\ forall b, In b bs -> In b (trigger_heads F).
Proof. exact dispatch_guard_inert. Qed.
Print Assumptions C13_dispatch_guard_inert.

(* hence the arm taken for any other byte does not depend on F *)
Theorem C13_select_arm_inert : forall F o1 o2 wb c,
  agree_except F o1 o2 -> ~ In c (trigger_heads F) -> select_arm o1 wb c = select_arm o2 wb c.
Proof. exact select_arm_inert. Qed.
Print Assumptions C13_select_arm_inert.

Theorem C13_select_arm_total : forall o wb c, select_arm o wb c <> None.
Proof. exact select_arm_total. Qed.
Print Assumptions C13_select_arm_total.

(* ---- the hypothesis used above is implied by having none of the head bytes; toggling F is an instance of
   agree_except *)
Theorem C13_heads_free : forall F d, free_of_heads F d = true -> free_of F d = true.
Proof. exact heads_free. Qed.
Print Assumptions C13_heads_free.

Theorem C13_toggle_agrees : forall F v1 v2 o,
  agree_except F (opts_with_all (read_names F) v1 o) (opts_with_all (read_names F) v2 o).
Proof. exact agree_except_with. Qed.
Print Assumptions C13_toggle_agrees.

(* non-vacuity: strikethrough adds the tilde to special_chars and skip_chars; on a document with a tilde the
   scan does differ, on one without it cannot *)
Example C13_nonvacuous_tables :
  added_bytes Strikethrough = [x7e; x7e] /\
  special_chars (opts_with "extension.strikethrough" true opts_none) x7e = true /\
  special_chars opts_none x7e = false /\
  find_special_char (opts_with "extension.strikethrough" true opts_none) false (B "a~b") 0 = 1%N /\
  find_special_char opts_none false (B "a~b") 0 = 3%N /\
  select_arm (opts_with "extension.strikethrough" true opts_none) false x7e = Some 14 /\
  select_arm opts_none false x7e = Some 18 /\
  free_of Footnotes (B "[\^a]") = true /\ free_of Footnotes (B "[^a]") = false.
Proof. vm_compute. repeat split; reflexivity. Qed.
