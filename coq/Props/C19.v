(* Props/C19.v — Escaping helpers are total, injective and leave no active character.
   Only pinned statements: each theorem is closed by `exact <lemma>` and followed by
   Print Assumptions.  `escape`, `escape_href`, `write_opening_tag` are the loop-faithful models
   of Model/Escape.v over the tables generated from /repo/src/html.rs on every run. *)
From Coq Require Import List NArith Bool.
From V Require Import Base.Bytes Base.Res Gen.Tables Model.Escape Spec.EscapeSpec Proofs.EscapeProofs.
Import ListNotations.
From Coq Require Import Strings.String.
Local Open Scope string_scope.
Local Open Scope list_scope.

(* total, and per-byte: the model equals the flat_map of the spec's per-byte function;
   in particular the unreachable!() arm is never taken *)
Theorem C19_escape_is_per_byte : forall s, escape s = Ok (flat_map esc1_spec s).
Proof. exact escape_flat_map. Qed.
Print Assumptions C19_escape_is_per_byte.

Theorem C19_escape_total : forall s, exists o, escape s = Ok o.
Proof. exact escape_total. Qed.
Print Assumptions C19_escape_total.

Theorem C19_escape_concat : forall a b oa ob,
  escape a = Ok oa -> escape b = Ok ob -> escape (a ++ b) = Ok (oa ++ ob).
Proof. exact escape_app. Qed.
Print Assumptions C19_escape_concat.

(* never a raw LT, GT or QUOTE *)
Theorem C19_escape_no_active : forall s, forallb no_active_byte (escape_spec s) = true.
Proof. exact escape_no_active. Qed.
Print Assumptions C19_escape_no_active.

(* every ampersand begins one of the four entities and decoding returns the original bytes *)
Theorem C19_escape_roundtrip : forall s, html_unescape (escape_spec s) = Some s.
Proof. exact unescape_escape. Qed.
Print Assumptions C19_escape_roundtrip.

Theorem C19_escape_injective : forall a b, escape_spec a = escape_spec b -> a = b.
Proof. exact escape_spec_injective. Qed.
Print Assumptions C19_escape_injective.

Theorem C19_escape_utf8 : forall s, utf8_valid s = true -> utf8_valid (escape_spec s) = true.
Proof. exact escape_utf8. Qed.
Print Assumptions C19_escape_utf8.

(* href escaper: total, per byte (safe byte itself, the two entities, else percent + two upper-case hex) *)
Theorem C19_href_is_per_byte : forall s, escape_href s = Ok (flat_map href1_spec s).
Proof. exact escape_href_flat_map. Qed.
Print Assumptions C19_href_is_per_byte.

Theorem C19_href_total : forall s, exists o, escape_href s = Ok o.
Proof. exact escape_href_total. Qed.
Print Assumptions C19_href_total.

Theorem C19_href_concat : forall a b,
  escape_href_spec (a ++ b) = escape_href_spec a ++ escape_href_spec b.
Proof. exact escape_href_spec_app. Qed.
Print Assumptions C19_href_concat.

Theorem C19_href_output_language : forall s, href_wf (escape_href_spec s) = true.
Proof. exact href_wf_spec. Qed.
Print Assumptions C19_href_output_language.

Theorem C19_href_ascii : forall s, forallb is_ascii (escape_href_spec s) = true.
Proof. exact href_ascii. Qed.
Print Assumptions C19_href_ascii.

(* "decoding returns the original bytes" is FALSE for the href escaper on the unchanged tree:
   PERCENT is in the safe set, so SPACE and PERCENT-2-0 have the same image (known finding
   pct_hex_in_href; upstream documents the pass-through as intended). *)
Theorem C19_href_roundtrip_refuted : exists s o, escape_href s = Ok o /\ href_decode o <> Some s.
Proof. exact href_roundtrip_refuted. Qed.
Print Assumptions C19_href_roundtrip_refuted.

Theorem C19_href_not_injective : exists a b, a <> b /\ escape_href a = escape_href b.
Proof. exact href_not_injective. Qed.
Print Assumptions C19_href_not_injective.

(* the tag writer yields one syntactically complete start tag whose attribute values decode back *)
Theorem C19_opening_tag_parses : forall tag attrs,
  name_ok tag = true ->
  Forall (fun av => name_ok (fst av) = true) attrs ->
  exists o, write_opening_tag tag attrs = Ok o /\ lex_start_tag o = Some (tag, attrs, []).
Proof. exact opening_tag_parses. Qed.
Print Assumptions C19_opening_tag_parses.

(* non-vacuity: a concrete tag with hostile attribute values meets the hypotheses *)
Example C19_opening_tag_example :
  let tag := B "pre" in
  let attrs := [(B "lang", B "a""b<c>&"); (B "data-meta", B "")] in
  name_ok tag = true /\ Forall (fun av => name_ok (fst av) = true) attrs /\
  exists o, write_opening_tag tag attrs = Ok o /\ lex_start_tag o = Some (tag, attrs, []).
Proof.
  split; [reflexivity|]. split; [repeat constructor|].
  eexists. split; vm_compute; reflexivity.
Qed.
