(* Props/Blocks.v — Layer C, part 1: the block phase of comrak's parser.  Only pinned statements.

   `parse_blocks o x` (Model/Blocks.v) is the loop-faithful model of parse_document up to the hook
   `stop_after_blocks`: the front matter prologue of Parser::feed, process_line for every line of
   Model/Feed.v, finalize_document's block part.  It is tied to the compiled parser tree for tree (positions
   and the crate-private fields included) by tools/checks/blocks_tie.py.  `valid` is Spec/Valid.v (the
   library's own containment relation can_contain_type, regenerated from src/nodes.rs), `lines`, `to_crlf`,
   .. are Model/Feed.v and Spec/LineEndings.v.

   What is proved here, for EVERY option set and EVERY input byte string:
     Blocks_valid              every tree the block phase returns satisfies the containment relation
     Blocks_lists_only_items   (consequence) lists contain only items
     Blocks_line_invariance    without a front matter delimiter the tree and the reference map are a function
                               of the lines handed to process_line; with C08: CRLF / CR / NUL / final newline
                               rewrites give the same block tree
     Blocks_front_matter_factor  with a delimiter: the prologue, then a function of the lines of the rest
     Blocks_cursor_*           the cursor primitives stay inside the line; the look-ahead byte exists
     Blocks_removed_paragraph_retightens, Blocks_tightness_reads   list tightness (BLK-1 repaired)
     Blocks_refdef_title_inside_consumed   reference definitions (INL-2 repaired)
     Blocks_total_*_partial    steps towards totality (Proofs/BlocksTotal.v: inventory of the Panic sites)
   What is only stated: Blocks_total_full_statement (no panic on valid UTF-8),
   Blocks_front_matter_composition_full_statement. *)
From Coq Require Import List NArith Arith Bool Strings.String.
From V Require Import Base.Bytes Base.Res Model.Ast Model.Strings Model.Feed Model.FrontMatter Model.RefDef Model.Blocks
  Spec.LineEndings Spec.Valid Spec.EscapeSpec Proofs.FeedProofs Proofs.ValidProofs Proofs.BlocksProofs Proofs.BlocksCursor
  Proofs.BlocksTight Proofs.RefDefTitle Proofs.BlocksTotal.
From V Require Proofs.BlocksTotal2Safe Proofs.BlocksTotal2Root Proofs.BlocksTotal2Tree Proofs.BlocksTotal2Walk.
Import ListNotations.
Local Open Scope string_scope.
Local Open Scope list_scope.

(* ---- 2. containment (the parser half of C04 for the block phase) *)
Theorem Blocks_valid : forall o x r,
  parse_blocks o x = Ok r -> valid (to_node (br_root r)) = true.
Proof. exact parse_blocks_valid. Qed.
Print Assumptions Blocks_valid.

Theorem Blocks_lists_only_items : forall o x r,
  parse_blocks o x = Ok r -> lists_ok (to_node (br_root r)) = true.
Proof. intros o x r H. apply valid_list_children_b. eapply parse_blocks_valid; exact H. Qed.
Print Assumptions Blocks_lists_only_items.

(* ---- 3. line invariance (the block-phase half of C08) *)
Theorem Blocks_line_invariance : forall o x y,
  bo_front_matter_delimiter o = None -> lines x = lines y -> blocks_tree o x = blocks_tree o y.
Proof. exact blocks_same_lines. Qed.
Print Assumptions Blocks_line_invariance.

Theorem Blocks_crlf : forall o x,
  bo_front_matter_delimiter o = None -> no_cr x = true -> blocks_tree o (to_crlf x) = blocks_tree o x.
Proof. intros o x H N. apply blocks_same_lines; [exact H | now apply lines_crlf]. Qed.
Print Assumptions Blocks_crlf.

Theorem Blocks_cr : forall o x,
  bo_front_matter_delimiter o = None -> no_cr x = true -> blocks_tree o (to_cr x) = blocks_tree o x.
Proof. intros o x H N. apply blocks_same_lines; [exact H | now apply lines_cr]. Qed.
Print Assumptions Blocks_cr.

Theorem Blocks_final_newline : forall o x,
  bo_front_matter_delimiter o = None -> x <> [] -> ends_nl x = false ->
  blocks_tree o (add_final_nl x) = blocks_tree o x.
Proof. intros o x H N E. apply blocks_same_lines; [exact H | now apply lines_final_nl]. Qed.
Print Assumptions Blocks_final_newline.

Theorem Blocks_nul : forall o x,
  bo_front_matter_delimiter o = None -> blocks_tree o (nul_to_fffd x) = blocks_tree o x.
Proof. intros o x H. apply blocks_same_lines; [exact H | apply lines_nul]. Qed.
Print Assumptions Blocks_nul.

(* ---- 4. front matter (C20): the prologue, then the block phase of the remainder on its lines *)
Theorem Blocks_front_matter_factor : forall o x,
  parse_blocks o x =
  (do p <- front_matter_prologue o init_state x;
   do st1 <- run_lines o (fst p) (lines (snd p));
   Ok (mkBR (ps_root st1) (ps_refmap st1) (max_ref_size (total_size (snd p))))).
Proof. exact parse_blocks_factor. Qed.
Print Assumptions Blocks_front_matter_factor.

(* the full composition statement (not proved): the blocks after the front matter node are those of the rest
   parsed alone with every line number shifted.  It is false when the rest starts with a byte order mark
   (process_line skips it only when line_number = 0), see C08_seen_lines_bom_refuted. *)
Definition shift_lines (k : nat) : bnode -> bnode :=
  fix go (t : bnode) : bnode :=
    match t with BNode i ch => BNode (set_end (bi_el i + k) (bi_ec i) (set_start (bi_sl i + k) (bi_sc i) i)) (map go ch) end.
Definition Blocks_front_matter_composition_full_statement : Prop :=
  forall o d fm rest r0,
    bo_front_matter_delimiter o = Some d ->
    split_off_front_matter (fm ++ rest) d = Ok (Some (fm, rest)) ->
    parse_blocks (mkBO (bo_table o) (bo_footnotes o) (bo_description_lists o) (bo_multiline_block_quotes o) (bo_alerts o)
                       (bo_spoiler o) (bo_greentext o) (bo_ignore_setext o) None (bo_default_info_string o) (bo_fold o)) rest = Ok r0 ->
    exists r fmnode, parse_blocks o (fm ++ rest) = Ok r /\
      bkids (br_root r) = fmnode :: map (shift_lines (count_line_endings fm)) (bkids (br_root r0)).

(* ---- 1. the cursor (the mechanism C01 names) *)
Theorem Blocks_cursor_advance : forall c line count columns,
  c_offset c + count <= List.length line ->
  exists c', advance_offset c line count columns = Ok c'
             /\ c_offset c <= c_offset c' <= c_offset c + count /\ c_fns c' = c_fns c.
Proof. exact advance_offset_ok. Qed.
Print Assumptions Blocks_cursor_advance.

Theorem Blocks_cursor_rescan : forall c line,
  c_fns c <= c_offset c -> c_offset c <= List.length line ->
  exists c', find_first_nonspace c line = Ok c'
             /\ c_offset c' = c_offset c /\ c_offset c' <= c_fns c' <= List.length line.
Proof. exact find_first_nonspace_ok. Qed.
Print Assumptions Blocks_cursor_rescan.

Theorem Blocks_look_ahead : forall c line c',
  lf_terminated line -> c_fns c <= c_offset c -> c_offset c < List.length line ->
  find_first_nonspace c line = Ok c' -> c_fns c' < List.length line.
Proof. exact look_ahead_in_bounds. Qed.
Print Assumptions Blocks_look_ahead.

(* every line process_line works on ends with LF (the slices of feed contain no line end character) *)
Theorem Blocks_lines_lf_terminated : forall x, Forall (fun l => lf_terminated (norm_line l)) (lines x).
Proof.
  intro x. pose proof (norm_lines x) as N. pose proof (lines_clean x) as C. clear C.
  induction (lines x) as [|l r IH]; constructor.
  - cbn [map] in N. inversion N as [[H1 H2]]. rewrite H1. now exists l.
  - apply IH. cbn [map] in N. now inversion N.
Qed.
Print Assumptions Blocks_lines_lf_terminated.

(* totality of the whole block phase: stated, not proved.  The UTF-8 premise is necessary (Blocks_total_needs_utf8).
   Proofs/BlocksTotal.v lists every Panic site of Model/Blocks.v and Model/RefDef.v with the invariant that excludes
   it.  PROVED below (Blocks_total_*_partial), for every input / state: the invariant of the lines, the UTF-8 step of
   add_line, find_first_nonspace and the column-mode advance_offset under the cursor invariant, add_line and
   finalize under explicit premises on the node.  MISSING for the full statement: that every handler of
   check_open_blocks / open_new_blocks keeps the cursor, tree and boundary invariants (per scanner: a match ends inside
   the line at an ASCII byte; where a column-mode advance lands), the closing loops (finalize_up_to,
   add_child_loop), parse_reference_inline on NUL-free valid content, the table functions, the fuel bounds.
   Second round (end of this file): the tree-lookup sites are proved unreachable for every input when tables and
   description lists are off (Blocks_total_partial_tree_sites); the list of what remains is in the comment there.
   Third round (end of this file, Proofs/BlocksTotal3*.v): the eleven tree-lookup sites are unreachable for EVERY
   option set (Blocks_total_partial_tree_sites_all).  For the rest only bricks, each for all arguments: the block
   scanners stay inside the string, the byte-mode advance after a scanner match re-establishes CI, the cursor side
   of the code-fence / ATX / multiline-block-quote / footnote / description-item openers, and the fuel of
   advance_offset, row, table::matches.
   Fourth round (end of this file, Proofs/BlocksTotal4*.v): the CURSOR sites are done for the whole parse
   (Blocks_total_partial_cursor_sites: 65 sites, every input, every option set; with the tree sites:
   Blocks_total_partial_sites_all), table.rs row / matches are total, the fuel of every loop except
   open_new_blocks_loop is bounded, and the candidate open-spine invariant below was evaluated and found FALSE
   (corrected version: Blocks_total_spine_corrected_on_corpus).  The list REMAINING that is up to date is in the
   comment of the fourth round; the one below is the state after the third round.
   Fifth round (end of this file, Proofs/BlocksTotal5*.v): FUEL is done for the whole parse (Blocks_total_partial_no_fuel:
   parse_blocks never answers OutOfFuel, every input, every option set) and the list of what remains is a THEOREM:
   Blocks_total_partial_ok_or_remaining — parse_blocks o x is Ok or a Panic at one of the 35 sites of
   Blocks_total_remaining_sites_list.  The comment at the very end of this file says, site by site, which invariant
   excludes it; the lists below are the state after the third round.
   REMAINING for the full statement (no whole-parse theorem yet):
     open-spine sites   mod.rs:finalize_borrowed:assert!(ast.open), mod.rs:add_line:assert!(ast.open),
                        mod.rs:add_text_to_container:self.finalize(self.current).unwrap(),
                        mod.rs:add_child:self.finalize(parent).unwrap().  The invariant needed is NOT `exactly the
                        path root..current is open`: table rows and cells are created open and the header row and all
                        cells are never finalized (try_opening_header / try_opening_row build them with Ast::new), and
                        add_child closes the last matched container and its ancestors while the blocks below it are
                        still open.  Candidate invariant between lines (from reading the model, NOT proved):
                        self.current and its ancestors are open, each is the last child of its parent, every other
                        open node is a TableRow / TableCell.
                        mod.rs:add_child:..unwrap() needs no spine (argument, NOT proved): finalize answers None only
                        for the root, which is a Document and accepts every kind add_child is called with under a
                        parent that may refuse it.
     fuel               check_open_blocks_inner, add_child_loop, finalize_up_to, clear_llb_up, reopen_ast_nodes (depth of
                        the tree <= number of nodes <= ps_next), open_new_blocks_loop (every iteration that goes on
                        consumes a byte or ends on a block that accepts lines), list_spaces_loop (8 > 6 columns),
                        resolve_loop (parse_reference_inline consumes at least one byte), label_loop,
                        find_closing_line.
     cursor sites       CI through the remaining handlers (alert, blockquote / skip_one_space, html block, setext,
                        thematic break, list marker and list_spaces_loop, indented code: column-mode advances), the
                        prefixes of check_open_blocks, add_text_to_container, and table.rs (row slices, header cells).
     UTF-8 sites        every from_utf8 except the suffix step of add_line (Blocks_total_utf8_suffix_partial).
   A whole-parse theorem for a new site needs a second walk: `safe` of Proofs/BlocksTotal2Safe.v is tied to
   tree_sites; the post-conditions of that walk can be reused (safe_ok), the no-panic half has to be redone for
   the larger site list. *)
Definition Blocks_total_full_statement : Prop :=
  forall o x, utf8_valid x = true -> exists r, parse_blocks o x = Ok r.

(* every line handed to process_line: LF at the end, valid UTF-8, no CR / LF / NUL before the LF *)
Theorem Blocks_total_lines_partial : forall x, utf8_valid x = true ->
  Forall (fun l => lf_terminated (norm_line l) /\ utf8_valid (norm_line l) = true /\ clean_line l = true) (lines x).
Proof. exact lines_lf_utf8. Qed.
Print Assumptions Blocks_total_lines_partial.

(* the from_utf8 unwrap of add_line: a suffix of a valid line from a character boundary is valid; the boundary
   conditions the parser meets: offset 0, offset past the end, an ASCII byte at the offset or just before it *)
Theorem Blocks_total_utf8_suffix_partial : forall line k,
  utf8_valid line = true -> at_boundary line k -> utf8_valid (skipn k line) = true.
Proof. exact skipn_utf8. Qed.
Print Assumptions Blocks_total_utf8_suffix_partial.

(* find_first_nonspace under the cursor invariant CI (offset inside the line; first_nonspace stale, or the position
   and column after the white space from offset on): no panic (first_nonspace_column - column), the invariant is
   re-established with a fresh first_nonspace, offset <= first_nonspace <= |line| *)
Theorem Blocks_total_rescan_partial : forall c line,
  CI c line ->
  exists c', find_first_nonspace c line = Ok c' /\ fresh_fns c' line /\ CI c' line
             /\ c_offset c' = c_offset c /\ c_column c' = c_column c /\ c_pct c' = c_pct c
             /\ c_offset c' <= c_fns c' <= List.length line /\ c_indent c' = c_fnsc c' - c_column c'.
Proof. exact ffn_total. Qed.
Print Assumptions Blocks_total_rescan_partial.

Theorem Blocks_total_cursor_start_partial : forall line k, k <= List.length line -> CI (mkCur k 0 0 0 0 false false 0) line.
Proof. exact CI_start. Qed.
Print Assumptions Blocks_total_cursor_start_partial.

(* advance_offset(line, count, true) from a freshly scanned cursor never indexes past the line as long as count is
   at most the indent plus the number of bytes from first_nonspace on (tabs and partially consumed tabs included) *)
Theorem Blocks_total_advance_columns_partial : forall c line count,
  c_offset c <= List.length line -> fresh_fns c line ->
  count <= (c_fnsc c - c_column c) + (List.length line - c_fns c) ->
  exists c', advance_offset c line count true = Ok c'
             /\ c_offset c <= c_offset c' <= List.length line /\ c_fns c' = c_fns c /\ c_fnsc c' = c_fnsc c.
Proof. exact advance_columns_total. Qed.
Print Assumptions Blocks_total_advance_columns_partial.

Theorem Blocks_total_add_line_partial : forall st id line n,
  get st id = Ok n -> bi_open (binf n) = true -> utf8_valid line = true ->
  at_boundary line (if c_pct (ps_cur st) then S (c_offset (ps_cur st)) else c_offset (ps_cur st)) ->
  exists st', add_line st id line = Ok st'.
Proof. exact add_line_total. Qed.
Print Assumptions Blocks_total_add_line_partial.

(* finalize: no panic for a node that is present and open while a line is being processed (line_number >= 1) or
   none is; per kind (finalize_pre): Paragraph: the reference-definition loop answers Ok; fenced code block: the
   content is valid UTF-8 and its first line end exists and is LF; indented code block: the content is not empty *)
Theorem Blocks_total_finalize_partial : forall o st id n,
  get st id = Ok n -> bi_open (binf n) = true ->
  (ps_curline_len st = 0 \/ 1 <= ps_line_number st) ->
  finalize_pre o st n ->
  exists p st', finalize o st id = Ok (p, st').
Proof. exact finalize_total. Qed.
Print Assumptions Blocks_total_finalize_partial.

Definition opts_default : bopts := mkBO false false false false false false false false None None (fun v => v).

Theorem Blocks_total_needs_utf8 :
  parse_blocks opts_default [xff] = Panic "mod.rs:add_line:str::from_utf8(&line[self.offset..]).unwrap()".
Proof. vm_compute. reflexivity. Qed.
Print Assumptions Blocks_total_needs_utf8.

(* the level handle_atx_heading stores: the scanner accepted 1..6 hashes and the count loop counts exactly them *)
Theorem Blocks_atx_level_1_6 : forall rest m p level,
  Scan.scan_atx_heading_start rest = Some m -> position_hash rest = Some p ->
  count_hashes (skipn p rest) = Ok level -> 1 <= level <= 6.
Proof. exact atx_level_bounds. Qed.
Print Assumptions Blocks_atx_level_1_6.

(* ---- list tightness and removed reference-definition paragraphs (BLK-1, repaired) *)
(* add_child finalizes a List while the blocks below it are still open, so a paragraph of its last item that holds
   only reference definitions is still there when the tightness is computed.  Since the repair the Paragraph arm of
   finalize_borrowed computes the tightness of the (closed) list again after it has detached such a paragraph.
   For EVERY state: whenever finalize removes a paragraph, the closed list two levels up is afterwards tight
   exactly when list_is_tight (items_tight) holds of the children it has then. *)
Theorem Blocks_removed_paragraph_retightens : forall o st id n content' m' item st',
  get st id = Ok n -> bval n = Paragraph ->
  resolve_refdefs (bo_fold o) (ps_refmap st) (bi_content (binf n)) = Ok (content', false, m') ->
  finalize o st id = Ok (Some item, st') ->
  forall lid l nl, parent_of item (ps_root st') = Some lid -> get st' lid = Ok l ->
    bi_open (binf l) = false -> bval l = NList nl -> l_tight nl = items_tight (bkids l).
Proof. exact finalize_removed_paragraph. Qed.
Print Assumptions Blocks_removed_paragraph_retightens.

(* what list_is_tight reads: the list is tight iff no item but the last has last_line_blank and no block of an item,
   other than the last block of the last item, ends with a blank line *)
Theorem Blocks_tightness_reads : forall items,
  items_tight items = true <->
  (forall pre it post, items = pre ++ it :: post ->
     (bi_llb (binf it) = true -> post = []) /\
     (forall spre s spost, bkids it = spre ++ s :: spost -> ends_with_blank_line s = true -> post = [] /\ spost = [])).
Proof. exact items_tight_reads. Qed.
Print Assumptions Blocks_tightness_reads.

Theorem Blocks_single_block_item_tight : forall it s, bkids it = [s] -> items_tight [it] = true.
Proof. exact items_tight_single. Qed.
Print Assumptions Blocks_single_block_item_tight.

(* the former witness of the defect: the list is now tight (its only item ends up with the single paragraph a) *)
Definition doc_tight : bytes := Eval compute in B "- a" ++ [x0a; x0a] ++ B "  [x]: y" ++ [x0a] ++ B "# h" ++ [x0a].

Theorem Blocks_tightness_witness_repaired :
  exists r nl it p h,
    parse_blocks opts_default doc_tight = Ok r /\
    to_node (br_root r) = Node Document (mkSp 1 1 4 3) [Node (NList nl) (mkSp 1 1 3 8) [Node (Item it) (mkSp 1 1 3 8) [p]]; h] /\
    l_tight nl = true /\ nval p = Paragraph /\ nch p = [] /\
    br_refmap r = [(B "x", (B "y", []))].
Proof. vm_compute. repeat eexists. Qed.
Print Assumptions Blocks_tightness_witness_repaired.

(* ---- reference definitions (INL-2, repaired): a stored non-empty title lies inside the consumed bytes *)
Theorem Blocks_refdef_title_inside_consumed : forall fold m content pos m' k u t,
  parse_reference_inline fold m content = Ok (Some (pos, m')) ->
  ref_lookup m k = None -> ref_lookup m' k = Some (u, t) -> t <> [] ->
  exists p tl, Scan.scan_link_title (skipn p content) = Some tl
               /\ clean_title (firstn tl (skipn p content)) = Ok t /\ p + tl <= pos.
Proof. exact RefDefTitle.R.title_inside_consumed. Qed.
Print Assumptions Blocks_refdef_title_inside_consumed.

(* ---- non-vacuity *)
Example Blocks_example :
  let x := B "> a" ++ [x0a] ++ B "b" ++ [x0a; x0a] ++ B "1. c" ++ [x0a] ++ B "```" ++ [x0a] ++ B "d" in
  exists r, parse_blocks opts_default x = Ok r /\ valid (to_node (br_root r)) = true /\
            blocks_tree opts_default (to_crlf x) = blocks_tree opts_default x /\
            List.length (bkids (br_root r)) = 3.
Proof. vm_compute. eexists. repeat split. Qed.

(* ---- totality, second round (Proofs/BlocksTotal2*.v): the TREE side, for EVERY input and state.
   tree_sites (Proofs/BlocksTotal2Safe.v) = the Panic sites that are tree lookups: model:no-such-node, the unwraps of
   a parent / of the result of finalize in check_open_blocks, parse_code_block_prefix,
   parse_multiline_block_quote_prefix, parse_desc_list_details, add_text_to_container (container),
   finalize_document, feed, and insert_after without parent.  `safe Q r`: r = Ok a -> Q a, r = Panic s -> s is not
   one of them.  W o st = identifiers pairwise distinct and below ps_next, block values, table shape (TI), the
   containment relation (SV), the root has identifier 0 (R0); `has st x` = x is the identifier of a node.
   PROVED (Blocks_total_partial_tree_sites), for EVERY input byte string (valid UTF-8 or not) and every option set with
   the table and description-list extensions off: parse_blocks never answers Panic at one of the eleven tree_sites
   (the list is pinned below: Blocks_total_tree_sites_list).  The walk (Proofs/BlocksTotal2Walk.v) carries, through
   check_open_blocks, every handler of open_new_blocks, add_text_to_container, process_line, finalize_document and
   the front matter prologue: W, presence of every identifier that is looked up, `the container handed on is a
   paragraph only if it is the last matched one`, and `self.current is present or is the last matched container`.
   Also proved for every state with W: finalize and the closing loop of add_child never fail at a tree site, keep W,
   return the parent, and remove at most the node itself and only if it is a paragraph (the
   reference-definition-only case: a leaf); the root keeps identifier 0.
   REMAINING on the tree side: the same walk through try_opening_block (table.rs) and parse_desc_list_details
   (hence the two premises); the sites that need the chain of OPEN nodes from the root to self.current:
   mod.rs:finalize_borrowed:assert!(ast.open), mod.rs:add_line:assert!(ast.open),
   mod.rs:add_text_to_container:self.finalize(self.current).unwrap(); and
   mod.rs:add_child:self.finalize(parent).unwrap() (the Document accepts every block the handlers create except
   items / rows / description parts, whose parent is created just before).
   REMAINING for Blocks_total_full_statement beyond the tree side: the fuel bounds (OutOfFuel), the cursor
   invariant CI through every handler (all index / slice / subtraction sites of mod.rs and table.rs), the UTF-8
   boundary of every from_utf8 site, parse_reference_inline on NUL-free content. *)
Theorem Blocks_total_partial_root_id : forall o x r,
  parse_blocks o x = Ok r -> bid (br_root r) = root_id.
Proof. exact BlocksTotal2Tree.parse_blocks_root_id. Qed.
Print Assumptions Blocks_total_partial_root_id.

Theorem Blocks_total_partial_finalize_tree : forall o st id,
  BlocksTotal2Tree.W o st -> BlocksTotal2Tree.has st id ->
  BlocksTotal2Safe.safe
    (fun r => BlocksTotal2Tree.W o (snd r) /\ BlocksTotal2Tree.FIN st id (fst r) (snd r))
    (finalize o st id).
Proof. exact BlocksTotal2Tree.finalize_tree_safe. Qed.
Print Assumptions Blocks_total_partial_finalize_tree.

Theorem Blocks_total_partial_add_child_loop_tree : forall o k fuel st parent,
  BlocksTotal2Tree.W o st -> BlocksTotal2Tree.has st parent ->
  BlocksTotal2Safe.safe
    (fun r => BlocksTotal2Tree.W o (snd r) /\ BlocksTotal2Tree.has (snd r) (fst r)
              /\ BlocksTotal2Tree.lose parent st (snd r)
              /\ (BlocksTotal2Tree.ispara st parent = false -> BlocksTotal2Tree.same st (snd r)))
    (add_child_loop fuel o st parent k).
Proof. exact BlocksTotal2Tree.add_child_loop_tree_safe. Qed.
Print Assumptions Blocks_total_partial_add_child_loop_tree.

Theorem Blocks_total_partial_init_state : forall o, BlocksTotal2Tree.W o init_state.
Proof. exact BlocksTotal2Tree.W_init. Qed.
Print Assumptions Blocks_total_partial_init_state.

Theorem Blocks_total_tree_sites_list :
  BlocksTotal2Safe.tree_sites =
  [ "model:no-such-node";
    "mod.rs:check_open_blocks:container.parent().unwrap()";
    "mod.rs:parse_code_block_prefix:finalize_borrowed(container, ast).unwrap()";
    "mod.rs:parse_multiline_block_quote_prefix:finalize_borrowed(child, child_ast).unwrap()";
    "mod.rs:parse_multiline_block_quote_prefix:finalize_borrowed(container, ast).unwrap()";
    "mod.rs:parse_desc_list_details:container.last_child().unwrap()";
    "mod.rs:parse_desc_list_details:last_child.parent().unwrap()";
    "arena_tree.rs:insert_after:self.parent (no parent)";
    "mod.rs:add_text_to_container:self.finalize(container).unwrap()";
    "mod.rs:finalize_document:self.finalize(self.current).unwrap()";
    "mod.rs:feed:self.finalize(node).unwrap()" ].
Proof. reflexivity. Qed.
Print Assumptions Blocks_total_tree_sites_list.

(* no tree-lookup Panic site is reachable: every input, every option set without tables / description lists *)
Theorem Blocks_total_partial_tree_sites : forall o x s,
  bo_table o = false -> bo_description_lists o = false ->
  In s BlocksTotal2Safe.tree_sites -> parse_blocks o x <> Panic s.
Proof. exact BlocksTotal2Walk.parse_blocks_no_tree_panic. Qed.
Print Assumptions Blocks_total_partial_tree_sites.

(* the line invariant of the walk: W and self.current present, kept by process_line *)
Theorem Blocks_total_partial_process_line_tree : forall o st line0,
  bo_table o = false -> bo_description_lists o = false -> BlocksTotal2Walk.LI o st ->
  BlocksTotal2Safe.safe (BlocksTotal2Walk.LI o) (process_line o st line0).
Proof. exact BlocksTotal2Walk.process_line_spec. Qed.
Print Assumptions Blocks_total_partial_process_line_tree.

(* ---- totality, third round (Proofs/BlocksTotal3*.v).
   Step 1 (Proofs/BlocksTotal3Tab.v): the walk of the second round carried through table.rs (try_opening_block,
   try_opening_header, try_opening_row, try_inserting_table_header_paragraph) and parse_desc_list_details, so the two
   premises of Blocks_total_partial_tree_sites are gone: no tree-lookup Panic site is reachable, for EVERY input byte
   string and EVERY option set. *)
From V Require Proofs.BlocksTotal3Tab.

Theorem Blocks_total_partial_tree_sites_all : forall o x s,
  In s BlocksTotal2Safe.tree_sites -> parse_blocks o x <> Panic s.
Proof. exact BlocksTotal3Tab.parse_blocks_no_tree_panic_all. Qed.
Print Assumptions Blocks_total_partial_tree_sites_all.

Theorem Blocks_total_partial_process_line_tree_all : forall o st line0,
  BlocksTotal2Walk.LI o st -> BlocksTotal2Safe.safe (BlocksTotal2Walk.LI o) (process_line o st line0).
Proof. exact BlocksTotal3Tab.process_line_spec'. Qed.
Print Assumptions Blocks_total_partial_process_line_tree_all.

(* Steps 3 / 4, bricks (Proofs/BlocksTotal3Cur.v), for ALL arguments.
   Scanners: an Option<usize> scanner whose actions are `return Some(cursor)` and whose default is `return None`, run
   without NUL padding, answers Some m only with m <= |s| (the winner is a longest match of a rule; a trailing context
   moves the cursor back).  Pinned for the scanners the block phase slices / advances with; on line[first_nonspace..]
   this is first_nonspace + m <= |line|. *)
From V Require Proofs.BlocksTotal3Cur.

Theorem Blocks_total_partial_scanner_inside : forall rules s m,
  forallb BlocksTotal3Cur.is_cursor_rule rules = true ->
  Scan.as_opt_usize (Re2c.run_rules rules Re2c.ActNone 0 s) = Some m -> m <= List.length s.
Proof. exact BlocksTotal3Cur.as_opt_usize_cursor_le. Qed.
Print Assumptions Blocks_total_partial_scanner_inside.

Theorem Blocks_total_partial_block_scanners_inside : forall s m,
  (Scan.scan_atx_heading_start s = Some m -> m <= List.length s) /\
  (Scan.scan_open_code_fence s = Some m -> m <= List.length s) /\
  (Scan.scan_close_code_fence s = Some m -> m <= List.length s) /\
  (Scan.scan_footnote_definition s = Some m -> m <= List.length s) /\
  (Scan.scan_open_multiline_block_quote_fence s = Some m -> m <= List.length s) /\
  (Scan.scan_close_multiline_block_quote_fence s = Some m -> m <= List.length s) /\
  (Scan.scan_description_item_start s = Some m -> m <= List.length s) /\
  (Scan.scan_table_start s = Some m -> m <= List.length s) /\
  (forall sp, Scan.scan_table_cell s sp = Some m -> m <= List.length s) /\
  (Scan.scan_table_cell_end s = Some m -> m <= List.length s) /\
  (Scan.scan_table_row_end s = Some m -> m <= List.length s).
Proof.
  intros s m. repeat split; intros;
  first [ eapply BlocksTotal3Cur.scan_atx_heading_start_le; eassumption
        | eapply BlocksTotal3Cur.scan_open_code_fence_le; eassumption
        | eapply BlocksTotal3Cur.scan_close_code_fence_le; eassumption
        | eapply BlocksTotal3Cur.scan_footnote_definition_le; eassumption
        | eapply BlocksTotal3Cur.scan_open_mbq_fence_le; eassumption
        | eapply BlocksTotal3Cur.scan_close_mbq_fence_le; eassumption
        | eapply BlocksTotal3Cur.scan_description_item_start_le; eassumption
        | eapply BlocksTotal3Cur.scan_table_start_le; eassumption
        | eapply BlocksTotal3Cur.scan_table_cell_le; eassumption
        | eapply BlocksTotal3Cur.scan_table_cell_end_le; eassumption
        | eapply BlocksTotal3Cur.scan_table_row_end_le; eassumption ].
Qed.
Print Assumptions Blocks_total_partial_block_scanners_inside.

(* advance_offset(line, count, false): exactly count bytes when they are there; the other cursor fields stay *)
Theorem Blocks_total_partial_advance_bytes : forall c line count,
  c_offset c + count <= List.length line ->
  exists c', advance_offset c line count false = Ok c'
             /\ c_offset c' = c_offset c + count /\ c_fns c' = c_fns c /\ c_fnsc c' = c_fnsc c /\ c_indent c' = c_indent c
             /\ c_blank c' = c_blank c /\ c_tbkp c' = c_tbkp c.
Proof. exact BlocksTotal3Cur.adv_bytes_exact. Qed.
Print Assumptions Blocks_total_partial_advance_bytes.

(* the advance of a handler after a scanner match of length m at first_nonspace: no panic, the offset lands on
   first_nonspace + m, the cursor invariant CI holds again *)
Theorem Blocks_total_partial_advance_after_match : forall c line m k,
  c_offset c <= c_fns c -> c_fns c + m <= List.length line -> k = c_fns c + m - c_offset c ->
  exists c', advance_offset c line k false = Ok c' /\ c_offset c' = c_fns c + m /\ CI c' line.
Proof. exact BlocksTotal3Cur.CI_after_adv_to. Qed.
Print Assumptions Blocks_total_partial_advance_after_match.

(* the cursor side of four handlers end to end, from a freshly scanned cursor (offset <= first_nonspace <= |line|):
   every slice / subtraction site of the detect_ / handle_ pair is defined and the advance re-establishes CI.
   Sites covered: detect_code_fence:line[self.first_nonspace..], handle_code_fence:first_nonspace - offset,
   handle_code_fence:first_nonspace + *matched - offset; detect_atx_heading:line[..],
   handle_atx_heading:heading_startpos + *matched - offset; detect_multiline_blockquote:line[..],
   handle_multiline_blockquote:first_nonspace - offset, .. + *matched - offset; detect_footnote:line[..],
   handle_footnote: the upper bound of line[first_nonspace + 2..first_nonspace + matched] and
   self.first_nonspace + *matched - self.offset; detect_description_list:line[..],
   handle_description_list:self.first_nonspace + *matched - self.offset; and advance_offset:line[self.offset] in
   each of these advances. *)
Theorem Blocks_total_partial_code_fence_cursor : forall c line rest m,
  c_offset c <= c_fns c <= List.length line -> rest = skipn (c_fns c) line -> Scan.scan_open_code_fence rest = Some m ->
  slice_from "mod.rs:detect_code_fence:line[self.first_nonspace..]" line (c_fns c) = Ok rest /\
  sub "mod.rs:handle_code_fence:first_nonspace - offset" (c_fns c) (c_offset c) = Ok (c_fns c - c_offset c) /\
  sub "mod.rs:handle_code_fence:first_nonspace + *matched - offset" (c_fns c + m) (c_offset c) = Ok (c_fns c + m - c_offset c) /\
  exists c', advance_offset c line (c_fns c + m - c_offset c) false = Ok c' /\ c_offset c' = c_fns c + m /\ CI c' line.
Proof. exact BlocksTotal3Cur.code_fence_cursor. Qed.
Print Assumptions Blocks_total_partial_code_fence_cursor.

Theorem Blocks_total_partial_atx_cursor : forall c line rest m,
  c_offset c <= c_fns c <= List.length line -> rest = skipn (c_fns c) line -> Scan.scan_atx_heading_start rest = Some m ->
  slice_from "mod.rs:detect_atx_heading:line[self.first_nonspace..]" line (c_fns c) = Ok rest /\
  sub "mod.rs:handle_atx_heading:heading_startpos + *matched - offset" (c_fns c + m) (c_offset c) = Ok (c_fns c + m - c_offset c) /\
  exists c', advance_offset c line (c_fns c + m - c_offset c) false = Ok c' /\ c_offset c' = c_fns c + m /\ CI c' line.
Proof. exact BlocksTotal3Cur.atx_heading_cursor. Qed.
Print Assumptions Blocks_total_partial_atx_cursor.

Theorem Blocks_total_partial_mbq_cursor : forall c line rest m,
  c_offset c <= c_fns c <= List.length line -> rest = skipn (c_fns c) line ->
  Scan.scan_open_multiline_block_quote_fence rest = Some m ->
  slice_from "mod.rs:detect_multiline_blockquote:line[self.first_nonspace..]" line (c_fns c) = Ok rest /\
  sub "mod.rs:handle_multiline_blockquote:first_nonspace - offset" (c_fns c) (c_offset c) = Ok (c_fns c - c_offset c) /\
  sub "mod.rs:handle_multiline_blockquote:first_nonspace + *matched - offset" (c_fns c + m) (c_offset c) = Ok (c_fns c + m - c_offset c) /\
  exists c', advance_offset c line (c_fns c + m - c_offset c) false = Ok c' /\ c_offset c' = c_fns c + m /\ CI c' line.
Proof. exact BlocksTotal3Cur.mbq_cursor. Qed.
Print Assumptions Blocks_total_partial_mbq_cursor.

Theorem Blocks_total_partial_footnote_cursor : forall c line rest m,
  c_offset c <= c_fns c <= List.length line -> rest = skipn (c_fns c) line -> Scan.scan_footnote_definition rest = Some m ->
  slice_from "mod.rs:detect_footnote:line[self.first_nonspace..]" line (c_fns c) = Ok rest /\
  Nat.ltb (List.length line) (c_fns c + m) = false /\
  sub "mod.rs:handle_footnote:self.first_nonspace + *matched - self.offset" (c_fns c + m) (c_offset c) = Ok (c_fns c + m - c_offset c) /\
  exists c', advance_offset c line (c_fns c + m - c_offset c) false = Ok c' /\ c_offset c' = c_fns c + m /\ CI c' line.
Proof. exact BlocksTotal3Cur.footnote_cursor. Qed.
Print Assumptions Blocks_total_partial_footnote_cursor.

Theorem Blocks_total_partial_description_item_cursor : forall c line rest m,
  c_offset c <= c_fns c <= List.length line -> rest = skipn (c_fns c) line -> Scan.scan_description_item_start rest = Some m ->
  slice_from "mod.rs:detect_description_list:line[self.first_nonspace..]" line (c_fns c) = Ok rest /\
  sub "mod.rs:handle_description_list:self.first_nonspace + *matched - self.offset" (c_fns c + m) (c_offset c) = Ok (c_fns c + m - c_offset c) /\
  exists c', advance_offset c line (c_fns c + m - c_offset c) false = Ok c' /\ c_offset c' = c_fns c + m /\ CI c' line.
Proof. exact BlocksTotal3Cur.description_item_cursor. Qed.
Print Assumptions Blocks_total_partial_description_item_cursor.

(* Fuel: advance_offset never runs out of fuel (fuel = count, every iteration consumes at least one unit of count);
   the row scanner of table.rs never runs out of fuel (every iteration that goes on moves the offset forward and the
   loop stops at the end of the string), hence table::matches neither; find_first_nonspace has no fuel *)
Theorem Blocks_total_partial_fuel_advance : forall c line count columns, advance_offset c line count columns <> OutOfFuel.
Proof. exact BlocksTotal3Cur.advance_offset_fuel. Qed.
Print Assumptions Blocks_total_partial_fuel_advance.

Theorem Blocks_total_partial_fuel_row : forall s sp, row s sp <> OutOfFuel.
Proof. exact BlocksTotal3Cur.row_fuel. Qed.
Print Assumptions Blocks_total_partial_fuel_row.

Theorem Blocks_total_partial_fuel_table_matches : forall s sp, table_matches s sp <> OutOfFuel.
Proof. exact BlocksTotal3Cur.table_matches_fuel. Qed.
Print Assumptions Blocks_total_partial_fuel_table_matches.

(* ---- totality, fourth round (Proofs/BlocksTotal4*.v).
   Step 1 (Proofs/BlocksTotal4Safe.v): the predicate transformer is parametric in the set of allowed Panic sites and
   in the fuel: `sg al fu Q r` (r = Ok a -> Q a; r = Panic s -> al s = true; r = OutOfFuel -> fu = true), `but L`
   allows every site except those of L, `only L` exactly those of L.  `safe` of the second round is
   `sg (but tree_sites) true`.  Walks are independent and are combined afterwards (sg_and), and a walk may use the
   post-conditions another walk proved for the same intermediate result (sg_bind_safe), so it only redoes the
   no-panic half.
   Step 2 (Proofs/BlocksTotal4Cur.v, Frame.v, Walk.v, Open.v, Atx.v, Line.v; leaf facts Scan.v, Marker.v, Row.v): the
   CURSOR walk.  Invariant, for the line L process_line works on (L ends with LF, Blocks_lines_lf_terminated):
   offset <= |L|, first_nonspace stale or exactly what a rescan computes (CI), self.curline_len = |L|; offset < |L| at
   the head of every iteration of check_open_blocks_inner and open_new_blocks (the final LF is consumed only by the
   ATX scanner, and the heading it opens accepts lines, so the loop stops: the one place where the tree invariant of
   the first walk is needed).  Column-mode advances inside the indent keep the cursor FRESH (partially consumed tabs
   included).  RESULT, for EVERY input byte string (valid UTF-8 or not) and EVERY option set: none of the sites of
   cur_sites (pinned below: every `line[..]` index / slice and every usize subtraction of mod.rs on the line and the
   cursor, the indices of parse_list_marker, the line / cursor sites of try_opening_header / try_opening_row, and ALL
   sites of table.rs `row`, its from_utf8 included) is reachable: Blocks_total_partial_cursor_sites; together with
   the tree walk: Blocks_total_partial_sites_all.
   Step 3 (Proofs/BlocksTotal4Fuel*.v): no OutOfFuel, for all arguments: resolve_refdefs, parse_reference_inline,
   link_label, split_off_front_matter, list_spaces_loop, finalize, check_container; under the tree invariant W:
   check_open_blocks, clear_llb_up, reopen_ast_nodes, finalize_up_to, add_child, add_text_to_container,
   finalize_document, front_matter_prologue (size of the tree <= ps_next; a parent chain is shorter than the tree;
   finalize keeps the parent of every other node).
   REMAINING for Blocks_total_full_statement (no whole-parse theorem):
     fuel          open_new_blocks_loop (2 |L| + 8: every iteration that goes on moves the offset forward — lower
                   bounds of the scanners are in Proofs/BlocksTotal4Scan.v — except the one that opens an html block,
                   after which the loop stops, and the table case `Some((container, false, _))` where the container is a
                   paragraph); parse_desc_list_details / handle_description_list under W; hence process_line.
     open spine    mod.rs:finalize_borrowed:assert!(ast.open), mod.rs:add_line:assert!(ast.open),
                   mod.rs:add_text_to_container:self.finalize(self.current).unwrap(),
                   mod.rs:add_child:self.finalize(parent).unwrap()   (evaluation: Proofs/BlocksTotal4Spine.v)
     UTF-8         every from_utf8 site except table.rs:row (mod.rs:add_line, handle_alert, handle_footnote,
                   finalize_borrowed, resolve_reference_link_definitions:content[seeked..], inlines.rs:link_label,
                   parse_reference_inline clean_url / clean_title, try_inserting_table_header_paragraph)
     values        mod.rs:add_child:assert!(start_column > 0) (the table callers pass start columns read from the tree),
                   mod.rs:parse_html_block_prefix:unreachable!() (block_type 1..7 in the tree),
                   mod.rs:finalize_borrowed: line_number - 1, assert!(pos < content.len()), content.as_bytes()[pos],
                   table.rs: try_inserting_table_header_paragraph (content[..paragraph_offset], line_offsets[n],
                   start.line + newlines - 1) and try_opening_header / try_opening_row cell arithmetic,
                   the sites of the leaf functions that have a refuted totality statement in Props/StrLeaf.v
                   (remove_trailing_blank_lines on empty content, chop_trailing_hashtags, clean_title),
                   inlines.rs:peek_char_n: the assert c > 0 (NUL-free content), strings.rs front matter slices. *)
From V Require Proofs.BlocksTotal4Safe Proofs.BlocksTotal4Cur Proofs.BlocksTotal4Frame Proofs.BlocksTotal4Line
  Proofs.BlocksTotal4Row Proofs.BlocksTotal4Marker Proofs.BlocksTotal4Scan
  Proofs.BlocksTotal4Fuel Proofs.BlocksTotal4FuelTree Proofs.BlocksTotal4FuelFin Proofs.BlocksTotal4FuelText.

(* step 1: two walks of the same computation combine; a walk may reuse the post-condition of the tree walk *)
Theorem Blocks_total_sg_combine : forall A al1 al2 fu1 fu2 (Q1 Q2 : A -> Prop) (r : res A),
  BlocksTotal4Safe.sg al1 fu1 Q1 r -> BlocksTotal4Safe.sg al2 fu2 Q2 r ->
  BlocksTotal4Safe.sg (fun s => al1 s && al2 s) (fu1 && fu2) (fun a => Q1 a /\ Q2 a) r.
Proof. exact (@BlocksTotal4Safe.sg_and). Qed.
Print Assumptions Blocks_total_sg_combine.

Theorem Blocks_total_sg_reuses_safe : forall A B al fu (r : res A) (k : A -> res B) (P P2 : A -> Prop) (Q : B -> Prop),
  BlocksTotal2Safe.safe P r -> BlocksTotal4Safe.sg al fu P2 r ->
  (forall a, r = Ok a -> P a -> P2 a -> BlocksTotal4Safe.sg al fu Q (k a)) -> BlocksTotal4Safe.sg al fu Q (bind r k).
Proof. exact (@BlocksTotal4Safe.sg_bind_safe). Qed.
Print Assumptions Blocks_total_sg_reuses_safe.

Theorem Blocks_total_safe_is_sg : forall A (Q : A -> Prop) (r : res A),
  BlocksTotal2Safe.safe Q r <-> BlocksTotal4Safe.sg (BlocksTotal4Safe.but BlocksTotal2Safe.tree_sites) true Q r.
Proof. exact (@BlocksTotal4Safe.safe_sg_but). Qed.
Print Assumptions Blocks_total_safe_is_sg.

(* step 2: the list of cursor / line sites *)
Theorem Blocks_total_cursor_sites_list :
  BlocksTotal4Frame.cur_sites =
  [ "mod.rs:find_first_nonspace:first_nonspace_column - column";
    "mod.rs:advance_offset:line[self.offset]";
    "mod.rs:is_not_greentext:line[self.first_nonspace + 1]";
    "mod.rs:parse_block_quote_prefix:line[self.first_nonspace]";
    "mod.rs:parse_block_quote_prefix:line[self.offset]";
    "mod.rs:parse_node_item_prefix:self.first_nonspace - self.offset";
    "mod.rs:parse_code_block_prefix:self.first_nonspace - self.offset";
    "mod.rs:parse_code_block_prefix:line[self.first_nonspace]";
    "mod.rs:parse_code_block_prefix:line[self.offset]";
    "mod.rs:parse_multiline_block_quote_prefix:line[self.first_nonspace]";
    "mod.rs:parse_multiline_block_quote_prefix:line[self.offset]";
    "mod.rs:check_open_blocks_inner:line[self.first_nonspace..]";
    "mod.rs:detect_alert:line[self.first_nonspace]";
    "mod.rs:handle_alert:line[title_startpos]";
    "mod.rs:handle_alert:line[title_startpos..]";
    "mod.rs:handle_alert:self.first_nonspace - self.offset";
    "mod.rs:handle_alert:self.curline_len - self.offset";
    "mod.rs:handle_alert:self.curline_len - self.offset - 1";
    "mod.rs:detect_multiline_blockquote:line[self.first_nonspace..]";
    "mod.rs:handle_multiline_blockquote:first_nonspace - offset";
    "mod.rs:handle_multiline_blockquote:first_nonspace + *matched - offset";
    "mod.rs:detect_blockquote:line[self.first_nonspace]";
    "mod.rs:handle_blockquote:self.first_nonspace + 1 - self.offset";
    "mod.rs:handle_blockquote:line[self.offset]";
    "mod.rs:detect_atx_heading:line[self.first_nonspace..]";
    "mod.rs:handle_atx_heading:heading_startpos + *matched - offset";
    "mod.rs:handle_atx_heading:position(|&c| c == b'#').unwrap()";
    "mod.rs:handle_atx_heading:line[hashpos]";
    "mod.rs:handle_atx_heading:level += 1";
    "mod.rs:detect_code_fence:line[self.first_nonspace..]";
    "mod.rs:handle_code_fence:line[first_nonspace]";
    "mod.rs:handle_code_fence:first_nonspace - offset";
    "mod.rs:handle_code_fence:first_nonspace + *matched - offset";
    "mod.rs:detect_html_block:line[self.first_nonspace..]";
    "mod.rs:detect_setext_heading:line[self.first_nonspace..]";
    "mod.rs:handle_setext_heading:line.len() - 1";
    "mod.rs:handle_setext_heading:line.len() - 1 - self.offset";
    "mod.rs:handle_thematic_break:line.len() - 1";
    "mod.rs:handle_thematic_break:line.len() - 1 - self.offset";
    "mod.rs:detect_footnote:line[self.first_nonspace..]";
    "mod.rs:handle_footnote:line[first_nonspace + 2..first_nonspace + matched]";
    "mod.rs:handle_footnote:self.first_nonspace + *matched - self.offset";
    "mod.rs:detect_description_list:line[self.first_nonspace..]";
    "mod.rs:handle_description_list:self.first_nonspace + *matched - self.offset";
    "mod.rs:handle_description_list:line[self.offset]";
    "parser/mod.rs:parse_list_marker:line[pos]";
    "parser/mod.rs:parse_list_marker:line[i]";
    "parser/mod.rs:parse_list_marker:line[pos] - b'0'";
    "mod.rs:handle_list:self.first_nonspace + *matched - self.offset";
    "mod.rs:handle_list:self.column - save_column";
    "mod.rs:handle_list:line[self.offset]";
    "mod.rs:add_text_to_container:self.first_nonspace - self.offset";
    "mod.rs:add_text_to_container:line[self.first_nonspace..]";
    "table.rs:try_opening_header:line[parser.first_nonspace..]";
    "table.rs:try_opening_header:line.len() - 1";
    "table.rs:try_opening_header:line.len() - 1 - parser.offset";
    "table.rs:try_opening_row:line[parser.first_nonspace..]";
    "table.rs:try_opening_row:line.len() - 1";
    "table.rs:try_opening_row:line.len() - 1 - parser.offset";
    "table.rs:row:string[offset + cell_matched..]";
    "table.rs:row:string[offset..offset + cell_matched]";
    "table.rs:row:string[start_offset - 1]";
    "table.rs:row:offset + cell_matched - 1";
    "table.rs:row:string[offset..]";
    "table.rs:row:String::from_utf8(cell).unwrap()" ].
Proof. reflexivity. Qed.
Print Assumptions Blocks_total_cursor_sites_list.

(* no cursor / line Panic site is reachable: every input byte string, every option set *)
Theorem Blocks_total_partial_cursor_sites : forall o x s,
  In s BlocksTotal4Frame.cur_sites -> parse_blocks o x <> Panic s.
Proof. exact BlocksTotal4Line.parse_blocks_no_cursor_panic. Qed.
Print Assumptions Blocks_total_partial_cursor_sites.

(* .. and with the tree walk: 11 + 65 sites *)
Theorem Blocks_total_partial_sites_all : forall o x s,
  In s (BlocksTotal2Safe.tree_sites ++ BlocksTotal4Frame.cur_sites) -> parse_blocks o x <> Panic s.
Proof.
  intros o x s H. apply in_app_or in H. destruct H as [H|H].
  - now apply BlocksTotal3Tab.parse_blocks_no_tree_panic_all.
  - now apply BlocksTotal4Line.parse_blocks_no_cursor_panic.
Qed.
Print Assumptions Blocks_total_partial_sites_all.

(* the same as one statement about the result: a Panic of parse_blocks is at none of these sites *)
Theorem Blocks_total_partial_panic_elsewhere : forall o x s,
  parse_blocks o x = Panic s ->
  BlocksTotal4Safe.inl (BlocksTotal2Safe.tree_sites ++ BlocksTotal4Frame.cur_sites) s = false.
Proof.
  intros o x s E. destruct (BlocksTotal4Safe.inl _ s) eqn:I; [|reflexivity].
  apply BlocksTotal4Safe.inl_in in I. exfalso. exact (Blocks_total_partial_sites_all o x s I E).
Qed.
Print Assumptions Blocks_total_partial_panic_elsewhere.

(* the line invariant of the cursor walk, per line: from a state with the tree invariant LI, on a line that ends
   with LF, process_line does not fail at a cursor site *)
Theorem Blocks_total_partial_process_line_cursor : forall o st line0 s,
  lf_terminated (norm_line line0) -> BlocksTotal2Walk.LI o st ->
  In s BlocksTotal4Frame.cur_sites -> process_line o st line0 <> Panic s.
Proof.
  intros o st line0 s L I H. eapply BlocksTotal4Safe.sg_no_panic; [apply BlocksTotal4Line.process_line_cur; eassumption | exact H].
Qed.
Print Assumptions Blocks_total_partial_process_line_cursor.

(* bricks of the cursor walk, for ALL cursors and lines: a column-mode advance inside the indent keeps the cursor
   fresh (partially consumed tabs included) *)
Theorem Blocks_total_partial_advance_columns_fresh : forall c line count,
  c_offset c <= List.length line -> fresh_fns c line -> count <= c_fnsc c - c_column c ->
  exists c', advance_offset c line count true = Ok c' /\ fresh_fns c' line
             /\ c_offset c <= c_offset c' <= c_fns c /\ c_fns c' = c_fns c /\ c_fnsc c' = c_fnsc c
             /\ c_indent c' = c_indent c /\ c_blank c' = c_blank c /\ c_tbkp c' = c_tbkp c
             /\ c_column c' = c_column c + count.
Proof. exact BlocksTotal4Cur.adv_cols_in. Qed.
Print Assumptions Blocks_total_partial_advance_columns_fresh.

(* table.rs `row` and `matches` are total: every byte string, both spoiler settings *)
Theorem Blocks_total_partial_row_total : forall s sp, exists r, row s sp = Ok r.
Proof. exact BlocksTotal4Row.row_total. Qed.
Print Assumptions Blocks_total_partial_row_total.

Theorem Blocks_total_partial_table_matches_total : forall s sp, exists b, table_matches s sp = Ok b.
Proof. exact BlocksTotal4Row.table_matches_total. Qed.
Print Assumptions Blocks_total_partial_table_matches_total.

(* parse_list_marker on a line that ends with LF *)
Theorem Blocks_total_partial_list_marker_total : forall line pos ip,
  lf_terminated line -> pos < List.length line -> exists r, ListMarker.parse_list_marker line pos ip = Ok r.
Proof. exact BlocksTotal4Marker.parse_list_marker_total. Qed.
Print Assumptions Blocks_total_partial_list_marker_total.

Theorem Blocks_total_partial_list_marker_inside : forall line pos ip n l,
  ListMarker.parse_list_marker line pos ip = Ok (Some (n, l)) -> 1 <= n /\ pos + n < List.length line.
Proof. exact BlocksTotal4Marker.parse_list_marker_inside. Qed.
Print Assumptions Blocks_total_partial_list_marker_inside.

(* step 3: fuel.  For all arguments: *)
Theorem Blocks_total_partial_fuel_refdefs : forall fold m content, resolve_refdefs fold m content <> OutOfFuel.
Proof. exact BlocksTotal4Fuel.resolve_refdefs_fuel. Qed.
Print Assumptions Blocks_total_partial_fuel_refdefs.

Theorem Blocks_total_partial_fuel_reference_inline : forall fold m s, parse_reference_inline fold m s <> OutOfFuel.
Proof. exact BlocksTotal4Fuel.parse_reference_inline_fuel. Qed.
Print Assumptions Blocks_total_partial_fuel_reference_inline.

Theorem Blocks_total_partial_fuel_front_matter_split : forall s d, split_off_front_matter s d <> OutOfFuel.
Proof. exact BlocksTotal4Fuel.split_off_front_matter_fuel. Qed.
Print Assumptions Blocks_total_partial_fuel_front_matter_split.

Theorem Blocks_total_partial_fuel_list_spaces : forall st line save, list_spaces_loop 8 st line save <> OutOfFuel.
Proof. exact BlocksTotal4Fuel.list_spaces_loop_fuel. Qed.
Print Assumptions Blocks_total_partial_fuel_list_spaces.

Theorem Blocks_total_partial_fuel_finalize : forall o st id, finalize o st id <> OutOfFuel.
Proof. exact BlocksTotal4Fuel.finalize_fuel. Qed.
Print Assumptions Blocks_total_partial_fuel_finalize.

(* under the tree invariant W (identifiers pairwise distinct and below ps_next): the loops that walk the tree *)
Theorem Blocks_total_partial_tree_size : forall o st,
  BlocksTotal2Tree.W o st -> BlocksTotal4FuelTree.size (ps_root st) <= ps_next st.
Proof. exact BlocksTotal4FuelTree.W_size. Qed.
Print Assumptions Blocks_total_partial_tree_size.

Theorem Blocks_total_partial_fuel_check_open_blocks : forall o st line,
  BlocksTotal2Tree.W o st -> check_open_blocks o st line <> OutOfFuel.
Proof. exact BlocksTotal4FuelTree.check_open_blocks_fuel. Qed.
Print Assumptions Blocks_total_partial_fuel_check_open_blocks.

Theorem Blocks_total_partial_fuel_clear_llb_up : forall o st id,
  BlocksTotal2Tree.W o st -> clear_llb_up (S (ps_next st)) st id <> OutOfFuel.
Proof. exact BlocksTotal4FuelTree.clear_llb_up_fuel. Qed.
Print Assumptions Blocks_total_partial_fuel_clear_llb_up.

Theorem Blocks_total_partial_fuel_reopen : forall o st id,
  BlocksTotal2Tree.W o st -> reopen_ast_nodes (S (ps_next st)) st id <> OutOfFuel.
Proof. exact BlocksTotal4FuelTree.reopen_ast_nodes_fuel. Qed.
Print Assumptions Blocks_total_partial_fuel_reopen.

Theorem Blocks_total_partial_fuel_finalize_up_to : forall o st target site,
  BlocksTotal2Tree.W o st -> finalize_up_to (S (ps_next st)) o st target site <> OutOfFuel.
Proof. exact BlocksTotal4FuelFin.finalize_up_to_fuel. Qed.
Print Assumptions Blocks_total_partial_fuel_finalize_up_to.

Theorem Blocks_total_partial_fuel_add_child : forall o st parent v col,
  BlocksTotal2Tree.W o st -> add_child o st parent v col <> OutOfFuel.
Proof. exact BlocksTotal4FuelFin.add_child_fuel. Qed.
Print Assumptions Blocks_total_partial_fuel_add_child.

Theorem Blocks_total_partial_fuel_finalize_document : forall o st,
  BlocksTotal2Tree.W o st -> finalize_document o st <> OutOfFuel.
Proof. exact BlocksTotal4FuelFin.finalize_document_fuel. Qed.
Print Assumptions Blocks_total_partial_fuel_finalize_document.

Theorem Blocks_total_partial_fuel_add_text_to_container : forall o st c lmc line,
  BlocksTotal2Tree.W o st -> add_text_to_container o st c lmc line <> OutOfFuel.
Proof. exact BlocksTotal4FuelText.add_text_to_container_fuel. Qed.
Print Assumptions Blocks_total_partial_fuel_add_text_to_container.

Theorem Blocks_total_partial_fuel_front_matter_prologue : forall o st s,
  BlocksTotal2Tree.W o st -> front_matter_prologue o st s <> OutOfFuel.
Proof. exact BlocksTotal4FuelText.front_matter_prologue_fuel. Qed.
Print Assumptions Blocks_total_partial_fuel_front_matter_prologue.

(* step 4 (Proofs/BlocksTotal4Spine.v): the open-spine invariant, EVALUATED (not proved).  The candidate of the third
   round (`self.current and its ancestors are open, each is the last child of its parent, every other open node is a
   TableRow / TableCell`) is FALSE between lines: Blocks_total_spine_candidate_refuted gives four documents — a
   description list (`t` / `: d`: the DescriptionTerm and the paragraph moved under it stay open for ever), a
   multiline block quote and a multiline alert (the paragraph under the closed BlockQuote stays open: only the last
   child of the quote and the quote are finalized), and a table with a preface paragraph (built with Ast::new, never
   finalized).  None of them leads to a Panic; the nodes are never finalized in comrak either (harness op `blocks`
   shows them open at the end).  With every extension off the candidate holds on the whole corpus.
   CORRECTED invariant between lines (spine_ok2), which holds after every line of 88 hand-written and 400 generated
   documents under five option sets (Blocks_total_spine_corrected_on_corpus; 7000 more documents evaluated outside
   the build): self.current is in the tree; it and all its ancestors are open; each is the last child of its parent;
   every open node ALL of whose ancestors are open and which lies on the right edge of the tree is on that spine or is
   a TableRow / TableCell.  Inside a line, at the entry of open_new_blocks (P1): the last matched container is in the
   tree, the chain root..last_matched_container is open and consists of last children, it is self.current or an
   ancestor of it; at the head of every iteration of open_new_blocks and at the entry of add_text_to_container (P2):
   the chain root..container is open, container is on the right edge, self.current = last_matched_container or the
   path below last_matched_container down to self.current is open, no node finalize_up_to will close is container or
   an ancestor of it.  For mod.rs:add_child:self.finalize(parent).unwrap(): the Document accepts every kind add_child
   is called with except Item, and an Item is only added under a List (document_accepts_add_child_kinds). *)
From V Require Proofs.BlocksTotal4Spine Gen.Nodes.

Theorem Blocks_total_spine_candidate_refuted :
  BlocksTotal4Spine.run_doc BlocksTotal4Spine.o_all_ng BlocksTotal4Spine.spine_ok BlocksTotal4Spine.doc_desc = BlocksTotal4Spine.FailLine 2 /\
  BlocksTotal4Spine.run_doc BlocksTotal4Spine.o_all_ng BlocksTotal4Spine.spine_ok BlocksTotal4Spine.doc_mbq = BlocksTotal4Spine.FailLine 3 /\
  BlocksTotal4Spine.run_doc BlocksTotal4Spine.o_all_ng BlocksTotal4Spine.spine_ok BlocksTotal4Spine.doc_alert = BlocksTotal4Spine.FailLine 3 /\
  BlocksTotal4Spine.run_doc BlocksTotal4Spine.o_tab BlocksTotal4Spine.spine_ok BlocksTotal4Spine.doc_preface = BlocksTotal4Spine.FailLine 3.
Proof.
  exact (conj (proj1 BlocksTotal4Spine.candidate_refuted_description_list)
        (conj (proj1 BlocksTotal4Spine.candidate_refuted_multiline_block_quote)
        (conj (proj1 BlocksTotal4Spine.candidate_refuted_multiline_alert)
              (proj1 BlocksTotal4Spine.candidate_refuted_table_preface)))).
Qed.
Print Assumptions Blocks_total_spine_candidate_refuted.

Theorem Blocks_total_spine_corrected_on_corpus :
  BlocksTotal4Spine.failures BlocksTotal4Spine.o_all BlocksTotal4Spine.spine_ok2 BlocksTotal4Spine.hand_corpus = [] /\
  BlocksTotal4Spine.failures BlocksTotal4Spine.o_all_ng BlocksTotal4Spine.spine_ok2 BlocksTotal4Spine.hand_corpus = [] /\
  BlocksTotal4Spine.failures BlocksTotal4Spine.o_tab BlocksTotal4Spine.spine_ok2 BlocksTotal4Spine.hand_corpus = [] /\
  BlocksTotal4Spine.failures BlocksTotal4Spine.o_none BlocksTotal4Spine.spine_ok2 BlocksTotal4Spine.hand_corpus = [] /\
  BlocksTotal4Spine.failures BlocksTotal4Spine.o_all BlocksTotal4Spine.spine_ok2 BlocksTotal4Spine.gen_corpus = [] /\
  BlocksTotal4Spine.failures BlocksTotal4Spine.o_all_ng BlocksTotal4Spine.spine_ok2 BlocksTotal4Spine.gen_corpus = [] /\
  BlocksTotal4Spine.failures BlocksTotal4Spine.o_all_fm BlocksTotal4Spine.spine_ok2 BlocksTotal4Spine.gen_corpus = [].
Proof.
  exact (conj BlocksTotal4Spine.corrected_hand_all (conj BlocksTotal4Spine.corrected_hand_all_ng
        (conj BlocksTotal4Spine.corrected_hand_tab (conj BlocksTotal4Spine.corrected_hand_none
        (conj BlocksTotal4Spine.corrected_gen_all (conj BlocksTotal4Spine.corrected_gen_all_ng
              BlocksTotal4Spine.corrected_gen_all_fm)))))).
Qed.
Print Assumptions Blocks_total_spine_corrected_on_corpus.

Theorem Blocks_total_document_accepts_add_child_kinds :
  forallb (V.Gen.Nodes.can_contain KDocument) BlocksTotal4Spine.add_child_kinds = true.
Proof. exact BlocksTotal4Spine.document_accepts_add_child_kinds. Qed.
Print Assumptions Blocks_total_document_accepts_add_child_kinds.

(* ---- totality, fifth round (Proofs/BlocksTotal5*.v).
   Step 1 (Proofs/BlocksTotal5Fuel.v, FuelDesc.v, Adv.v, Loop.v): FUEL.  The last loop without a bound,
   open_new_blocks_loop (fuel 2 |L| + 8), is bounded: every iteration that goes on moved the offset forward by at least
   one byte (lower bounds of the scanners, Proofs/BlocksTotal4Scan.v) or opened an html block without consuming
   anything, after which the loop stops at once (Blocks_total_partial_open_new_blocks_step_advances); the table case
   Some((container, false, _)) never goes on, its container is a paragraph.  parse_desc_list_details /
   handle_description_list and the other handlers are bounded under the tree invariant W.  Three walks of the same
   computation are combined (tree walk `safe`, cursor walk `sg (but cur_sites)`, fuel walk `sg (every site) false`).
   Not pinned (the check compiles this file on every run): BlocksTotal5Loop.process_line_no_fuel, open_new_blocks_no_fuel,
   BlocksTotal5FuelDesc.nf_parse_desc_list_details / nf_handle_description_list (under the invariant J of the handlers).
   RESULT, for EVERY input byte string (valid UTF-8 or not) and EVERY option set: parse_blocks never answers OutOfFuel
   (Blocks_total_partial_no_fuel); so `parse_blocks o x` is Ok or a Panic at a site outside the 76 excluded ones. *)
From V Require Proofs.BlocksTotal5Fuel Proofs.BlocksTotal5FuelDesc Proofs.BlocksTotal5Adv Proofs.BlocksTotal5Loop.

Theorem Blocks_total_partial_no_fuel : forall o x, parse_blocks o x <> OutOfFuel.
Proof. exact BlocksTotal5Loop.parse_blocks_no_fuel. Qed.
Print Assumptions Blocks_total_partial_no_fuel.



(* one iteration of open_new_blocks from a state with the handlers' invariant J and the cursor inside the line: it
   does not run out of fuel, and when it goes on the offset has moved forward, or has not moved back and the container
   handed on is a code / html block *)
Theorem Blocks_total_partial_open_new_blocks_step_advances : forall o lmc cur0 line st c am ml d go c1 s1,
  lf_terminated line -> BlocksTotal2Walk.J o lmc cur0 st c -> BlocksTotal4Walk.C1 line st ->
  open_new_blocks_step o st c line am ml d <> OutOfFuel /\
  (open_new_blocks_step o st c line am ml d = Ok (go, c1, s1) -> go = true ->
   c_offset (ps_cur st) < c_offset (ps_cur s1)
   \/ (c_offset (ps_cur st) <= c_offset (ps_cur s1) /\ forall n, get s1 c1 = Ok n -> is_code_or_html n = true)).
Proof.
  intros o lmc cur0 line st c am ml d go c1 s1 LN Jc C.
  pose proof (BlocksTotal5Loop.step_adv o lmc cur0 line LN st c am ml d Jc C) as S. split.
  - eapply BlocksTotal4Safe.sg_no_fuel. exact S.
  - intros E. rewrite E in S. exact S.
Qed.
Print Assumptions Blocks_total_partial_open_new_blocks_step_advances.


(* Step 2 (Proofs/BlocksTotal5Only.v): the list of what REMAINS, as a theorem.  An `only` walk (al = only (tree_sites ++
   cur_sites ++ rem_sites)) of the whole parse, without any invariant: every Panic literal of the model is in that list
   (checked at each occurrence) or belongs to a leaf function that is total for all arguments (trim / ltrim / rtrim,
   unescape + shift_buf_left, unescape_html, manual_scan_link_url, table.rs row).  Intersected with the tree walk, the
   cursor walk and the fuel walk: for EVERY input byte string and EVERY option set parse_blocks answers Ok, or Panic
   at one of the 35 sites of rem_sites (pinned verbatim below), never OutOfFuel.  Two sites are excluded by a local
   argument inside this walk: strings.rs:clean_title:title[1..title_len - 1] (clean_title panics on a title of length 1:
   StrLeaf_clean_title_refuted; its only caller in the block phase, parse_reference_inline, hands it the empty title or
   a scan_link_title match, at least 2 bytes) and strings.rs:line_at:bytes[end..] (split_off_front_matter starts line_at
   at 0 and then at the `next` of the line before, which is inside the string). *)
From V Require Proofs.BlocksTotal5Only.
(* sixth round: required HERE, not next to its theorems at the end of the file, because coqdep stops seeing `Require`
   after the string "..peek_char_n:assert!(" + "*c > 0)" of the list below (it takes the two characters for a comment
   opener), and the build would lose the dependency of this file on the files of the sixth round *)
From V Require Proofs.BlocksTotal6Row Proofs.BlocksTotal6Pos Proofs.BlocksTotal6Val Proofs.BlocksTotal6ValWalk Proofs.BlocksTotal6.
From V Require Proofs.BlocksTotal7Add Proofs.BlocksTotal7ContWalk Proofs.BlocksTotal7Atx Proofs.BlocksTotal7CodeFin Proofs.BlocksTotal7CodeWalk Proofs.BlocksTotal7Fm Proofs.BlocksTotal7Loc Proofs.BlocksTotal7Cur Proofs.BlocksTotal7.

Theorem Blocks_total_remaining_sites_list :
  BlocksTotal5Only.rem_sites =
  [ "mod.rs:finalize_borrowed:assert!(ast.open)";
    "mod.rs:add_line:assert!(ast.open)";
    "mod.rs:add_text_to_container:self.finalize(self.current).unwrap()";
    "mod.rs:add_child:self.finalize(parent).unwrap()";
    "mod.rs:add_line:str::from_utf8(&line[self.offset..]).unwrap()";
    "mod.rs:handle_alert:String::from_utf8(tmp).unwrap()";
    "mod.rs:handle_footnote:str::from_utf8(c).unwrap()";
    "mod.rs:finalize_borrowed:String::from_utf8(tmp).unwrap()";
    "mod.rs:resolve_reference_link_definitions:content[seeked..]";
    "inlines.rs:link_label:str::from_utf8(raw_label).unwrap()";
    "mod.rs:parse_reference_inline:String::from_utf8(clean_url).unwrap()";
    "mod.rs:parse_reference_inline:String::from_utf8(clean_title).unwrap()";
    "table.rs:try_inserting_table_header_paragraph:String::from_utf8(paragraph_content).unwrap()";
    "strings.rs:split_off_front_matter:slice_from";
    "strings.rs:split_off_front_matter:slice_to";
    "strings.rs:line_at:slice";
    "mod.rs:add_child:assert!(start_column > 0)";
    "mod.rs:parse_html_block_prefix:unreachable!()";
    "mod.rs:finalize_borrowed:self.line_number - 1";
    "mod.rs:finalize_borrowed:assert!(pos < content.len())";
    "mod.rs:finalize_borrowed:content.as_bytes()[pos]";
    "table.rs:try_inserting_table_header_paragraph:content[..paragraph_offset]";
    "table.rs:try_inserting_table_header_paragraph:container_ast.line_offsets[n]";
    "table.rs:try_inserting_table_header_paragraph:start.line + newlines - 1";
    "table.rs:try_opening_header:start.column + cell.start_offset - header_row.paragraph_offset";
    "table.rs:try_opening_header:cell.end_offset - header_row.paragraph_offset";
    "table.rs:try_opening_header:start.column + cell.start_offset - 1";
    "table.rs:try_opening_header:.. + cell.internal_offset - header_row.paragraph_offset";
    "table.rs:try_opening_header:content.len() - 2";
    "table.rs:try_opening_header:content.len() - 2 - header_row.paragraph_offset";
    "table.rs:try_opening_row:sourcepos.start.column + cell.start_offset - 1";
    "inlines.rs:peek_char_n:assert!(*c > 0)";
    "strings.rs:remove_trailing_blank_lines:line.len() - 1";
    "strings.rs:chop_trailing_hashtags:line.len() - 1";
    "strings.rs:chop_trailing_hashtags:line[n]" ].
Proof. reflexivity. Qed.
Print Assumptions Blocks_total_remaining_sites_list.

(* the sites this round adds to the 76 of Blocks_total_partial_sites_all *)
Theorem Blocks_total_new_sites_list :
  BlocksTotal5Only.new_sites =
  [ "strings.rs:ltrim:line.len() - spaces";
    "strings.rs:rtrim:line.len() - spaces";
    "strings.rs:unescape:prev + 1 - found";
    "strings.rs:unescape:window slice";
    "strings.rs:unescape:v.len() - found";
    "strings.rs:shift_buf_left:assert n <= buf.len()";
    "entity.rs:unescape:hex digit - 9";
    "inlines.rs:manual_scan_link_url:input[1..i - 1]";
    "strings.rs:clean_title:title[1..title_len - 1]";
    "strings.rs:line_at:bytes[end..]" ].
Proof. reflexivity. Qed.
Print Assumptions Blocks_total_new_sites_list.

(* 11 tree + 65 cursor + 10 sites: unreachable for every input byte string and every option set *)
Theorem Blocks_total_partial_sites_all5 : forall o x s,
  In s (BlocksTotal2Safe.tree_sites ++ BlocksTotal4Frame.cur_sites ++ BlocksTotal5Only.new_sites) -> parse_blocks o x <> Panic s.
Proof. exact BlocksTotal5Only.parse_blocks_no_panic_all5. Qed.
Print Assumptions Blocks_total_partial_sites_all5.

Theorem Blocks_total_partial_ok_or_remaining : forall o x,
  (exists r, parse_blocks o x = Ok r) \/ (exists s, parse_blocks o x = Panic s /\ In s BlocksTotal5Only.rem_sites).
Proof. exact BlocksTotal5Only.parse_blocks_ok_or_rem. Qed.
Print Assumptions Blocks_total_partial_ok_or_remaining.

(* ---- state after the fifth round.  PROVED for the whole parse_blocks, EVERY input byte string (valid UTF-8 or not),
   EVERY option set: no OutOfFuel; 76 + 10 Panic sites unreachable (tree_sites, cur_sites, the sites of the leaf
   functions that are total for all arguments: strings.rs ltrim / rtrim (2), unescape (3) with shift_buf_left (1),
   entity.rs:unescape:hex digit - 9, inlines.rs:manual_scan_link_url:input[1..i - 1], and by a local argument
   strings.rs:clean_title:title[1..title_len - 1] and strings.rs:line_at:bytes[end..]; strings.rs:normalize_code:r[0] is
   not called by the block phase); any Panic is at one of the 35 sites of rem_sites.
   REMAINING for Blocks_total_full_statement = exactly rem_sites.  What excludes each of them (read off the model; NOT
   proved unless said), so that a later round can pick one family, prove its own `sg (but L) ..` walk and intersect:
     open spine (4)   finalize_borrowed:assert!(ast.open), add_line:assert!(ast.open),
                      add_text_to_container:self.finalize(self.current).unwrap(): spine_ok2 between lines with P1 / P2
                      inside a line (comment of the fourth round).
                      add_child:self.finalize(parent).unwrap() needs NO spine: finalize answers the parent computed
                      before it closes the node, so None means `parent` has no parent, i.e. (W) it is the root, a
                      Document; the Document accepts every kind add_child is called with
                      (Blocks_total_document_accepts_add_child_kinds) except Item, DescriptionItem, DescriptionTerm,
                      DescriptionDetails, and those four are added under a node that accepts them at once (the List
                      handle_list has just created or matched; the DescriptionList created / reopened, the parent of a
                      DescriptionItem — SV —, the DescriptionItem just created): walk = handlers with J + the kind of the
                      node add_child has just created (BlocksTotal4Atx.add_child_gen_get); the expensive part is
                      parse_desc_list_details (kinds through reopen_ast_nodes / set_start).
     state (1)        finalize_borrowed:self.line_number - 1: `ps_curline_len st = 0 \/ 1 <= ps_line_number st`; the two
                      fields are written by process_line and the front matter prologue only (every other function is a
                      frame for them; Proofs/BlocksTotal4Frame.v has the frame lemmas KC for cursor + curline_len).
     tree values      add_child:assert!(start_column > 0): every call of add_child passes S _ or 1; the table callers
                      pass start columns read from the tree: invariant `every node has bi_sc >= 1` + row facts
                      (cell.start_offset >= paragraph_offset: cell_start_loop stops at paragraph_offset).
                      parse_html_block_prefix:unreachable!(): every HtmlBlock in the tree has block type 1..7
                      (scan_html_block_start answers 1..6, scan_html_block_start_7 answers 7; `matched mod 256`).
                      finalize_borrowed:assert!(pos < content.len()), content.as_bytes()[pos]: every fenced CodeBlock
                      in the tree other than the container just created has a content that contains LF and no CR (the
                      opening line is added by add_text_to_container before anything can finalize the block: the new
                      node is a leaf and is not self.current, so finalize_up_to does not meet it).
                      table.rs try_inserting_table_header_paragraph (content[..paragraph_offset], line_offsets[n],
                      start.line + newlines - 1), try_opening_header (content.len() - 2 [- paragraph_offset], cell
                      arithmetic), try_opening_row (cell arithmetic): paragraph content ends with LF (so
                      paragraph_offset + 2 <= |content| when row answers Some: without the final LF the model panics,
                      e.g. content x LF a), |line_offsets| = number of lines of content, bi_sl >= 1, bi_sc >= 1, and
                      facts about `row` (offsets of the cells inside the string).
                      inlines.rs:peek_char_n (the assert c > 0): paragraph content is NUL-free (feed replaces NUL).
     refuted leaves   remove_trailing_blank_lines (panics on the empty string only): called on the front matter (not
                      empty: it contains the delimiter) and on the content of an indented code block at finalize (not
                      empty once its first line is added: same window argument as for fenced blocks).
                      chop_trailing_hashtags (panics iff every byte of the line is space / tab / CR / LF): called by
                      add_text_to_container on the WHOLE line when the container is an ATX heading and the rest is
                      not blank; an ATX heading is a container only on the line that opened it (check_open_blocks
                      never matches a Heading), and that line contains its # — needs `container is an ATX heading ->
                      opened by this line` through open_new_blocks; when first_nonspace < |line| it is local (the byte
                      at first_nonspace is neither space, tab nor a line end); the case offset = |line| (the ATX
                      scanner consumed the LF) is the one that needs the #.
                      clean_title: DONE in this round (local to parse_reference_inline).
                      A site with a LOCAL argument (true for all arguments of the function that contains it or of
                      its only caller) is removed inside Proofs/BlocksTotal5Only.v itself, no new walk: done for
                      clean_title and line_at:bytes[end..]; candidates: content[..paragraph_offset] (row answers
                      paragraph_offset <= |s|), remove_trailing_blank_lines on the front matter.
     UTF-8 (12)       add_line, handle_alert, handle_footnote, finalize_borrowed (info string), content[seeked..],
                      link_label, clean_url / clean_title, try_inserting_table_header_paragraph, the three
                      char-boundary slices of strings.rs front matter: boundary invariant on valid UTF-8 input (the
                      offset and every stored slice boundary is a char boundary; Blocks_total_utf8_suffix_partial and
                      at_boundary give the four sufficient conditions).  These are the only sites that need the
                      premise utf8_valid x of Blocks_total_full_statement (Blocks_total_needs_utf8).
   A `but L` walk has to restate a lemma for every function between the site and parse_blocks (the allowed set is part
   of the statement); Proofs/BlocksTotal5Only.v is the complete list of those functions with scripts that need no
   invariant (copy it with the new allowed set; only the functions that reach a site of L need a premise). *)

(* ---- totality, sixth round (Proofs/BlocksTotal6*.v).
   Walk 1 (Proofs/BlocksTotal6Pos.v, `but pos_sites`): NINE sites excluded, for EVERY input byte string and EVERY option
   set.  The walk takes its invariant from the Ok-path lemmas of Proofs/BlocksPos.v (PIL: the line counter is L, every
   node has 1 <= start line and 1 <= start column) instead of re-proving it: only the no-panic half is redone (tactic
   `sat` derives PIL of every intermediate state from `f .. = Ok (.., st') -> PIL st -> PIL st'`).
     mod.rs:finalize_borrowed:self.line_number - 1     evaluated only when curline_len <> 0, i.e. inside process_line,
                                                       which adds 1 to the line counter first; curline_len = 0 in the
                                                       prologue and in finalize_document (frame lemmas KC)
     mod.rs:add_child:assert!(start_column > 0)        every caller passes S _ or 1, or (table.rs) a column made of the
                                                       start column of a node of the tree and the offsets of a cell
     table.rs:try_inserting_..:start.line + newlines - 1, try_opening_header / try_opening_row:start.column +
       cell.start_offset - 1                           1 <= start line / column of the container
     table.rs:try_inserting_..:content[..paragraph_offset], try_opening_header: the three subtractions of
       header_row.paragraph_offset                     what `row` ANSWERS (Proofs/BlocksTotal6Row.v, pinned below):
                                                       paragraph_offset <= |string|, <= start_offset and <= end_offset
                                                       of every cell — for every byte string
   Walk 2 (Proofs/BlocksTotal6ValWalk.v, `but val_sites`): FOUR more sites, same scheme, with the Ok-path invariant of
   Proofs/BlocksTotal6Val.v (pinned below as Blocks_total_partial_stored_values): every HtmlBlock of the tree has block
   type 1..7 (what the two opener scanners answer; finalize keeps it), every Paragraph has a NUL-free content and at
   least as many line_offsets as its content has LF bytes — through every function of the block phase, for every input
   (the lines are NUL-free and have one LF: FeedProofs.lines_clean).
     mod.rs:parse_html_block_prefix:unreachable!()     block type 1..7
     inlines.rs:peek_char_n (the assert c > 0)         parse_reference_inline runs on the content of a Paragraph
     table.rs:try_inserting_..:line_offsets[n]         newlines of the preface <= LF bytes of the content <= |line_offsets|
     strings.rs:chop_trailing_hashtags:line[n]         LOCAL (n = |line| - 1 - hashes and hashes < |line|)
   RESULT: parse_blocks o x is Ok or a Panic at one of the 22 sites of rem_sites6. *)
(* (the files of this round are required above, before Blocks_total_remaining_sites_list: see the note there) *)

Theorem Blocks_total_remaining_sites_list6 :
  BlocksTotal6.rem_sites6 =
  [ "mod.rs:finalize_borrowed:assert!(ast.open)";
    "mod.rs:add_line:assert!(ast.open)";
    "mod.rs:add_text_to_container:self.finalize(self.current).unwrap()";
    "mod.rs:add_child:self.finalize(parent).unwrap()";
    "mod.rs:add_line:str::from_utf8(&line[self.offset..]).unwrap()";
    "mod.rs:handle_alert:String::from_utf8(tmp).unwrap()";
    "mod.rs:handle_footnote:str::from_utf8(c).unwrap()";
    "mod.rs:finalize_borrowed:String::from_utf8(tmp).unwrap()";
    "mod.rs:resolve_reference_link_definitions:content[seeked..]";
    "inlines.rs:link_label:str::from_utf8(raw_label).unwrap()";
    "mod.rs:parse_reference_inline:String::from_utf8(clean_url).unwrap()";
    "mod.rs:parse_reference_inline:String::from_utf8(clean_title).unwrap()";
    "table.rs:try_inserting_table_header_paragraph:String::from_utf8(paragraph_content).unwrap()";
    "strings.rs:split_off_front_matter:slice_from";
    "strings.rs:split_off_front_matter:slice_to";
    "strings.rs:line_at:slice";
    "mod.rs:finalize_borrowed:assert!(pos < content.len())";
    "mod.rs:finalize_borrowed:content.as_bytes()[pos]";
    "table.rs:try_opening_header:content.len() - 2";
    "table.rs:try_opening_header:content.len() - 2 - header_row.paragraph_offset";
    "strings.rs:remove_trailing_blank_lines:line.len() - 1";
    "strings.rs:chop_trailing_hashtags:line.len() - 1" ].
Proof. vm_compute. reflexivity. Qed.
Print Assumptions Blocks_total_remaining_sites_list6.

Theorem Blocks_total_partial_ok_or_remaining6 : forall o x,
  (exists r, parse_blocks o x = Ok r) \/ (exists s, parse_blocks o x = Panic s /\ In s BlocksTotal6.rem_sites6).
Proof. exact BlocksTotal6.parse_blocks_ok_or_rem6. Qed.
Print Assumptions Blocks_total_partial_ok_or_remaining6.

(* what table.rs `row` answers, for every byte string *)
Theorem Blocks_total_partial_row_answers : forall s sp po cells,
  row s sp = Ok (Some (po, cells)) ->
  po <= List.length s /\ Forall (fun c => po <= ce_start c /\ po <= ce_end c) cells.
Proof. exact BlocksTotal6Row.row_facts. Qed.
Print Assumptions Blocks_total_partial_row_answers.

(* stored values of the tree the block phase answers, for every input and every option set *)
Theorem Blocks_total_partial_stored_values : forall o x r,
  parse_blocks o x = Ok r -> BlocksPos.all_info BlocksTotal6Val.Qn (br_root r).
Proof. exact BlocksTotal6Val.parse_blocks_val. Qed.
Print Assumptions Blocks_total_partial_stored_values.

(* ---- state after the sixth round.  PROVED for the whole parse_blocks, EVERY input byte string (valid UTF-8 or not),
   EVERY option set: no OutOfFuel; any Panic is at one of the 22 sites of rem_sites6 (Blocks_total_remaining_sites_list6).
   REMAINING for Blocks_total_full_statement = exactly rem_sites6:
     open spine (3)   finalize_borrowed:assert!(ast.open), add_line:assert!(ast.open),
                      add_text_to_container:self.finalize(self.current).unwrap(): spine_ok2 with P1 / P2 (fourth round).
     W + kinds (1)    add_child:self.finalize(parent).unwrap(): see the comment of the fifth round (needs W and the kind of
                      the node add_child has just created; NOT the spine).
     UTF-8 (12)       unchanged (boundary invariant on valid UTF-8 input).
     stored values (4 + 1)
                      finalize_borrowed:assert!(pos < content.len()), content.as_bytes()[pos]: a fenced CodeBlock has a
                      content with a line end once its opening line is added (window between add_child and add_line).
                      try_opening_header:content.len() - 2 [- paragraph_offset]: the content of a Paragraph ends with LF
                      and, when `row` answers Some (po, cells), po + 2 <= |content| (one more fact about `row`, next to
                      Blocks_total_partial_row_answers: after a row end at least one cell byte and the final LF follow).
                      remove_trailing_blank_lines: front matter not empty (local), indented code content not empty.
     chop_trailing_hashtags:line.len() - 1 (1)   the ATX line contains its #; needs the cursor invariant F0 at
                      add_text_to_container and `container is an ATX heading -> opened by this line`.
   HOW the two walks of this round are made (cheap; reuse for the clauses above): an Ok-path invariant
   `f .. = Ok (.., st') -> Inv st -> Inv st'` for every function (Proofs/BlocksPos.v, Proofs/BlocksTotal6Val.v: the
   generic lemmas about all_info are shared; a new clause about val / content / line_offsets costs a few lines in
   finalize, add_line, handle_setext_heading and the table functions), then a copy of Proofs/BlocksTotal6ValWalk.v with
   the new list: only the functions that contain a site of the list change.  Make the state invariant an Inductive
   (QI), not a Definition: with a Definition `apply QI_st_refmap` unifies with every goal and loops.
   NOTE for the build: coqdep does not see any `Require` placed after Blocks_total_remaining_sites_list (the string of
   the peek_char_n site contains the two characters of a comment opener); new files must be required before it. *)

(* ---- totality, seventh round (Proofs/BlocksTotal7*.v; the files are required above, before
   Blocks_total_remaining_sites_list: see the note there).  One `but <sites>` walk per family, each a copy of the `only`
   walk of Proofs/BlocksTotal5Only.v (or of Proofs/BlocksTotal6ValWalk.v when the stored-value invariant QI is needed)
   with the new allowed set; only the functions between the sites and parse_blocks carry an invariant, taken from
   Ok-path lemmas.  Proofs/BlocksTotal7.v intersects them with the result of the sixth round.
   For EVERY input byte string and EVERY option set:
     BlocksTotal7Add       mod.rs:add_child:self.finalize(parent).unwrap().  finalize answers the parent the node had
                           before it is closed (finalize_parent), so None means that `parent` has no parent, i.e. it is
                           the root (no_parent_root: BlocksTotal2Tree.parent_some, no uniqueness needed), and the root is
                           a Document (NI, first clause of the shape invariant TI of Proofs/ParserShapeTables.v).  The
                           Document accepts every kind add_child is called with except Item
                           (Blocks_total_document_accepts_add_child_kinds: the description-list kinds ARE accepted); the
                           Item of handle_list goes under the List that matched or the List just created
                           (add_child_gen_new: the node add_child has created is the node its identifier denotes; needs
                           the pairwise distinct identifiers of the RESULT state only, from the Ok-path lemmas of TI).
     BlocksTotal7Cont, BlocksTotal7ContWalk   SIX UTF-8 sites that depend on stored content only, WITHOUT the premise
                           utf8_valid x: on the Ok path every Paragraph content and every fenced code content / literal is
                           valid UTF-8 (parse_blocks_cont: add_line appends bytes that from_utf8 has CHECKED — when the
                           check fails the parse panics at an allowed site — and spaces; the other writers take checked
                           suffixes, trims, prefixes cut at a checked boundary).
                             mod.rs:resolve_reference_link_definitions:content[seeked..], inlines.rs:link_label: a
                               reference definition ends inside the content at its end or after an ASCII CR / LF; the label
                               lies between ASCII brackets
                             mod.rs:parse_reference_inline: from_utf8(clean_url), from_utf8(clean_title): slices cut at
                               ASCII bytes (every match of the link_title scanner ends with an ASCII byte), then trim,
                               entity decoding, unescape keep validity
                             mod.rs:finalize_borrowed:String::from_utf8(tmp): info string = prefix of the content before an
                               ASCII line end, then the same three
                             table.rs:try_inserting_table_header_paragraph:String::from_utf8(paragraph_content): the
                               paragraph offset `row` answers is 0 or follows an ASCII byte (the row end scanner matches
                               ASCII only), unescape_pipes keeps validity
     BlocksTotal7AtxInv, BlocksTotal7Atx   strings.rs:chop_trailing_hashtags:line.len() - 1 (panics iff every byte of its
                           argument is white space).  Its only caller hands it the WHOLE line when the container is an ATX
                           heading.  Case split on the line: when it contains # the call is safe outright
                           (rtrim_slice_nonempty); when it does not, handle_atx_heading cannot answer handled
                           (position_hash would answer None), and no other node with the identifier of the container is an
                           ATX heading: the frame invariant PI c (no node with identifier c is an ATX heading) holds for
                           the last matched container (check_open_blocks_lmc: the root, a node that matched, or a node
                           with a child — SV, ball), for fresh identifiers (PI_fresh) and is kept by every function
     BlocksTotal7Code*     mod.rs:finalize_borrowed:assert!(pos < content.len()) and content.as_bytes()[pos] (both idx):
                           an OPEN fenced code block has a content with a line end, and a CR found there is not the last
                           byte (lend_ok: stable when the content grows at the end; lines are l ++ LF without CR inside),
                           EXCEPT the block handle_code_fence has just created, until add_text_to_container adds the rest
                           of the opening line in the same process_line call (the cursor is inside the line:
                           handle_code_fence_cursor, local).  Invariant CX e: every node but the exception e satisfies it
                           (None between lines); while the exception is active only finalize_up_to finalizes, on
                           self.current and its parents: a parent is not a CodeBlock (SV + TI), and self.current / the
                           last matched container are older identifiers than the new block (FR: below ps_next at the entry
                           of open_new_blocks), which also rules out the lazy branch and the `self.current changed` branch
   Under utf8_valid x = true (the lines handed to process_line and the text after a front matter block are then valid
   UTF-8: Blocks_total_lines_partial, BlocksTotal7Loc.prologue_rest_valid):
     BlocksTotal7Fm        the three char-boundary slices of strings.rs front matter (split_off_front_matter:slice_from,
                           slice_to, line_at:slice): every offset is 0, the length, the position of an ASCII line end or
                           the position after one (BP, boundary_valid); no premise on the delimiter
     BlocksTotal7Loc       mod.rs:handle_alert:String::from_utf8(tmp): the title is the line after the ASCII `]` that
                           alert_title_loop found; mod.rs:handle_footnote:str::from_utf8(c): a footnote match is
                           `[^` label `]:` .. with an ASCII-delimited label that contains no `]` (scan_footnote_shape, by
                           inversion of the one regex rule)
     BlocksTotal7Cur*      mod.rs:add_line:str::from_utf8(&line[self.offset..]): the cursor invariant
                           UB line st := the suffix of the line from the offset (and from offset + 1 when a tab is partially
                           consumed) is valid UTF-8, through every function that moves the cursor: moves over ASCII bytes
                           (spaces / tabs in front of first_nonspace: F0 of the fourth round), over scanner matches that end
                           with an ASCII byte or are all ASCII (structural facts over the regex rules:
                           BlocksTotal7CurScan.re_last_ascii / re_ascii, checked by vm_compute per scanner), to the LF or
                           beyond the line; a BOM is one character; for an ATX heading add_line gets the CHOPPED line, a
                           prefix of the line cut in front of an ASCII byte
   RESULT: all twelve UTF-8 sites, the add_child unwrap, chop_trailing_hashtags and the two fenced code sites
   are excluded; on valid UTF-8 input
   parse_blocks is Ok or a Panic at one of the 6 sites of rem_sites7; for every input, Ok or one of the 12 sites of
   rem_sites7_all (= rem_sites7 + the
   six sites that need valid input: add_line, handle_alert, handle_footnote, the three front matter slices). *)

Theorem Blocks_total_remaining_sites_list7 :
  BlocksTotal7.rem_sites7 =
  [ "mod.rs:finalize_borrowed:assert!(ast.open)";
    "mod.rs:add_line:assert!(ast.open)";
    "mod.rs:add_text_to_container:self.finalize(self.current).unwrap()";
    "table.rs:try_opening_header:content.len() - 2";
    "table.rs:try_opening_header:content.len() - 2 - header_row.paragraph_offset";
    "strings.rs:remove_trailing_blank_lines:line.len() - 1" ] /\
  BlocksTotal7.rem_sites7_all =
  [ "mod.rs:finalize_borrowed:assert!(ast.open)";
    "mod.rs:add_line:assert!(ast.open)";
    "mod.rs:add_text_to_container:self.finalize(self.current).unwrap()";
    "mod.rs:add_line:str::from_utf8(&line[self.offset..]).unwrap()";
    "mod.rs:handle_alert:String::from_utf8(tmp).unwrap()";
    "mod.rs:handle_footnote:str::from_utf8(c).unwrap()";
    "strings.rs:split_off_front_matter:slice_from";
    "strings.rs:split_off_front_matter:slice_to";
    "strings.rs:line_at:slice";
    "table.rs:try_opening_header:content.len() - 2";
    "table.rs:try_opening_header:content.len() - 2 - header_row.paragraph_offset";
    "strings.rs:remove_trailing_blank_lines:line.len() - 1" ].
Proof. split; vm_compute; reflexivity. Qed.
Print Assumptions Blocks_total_remaining_sites_list7.

(* valid UTF-8 input: Ok, or a Panic at one of the sites of rem_sites7 *)
Theorem Blocks_total_partial_ok_or_remaining7 : forall o x, utf8_valid x = true ->
  (exists r, parse_blocks o x = Ok r) \/ (exists s, parse_blocks o x = Panic s /\ In s BlocksTotal7.rem_sites7).
Proof. exact BlocksTotal7.parse_blocks_ok_or_rem7. Qed.
Print Assumptions Blocks_total_partial_ok_or_remaining7.

(* EVERY input (valid UTF-8 or not): Ok, or a Panic at one of the sites of rem_sites7_all *)
Theorem Blocks_total_partial_ok_or_remaining7_every_input : forall o x,
  (exists r, parse_blocks o x = Ok r) \/ (exists s, parse_blocks o x = Panic s /\ In s BlocksTotal7.rem_sites7_all).
Proof. exact BlocksTotal7.parse_blocks_ok_or_rem7_all. Qed.
Print Assumptions Blocks_total_partial_ok_or_remaining7_every_input.

(* ---- state after the seventh round.  PROVED for the whole parse_blocks, EVERY option set: no OutOfFuel; on valid UTF-8
   input any Panic is at one of the sites of rem_sites7 (Blocks_total_remaining_sites_list7); no site was found
   reachable (each agent of this round also searched by vm_compute: hundreds of thousands of small documents, no Panic).
   REMAINING for Blocks_total_full_statement = exactly rem_sites7:
     open spine (3)   finalize_borrowed:assert!(ast.open), add_line:assert!(ast.open),
                      add_text_to_container:self.finalize(self.current).unwrap(): spine_ok2 with P1 / P2 (fourth round).
                      PROVED pieces (Proofs/BlocksTotal7SpineLeaf.v, BlocksTotal7Spine.v, not pinned; under W = TI, SV, R0):
                      the invariant as Props over parent_of (anc, OC = open chain up to the root, OS, SEG, Between, P1, P2,
                      ATCH); finalize / add_line / add_child_loop / add_child_gen on an open chain do not panic at the
                      three sites and keep the chain (add_child_loop_spine, add_child_gen_OC); finalize_up_to_spine (from
                      `open strictly below the target`: covers S3); check_open_blocks_spine (from `root open`: the
                      answered container has an open chain); add_text_to_container_spine (from ATCH); finalize_document,
                      the prologue; eleven handlers for every option set; open_new_blocks with tables and description
                      lists OFF.  Missing: the right-edge / walk clauses (last matched container is an ancestor of
                      self.current), a clause about open nodes off the right edge that a detached empty paragraph
                      exposes (DescriptionTerm, table preface), the other clauses of ATCH through the handlers, chain
                      lemmas for parse_desc_list_details (bdetach, reopen_ast_nodes) and the table openers (edit_kids).
     table header (2) try_opening_header:content.len() - 2 [- paragraph_offset].  PROVED pieces (Proofs/BlocksTotal7Hdr.v,
                      BlocksTotal7HdrLocal.v, not pinned): row_po_room (content [] or ending with LF and row answers
                      Some (po, cells) => po + 2 <= |content|), try_inserting_table_header_paragraph keeps the content of
                      the container, ng7h_try_opening_header (the local step).  A per-node clause is FALSE: the preface
                      paragraph try_inserting creates has trimmed content without LF, is open and never finalized
                      (preface_paragraph_refuted); it is never a LAST child (a Table follows it).  Missing: the structural
                      invariant `a Paragraph that is a last child has content [] or ending with LF` (child lists: a bad
                      paragraph is immediately followed by a Table), `the paragraph handed to try_opening_block is a last
                      child` (it is the last matched container, reached through last_child_is_open), and the cursor fact
                      offset < |line| at add_line on a Paragraph.
     indented code (1) strings.rs:remove_trailing_blank_lines:line.len() - 1 (panics on the empty string only).  The
                      front matter call is safe (BlocksTotal7CodeFin.fm_nonempty).  The content of an indented code block
                      at finalize is not empty: same exception scheme as the fenced blocks (restore `content <> []` in
                      code_ok), plus the cursor invariant F1 at handle_code_block (after advance_offset(CODE_INDENT,
                      columns) the offset is before first_nonspace, so add_line appends a non-empty rest): sg_and with
                      handle_code_block_cur of Proofs/BlocksTotal4Open.v.
   The walks of this round are independent files: a new family is one more `but <sites>` walk plus one line in the table
   of Proofs/BlocksTotal7.v. *)
