(* Props/C12.v — Source positions point at the text they claim.
   Only pinned statements.  Level: proof that the slice of a line at the position of one of its pieces is
   that piece (the verbatim clause says what it should and is satisfiable), that make_inline keeps the
   width of what it positions, and the queue theorem behind the positions of split text nodes; the global
   statement `forall x, sp_slice_ok x (parse x)` is NOT proved: it is evaluated on the implementation
   with the extracted predicate (tools/checks/c12.py) and is known to fail in the classes of
   Spec/SourcePosKnown.v. *)
From Coq Require Import List NArith ZArith Bool.
From V Require Import Base.Bytes Base.Res Model.Ast Model.Spx Spec.SourcePos Proofs.SpxProofs Proofs.SourcePosProofs.
Import ListNotations.
From Coq Require Import Strings.String.
Local Open Scope string_scope.
Local Open Scope list_scope.
Local Open Scope N_scope.

Definition C12_full_statement (parse : bytes -> node) (smart : bool) : Prop :=
  forall src, sp_slice_ok src smart (parse src) = true.

(* slicing the line  a ++ lit ++ b  at columns |a|+1 .. |a|+|lit|  returns lit *)
Theorem C12_slice_piece_of_line : forall a lit b, no_nl (a ++ lit ++ b) -> lit <> [] ->
  slice (lines_of (a ++ lit ++ b)) (mkSp 1 (blen a + 1) 1 (blen a + blen lit)) = Some lit.
Proof. exact slice_piece_of_line. Qed.
Print Assumptions C12_slice_piece_of_line.

(* the verbatim clause holds at that position exactly for that literal *)
Theorem C12_verbatim_clause_at_piece : forall a lit b v,
  no_nl (a ++ lit ++ b) -> lit <> [] -> has_special lit = false ->
  slice_clause (lines_of (a ++ lit ++ b)) false
    (Node (Text v) (mkSp 1 (blen a + 1) 1 (blen a + blen lit)) []) = bytes_eqb lit v.
Proof. exact verbatim_clause_at_piece. Qed.
Print Assumptions C12_verbatim_clause_at_piece.

(* make_inline: the columns it computes keep the distance of the byte offsets it was given, start >= 1 *)
Theorem C12_make_inline_width : forall s e co lo, s <= e -> (0 <= Z.of_N s + co + Z.of_N lo)%Z ->
  exists s' e', make_inline_cols s e co lo = Ok (s', e') /\
    Z.of_N s' = (Z.of_N s + 1 + co + Z.of_N lo)%Z /\
    Z.of_N e' = (Z.of_N e + 1 + co + Z.of_N lo)%Z /\
    e' - s' = e - s /\ 1 <= s'.
Proof. exact make_inline_ok. Qed.
Print Assumptions C12_make_inline_width.

(* split text nodes (autolinks, task list markers): the end column returned for `rem` consumed bytes is
   start + rem - 1 when every queued piece is verbatim *)
Theorem C12_spx_consume_verbatim : forall q rem, q <> [] -> Forall verbatim q -> contiguous q -> rem <= total q ->
  exists c q', consume q rem = Ok (c, q') /\
    c + 1 = q_start q + rem /\ q_start q <= c + 1 /\ c <= q_end q.
Proof. exact spx_consume_ok. Qed.
Print Assumptions C12_spx_consume_verbatim.

(* ... and is not defined otherwise: node text that no longer equals its source slice *)
Theorem C12_spx_consume_nonverbatim_refuted :
  exists q rem, q <> [] /\ rem <= total q /\ consume q rem = Panic site_assert.
Proof. exact spx_consume_refuted. Qed.
Print Assumptions C12_spx_consume_nonverbatim_refuted.

(* non-vacuity: the documentation's example passes every slice clause; shifting the emphasis by one
   column (the end-column-off-by-one mutation) breaks it *)
Example C12_example_doc :
  let src := B "Hello *world*!" in
  let t (e : N) := Node Document (mkSp 1 1 1 14)
            [Node Paragraph (mkSp 1 1 1 14)
              [Node (Text (B "Hello ")) (mkSp 1 1 1 6) [];
               Node Emph (mkSp 1 7 1 e) [Node (Text (B "world")) (mkSp 1 8 1 12) []];
               Node (Text (B "!")) (mkSp 1 14 1 14) []]] in
  sp_slice_ok src false (t 13) = true /\ sp_slice_ok src false (t 12) = false /\
  sp_slice_ok src false (t 14) = false.
Proof. vm_compute. repeat split. Qed.

(* a delimited span is delimiter + children + delimiter: three asterisks, a, one asterisk.  The emphasis is
   the third asterisk, a, and the closer (1:3-1:5); the position that ignores how many delimiter characters
   of the opening run stay literal text (1:1-1:5) still starts and ends with an asterisk but is rejected *)
Example C12_example_leftover_delimiters :
  let src := B "***a*" in
  let t (s : N) := Node Document (mkSp 1 1 1 5)
            [Node Paragraph (mkSp 1 1 1 5)
              [Node (Text (B "**")) (mkSp 1 1 1 2) [];
               Node Emph (mkSp 1 s 1 5) [Node (Text (B "a")) (mkSp 1 4 1 4) []]]] in
  sp_slice_ok src false (t 3) = true /\ sp_slice_ok src false (t 1) = false /\ sp_slice_ok src false (t 2) = false.
Proof. vm_compute. repeat split. Qed.
