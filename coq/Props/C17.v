(* Props/C17.v — CommonMark formatting is idempotent: what is PROVED.
   The global statement  cm(parse(cm(parse x))) = cm(parse x)  is NOT proved; tools/checks/c17.py evaluates
   it on the implementation with the classes of known_findings.json.  Pinned here, for ALL inputs:
   canonical spellings that are fixed points of the reader (thematic break, ATX opening for every level and
   every continuation), escaping is stable under one more read-write pass, the normalisations used by the
   comparison are idempotent.  Missing (needs Model/Cm.v + a block parser model): fence choice, list
   renumbering, container prefixes and blank lines. *)
From Coq Require Import List NArith Bool Strings.String.
From V Require Import Base.Bytes Gen.RtOutc Model.Ast Spec.RoundTrip Proofs.RoundTripProofs.
Import ListNotations.
Local Open Scope string_scope.
Local Open Scope list_scope.
Local Open Scope bool_scope.

Definition C17_full_statement : Prop :=
  forall (parse : bytes -> node) (cm : node -> bytes) (x : bytes),
    cm (parse (cm (parse x))) = cm (parse x).
(* not proved and false of the implementation on the classes of known_findings.json (C17-a ...) *)

(* the thematic break cm.rs writes is a thematic break *)
Theorem C17_hr_canonical : is_thematic_break cm_thematic_break = true.
Proof. exact hr_canonical. Qed.
Print Assumptions C17_hr_canonical.

(* the ATX opening cm.rs writes for level 1..6 is read back with the same level, whatever follows *)
Theorem C17_atx_canonical : forall level rest,
  (1 <= level <= 6)%nat -> atx_level (cm_atx_open level ++ rest) = Some level.
Proof. exact atx_canonical. Qed.
Print Assumptions C17_atx_canonical.

(* escaping what was read back from escaped text gives the same bytes: a second pass adds no backslashes *)
Theorem C17_escape_fixed_point : forall t,
  escape_all (unescape_backslashes (escape_all t)) = escape_all t.
Proof. exact escape_unescape_escape. Qed.
Print Assumptions C17_escape_fixed_point.

Theorem C17_strip_idempotent : forall h,
  strip_end_list_comments (strip_end_list_comments h) = strip_end_list_comments h.
Proof. exact strip_idempotent. Qed.
Print Assumptions C17_strip_idempotent.

Theorem C17_collapse_idempotent : forall n,
  collapse_nested_strong (collapse_nested_strong n) = collapse_nested_strong n.
Proof. exact collapse_idempotent. Qed.
Print Assumptions C17_collapse_idempotent.

Example C17_atx_example : atx_level (B "### a # b") = Some 3%nat.
Proof. vm_compute. reflexivity. Qed.
Example C17_hr_not_setext_text : is_thematic_break (B "--") = false.
Proof. vm_compute. reflexivity. Qed.
