(* Props/C05.v — Rendering is a deterministic pure function of input and options.
   The Coq models of the renderers (Model/Html.v, Model/Xml.v) are functions of (options, tree):
   what has to be shown is that the REAL output depends on nothing else.  The only inputs the code
   has beyond (options, tree) are hash seeds (HashMap/HashSet iteration order) and global state.
   Pinned here: (1) every hash-ordered iteration site of src/ is on the audited list and is
   followed by a sort, and the models' outputs do not depend on the order the pairs arrive in;
   (2) there is no global mutable state, clock, RNG or address formatting in src/ (audit).
   Thread interleavings and process runs are observed by the check (ops_det.rs), not proved. *)
From Coq Require Import List NArith Bool Permutation Strings.String.
From V Require Import Base.Bytes Base.Res Model.Ast Model.Html Model.Footnotes Gen.AuditDet
  Proofs.DetProofs Proofs.FootnoteProofs.
Import ListNotations.
Local Open Scope string_scope.

(* code block attributes: any arrival order of the (name, attribute) pairs gives the same tag *)
Theorem C05_code_block_attr_order : forall a b : list (bytes * attr),
  Permutation a b -> NoDup (map (fun x => attr_rank (fst x)) a) ->
  sort_attrs3 a = sort_attrs3 b.
Proof. exact sort_attrs3_perm_invariant. Qed.
Print Assumptions C05_code_block_attr_order.

(* the footnote pass: the order of HashMap::into_values() does not reach the tree *)
Theorem C05_footnote_order : forall (fold pres : bytes -> bytes) (perm1 perm2 : list fdef -> list fdef) root,
  (forall m, Permutation (perm1 m) m) -> (forall m, Permutation (perm2 m) m) ->
  process fold pres perm1 root = process fold pres perm2 root.
Proof. exact sort_perm_indep_process. Qed.
Print Assumptions C05_footnote_order.

(* audit: the hash-ordered iteration sites of src/ are exactly the ones examined: html.rs
   render_code_block (both maps go through sorted_attributes; the two unsorted write_opening_tag
   calls are render_math_code_block's Vecs of the same name; the for-loop is write_opening_tag's own
   loop over its already ordered argument), parser/mod.rs process_footnotes (sorted by ix next line),
   plugins/syntect.rs (collected into a Vec and sorted before use). *)
Theorem C05_audit_hash_sites : hash_iteration_sites =
  [("src/html.rs", "ARG write_opening_tag(context, ""code"", code_attributes)?;");
   ("src/html.rs", "ARG write_opening_tag(context, ""code"", sorted_attributes(code_attributes))?;");
   ("src/html.rs", "ARG write_opening_tag(context, ""pre"", pre_attributes)?;");
   ("src/html.rs", "ARG write_opening_tag(context, ""pre"", sorted_attributes(pre_attributes))?;");
   ("src/html.rs", "for (attr, val) in attributes {");
   ("src/html.rs", "let mut attributes: Vec<(String, String)> = attributes.into_iter().collect();");
   ("src/parser/mod.rs", "let mut v = map.into_values().collect::<Vec<_>>();");
   ("src/plugins/syntect.rs", "ARG html::write_opening_tag(output, ""code"", attributes)");
   ("src/plugins/syntect.rs", "ARG html::write_opening_tag(output, ""pre"", attributes)");
   ("src/plugins/syntect.rs", "let mut attributes: Vec<(String, String)> = attributes.into_iter().collect();");
   ("src/plugins/syntect.rs", "match attributes.iter_mut().find(|(k, _)| k == ""style"") {")].
Proof. reflexivity. Qed.
Print Assumptions C05_audit_hash_sites.

(* audit: no static mut, thread_local, OnceCell/OnceLock, Mutex/RwLock, atomics, clocks, RNG or
   pointer formatting outside the guarded hook code; the single static is a constant table *)
Theorem C05_audit_globals : global_state_sites =
  [("src/html.rs", "static TAGFILTER_BLACKLIST: [&str; 9] = [")].
Proof. reflexivity. Qed.
Print Assumptions C05_audit_globals.

(* non-vacuity: two different arrival orders of three attributes *)
Example C05_attr_order_example :
  let lang := (B "lang", Attr (B "lang") [PEsc (B "rust")]) in
  let meta := (B "data-meta", Attr (B "data-meta") [PEsc (B "x")]) in
  let sp := (B "data-sourcepos", SpAttr (mkSp 1 1 3 3)) in
  sort_attrs3 [lang; meta; sp] = sort_attrs3 [sp; lang; meta] /\
  NoDup (map (fun x => attr_rank (fst x)) [lang; meta; sp]).
Proof. split; [reflexivity | vm_compute; repeat constructor; simpl; intuition discriminate]. Qed.
