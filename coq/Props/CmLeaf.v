(* Props/CmLeaf.v — pinned statements about the CommonMark formatter model (Model/Cm.v, tied to
   src/cm.rs by the correspondence render.cm of tools/checks/cm_tie.py).  Leaves used by C07
   (round trip), C17 (idempotence), C01 (totality) and C06 (output size).
   `is_run l f n` (Spec/CmSpec.v): a MAXIMAL run of exactly n >= 1 bytes f occurs in l. *)
From Coq Require Import List NArith Bool Strings.String.
From V Require Import Base.Bytes Base.Res Model.Ast Model.Cm Spec.CmSpec Spec.EscapeSpec Proofs.CmProofs Proofs.CmTotal Proofs.CmUtf8 Proofs.CmWrite.
Import ListNotations.
Local Open Scope list_scope.

(* 1. shortest_unused_sequence (a set of run lengths since commit 0c5bdf9): total; the result n is
      at least 1, no maximal run of f in the literal has length n, and every smaller positive
      length is the length of some maximal run: n is the SHORTEST unused length *)
Theorem CmLeaf_shortest_unused_spec : forall l f,
  exists r, shortest_unused_sequence l f = Ok r /\
    (1 <= N.to_nat r)%nat /\
    ~ is_run l f (N.to_nat r) /\
    forall k, (1 <= k < N.to_nat r)%nat -> is_run l f k.
Proof. exact shortest_unused_spec. Qed.
Print Assumptions CmLeaf_shortest_unused_spec.

(* 2. longest_char_sequence = the maximum run length (0 iff there is no run) *)
Theorem CmLeaf_longest_char_sequence_spec : forall l ch,
  let r := N.to_nat (longest_char_sequence l ch) in
  (forall n, is_run l ch n -> (n <= r)%nat) /\ (r = 0%nat \/ is_run l ch r).
Proof. exact longest_char_sequence_spec. Qed.
Print Assumptions CmLeaf_longest_char_sequence_spec.

(* 3. code spans: for a non-empty literal the chosen backtick count n is the length of no maximal
      backtick run of the literal, nor of what format_code writes between the delimiters (the
      literal, padded by one space on both sides when `pad`), and that body neither begins nor ends
      with a backtick: the closing delimiter is the first backtick run of length n after the
      opening one *)
Theorem CmLeaf_code_span_delimiter_safe : forall lit,
  lit <> [] ->
  exists n, shortest_unused_sequence lit x60 = Ok n /\ (1 <= N.to_nat n)%nat /\
    ~ is_run lit x60 (N.to_nat n) /\
    ~ is_run (code_body lit) x60 (N.to_nat n) /\
    ~ begins_with_byte (code_body lit) x60 /\ ~ ends_with_byte (code_body lit) x60.
Proof. exact code_span_delimiter_safe. Qed.
Print Assumptions CmLeaf_code_span_delimiter_safe.

(* 4. fenced code blocks: the fence length max(3, longest + 1) exceeds every run of the fence
      character in the literal *)
Theorem CmLeaf_fence_safe : forall literal fc n,
  is_run literal fc n ->
  (n < N.to_nat (fence_length literal fc))%nat /\ (3 <= N.to_nat (fence_length literal fc))%nat.
Proof. exact fence_safe. Qed.
Print Assumptions CmLeaf_fence_safe.

(* the executable run census agrees with the declarative notion (used by the checks) *)
Theorem CmLeaf_has_run_spec : forall l f n, has_run l f n = true <-> is_run l f n.
Proof. exact has_run_spec. Qed.
Print Assumptions CmLeaf_has_run_spec.

(* 5. cm_utf8, for `output` in every escaping mode (Text nodes: Normal; destinations: Url; titles:
      Title; code, HTML, math: Literal), wrap flag on or off, when no line wrapping can happen
      (render.width = 0; Cm.output takes the width as its first argument): if the vector written so far
      is valid UTF-8, the prefix is ASCII and the buffer is valid UTF-8, the vector afterwards is valid
      UTF-8.  What outc inserts (backslash, percent escape, numeric entity), the prefix and the
      pending newlines are ASCII and are inserted only where an ASCII byte of the buffer stands.
      Not covered: width > 0 (the rewrite at last_breakable). *)
Theorem CmLeaf_cm_output_utf8 : forall buf wrap e s,
  utf8_valid (rev (rv s)) = true ->
  forallb is_ascii (rprefix s) = true ->
  utf8_valid buf = true ->
  utf8_valid (rev (rv (output 0%N buf wrap e s))) = true.
Proof. exact cm_output_utf8. Qed.
Print Assumptions CmLeaf_cm_output_utf8.

(* outc by itself: it inserts ASCII bytes only, and only for an ASCII byte *)
Theorem CmLeaf_outc_ascii_only : outc_ok outc.
Proof. exact outc_is_ok. Qed.
Print Assumptions CmLeaf_outc_ascii_only.

(* modelling device justified: write!(self, "a{}b", x) calls `output` once per piece (Literal, no
   wrap); the model performs ONE write_all of the concatenation *)
Theorem CmLeaf_write_all_app : forall width a b s,
  write_all width (a ++ b) s = write_all width b (write_all width a s).
Proof. exact write_all_app. Qed.
Print Assumptions CmLeaf_write_all_app.

(* 6. totality, partial: on trees satisfying the shape clauses K1-K3 of Spec/CmSpec.v (items under
      lists, non-empty code literals, cells under rows / header rows under tables) the model returns
      Ok in RELEASE mode (usize arithmetic wraps), for every option set without
      experimental_minimize_commonmark.  The debug-mode statement (K1-K4) is
      Proofs/CmTotal.v cm_total_debug_full_statement: not proved, evaluated by the check. *)
Theorem CmLeaf_cm_total_partial : forall o root,
  o_experimental_minimize o = false ->
  cm_shape [] None root = true ->
  exists out, format_document o false root = CmOk out.
Proof. exact cm_total_partial. Qed.
Print Assumptions CmLeaf_cm_total_partial.

(* every clause is needed (witness trees; the check replays them on the compiled formatter) *)
Theorem CmLeaf_cm_total_refuted_without_K1 :
  cm_shape [] None w_item_under_document = false /\
  is_panic (format_document cm_opts0 false w_item_under_document) = true /\
  is_panic (format_document cm_opts0 true w_item_under_document) = true /\
  cm_shape [] None w_item_root = false /\
  is_panic (format_document cm_opts0 false w_item_root) = true /\
  is_panic (format_document cm_opts0 true w_item_root) = true.
Proof. exact cm_total_refuted_without_K1. Qed.
Print Assumptions CmLeaf_cm_total_refuted_without_K1.

Theorem CmLeaf_cm_total_refuted_without_K2 :
  cm_shape [] None w_empty_code = false /\
  is_panic (format_document cm_opts0 false w_empty_code) = true /\
  is_panic (format_document cm_opts0 true w_empty_code) = true.
Proof. exact cm_total_refuted_without_K2. Qed.
Print Assumptions CmLeaf_cm_total_refuted_without_K2.

Theorem CmLeaf_cm_total_refuted_without_K3 :
  cm_shape [] None w_cell_under_paragraph = false /\
  is_panic (format_document cm_opts0 false w_cell_under_paragraph) = true /\
  is_panic (format_document cm_opts0 true w_cell_under_paragraph) = true /\
  cm_shape [] None w_header_cell_no_table = false /\
  is_panic (format_document cm_opts0 false w_header_cell_no_table) = true /\
  is_panic (format_document cm_opts0 true w_header_cell_no_table) = true.
Proof. exact cm_total_refuted_without_K3. Qed.
Print Assumptions CmLeaf_cm_total_refuted_without_K3.

(* K1-K3 are not enough in debug builds: the counter of an ordered list starting at usize::MAX *)
Theorem CmLeaf_cm_total_debug_refuted_without_K4 :
  cm_shape [] None w_ol_overflow = true /\
  cm_no_ol_overflow w_ol_overflow = false /\
  is_cmok (format_document cm_opts0 false w_ol_overflow) = true /\
  is_panic (format_document cm_opts0 true w_ol_overflow) = true.
Proof. exact cm_total_debug_refuted_without_K4. Qed.
Print Assumptions CmLeaf_cm_total_debug_refuted_without_K4.

(* non-vacuity: runs 1 and 2 present gives 3; a literal with runs 1..4 needs 5 ticks *)
Example CmLeaf_ex1 : shortest_unused_sequence [x60; x61; x60; x60] x60 = Ok 3%N.
Proof. vm_compute. reflexivity. Qed.
Example CmLeaf_ex2 : runs [x60; x61; x60; x60; x62] x60 = [1; 2]%nat.
Proof. vm_compute. reflexivity. Qed.
Example CmLeaf_ex3 : fence_length [x60; x60; x60; x60; x0a] x60 = 5%N.
Proof. vm_compute. reflexivity. Qed.
