(* Props/C18.v — the sourcepos option only adds attributes.  Only pinned statements.

   `set_sp b o` is the option record o with render.sourcepos := b (every other field unchanged).
   HTML: `events` / `html` are the renderer model of Model/Html.v (tied to src/html.rs by the
   byte-for-byte correspondence check render.html); a position attribute is the dedicated constructor
   SpAttr, written only under the option; `erase_sp` (Spec/HtmlSpec.v) deletes the SpAttr attributes
   of an event.  XML: `xml` is the model of src/xml.rs (Model/Xml.v, tie: C09), `xml_read` the
   independent reader and `xdrop_sp` the deletion of the attributes named sourcepos from an element
   tree (Spec/SpSpec.v).  CommonMark: there is no Coq model of cm.rs; the statement is the audit
   C18_cm_never_mentions_sourcepos (generated from /repo/src on every run) plus the byte-for-byte
   comparison on the implementation (tools/checks/c18.py).

   All HTML statements hold for EVERY tree, option record, slug function and renderer state,
   including the runs in which the renderer panics (same panic with the option on and off). *)
From Coq Require Import List NArith Bool.
From V Require Import Base.Bytes Base.Res Model.Ast Model.Html Model.Xml Gen.NodesXml Gen.AuditSp.
From V Require Import Spec.HtmlSpec Spec.XmlLex Spec.SpSpec.
From V Require Import Proofs.XmlProofs Proofs.HtmlSp Proofs.XmlSp Proofs.SpAudit.
Import ListNotations.
From Coq Require Import Strings.String.
Local Open Scope string_scope.
Local Open Scope list_scope.

(* ---- HTML, events: option off = option on with every position attribute erased ---- *)
Theorem C18_html_sp_events : forall slug o t,
  events slug (set_sp false o) t = res_map (map erase_sp) (events slug (set_sp true o) t).
Proof. exact html_sp_events. Qed.
Print Assumptions C18_html_sp_events.

(* per node: what format_node_default writes on entering / leaving any node, and the renderer state *)
Theorem C18_enter_erase : forall slug o c n st,
  enter slug (set_sp false o) c n st = erase3 (enter slug (set_sp true o) c n st).
Proof. exact enter_erase. Qed.
Print Assumptions C18_enter_erase.

Theorem C18_exit_erase : forall o c n st,
  exit_ (set_sp false o) c n st = erase2 (exit_ (set_sp true o) c n st).
Proof. exact exit_erase. Qed.
Print Assumptions C18_exit_erase.

Theorem C18_html_sp_state : forall slug o c n st,
  res_map snd (render slug (set_sp false o) c n st) = res_map snd (render slug (set_sp true o) c n st).
Proof. exact html_sp_state. Qed.
Print Assumptions C18_html_sp_state.

(* ---- HTML, bytes ---- *)
(* serialising the erased events = serialising the events while skipping every SpAttr, with the
   line-break decisions (Context::cr) taken exactly as in the run with the option on *)
Theorem C18_ser_erase : forall evs, ser (map erase_sp evs) = ser_nosp evs.
Proof. exact ser_erase. Qed.
Print Assumptions C18_ser_erase.

(* an SpAttr never ends a chunk, so no cr() decision depends on it *)
Theorem C18_cr_unaffected : forall p e, ends_lf p (ser_ev (erase_sp e)) = ends_lf p (ser_ev e).
Proof. exact ends_lf_erase. Qed.
Print Assumptions C18_cr_unaffected.

(* the output with the option on is a sequence of byte segments, some of them flagged; every flagged
   segment is one serialised data-sourcepos attribute; the output with the option off is the same
   sequence with the flagged segments deleted *)
Theorem C18_html_sp_deletion : forall slug o t evs,
  events slug (set_sp true o) t = Ok evs ->
  html slug (set_sp true o) t = Ok (seg_bytes (segs true evs)) /\
  html slug (set_sp false o) t = Ok (seg_bytes (unflagged (segs true evs))) /\
  Forall flagged_is_sp (segs true evs).
Proof. exact html_sp_deletion. Qed.
Print Assumptions C18_html_sp_deletion.

Theorem C18_html_sp_fail : forall slug o t,
  is_ok (html slug (set_sp false o) t) = is_ok (html slug (set_sp true o) t).
Proof. exact html_sp_fail. Qed.
Print Assumptions C18_html_sp_fail.

(* the statement with the token-wise deletion of the strict lexer (Spec/HtmlSpec.v strip_sourcepos),
   read literally for every option record, is false: with `unsafe` the document's own raw HTML may
   carry a data-sourcepos attribute, which is in the output with the option off and is deleted too.
   The position attributes the property speaks of are the ones the option adds (C18_html_sp_deletion);
   the check excludes exactly the outputs whose option-off form changes under the deletion, and
   compares the two stripped forms there. *)
Definition C18_html_lexer_full_statement : Prop :=
  forall slug o t on off,
    html slug (set_sp true o) t = Ok on -> html slug (set_sp false o) t = Ok off ->
    strip_sourcepos on = Some off.

Definition o_unsafe_only : opts :=
  mkOpts false None false false false false false false false 0 true false 45 false false false false false false 0 false false.
Definition own_attr_tree : node :=
  Node Document (mkSp 1 1 1 30)
    [Node (HtmlBlock 6 (B "<div data-sourcepos=""9:9-9:9"">
")) (mkSp 1 1 1 30) []].

Theorem C18_html_lexer_full_statement_refuted : ~ C18_html_lexer_full_statement.
Proof.
  intro H.
  specialize (H (fun b => b) o_unsafe_only own_attr_tree).
  specialize (H _ _ eq_refl eq_refl). vm_compute in H. discriminate H.
Qed.
Print Assumptions C18_html_lexer_full_statement_refuted.

(* ... and on that witness the two outputs still differ by nothing (no node of it takes a position
   attribute) — the primary clause of the property holds *)
Example C18_own_attr_outputs_equal :
  html (fun b => b) (set_sp true o_unsafe_only) own_attr_tree = html (fun b => b) (set_sp false o_unsafe_only) own_attr_tree.
Proof. vm_compute. reflexivity. Qed.

(* ---- XML ---- *)
(* the mirror element trees: option off = option on with the sourcepos attributes dropped *)
Theorem C18_xml_sp_tree : forall o t,
  xdrop_sp (tree_to_xtree (set_sp true o) t) = tree_to_xtree (set_sp false o) t.
Proof. exact xml_sp_tree. Qed.
Print Assumptions C18_xml_sp_tree.

(* bytes: both outputs are the generic writer's rendering (C09) of element trees related by xdrop_sp *)
Theorem C18_xml_sp_bytes : forall o t,
  shape_ok t = true ->
  let X := tree_to_xtree (set_sp true o) t in
  xml (set_sp true o) t = Ok (xml_prolog ++ xml_write 0 X) /\
  xml (set_sp false o) t = Ok (xml_prolog ++ xml_write 0 (xdrop_sp X)).
Proof. exact xml_sp_bytes. Qed.
Print Assumptions C18_xml_sp_bytes.

(* what an XML reader gets *)
Theorem C18_xml_sp_read : forall o t b1,
  shape_ok t = true -> xml (set_sp true o) t = Ok b1 ->
  exists b0 X, xml (set_sp false o) t = Ok b0 /\ xml_read b1 = Some X /\ xml_read b0 = Some (xdrop_sp X).
Proof. exact xml_sp_read. Qed.
Print Assumptions C18_xml_sp_read.

(* the renderer fails on the same trees with the option on and off *)
Theorem C18_xml_sp_total : forall o t,
  (exists b, xml (set_sp true o) t = Ok b) <-> (exists b, xml (set_sp false o) t = Ok b).
Proof. exact xml_sp_total. Qed.
Print Assumptions C18_xml_sp_total.

(* the byte-level scanner statement is evaluated on every real output, not proved *)
Definition C18_xml_scan_full_statement : Prop :=
  forall o t on off,
    xml (set_sp true o) t = Ok on -> xml (set_sp false o) t = Ok off ->
    strip_xml_sourcepos on = Some off.

(* soundness of the tree comparison used by the extracted check *)
Theorem C18_xtree_eqb_sound : forall x y, xtree_eqb x y = true -> x = y.
Proof. exact xtree_eqb_eq. Qed.
Print Assumptions C18_xtree_eqb_sound.

(* ---- the audit of the sources (CommonMark writer, parser, the two renderers) ---- *)
Theorem C18_sp_option_reads : sp_option_reads = expected_sp_option_reads.
Proof. exact sp_option_reads_ok. Qed.
Print Assumptions C18_sp_option_reads.

Theorem C18_sp_receivers : sp_receivers = expected_sp_receivers.
Proof. exact sp_receivers_ok. Qed.
Print Assumptions C18_sp_receivers.

Theorem C18_sp_bare : sp_bare = expected_sp_bare.
Proof. exact sp_bare_ok. Qed.
Print Assumptions C18_sp_bare.

Theorem C18_cm_never_mentions_sourcepos :
  reads_of "src/cm.rs" sp_option_reads = Some [] /\ reads_of "src/cm.rs" sp_receivers = Some [] /\
  reads_of "src/cm.rs" sp_bare = Some [].
Proof. exact cm_never_mentions_sourcepos. Qed.
Print Assumptions C18_cm_never_mentions_sourcepos.

Theorem C18_only_renderers_read_option :
  forallb (fun p => match snd p with [] => true | _ => false end)
          (filter (fun p => negb (String.eqb (fst p) "src/html.rs" || String.eqb (fst p) "src/xml.rs")) sp_option_reads) = true.
Proof. exact parser_never_reads_option. Qed.
Print Assumptions C18_only_renderers_read_option.

(* ---- non-vacuity: a tree on which the option makes a difference, in all the special places ---- *)
Definition o_ex : opts :=
  mkOpts false (Some (B "u-")) true false false false true true true 0 false false 45 false true false false true true 0 false false.
Definition ex_tree : node :=
  let sp := mkSp 2 1 3 9 in
  Node Document (mkSp 1 1 9 1)
    [Node (Heading 2 false) sp [Node (Text (B "T q")) sp []];
     Node (CodeBlock (mkCB true 96 3 0 (B "rust meta") (B "x"))) sp [];
     Node (CodeBlock (mkCB true 96 3 0 (B "math") (B "y"))) sp [];
     Node (NList (mkList Ordered 0 3 7 Period 0 true true)) sp
       [Node (TaskItem (Some (B "x"))) sp [Node Paragraph sp [Node (Math true true (B "z")) sp [];
                                                              Node (Image (B "u") (B "t")) (mkSp 0 0 0 0) [Node SoftBreak sp []]]]]].

Example C18_example :
  exists on off,
    html (fun b => b) (set_sp true o_ex) ex_tree = Ok on /\
    html (fun b => b) (set_sp false o_ex) ex_tree = Ok off /\
    on <> off /\ strip_sourcepos on = Some off /\ strip_sp_pat on = off /\ sp_deleted on off = true /\
    exists xon xoff,
      shape_ok ex_tree = true /\
      xml (set_sp true o_ex) ex_tree = Ok xon /\ xml (set_sp false o_ex) ex_tree = Ok xoff /\
      xon <> xoff /\ strip_xml_sourcepos xon = Some xoff /\ xml_sp_tree_check xon xoff = 0%N.
Proof.
  eexists. eexists. split; [vm_compute; reflexivity|]. split; [vm_compute; reflexivity|].
  split; [intro H; discriminate H|]. split; [vm_compute; reflexivity|]. split; [vm_compute; reflexivity|]. split; [vm_compute; reflexivity|].
  eexists. eexists. split; [vm_compute; reflexivity|]. split; [vm_compute; reflexivity|]. split; [vm_compute; reflexivity|].
  split; [intro H; discriminate H|]. split; vm_compute; reflexivity.
Qed.
