(* Props/C04_links.v — C04, first half: "the tree ... has mutually consistent parent, child and
   sibling links".  Only pinned statements: each theorem is closed by `exact <lemma>` and followed
   by Print Assumptions.

   `heap`, `detach`, `append`, `prepend`, `insert_after`, `insert_before` are the statement-by-statement
   models (Model/Arena.v) of src/arena_tree.rs; `dbg` says whether debug_assert! is evaluated.  The
   link cells are private to arena_tree.rs and written by nothing but Node::new and these five
   operations (audit theorems at the end, regenerated from /repo/src on every run), so every tree the
   parser or anybody else builds through the public API is the result of a history of these
   operations on detached nodes.

   wf = local link consistency + every next-chain ends.  What holds exactly:
   * detach, append, prepend preserve wf for ALL arguments, including self.append(self) and appending
     an ancestor under its own descendant; they never trip a debug_assert from a wf heap;
   * insert_after / insert_before preserve wf iff used with new_sibling <> self (refuted otherwise:
     x.insert_after(x) makes x its own next and previous sibling, silently);
   * wf does NOT exclude parent cycles: the Rust code accepts a.append(b); b.append(a) and
     a.append(a), the links stay locally consistent, and the "tree" is cyclic (every iterator of
     arena_tree then diverges).  Acyclicity needs the side condition that the new child is not an
     ancestor-or-self of the target, which arena_tree does not check. *)
From Coq Require Import List Arith Bool.
From V Require Import Base.Res Model.Arena Proofs.ArenaProofs Gen.AuditArena.
Import ListNotations.
From Coq Require Import Strings.String.
Local Open Scope string_scope.
Local Open Scope list_scope.

(* ---- the invariant, spelled out *)
Theorem C04_links_wf_meaning : forall h, wf h <->
  (forall n m, next h n = Some m <-> prev h m = Some n) /\
  (forall p c, first h p = Some c -> parent h c = Some p /\ prev h c = None) /\
  (forall p c, last h p = Some c -> parent h c = Some p /\ next h c = None) /\
  (forall n m, next h n = Some m -> parent h n = parent h m) /\
  (forall c p, parent h c = Some p -> prev h c = None -> first h p = Some c) /\
  (forall c p, parent h c = Some p -> next h c = None -> last h p = Some c) /\
  (forall p, first h p = None <-> last h p = None) /\
  (forall n, ends (next h) n).
Proof. exact wf_meaning. Qed.
Print Assumptions C04_links_wf_meaning.

Theorem C04_links_first_reaches_last : forall h p f, wf h -> first h p = Some f ->
  exists l, last h p = Some l /\ reach (next h) f l.
Proof. exact wf_first_reaches_last. Qed.
Print Assumptions C04_links_first_reaches_last.

Theorem C04_links_children_have_parent : forall h p f c,
  wf h -> first h p = Some f -> reach (next h) f c -> parent h c = Some p.
Proof. exact wf_children_parent. Qed.
Print Assumptions C04_links_children_have_parent.

(* ---- Node::new *)
Theorem C04_links_wf_init : wf init.
Proof. exact wf_init. Qed.
Print Assumptions C04_links_wf_init.

(* ---- the five operations *)
Theorem C04_links_detach_wf : forall h a, wf h -> wf (detach h a) /\ detached (detach h a) a.
Proof. exact detach_wf. Qed.
Print Assumptions C04_links_detach_wf.

Theorem C04_links_append_wf : forall dbg h self new_child,
  wf h -> exists h', Arena.append dbg h self new_child = Ok h' /\ wf h'.
Proof. exact append_ok. Qed.
Print Assumptions C04_links_append_wf.

Theorem C04_links_prepend_wf : forall dbg h self new_child,
  wf h -> exists h', prepend dbg h self new_child = Ok h' /\ wf h'.
Proof. exact prepend_ok. Qed.
Print Assumptions C04_links_prepend_wf.

Theorem C04_links_insert_after_wf : forall dbg h self new_sibling,
  wf h -> self <> new_sibling -> exists h', insert_after dbg h self new_sibling = Ok h' /\ wf h'.
Proof. exact insert_after_ok. Qed.
Print Assumptions C04_links_insert_after_wf.

Theorem C04_links_insert_before_wf : forall dbg h self new_sibling,
  wf h -> self <> new_sibling -> exists h', insert_before dbg h self new_sibling = Ok h' /\ wf h'.
Proof. exact insert_before_ok. Qed.
Print Assumptions C04_links_insert_before_wf.

(* ---- every history: from detached nodes, any sequence of operations in which no node is inserted
   as its own sibling runs without panic (debug assertions included) and every heap on the way is wf *)
Theorem C04_links_history_wf : forall dbg ops,
  Forall (fun o => match o with InsertAfter i j | InsertBefore i j => i <> j | _ => True end) ops ->
  exists h, fold_left (fun r o => match r with Ok h => apply dbg h o | Panic s => Panic s | OutOfFuel => OutOfFuel end) ops (Ok init) = Ok h /\ wf h.
Proof. exact history_wf. Qed.
Print Assumptions C04_links_history_wf.

Theorem C04_links_every_step_wf : forall dbg ops, admissible ops -> forall h0, wf h0 ->
  snd (trace dbg h0 ops) = None /\ Forall wf (fst (trace dbg h0 ops)) /\
  List.length (fst (trace dbg h0 ops)) = List.length ops.
Proof. exact trace_wf. Qed.
Print Assumptions C04_links_every_step_wf.

(* ---- the side condition is needed, and arena_tree does not enforce it *)
Theorem C04_links_insert_after_self_refuted :
  ~ (forall dbg h s n, wf h -> exists h', insert_after dbg h s n = Ok h' /\ wf h').
Proof. exact insert_after_wf_refuted. Qed.
Print Assumptions C04_links_insert_after_self_refuted.

Theorem C04_links_insert_before_self_refuted :
  ~ (forall dbg h s n, wf h -> exists h', insert_before dbg h s n = Ok h' /\ wf h').
Proof. exact insert_before_wf_refuted. Qed.
Print Assumptions C04_links_insert_before_self_refuted.

Theorem C04_links_insert_after_self_ring : forall dbg,
  exists h', insert_after dbg init 0 0 = Ok h' /\ next h' 0 = Some 0 /\ prev h' 0 = Some 0.
Proof. exact insert_after_self. Qed.
Print Assumptions C04_links_insert_after_self_ring.

(* ---- local consistency is not acyclicity *)
Theorem C04_links_ancestor_append_keeps_wf_but_cycles : forall dbg,
  exists h, run dbg [Append 0 1; Append 1 0] = Ok h /\ wf h /\ parent h 0 = Some 1 /\ parent h 1 = Some 0.
Proof. exact append_ancestor_wf_cycle. Qed.
Print Assumptions C04_links_ancestor_append_keeps_wf_but_cycles.

Theorem C04_links_self_append_keeps_wf_but_cycles : forall dbg,
  exists h, run dbg [Append 0 0] = Ok h /\ wf h /\ parent h 0 = Some 0 /\ first h 0 = Some 0.
Proof. exact append_self_wf_cycle. Qed.
Print Assumptions C04_links_self_append_keeps_wf_but_cycles.

(* ---- abstraction to children lists (kids h p l: l is the list of nodes met from first_child(p)
   along next_sibling) commutes with detach and append; no acyclicity is needed at this level.  The
   rose tree of a node is the unfolding of kids and exists (is finite) exactly when there is no
   parent cycle below it; that unfolding is not formalised here. *)
Theorem C04_links_children_list_unique : forall h p, wf h ->
  exists l, kids h p l /\ forall l', kids h p l' -> l' = l.
Proof. exact kids_functional. Qed.
Print Assumptions C04_links_children_list_unique.

Theorem C04_links_abs_detach : forall h a p l, wf h -> kids h p l ->
  kids (detach h a) p (filter (fun x => negb (Nat.eqb x a)) l).
Proof. exact arena_abs_detach. Qed.
Print Assumptions C04_links_abs_detach.

Theorem C04_links_abs_append : forall dbg h s n, wf h ->
  exists h', Arena.append dbg h s n = Ok h' /\
    (forall l, kids h s l -> kids h' s (filter (fun x => negb (Nat.eqb x n)) l ++ [n])) /\
    (forall p l, p <> s -> kids h p l -> kids h' p (filter (fun x => negb (Nat.eqb x n)) l)).
Proof. exact arena_abs_append. Qed.
Print Assumptions C04_links_abs_append.

(* ---- the executable predicate the check evaluates on the implementation's dumps is sound *)
Theorem C04_links_wf_b_sound : forall d, wf_b (List.length d) (heap_of_dump d) = true -> wf (heap_of_dump d).
Proof. exact wf_b_dump_sound. Qed.
Print Assumptions C04_links_wf_b_sound.

(* ---- audits (Gen/AuditArena.v is regenerated from /repo/src on every run) *)
Theorem C04_links_audit_no_other_link_write : link_writes = [] /\ arena_tree_unsafe = 0.
Proof. split; reflexivity. Qed.
Print Assumptions C04_links_audit_no_other_link_write.

Theorem C04_links_audit_parser_mutation_sites : parser_mutation_calls =
  [("src/parser/alert.rs", 0); ("src/parser/autolink.rs", 7); ("src/parser/inlines.rs", 18);
   ("src/parser/math.rs", 0); ("src/parser/mod.rs", 11); ("src/parser/multiline_block_quote.rs", 0);
   ("src/parser/shortcodes.rs", 0); ("src/parser/table.rs", 2)].
Proof. reflexivity. Qed.
Print Assumptions C04_links_audit_parser_mutation_sites.

(* ---- non-vacuity: the history of arena_tree's own unit test (`it_works`, ids shifted by one) *)
Example C04_links_it_works :
  let ops := [Append 0 1; Append 0 2; Prepend 0 3; Append 4 0; InsertBefore 0 5; InsertBefore 0 6;
              InsertAfter 0 7; InsertAfter 0 8; Append 4 9; Detach 7] in
  admissible ops /\
  match run true ops with
  | Ok h => wf_b 10 h = true /\ acyclic_b 10 h = true /\
            dump 10 h = [ [Some 4; Some 6; Some 8; Some 3; Some 2]; [Some 0; Some 3; Some 2; None; None];
                          [Some 0; Some 1; None; None; None];       [Some 0; None; Some 1; None; None];
                          [None; None; None; Some 5; Some 9];       [Some 4; None; Some 6; None; None];
                          [Some 4; Some 5; Some 0; None; None];     [None; None; None; None; None];
                          [Some 4; Some 0; Some 9; None; None];     [Some 4; Some 8; None; None; None] ]
  | _ => False
  end.
Proof. split; [repeat constructor; discriminate | vm_compute; auto]. Qed.
