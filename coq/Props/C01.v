(* Props/C01.v — Total on every input: no panic, abort, overflow or hang; output is UTF-8.
   Roll-up of the totality theorems of every modelled function (each model carries its Rust panic
   sites as explicit `Panic` results and its loops on explicit fuel, so `exists y, f x = Ok y`
   says: no panic site is reached and the loop terminates).  The parser as a whole has no Coq model:
   for it the property is searched on the implementation (tools/checks/c01.py), in debug and
   release builds, in isolated worker processes.  Statements are re-pinned here verbatim from the
   property files where they are proved; `exact` ties them to the same lemmas. *)
From Coq Require Import List NArith Bool Strings.String.
From V Require Import Base.Bytes Base.Res Model.Ast.
From V Require Model.Escape Model.Tagfilter Model.Html Model.Xml Model.Cm Model.Feed Model.FrontMatter Model.Anchor Model.Arena Model.Spx.
From V Require Spec.EscapeSpec Spec.Shape Spec.XmlLex Spec.CmSpec Proofs.ArenaProofs.
From V Require Props.C19 Props.C14 Props.C10 Props.C09 Props.C08 Props.C20 Props.C15 Props.CmLeaf Props.C04_links Props.C11.
Import ListNotations.

(* leaf helpers *)
Theorem C01_escape_total : forall s, exists o, Escape.escape s = Ok o.
Proof. exact C19.C19_escape_total. Qed.
Print Assumptions C01_escape_total.

Theorem C01_escape_href_total : forall s, exists o, Escape.escape_href s = Ok o.
Proof. exact C19.C19_href_total. Qed.
Print Assumptions C01_escape_href_total.

Theorem C01_tagfilter_total : forall s, exists b, Tagfilter.tagfilter s = Ok b.
Proof. exact C14.C14_tagfilter_total. Qed.
Print Assumptions C01_tagfilter_total.

Theorem C01_tagfilter_block_total : forall s, exists o, Tagfilter.tagfilter_block s = Ok o.
Proof. exact C14.C14_tagfilter_block_total. Qed.
Print Assumptions C01_tagfilter_block_total.

(* the line splitter: never panics, always terminates *)
Theorem C01_feed_total : forall x, exists ls n, Feed.feed_lines_res x = Ok (ls, n).
Proof. exact C08.C08_feed_total. Qed.
Print Assumptions C01_feed_total.

(* the Anchorizer loop terminates (at most |issued|+1 iterations) *)
Theorem C01_anchor_loop_total : forall (slug : bytes -> bytes) issued header,
  (N.of_nat (List.length issued) <= Anchor.i32_max)%N ->
  exists id, Anchor.anchorize slug issued header = Ok (id :: issued, id)
             /\ ~ In id issued /\ exists k, id = Anchor.candidate (slug header) k.
Proof. exact C15.C15_anchor_fuel. Qed.
Print Assumptions C01_anchor_loop_total.

(* the HTML renderer returns normally on every tree with a Document root and well-shaped tables,
   for every option record (tagfilter, header ids, ... included) *)
Theorem C01_html_total : forall slug o t,
  Shape.s2 t = true -> Shape.s3 t = true -> exists b, Html.html slug o t = Ok b.
Proof. exact C10.C10_html_total_bytes. Qed.
Print Assumptions C01_html_total.

(* the XML renderer returns normally exactly on trees whose table cells sit in rows of tables *)
Theorem C01_xml_total_iff : forall o t, (exists b, Xml.xml o t = Ok b) <-> XmlLex.cells_ok t = true.
Proof. exact C09.C09_xml_total_iff. Qed.
Print Assumptions C01_xml_total_iff.

(* the CommonMark formatter returns normally (release arithmetic) on trees with items under lists,
   non-empty code literals and cells under rows; the debug-build statement (checked arithmetic of
   the prefix / list counters) is evaluated on every formatted tree, not proved *)
Theorem C01_cm_total_release : forall o root,
  o_experimental_minimize o = false ->
  CmSpec.cm_shape [] None root = true ->
  exists out, Cm.format_document o false root = Cm.CmOk out.
Proof. exact CmLeaf.CmLeaf_cm_total_partial. Qed.
Print Assumptions C01_cm_total_release.

(* tree surgery primitives: along every history without self-inserts no debug assertion fires *)
Theorem C01_arena_no_panic : forall dbg ops, ArenaProofs.admissible ops -> forall h0, ArenaProofs.wf h0 ->
  snd (Arena.trace dbg h0 ops) = None /\ Forall ArenaProofs.wf (fst (Arena.trace dbg h0 ops)) /\
  List.length (fst (Arena.trace dbg h0 ops)) = List.length ops.
Proof. exact C04_links.C04_links_every_step_wf. Qed.
Print Assumptions C01_arena_no_panic.

(* everything the text escaper writes is valid UTF-8 when its input is *)
Theorem C01_escape_utf8 : forall s, EscapeSpec.utf8_valid s = true -> EscapeSpec.utf8_valid (EscapeSpec.escape_spec s) = true.
Proof. exact C19.C19_escape_utf8. Qed.
Print Assumptions C01_escape_utf8.

(* the CommonMark output routine preserves UTF-8 validity (no wrapping) *)
Theorem C01_cm_output_utf8 : forall buf wrap e s,
  EscapeSpec.utf8_valid (rev (Cm.rv s)) = true ->
  forallb is_ascii (Cm.rprefix s) = true ->
  EscapeSpec.utf8_valid buf = true ->
  EscapeSpec.utf8_valid (rev (Cm.rv (Cm.output 0%N buf wrap e s))) = true.
Proof. exact CmLeaf.CmLeaf_cm_output_utf8. Qed.
Print Assumptions C01_cm_output_utf8.

(* what is NOT a theorem: the statement for the whole pipeline *)
Definition C01_full_statement : Prop :=
  forall (parse : bytes -> node) (slug : bytes -> bytes) o x,
    EscapeSpec.utf8_valid x = true ->
    exists h, Html.html slug o (parse x) = Ok h /\ EscapeSpec.utf8_valid h = true.
