(* Props/Scanners.v — pinned statements of Layer C, first brick: the regular-expression engine and the
   re2c scanners (Model/Scan.v over Gen/ScannersRe.v). *)
From Coq Require Import List NArith Bool Lia.
From V Require Import Base.Bytes Base.Regex Proofs.RegexProofs.
Import ListNotations.

(* ---- the regex engine ---- *)
Theorem Scanners_nullable_correct : forall r, nullable r = true <-> matches r [].
Proof. exact nullable_spec. Qed.
Print Assumptions Scanners_nullable_correct.

Theorem Scanners_deriv_correct : forall c r s, matches (deriv c r) s <-> matches r (c :: s).
Proof. exact deriv_spec. Qed.
Print Assumptions Scanners_deriv_correct.

Theorem Scanners_matchb_correct : forall r s, matchb r s = true <-> matches r s.
Proof. exact matchb_spec. Qed.
Print Assumptions Scanners_matchb_correct.

Theorem Scanners_longest_match_correct : forall r s n,
  longest_match r s = Some n <->
  n <= length s /\ matches r (firstn n s) /\
  forall m, n < m -> m <= length s -> ~ matches r (firstn m s).
Proof. exact longest_match_spec. Qed.
Print Assumptions Scanners_longest_match_correct.

Theorem Scanners_longest_match_none : forall r s,
  longest_match r s = None <-> forall m, m <= length s -> ~ matches r (firstn m s).
Proof. exact longest_match_none. Qed.
Print Assumptions Scanners_longest_match_none.
