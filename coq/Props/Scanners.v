(* Props/Scanners.v — pinned statements of Layer C, first brick: the regular-expression engine and the
   re2c scanners (Model/Scan.v over Gen/ScannersRe.v). *)
From Coq Require Import List NArith Bool Lia.
From V Require Import Base.Bytes Base.Regex Proofs.RegexProofs.
Import ListNotations.

(* ---- the regex engine ---- *)
Theorem Scanners_nullable_correct : forall r, nullable r = true <-> matches r [].
Proof. exact nullable_spec. Qed.
Print Assumptions Scanners_nullable_correct.

Theorem Scanners_deriv_correct : forall c r s, matches (deriv c r) s <-> matches r (c :: s).
Proof. exact deriv_spec. Qed.
Print Assumptions Scanners_deriv_correct.

Theorem Scanners_matchb_correct : forall r s, matchb r s = true <-> matches r s.
Proof. exact matchb_spec. Qed.
Print Assumptions Scanners_matchb_correct.

Theorem Scanners_longest_match_correct : forall r s n,
  longest_match r s = Some n <->
  n <= length s /\ matches r (firstn n s) /\
  forall m, n < m -> m <= length s -> ~ matches r (firstn m s).
Proof. exact longest_match_spec. Qed.
Print Assumptions Scanners_longest_match_correct.

Theorem Scanners_longest_match_none : forall r s,
  longest_match r s = None <-> forall m, m <= length s -> ~ matches r (firstn m s).
Proof. exact longest_match_none. Qed.
Print Assumptions Scanners_longest_match_none.

(* ---- the scanners (Model/Scan.v over the regenerated Gen/ScannersRe.v) ---- *)
From V Require Import Base.Re2c Gen.ScannersRe Model.Scan Proofs.ScanProofs.
From V Require Gen.Scanners Gen.CmGen Model.Cm.
From Coq Require Strings.String.
Import Strings.String.
From Coq Require Import List.
Import ListNotations.
Local Open Scope list_scope.

(* re2c rule selection for a block of plain rules: the default action when no rule matches a prefix,
   otherwise the action of a rule at the end of its longest match, which is the longest over all rules *)
Theorem Scanners_rule_selection : forall rules d s,
  forallb is_plain rules = true ->
  (run_rules rules d 0 s = mkOutcome d 1 0 /\
   forall x, In x rules -> longest_match (rule_re x) s = None) \/
  (exists r a L, In (RPlain r a) rules /\ longest_match r s = Some L /\
                 run_rules rules d 0 s = mkOutcome a L 0 /\
                 forall y n, In y rules -> longest_match (rule_re y) s = Some n -> n <= L).
Proof. exact run_rules_plain. Qed.
Print Assumptions Scanners_rule_selection.

(* atx_heading_start: a match means 1..6 hashes followed by a run of spaces/tabs or by one CR/LF,
   and the returned length covers exactly the hashes and that white space (used for heading levels, C04) *)
Theorem Scanners_atx_level_1_6 : forall s n,
  scan_atx_heading_start s = Some n ->
  exists k ws rest,
    s = repeat x23 k ++ ws ++ rest /\ 1 <= k <= 6 /\ n = k + length ws /\
    ((ws <> [] /\ Forall is_sp_tab ws) \/ (exists c, ws = [c] /\ is_cr_lf c)).
Proof. exact atx_level_1_6. Qed.
Print Assumptions Scanners_atx_level_1_6.

Theorem Scanners_atx_complete : forall s n, atx_shape s n -> exists m, scan_atx_heading_start s = Some m.
Proof. exact atx_shape_accepted. Qed.
Print Assumptions Scanners_atx_complete.

(* setext_heading_line: a run of = (resp. -), optional spaces/tabs, one CR/LF *)
Theorem Scanners_setext_line_shape : forall s c,
  scan_setext_heading_line s = Some c ->
  exists k ws e rest,
    s = repeat (setext_byte c) k ++ ws ++ e :: rest /\ 1 <= k /\ Forall is_sp_tab ws /\ is_cr_lf e.
Proof. exact setext_line_shape. Qed.
Print Assumptions Scanners_setext_line_shape.

(* the regex model of dangerous_url agrees with the literal-prefix rendering Gen/Scanners.v
   (used by Model/Html.v and proved equal to the specification in Props/C02) on every input *)
Theorem Scanners_dangerous_url_agrees : forall s,
  is_some (scan_dangerous_url s) = Scanners.dangerous_url s.
Proof. exact dangerous_url_agrees. Qed.
Print Assumptions Scanners_dangerous_url_agrees.

(* the scheme scanner is the one transcribed for the CommonMark formatter (Model/Cm.v over Gen/CmGen.v) *)
Theorem Scanners_scheme_agrees : forall s, Cm.scheme_matches s = is_some (scan_scheme s).
Proof. exact scheme_agrees. Qed.
Print Assumptions Scanners_scheme_agrees.

(* tasklist: the indexing s[t1] in the action never panics (the tag lies inside the slice) *)
Theorem Scanners_tasklist_no_panic : forall s, exists r, scan_tasklist s = Res.Ok r.
Proof. exact tasklist_no_panic. Qed.
Print Assumptions Scanners_tasklist_no_panic.

(* non-vacuity *)
Example Scanners_atx_example : scan_atx_heading_start [x23; x23; x20; x20; x61] = Some 4.
Proof. vm_compute. reflexivity. Qed.
Example Scanners_atx_seven : scan_atx_heading_start [x23; x23; x23; x23; x23; x23; x23; x20] = None.
Proof. vm_compute. reflexivity. Qed.
Example Scanners_setext_example : scan_setext_heading_line [x2d; x2d; x20; x0a] = Some SetextHyphen.
Proof. vm_compute. reflexivity. Qed.
Example Scanners_dangerous_example :
  scan_dangerous_url (B "JavaScript:x"%string) = Some 11 /\ scan_dangerous_url (B "data:image/png,x"%string) = None /\
  scan_dangerous_url (B "data:image/svg"%string) = Some 5.
Proof. vm_compute. repeat split. Qed.
Example Scanners_fence_example : scan_open_code_fence (B "~~~~~ab"%string ++ [x0a]) = Some 5.
Proof. vm_compute. reflexivity. Qed.
Example Scanners_tasklist_example : scan_tasklist (B "  [x]"%string) = Res.Ok (Some (5, x78)).
Proof. vm_compute. reflexivity. Qed.
