(* Props/C09.v — XML output is well-formed and mirrors the tree node for node.
   Only pinned statements.  `xml` is the model of src/xml.rs in Model/Xml.v (name tables, escape
   table and arms, MAX_INDENT, prolog and the audit of format_node regenerated from /repo on every
   run: Gen/NodesXml.v).  `xml_read` and `tree_to_xtree` are the independent reader and the mirror
   tree of Spec/XmlLex.v.  `shape_ok t = cells_ok t && literal_leaves t` is checked on every tree
   the real parser produces (tools/checks/c09.py) until the parser itself is modelled. *)
From Coq Require Import List NArith Bool.
From V Require Import Base.Bytes Base.Res Model.Ast Gen.NodesXml Model.Xml Spec.EscapeSpec Spec.XmlLex.
From V Require Import Proofs.XmlProofs Proofs.XmlRead.
Import ListNotations.
From Coq Require Import Strings.String.
Local Open Scope string_scope.
Local Open Scope list_scope.

(* tie: format_node writes, arm by arm, exactly the output events the model was written for *)
Theorem C09_format_node_audit : format_node_audit = expected_format_node_audit.
Proof. exact format_node_audit_ok. Qed.
Print Assumptions C09_format_node_audit.

(* (a) totality: the renderer returns normally exactly on the trees in which every table cell has a
   parent and a grandparent and every cell of a header row of a table has a column alignment *)
Theorem C09_xml_total : forall o t, cells_ok t = true -> exists b, xml o t = Ok b.
Proof. exact xml_total. Qed.
Print Assumptions C09_xml_total.

Theorem C09_xml_total_iff : forall o t, (exists b, xml o t = Ok b) <-> cells_ok t = true.
Proof. exact xml_ok_iff. Qed.
Print Assumptions C09_xml_total_iff.

(* without the cell conditions the model panics (replayed on the implementation by the check:
   a cell without ancestors, a header row with more cells than the table has alignments) *)
Theorem C09_xml_total_refuted :
  forall o, (exists s, xml o orphan_cell = Panic s) /\ (exists s, xml o wide_header = Panic s).
Proof. exact xml_total_refuted. Qed.
Print Assumptions C09_xml_total_refuted.

(* (b) the escaper: total, per byte, no raw LT GT QUOTE, every AMP starts one of the four
   entities and decoding returns the original *)
Theorem C09_xml_escape_is_per_byte : forall s, xml_escape s = Ok (flat_map esc1_spec s).
Proof. exact xml_escape_per_byte. Qed.
Print Assumptions C09_xml_escape_is_per_byte.

Theorem C09_xml_escape_no_active : forall s o, xml_escape s = Ok o -> forallb no_active_byte o = true.
Proof. exact xml_escape_no_active. Qed.
Print Assumptions C09_xml_escape_no_active.

Theorem C09_xml_escape_roundtrip : forall s o, xml_escape s = Ok o -> xml_unescape o = Some s.
Proof. exact xml_escape_roundtrip. Qed.
Print Assumptions C09_xml_escape_roundtrip.

(* (c) well-formed: the output is accepted by the reader (prolog, doctype, one root element,
   properly nested and closed elements with legal names, distinct quoted attributes, every markup
   character escaped in values and character data, nothing after the root) *)
Theorem C09_xml_well_formed : forall o t b,
  shape_ok t = true -> xml o t = Ok b -> exists x, xml_read b = Some x.
Proof. exact xml_well_formed. Qed.
Print Assumptions C09_xml_well_formed.

(* (d) mirrors the tree: what the reader gets back IS the mirror tree: one element per node, same
   order and nesting, name by kind, literal / url / title / label / info carried exactly *)
Theorem C09_xml_mirrors : forall o t b,
  shape_ok t = true -> xml o t = Ok b -> xml_read b = Some (tree_to_xtree o t).
Proof. exact xml_mirrors. Qed.
Print Assumptions C09_xml_mirrors.

(* the isomorphism spelled out: the element tree read back has the skeleton of the node tree (one
   element per node, named by its kind, same order and nesting; names determine kinds by
   C09_names_injective) *)
Theorem C09_xml_iso : forall o t b,
  shape_ok t = true -> xml o t = Ok b ->
  exists x, xml_read b = Some x /\ xshape x = kshape t.
Proof. exact xml_iso. Qed.
Print Assumptions C09_xml_iso.

(* the two halves separately: the model writes the generic writer's rendering of the mirror tree,
   and the reader inverts the generic writer on every well-formed element tree *)
Theorem C09_xml_is_write : forall o t,
  shape_ok t = true -> xml o t = Ok (xml_prolog ++ xml_write 0 (tree_to_xtree o t)).
Proof. exact xml_is_write. Qed.
Print Assumptions C09_xml_is_write.

Theorem C09_xml_read_write : forall x, xwf x = true -> xml_read (xml_prolog ++ xml_write 0 x) = Some x.
Proof. exact xml_read_write. Qed.
Print Assumptions C09_xml_read_write.

(* node kinds are recoverable from element names *)
Theorem C09_names_injective : forall a b, spec_name a = spec_name b -> a = b.
Proof. exact spec_name_injective. Qed.
Print Assumptions C09_names_injective.

Theorem C09_names_agree : forall k, spec_name k = xml_node_name k.
Proof. exact spec_name_eq. Qed.
Print Assumptions C09_names_agree.

(* (e) every indentation the renderer writes is at most 40 spaces *)
Theorem C09_indent_capped : forall ind,
  List.length (indent_bytes ind) <= 40 /\ forallb (beqb x20) (indent_bytes ind) = true.
Proof. exact indent_capped. Qed.
Print Assumptions C09_indent_capped.

(* non-vacuity: a tree with hostile payloads in attributes and text satisfies the hypotheses, and
   the statements compute *)
Example C09_example :
  let o := mkOpts false None false false false false false false false 0 false false 45 true false false false false false 0 false false in
  let sp := mkSp 1 1 1 9 in
  let t := Node Document sp
             [Node Paragraph sp
                [Node (Link (B "a""b<c>&") (B "]]>-->")) sp [Node (Text (B "<&"">")) sp []];
                 Node (Code 1 (B "</code>")) sp []];
              Node (CodeBlock (mkCB true 96 3 0 (B "x"" y=""<") (B "&amp;"))) sp []] in
  shape_ok t = true /\ exists b, xml o t = Ok b /\ xml_read b = Some (tree_to_xtree o t).
Proof.
  split; [reflexivity|]. eexists. split; vm_compute; reflexivity.
Qed.
