(* Props/Inlines.v — pinned statements about the inline-parser model (Model/Inlines.v). *)
From Coq Require Import List NArith ZArith Bool Strings.String.
From V Require Import Base.Bytes Base.Res Model.Ast Model.Inlines Proofs.InlinesProofs.
Import ListNotations.

(* non-vacuity: the model parses `*a*` into one Emph holding the Text a *)
Theorem inlines_nonvacuous :
  run_inlines io_default oracle_ascii [x2a; x61; x2a] [0%N] 1%N [] 100000%N 0%N
  = Ok (Done [Node Emph (mkSp 1 1 1 3) [Node (Text [x61]) (mkSp 1 2 1 2) []]] 0%N).
Proof. exact inlines_example_proof. Qed.
Print Assumptions inlines_nonvacuous.
