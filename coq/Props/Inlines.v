(* Props/Inlines.v — pinned statements about the inline-parser model (Model/Inlines.v: `Subject` of
   src/parser/inlines.rs, tied to the compiled parser by tools/checks/inlines_tie.py). *)
From Coq Require Import List NArith ZArith Bool Strings.String.
From V Require Import Base.Bytes Base.Res Model.Ast Model.Spx Model.AutolinkLeaf Model.Inlines Proofs.InlinesProofs Proofs.InlinesMemo
     Proofs.InlinesTotalAutolink Proofs.InlinesTotalFuel Proofs.InlinesTotal.
From V Require Model.Scan Model.Strings Proofs.RefDefTitle.
From V Require Gen.Nodes.
Import ListNotations.

(* non-vacuity: the model parses `*a*` into one Emph holding the Text a *)
Theorem inlines_nonvacuous :
  run_inlines io_default oracle_ascii [x2a; x61; x2a] [0%N] 1%N [] 100000%N 0%N
  = Ok (Done [Node Emph (mkSp 1 1 1 3) [Node (Text [x61]) (mkSp 1 2 1 2) []]] 0%N).
Proof. exact inlines_example_proof. Qed.
Print Assumptions inlines_nonvacuous.

(* ---- 1. termination of the main loop (C01, inline half) ----
   FULL statements (kept visible): every iteration of `while subj.parse_inline(node) {}` that answers true moves
   `pos` forward, whatever the options; the whole inline phase of a block answers Ok (no Panic, no fuel exhaustion)
   on NUL-free right-trimmed content whose line_offsets cover its lines.
   (inlines_total_full_statement is refuted as stated - missing premises, section 1e; proved: no fuel exhaustion
   at all, 1f; all Panic sites but 16, 1g.) *)
Definition parse_inline_advances_full_statement : Prop :=
  forall memo o u inp lo sl refmap maxref s s',
    parse_inline memo o u inp lo sl refmap maxref s = Ok (Some s') -> pos s < pos s'.

Definition inlines_total_full_statement : Prop :=
  forall o u inp lo sl refmap maxref rs0,
    has_nul inp = false -> Strings.rtrim_slice inp = inp ->
    List.length (filter (beqb x0a) inp) < List.length lo ->
    exists ch rs, parse_inlines true o u inp lo sl refmap maxref rs0 = Ok (ch, rs).

(* PROVED (the FULL progress statement; Proofs/InlinesTotal.v, InlinesTotalAutolink.v): every arm of parse_inline
   advances, whatever the options: newline, backticks (either outcome of the closing scan), backslash, entity,
   pointy brace (autolinks, the five raw HTML forms, plain), the autolink arms `:` and `w` (a matched link keeps at
   least `:/` resp. the first `w`: the backward walk of autolink_delim never passes a byte that is not trailing
   punctuation, `;`, a closing bracket or `&`), delimiter runs, hyphen, period, both brackets (wikilinks, inline
   links, reference links, footnote references, plain), bang, dollars, and the default arm (the byte that reaches
   it is not a stop byte of find_special_char: checked for all 256 bytes x 2^7 option sets x within). *)
Theorem parse_inline_advances : parse_inline_advances_full_statement.
Proof. exact parse_inline_advances_all. Qed.
Print Assumptions parse_inline_advances.

(* the earlier partial form (autolink off), kept for the checks that cite it *)
Theorem parse_inline_advances_partial :
  forall memo o u inp lo sl refmap maxref s s',
    io_autolink o = false ->
    parse_inline memo o u inp lo sl refmap maxref s = Ok (Some s') -> pos s < pos s'.
Proof. exact parse_inline_advances_lemma. Qed.
Print Assumptions parse_inline_advances_partial.

(* PROVED, all options: the fuel |content| + 1 given to the main loop is enough: if the loop reports OutOfFuel, the
   exhaustion happened inside one call of parse_inline, never in the loop itself; and the fuel is not observable
   (a larger fuel gives the same answer). *)
Theorem inlines_loop_total :
  forall memo o u inp lo sl refmap maxref rs0,
    inline_loop memo o u inp lo sl refmap maxref (S (List.length inp)) (init_st sl rs0) = OutOfFuel ->
    exists s', parse_inline memo o u inp lo sl refmap maxref s' = OutOfFuel.
Proof. exact inlines_loop_total_lemma. Qed.
Print Assumptions inlines_loop_total.

Theorem inlines_loop_fuel_irrelevant :
  forall memo o u inp lo sl refmap maxref f1 f2 s r,
    inline_loop memo o u inp lo sl refmap maxref f1 s = Ok r -> f1 <= f2 ->
    inline_loop memo o u inp lo sl refmap maxref f2 s = Ok r.
Proof. exact inline_loop_fuel_irrelevant. Qed.
Print Assumptions inlines_loop_fuel_irrelevant.

Theorem inlines_total_partial :
  forall memo o u inp lo sl refmap maxref rs0,
    io_autolink o = false ->
    inline_loop memo o u inp lo sl refmap maxref (S (List.length inp)) (init_st sl rs0) = OutOfFuel ->
    exists s', parse_inline memo o u inp lo sl refmap maxref s' = OutOfFuel.
Proof. exact inlines_total_partial_lemma. Qed.
Print Assumptions inlines_total_partial.

(* ---- 1b. the bounded inner loops (Proofs/InlinesTotalFuel.v) ----
   FULL statement: the inline phase of a block never answers OutOfFuel.  The fuel-carrying loops of the phase are
   the main loop (above), scan_to_closing_dollar / scan_to_closing_code_dollar, the rewind loop of
   handle_autolink_with, the backward walk of autolink_delim and the closer loop of process_emphasis (pe_loop).
   PROVED for all of them; pe_loop and the propagation lemma (no leaf function answers OutOfFuel) are in the
   second wave: section 1f below proves inlines_fuel_full_statement (theorem inlines_fuel). *)
Definition inlines_fuel_full_statement : Prop :=
  forall memo o u inp lo sl refmap maxref rs0,
    parse_inlines memo o u inp lo sl refmap maxref rs0 <> OutOfFuel.

Theorem dollars_fuel_suffices : forall o inp lo s, handle_dollars o inp lo s <> OutOfFuel.
Proof. exact handle_dollars_fuel. Qed.
Print Assumptions dollars_fuel_suffices.

Theorem autolink_url_fuel_suffices :
  forall o u inp s, handle_autolink_with o s (url_match o u inp) <> OutOfFuel.
Proof. exact autolink_url_fuel_lemma. Qed.
Print Assumptions autolink_url_fuel_suffices.

Theorem autolink_www_fuel_suffices :
  forall o u inp s, handle_autolink_with o s (www_match o u inp) <> OutOfFuel.
Proof. exact autolink_www_fuel_lemma. Qed.
Print Assumptions autolink_www_fuel_suffices.

Theorem autolink_delim_fuel_suffices : forall data link_end relaxed, autolink_delim data link_end relaxed <> OutOfFuel.
Proof. exact autolink_delim_fuel. Qed.
Print Assumptions autolink_delim_fuel_suffices.

(* ---- 1c. process_emphasis: the opener search stays inside the stack ----
   The model keeps the stack as a zipper (below the closer, nearest first / closer / above), so "every index is
   inside the stack" reads: what find_opener returns is a split of the part of the stack it was given, and the
   opener it names can open, has the closer's character and lies at or above stack_bottom / openers_bottom. *)
Theorem process_emphasis_opener_inside_stack :
  forall c bottom below between_rev mod3 between op rest m,
    find_opener c bottom below between_rev mod3 = (Some (between, op, rest), m) ->
    rev between_rev ++ below = between ++ op :: rest.
Proof. exact find_opener_inside. Qed.
Print Assumptions process_emphasis_opener_inside_stack.

Theorem process_emphasis_opener_matches :
  forall c bottom below between_rev mod3 between op rest m,
    find_opener c bottom below between_rev mod3 = (Some (between, op, rest), m) ->
    d_open op = true /\ beqb (d_char op) (d_char c) = true /\ bottom <= d_pos op.
Proof. exact find_opener_props. Qed.
Print Assumptions process_emphasis_opener_matches.

(* ---- 1d. Panic sites ----
   FULL statement inlines_total_full_statement (above) is NOT proved, and is FALSE as stated (its premises are too
   weak: 1e; inlines_total_statement there is the corrected statement).  STATE AFTER THE SECOND WAVE (1e-1g below):
   under the premises of 1g every Panic of parse_inlines is at one of 16 REMAINING sites (inlines_remaining_sites_are):
   the 13 stack sites of group (iii) (all but process_emphasis:unreachable) and the 3 sites of the autolink rewind
   (reachable on invalid UTF-8).  Groups (i) and (ii) are proved unreachable entirely (60 sites with the leaf
   sites, inlines_unreachable_sites_are).  The first-wave analysis, kept:
   The Panic sites of Model/Inlines.v fall in four groups; what excludes each:
   (i) local arithmetic (pos-1, endpos-openticks, slices of the input ...): excluded by pos <= |input| and by
       what the scanning helper just returned.  PROVED for handle_backticks (backticks_local_sites_unreachable:
       its five sites; a closer lies after the opening run and inside the input: backticks_closer_in_bounds);
       the other arms need the same kind of bound for their scanners (scan_* / manual_scan_link_url / entity
       lengths <= length of the slice they were given), not proved here.
   (ii) source positions (make_inline / end_column try_from.unwrap, insert_emph column subtractions,
       adjust_node_newlines line table): need column_offset + line_offset >= -(start column) - 1 for every
       column a node is made with, i.e. an invariant tying column_offset to the last line start <= pos, and the
       sibling nodes' end columns to their text lengths.  Not proved.
   (iii) the delimiter / bracket stacks (insert_emph unwraps, bracket not among the children, process_emphasis
       unreachable!(), pe_loop's non-delimiter branch): need: every stack entry names a distinct Text sibling
       whose text is d_len copies of d_char, d_char is one of the delimiter bytes.  Not proved.
   (iv) after the inline phase: Spx::consume in the e-mail autolink / task list pass.  REACHABLE: finding C01-a
       (pipeline_total_refuted below). *)
Theorem backticks_closer_in_bounds :
  forall memo inp s otl e s2,
    bq inp (pos s) = false -> pos s <= List.length inp ->
    scan_to_closing_backtick memo inp s otl = (Some e, s2) ->
    pos s + otl < e /\ e <= List.length inp.
Proof. exact backticks_closer_bounds. Qed.
Print Assumptions backticks_closer_in_bounds.

Theorem backticks_local_sites_unreachable :
  forall memo inp lo s c site,
    nth_error inp (pos s) = Some c -> beqb c x60 = true ->
    handle_backticks memo inp lo s = Panic site -> backticks_local_site site = false.
Proof. exact backticks_local_sites. Qed.
Print Assumptions backticks_local_sites_unreachable.

(* the pipeline of one block (inline phase, footnote resolution, text post-processing) is NOT total: the model
   reproduces finding C01-a.  Witness: [^-@.c NEWLINE ] with autolink + footnotes + relaxed_autolinks: the
   footnote reference gets the span 2:1-2:1 (start column from line 1, end from line 2), is unresolved, becomes
   the 7-byte Text with that one-column span, and the e-mail pass panics in Spx::consume. *)
Definition pipeline_total_full_statement : Prop := InlinesTotal.pipeline_total_full_statement.

Theorem pipeline_total_refuted : ~ pipeline_total_full_statement.
Proof. exact pipeline_total_refuted_lemma. Qed.
Print Assumptions pipeline_total_refuted.

Theorem pipeline_c01a_witness :
  run_inlines io_c01a oracle_ascii c01a_witness [0%N; 0%N] 1%N [] 100000%N 0%N
  = Ok (Done [Node (FootnoteReference [x2d; x40; x2e; x63] 0 0) (mkSp 2 1 2 1) [];
              Node SoftBreak (mkSp 1 7 1 7) []] 0%N)
  /\ block_pipeline io_c01a oracle_ascii c01a_witness [0%N; 0%N] 1%N [] = Panic site_assert.
Proof. exact c01a_values. Qed.
Print Assumptions pipeline_c01a_witness.

(* ---- 2. node kinds (C04, inline half) ---- *)
Definition inline_kinds_valid_full_statement : Prop := InlinesProofs.inline_kinds_valid_full_statement.

(* PROVED parts: the inline values are children every inline-bearing parent accepts (table regenerated from
   can_contain_type), and insert_emph only makes inline values. *)
Theorem inline_values_accepted :
  forall v, ival v = true ->
    Gen.Nodes.can_contain KParagraph (kind_of v) = true /\ Gen.Nodes.can_contain KHeading (kind_of v) = true
    /\ Gen.Nodes.can_contain KEmph (kind_of v) = true
    /\ Gen.Nodes.can_contain KStrong (kind_of v) = true /\ Gen.Nodes.can_contain KLink (kind_of v) = true
    /\ Gen.Nodes.can_contain KImage (kind_of v) = true /\ Gen.Nodes.can_contain KStrikethrough (kind_of v) = true
    /\ Gen.Nodes.can_contain KSuperscript (kind_of v) = true /\ Gen.Nodes.can_contain KSubscript (kind_of v) = true
    /\ Gen.Nodes.can_contain KUnderline (kind_of v) = true /\ Gen.Nodes.can_contain KSpoileredText (kind_of v) = true
    /\ Gen.Nodes.can_contain KEscapedTag (kind_of v) = true /\ Gen.Nodes.can_contain KWikiLink (kind_of v) = true
    /\ Gen.Nodes.can_contain KEscaped (kind_of v) = true.
Proof. exact ival_can_contain. Qed.
Print Assumptions inline_values_accepted.

Theorem inline_values_accepted_by_cells :
  forall v, ival v = true -> (match v with SoftBreak | LineBreak => false | _ => true end) = true ->
    Gen.Nodes.can_contain KTableCell (kind_of v) = true.
Proof. exact ival_can_contain_cell. Qed.
Print Assumptions inline_values_accepted_by_cells.

Theorem insert_emph_values_inline : forall o c n, ival (emph_value o c n) = true.
Proof. exact emph_value_inline. Qed.
Print Assumptions insert_emph_values_inline.

(* ---- 3. the backtick memo (C06) ----
   FULL statement: scan_to_closing_backtick's memo (`scanned_for_backticks && backticks[n] <= pos` answers None
   without scanning) never changes the result of the inline phase: the parser with the memo and the parser that
   always scans (`run_inlines_gen false`) agree on every block.  It was FALSE of comrak before the repair of finding
   INL-1 (a later scan that stopped at its match overwrote backticks[k] with an earlier position); since the table
   is only written while no scan has reached the end of the input it is a theorem. *)
Definition backtick_memo_sound_full_statement : Prop := InlinesProofs.backtick_memo_sound_full_statement.

Theorem backtick_memo_sound : backtick_memo_sound_full_statement.
Proof. exact backtick_memo_sound_lemma. Qed.
Print Assumptions backtick_memo_sound.

(* the local form.  Invariant of the parser state (InlinesMemo.Inv, kept by every arm of parse_inline:
   backtick_memo_invariant below): once a scan has reached the end, every maximal backtick run of length
   n <= MAXBACKTICKS that starts at or after `pos` starts at or before backticks[n].  Under it, when the memo answers
   "no closer" (backticks[n] <= pos) at a position that does not hold a backtick, the scanning loop started there
   finds no run of length n, whatever table it is given. *)
Theorem backtick_memo_local :
  forall inp s otl fr b,
    Inv inp s -> bq inp (pos s) = false -> otl <= maxbt ->
    scanned s = true -> nth otl (bt s) 0 <= pos s ->
    fst (fst (stcb_loop (skipn (pos s) inp) (pos s) 0 otl fr b)) = None.
Proof. exact backtick_memo_local_lemma. Qed.
Print Assumptions backtick_memo_local.

Theorem backtick_memo_invariant :
  forall memo o u inp lo sl refmap maxref rs0 fuel s,
    inline_loop memo o u inp lo sl refmap maxref fuel (init_st sl rs0) = Ok s -> Inv inp s.
Proof. exact backtick_memo_invariant_lemma. Qed.
Print Assumptions backtick_memo_invariant.

(* Example: the former witness of INL-1 (three backticks, a, a two-backtick span holding a single backtick, d, then a
   one-backtick span x): the last child is the code span x with and without the memo *)
Theorem backtick_memo_witness_repaired :
  last_child (run_inlines_gen false io_default oracle_ascii memo_witness [0%N] 1%N [] 100000%N 0%N)
    = Some (Node (Code 1 [x78]) (mkSp 1 21 1 25) [])
  /\ last_child (run_inlines_gen true io_default oracle_ascii memo_witness [0%N] 1%N [] 100000%N 0%N)
    = Some (Node (Code 1 [x78]) (mkSp 1 21 1 25) []).
Proof. exact memo_witness_values. Qed.
Print Assumptions backtick_memo_witness_repaired.

(* PROVED: the memo only ever replaces an answer by None, and is not consulted before a scan has reached the end *)
Theorem backtick_memo_partial :
  forall inp s otl,
    fst (scan_to_closing_backtick true inp s otl) = None
    \/ scan_to_closing_backtick true inp s otl = scan_to_closing_backtick false inp s otl.
Proof. exact backtick_memo_partial_lemma. Qed.
Print Assumptions backtick_memo_partial.

Theorem backtick_memo_unscanned_same :
  forall inp s otl, scanned s = false ->
    scan_to_closing_backtick true inp s otl = scan_to_closing_backtick false inp s otl.
Proof. exact backtick_memo_unscanned. Qed.
Print Assumptions backtick_memo_unscanned_same.

(* ---- reference definitions (parse_reference_inline of parser/mod.rs, modelled for the tie's reference map) ----
   INL-2 (repaired by `title.clear()`): when the title stands on the next line and is followed by other text, the line
   is given back to the paragraph and the definition has no title.
   For EVERY content: a stored non-empty title is clean_title of a link_title match at p of length tl that ends
   inside the consumed bytes (p + tl <= n), so no byte of a stored title is ever given back to the paragraph. *)
Theorem refdef_title_inside_consumed : forall fold inp n lab url ct,
  parse_reference_inline fold inp = Ok (Some (n, Some (lab, (url, ct)))) -> ct <> [] ->
  exists p tl, Scan.scan_link_title (skipn p inp) = Some tl
               /\ Strings.clean_title (firstn tl (skipn p inp)) = Ok ct /\ p + tl <= n.
Proof. exact RefDefTitle.I.title_inside_consumed. Qed.
Print Assumptions refdef_title_inside_consumed.

(* the former witness of the defect (content: [a]: /u NEWLINE "t" junk NEWLINE): rest = "t" junk, entry a -> (/u, no title) *)
Theorem refdef_title_dropped_witness :
  refdefs (map to_lower_ascii) refdef_witness
  = Ok ([x22; x74; x22; x20; x6a; x75; x6e; x6b; x0a], [([x61], ([x2f; x75], []))]).
Proof. exact refdef_title_dropped_lemma. Qed.
Print Assumptions refdef_title_dropped_witness.

(* ==================================================================================================================
   C01, inline phase, second wave (Proofs/InlinesTotal2*.v).  The inventory of every Panic site of Model/Inlines.v
   with the invariant that excludes it or its witness is the header of Proofs/InlinesTotal2.v. *)
From V Require Spec.EscapeSpec.
From V Require Import Proofs.InlinesTotal2.

(* ---- 1e. the full statement above needs more premises ----
   inlines_total_full_statement is FALSE of the model as stated: its premises allow contents the block phase never
   hands over.  Four model-level witnesses (none is a defect of comrak: not producible through parse_document):
   a blank first line (TAB LF x: parse_inline:endpos-1), a bare CR with one line offset (the premise counts LF
   only: line_offsets[adjusted_line]), a reference budget above the maximum (RefMap::lookup subtraction), and
   INVALID UTF-8 (< ? C3 http://a.b with autolink: the processing-instruction arm eats the h of the scheme, the
   rewind of the autolink meets the HtmlInline: `expected text node before autolink colon`).
   inlines_total_statement is the statement with the premises these witnesses show to be necessary. *)
Theorem inlines_total_full_statement_refuted : ~ inlines_total_full_statement.
Proof. exact inlines_total_old_statement_refuted. Qed.
Print Assumptions inlines_total_full_statement_refuted.

Definition inlines_total_statement : Prop := InlinesTotal2.inlines_total_statement.

Theorem inlines_total_witness_blank_first_line :
  parse_inlines true io_default oracle_ascii r1_input [0%N; 0%N] 1%N [] 100000%N 0%N
  = Panic "inlines.rs:parse_inline:endpos-1".
Proof. exact r1_value. Qed.
Print Assumptions inlines_total_witness_blank_first_line.

Theorem inlines_total_witness_bare_cr :
  parse_inlines true io_default oracle_ascii r2_input [0%N] 1%N [] 100000%N 0%N
  = Panic "inlines.rs:parse_inline:line_offsets[adjusted_line]".
Proof. exact r2_value. Qed.
Print Assumptions inlines_total_witness_bare_cr.

Theorem inlines_total_witness_ref_budget :
  parse_inlines true io_default oracle_ascii r3_input [0%N] 1%N [([x61], ([x2f; x75], []))] 0%N 1%N
  = Panic "inlines.rs:RefMap::lookup:max_ref_size-ref_size".
Proof. exact r3_value. Qed.
Print Assumptions inlines_total_witness_ref_budget.

(* valid UTF-8 of the content is needed *)
Theorem inlines_total_witness_invalid_utf8 :
  parse_inlines true io_autolink_only oracle_ascii r4_input [0%N] 1%N [] 100000%N 0%N
  = Panic "inlines.rs:handle_autolink_with:expected text node before autolink colon"
  /\ Spec.EscapeSpec.utf8_valid r4_input = false.
Proof. exact r4_value. Qed.
Print Assumptions inlines_total_witness_invalid_utf8.

Theorem inlines_total_premises_each_needed :
  (has_nul r1_input = false /\ Strings.rtrim_slice r1_input = r1_input /\ Spec.EscapeSpec.utf8_valid r1_input = true
   /\ line_endings r1_input < 2 /\ first_line_not_blank r1_input = false)
  /\ (has_nul r2_input = false /\ Strings.rtrim_slice r2_input = r2_input /\ Spec.EscapeSpec.utf8_valid r2_input = true
      /\ first_line_not_blank r2_input = true /\ List.length (filter (beqb x0a) r2_input) < 1 /\ line_endings r2_input = 1)
  /\ (has_nul r4_input = false /\ Strings.rtrim_slice r4_input = r4_input /\ first_line_not_blank r4_input = true
      /\ line_endings r4_input < 1 /\ Spec.EscapeSpec.utf8_valid r4_input = false).
Proof. exact inlines_total_premises_needed. Qed.
Print Assumptions inlines_total_premises_each_needed.

(* ---- 1f. the fuel of the inline phase (Proofs/InlinesTotal2Pe.v, InlinesTotal2Fuel.v, InlinesTotal2Inv.v,
   InlinesTotal2Main.v) ----
   PROVED: inlines_fuel_full_statement - the inline phase of a block NEVER answers OutOfFuel, for every option set,
   oracle, content, line-offset table and reference map (no premise at all: a Panic is a different answer).
   The two gaps named at 1b are closed:
   * propagation: no leaf function and no arm of parse_inline answers OutOfFuel except through process_emphasis
     inside close_bracket_match (InlinesTotal2Fuel.v);
   * the closer loop: process_emphasis_fuel_bound below (measure: bytes of text under the ids of the stacked
     non-quote delimiters + 2 * closers still to visit, lowered by >= 2 in every iteration), with the invariant
     FInv of the parser state kept by every arm of parse_inline (the runs of the stacked delimiters are disjoint
     stretches of the input in stack order, the Text items under a stacked id hold at most d_len bytes, stacked
     ids are below the id counter and belong to one delimiter byte each, every stacked byte is an emphasis byte
     under the options or a quote).  The last clause also excludes the model's `neither branch moves the closer`
     answer of pe_loop (where the Rust loop would spin) and the Panic site process_emphasis:unreachable. *)
From V Require Proofs.InlinesTotal2Pe Proofs.InlinesTotal2Inv Proofs.InlinesTotal2Main.

Theorem inlines_fuel : inlines_fuel_full_statement.
Proof. exact InlinesTotal2Main.inlines_fuel. Qed.
Print Assumptions inlines_fuel.

(* the closer loop alone: 2 |input| + 2 |stack| + 2 iterations suffice as soon as the ids of the stack are
   injective up to the delimiter byte, every stacked byte is a delimiter byte under the options, and the texts
   counted for the stacked non-quote delimiters hold at most 4 |input| bytes *)
Theorem process_emphasis_fuel_bound :
  forall o inp s n0 items ds bottom,
    InlinesTotal2Pe.idinj ds ->
    Forall (fun d => InlinesTotal2Pe.dchar_ok o (d_char d) = true) ds ->
    InlinesTotal2Pe.sumf items ds <= 4 * List.length inp ->
    process_emphasis o inp s n0 items ds bottom <> OutOfFuel.
Proof. exact InlinesTotal2Pe.process_emphasis_fuel. Qed.
Print Assumptions process_emphasis_fuel_bound.

(* the invariant holds in every state the main loop reaches *)
Theorem inlines_fuel_invariant :
  forall memo o u inp lo sl refmap maxref rs0 fuel s,
    List.length inp < fuel ->
    inline_loop memo o u inp lo sl refmap maxref fuel (init_st sl rs0) = Ok s -> InlinesTotal2Inv.FInv o inp s.
Proof. exact InlinesTotal2Main.inlines_fuel_invariant_lemma. Qed.
Print Assumptions inlines_fuel_invariant.

(* Panic site process_emphasis:unreachable (ob_index on a byte that is not a delimiter byte): never the answer of
   pe_loop on a stack of delimiter bytes, hence never the answer of the final process_emphasis of parse_inlines *)
Theorem pe_loop_unreachable_site :
  forall o fuel s n0 items ob below cs site,
    Forall (fun d => InlinesTotal2Pe.dchar_ok o (d_char d) = true) cs ->
    pe_loop o fuel s n0 items ob below (hd_error cs) (tl cs) = Panic site ->
    site <> "inlines.rs:process_emphasis:unreachable"%string.
Proof. exact InlinesTotal2Pe.pe_loop_unreachable_site. Qed.
Print Assumptions pe_loop_unreachable_site.

Theorem inlines_total_partial_final_emphasis_unreachable :
  forall memo o u inp lo sl refmap maxref rs0 s site,
    inline_loop memo o u inp lo sl refmap maxref (S (List.length inp)) (init_st sl rs0) = Ok s ->
    process_emphasis o inp s (nid s) (rev (sibs s)) (delims s) 0 = Panic site ->
    site <> "inlines.rs:process_emphasis:unreachable"%string.
Proof. exact InlinesTotal2Main.final_emphasis_unreachable_site. Qed.
Print Assumptions inlines_total_partial_final_emphasis_unreachable.

(* ---- 1g. which Panic sites the inline phase can answer (Proofs/InlinesTotal2Sites.v, InlinesTotal2Walk.v) ----
   PROVED, every option set / oracle / reference map / memo switch: on right-trimmed content whose first line is not
   blank and whose line endings (LF, CR LF, bare CR) are covered by the line-offset table, with the reference budget
   within its maximum, a Panic of parse_inlines is at one of the 16 sites of `inlines_remaining_sites` (spelled out
   in inlines_remaining_sites_are); the other 60 sites - of Model/Inlines.v, of the column arithmetic of
   make_inline / end_column, of clean_title and the autolink leaf functions - are UNREACHABLE
   (inlines_total_partial_unreachable).
   Invariants carried through every arm of parse_inline, the main loop and both calls of process_emphasis:
     CInv  column_offset = -(start of the current line) <= 0, that start <= pos, the byte in front of it is a line end
           (so every column make_inline / end_column computes is >= 0: each arm makes its nodes at or after the
           position it started from; the hard break reaches two bytes back, which are spaces, not the line end)
     LInv  start_line <= line, and line - start_line + line endings still ahead < |line_offsets|
           (handle_newline / the backslash break consume a line ending per line; adjust_node_newlines adds the LF
           count of a slice that lies inside the consumed stretch; its index into the table is that count)
     RInv  ref_size <= max_ref_size          FInv  (1f) stacked bytes are delimiter bytes
   The premises are what the block phase hands over (Model/Parse.v run_leaves: content, line offsets, start line of
   a Paragraph / Heading / TableCell; budget from 0) - that the block phase establishes them is NOT proved here.
   No premise on NUL bytes or UTF-8 validity: the sites that need them are among the remaining ones.
   What a re2c scanner answers is bounded generically (Proofs/InlinesTotal2Scan.v: a block of plain rules with
   action `return Some(cursor)` answers a length between the minimal length of its regular expressions and the
   length of its argument), which closes the slice sites of handle_pointy_brace / handle_close_bracket.
   REMAINING (16), by the invariant that would exclude them:
     (S) the stacks name Text siblings in stack order (13): insert_emph x8, process_emphasis closer / opener
         text_mut().unwrap(), bracket inl_text not among the children x2, label from bracket position;
     (T) the Text siblings in front of an autolink spell the scheme, needs valid UTF-8 (3): handle_autolink_with
         last_child().unwrap(), expected text node before autolink colon [REACHABLE on invalid UTF-8: 1e],
         end.column-reverse. *)
From V Require Proofs.InlinesTotal2Sites Proofs.InlinesTotal2Walk.

Definition inlines_remaining_sites : list String.string := InlinesTotal2Sites.remaining.

Theorem inlines_remaining_sites_are :
  inlines_remaining_sites =
  [ "inlines.rs:insert_emph:opener.inl not among the siblings";
    "inlines.rs:insert_emph:opener.inl.next_sibling().unwrap()";
    "inlines.rs:insert_emph:text().unwrap()";
    "inlines.rs:insert_emph:opener text as_bytes()[0]";
    "inlines.rs:insert_emph:opener_num_chars-use_delims";
    "inlines.rs:insert_emph:closer_num_chars-use_delims";
    "inlines.rs:insert_emph:closer end.column-closer_num_chars";
    "inlines.rs:insert_emph:opener end.column-use_delims";
    "inlines.rs:process_emphasis:closer text_mut().unwrap()";
    "inlines.rs:process_emphasis:opener text_mut().unwrap()";
    "inlines.rs:close_bracket_match:bracket inl_text not among the children";
    "inlines.rs:handle_close_bracket:bracket inl_text not among the children";
    "inlines.rs:handle_close_bracket:label from bracket position";
    "inlines.rs:handle_autolink_with:node.last_child().unwrap()";
    "inlines.rs:handle_autolink_with:expected text node before autolink colon";
    "inlines.rs:handle_autolink_with:end.column-reverse" ]%string.
Proof. exact (eq_refl _). Qed.
Print Assumptions inlines_remaining_sites_are.

Theorem inlines_total_partial_sites :
  forall memo o u inp lo sl refmap maxref rs0 site,
    Strings.rtrim_slice inp = inp -> first_line_not_blank inp = true ->
    line_endings inp < List.length lo -> (rs0 <= maxref)%N ->
    parse_inlines memo o u inp lo sl refmap maxref rs0 = Panic site -> In site inlines_remaining_sites.
Proof. exact InlinesTotal2Walk.inlines_total_partial_sites_lemma. Qed.
Print Assumptions inlines_total_partial_sites.

Theorem inlines_total_partial_unreachable :
  forall memo o u inp lo sl refmap maxref rs0 site,
    Strings.rtrim_slice inp = inp -> first_line_not_blank inp = true ->
    line_endings inp < List.length lo -> (rs0 <= maxref)%N ->
    In site InlinesTotal2Walk.excluded_sites ->
    parse_inlines memo o u inp lo sl refmap maxref rs0 <> Panic site.
Proof. exact InlinesTotal2Walk.inlines_total_partial_unreachable_lemma. Qed.
Print Assumptions inlines_total_partial_unreachable.

(* the list of the sites proved unreachable, spelled out *)
Theorem inlines_unreachable_sites_are :
  InlinesTotal2Walk.excluded_sites =
  [ "inlines.rs:parse_inline:line-start.line";
    "inlines.rs:parse_inline:line_offsets[adjusted_line]";
    "inlines.rs:parse_inline:input[pos..endpos]";
    "inlines.rs:parse_inline:endpos-1";
    "inlines.rs:handle_newline:input[pos]";
    "inlines.rs:handle_newline:input[pos] after CR";
    "inlines.rs:handle_newline:pos-1";
    "inlines.rs:handle_backticks:pos-1";
    "inlines.rs:handle_backticks:endpos-openticks";
    "inlines.rs:handle_backticks:buf";
    "inlines.rs:handle_backticks:endpos-1";
    "inlines.rs:handle_backticks:matchlen";
    "inlines.rs:handle_backslash:unreachable";
    "inlines.rs:handle_backslash:pos-1";
    "inlines.rs:handle_entity:input[pos..]";
    "inlines.rs:handle_entity:pos-1-len";
    "inlines.rs:handle_entity:pos-1";
    "inlines.rs:handle_pointy_brace:input[pos..]";
    "inlines.rs:handle_pointy_brace:uri";
    "inlines.rs:handle_pointy_brace:email";
    "inlines.rs:handle_pointy_brace:contents";
    "inlines.rs:make_autolink:end_column-1";
    "inlines.rs:handle_pointy_brace:pos-1-matchlen";
    "inlines.rs:handle_pointy_brace:pos-matchlen-1";
    "inlines.rs:handle_pointy_brace:pos-1";
    "inlines.rs:handle_delim:pos-numdelims";
    "inlines.rs:handle_delim:contents";
    "inlines.rs:handle_delim:pos-1";
    "inlines.rs:scan_to_closing_dollar:pos-1";
    "inlines.rs:scan_to_closing_dollar:input[pos-1]";
    "inlines.rs:scan_to_closing_code_dollar:pos-1";
    "inlines.rs:scan_to_closing_code_dollar:input[pos-1]";
    "inlines.rs:handle_dollars:endpos-fence_length";
    "inlines.rs:handle_dollars:buf";
    "inlines.rs:handle_dollars:matchlen";
    "inlines.rs:handle_dollars:pos-fence_length";
    "inlines.rs:handle_dollars:pos-1";
    "inlines.rs:adjust_node_newlines:pos-matchlen-extra";
    "inlines.rs:adjust_node_newlines:pos-extra";
    "inlines.rs:adjust_node_newlines:slice";
    "inlines.rs:adjust_node_newlines:line-start.line";
    "inlines.rs:adjust_node_newlines:parent_line_offsets[adjusted_line]";
    "parser/inlines.rs:make_inline:try_from.unwrap";
    "inlines.rs:end_column:try_from.unwrap";
    "inlines.rs:process_emphasis:unreachable";
    "inlines.rs:brackets[brackets_len - 1]";
    "inlines.rs:RefMap::lookup:max_ref_size-ref_size";
    "inlines.rs:handle_close_bracket:input[endurl..]";
    "inlines.rs:handle_close_bracket:input[starttitle..]";
    "inlines.rs:handle_close_bracket:input[endtitle..]";
    "inlines.rs:handle_close_bracket:title";
    "strings.rs:clean_title:title[1..title_len - 1]";
    "inlines.rs:handle_wikilink:startpos-1";
    "inlines.rs:label_backslash_escapes:start_column+offset-1";
    "autolink.rs:www_match:i+link_end-1";
    "inlines.rs:handle_autolink_with:skip-need_reverse";
    "autolink.rs:check_domain:data.len() - 1";
    "autolink.rs:autolink_delim:link_end - 2";
    "autolink.rs:autolink_delim:data[new_end]";
    "autolink.rs:autolink_delim:data[link_end - 1]" ]%string.
Proof. exact (eq_refl _). Qed.
Print Assumptions inlines_unreachable_sites_are.

(* ==================================================================================================================
   C01, inline phase, third wave (Proofs/InlinesTotal3*.v): the stack invariant (S).
   ---- 1h. invariant (S) and what it excludes ----
   (S) (InlinesTotal3Step.SInv): the delimiter stack and the bracket stack, merged by the input position their
   entries were pushed at (bottom first), EMBED order-preserving (InlinesTotal3Emb.emb) into the children of the node
   under construction (first child first): every entry names, by id, a Text sibling -
     a delimiter that is not a quote: k copies of d_char, 1 <= k <= d_len (k = what insert_emph left), END COLUMN >= k;
     a quote delimiter: one of the four curly quotes;     a bracket: the Text `[` / `![`;
   sibling ids are unique, entry positions are <= pos.  TESTED before proving: evaluated in every state of the main
   loop and in every iteration of the closer loop of the final process_emphasis on 6134 delimiter-heavy contents x 4
   option sets (vm_compute; nested / overlapping emphasis, links in emphasis, remove_delimiters after a link match,
   strikethrough / underline / spoiler / superscript runs, smart quotes, footnote references, wikilinks, autolinks).
   PROVED: (S) is kept by every arm of parse_inline (frame + append; handle_delim push: the new Text is numdelims
   copies and ends at column >= numdelims because column_offset >= -pos; push_bracket; close_bracket_match: the stack
   is cut at the bracket, the part above embeds into the new link's children - where process_emphasis runs -, the
   part below into the siblings in front; the footnote-reference path; wikilinks; the autolink rewind under the
   hypothesis that the Text siblings it walks over end in the scheme letters), and under (S)
   process_emphasis / insert_emph NEVER panic (the zipper of pe_loop stays embedded: insert_emph removes the
   delimiters between, shrinks k to k - use_delims, lowers the opener's end column by use_delims).
   CONSEQUENCE (inlines_total_autolink_off): with the autolink extension off, the inline phase of a block is TOTAL
   under the four premises of 1g - all 76 Panic sites unreachable.  With the extension on, totality is reduced
   (inlines_total_reduces_to_T) to the one remaining invariant (T): when url_match answers at `:`, the trailing Text
   siblings spell its rewind (InlinesTotal3Step.spelled) - section 1i. *)
From V Require Proofs.InlinesTotal3Emb Proofs.InlinesTotal3Pe Proofs.InlinesTotal3Step Proofs.InlinesTotal3Walk
     Proofs.InlinesTotal3Main.

Theorem process_emphasis_total_under_S :
  forall o inp s n0 items ds bottom site,
    (- coloff s <= Z.of_nat (pos s))%Z ->
    Forall (fun d => InlinesTotal2Pe.dchar_ok o (d_char d) = true) ds ->
    InlinesTotal3Emb.emb (map InlinesTotal3Emb.ED ds) items ->
    InlinesTotal3Emb.uniq items -> InlinesTotal3Emb.fresh items n0 ->
    process_emphasis o inp s n0 items ds bottom <> Panic site.
Proof. exact InlinesTotal3Main.process_emphasis_nopanic. Qed.
Print Assumptions process_emphasis_total_under_S.

Theorem inlines_total_autolink_off :
  forall memo o u inp lo sl refmap maxref rs0,
    io_autolink o = false ->
    Strings.rtrim_slice inp = inp -> first_line_not_blank inp = true ->
    line_endings inp < List.length lo -> (rs0 <= maxref)%N ->
    exists ch rs, parse_inlines memo o u inp lo sl refmap maxref rs0 = Ok (ch, rs).
Proof. exact InlinesTotal3Main.inlines_total_noautolink. Qed.
Print Assumptions inlines_total_autolink_off.

(* every state invariant J that gives (T) at `:` and is kept by the steps of the main loop gives totality *)
Theorem inlines_total_reduces_to_T :
  forall memo o u inp lo sl refmap maxref,
    Strings.rtrim_slice inp = inp -> first_line_not_blank inp = true ->
    forall J : st -> Prop,
    (forall s, InlinesTotal2Walk.TInv o inp lo sl maxref s -> InlinesTotal3Step.SInv s -> J s ->
               InlinesTotal3Walk.TH o u inp s) ->
    (forall s s', InlinesTotal2Walk.TInv o inp lo sl maxref s -> InlinesTotal3Step.SInv s -> J s ->
                  parse_inline memo o u inp lo sl refmap maxref s = Ok (Some s') -> J s') ->
    forall rs0, line_endings inp < List.length lo -> (rs0 <= maxref)%N -> J (init_st sl rs0) ->
    exists ch rs, parse_inlines memo o u inp lo sl refmap maxref rs0 = Ok (ch, rs).
Proof. exact InlinesTotal3Walk.inlines_total_section. Qed.
Print Assumptions inlines_total_reduces_to_T.

(* non-vacuity of 1h: a content with overlapping emphasis, a link text that closes an emphasis opened outside and a
   strikethrough run meets the premises *)
Theorem inlines_total_autolink_off_example :
  Strings.rtrim_slice InlinesTotal3Main.ex3_input = InlinesTotal3Main.ex3_input
  /\ first_line_not_blank InlinesTotal3Main.ex3_input = true /\ line_endings InlinesTotal3Main.ex3_input < 1.
Proof. exact InlinesTotal3Main.ex3_premises. Qed.
Print Assumptions inlines_total_autolink_off_example.

(* ---- 1i. what is left: invariant (T) ----
   inlines_T_statement: in every state the main loop reaches (InlinesTotal3Main.reach) on NUL-free, right-trimmed, valid
   UTF-8 content under the premises of 1g, when url_match answers at pos the trailing Text siblings spell its rewind
   (InlinesTotal3Walk.TH: each Text the rewind walks over ends in ASCII letters, the one it shortens has an end column
   >= what is taken away).  NOT PROVED (tested by evaluation: InlinesTotal3Test.corpus_all_ok and a random corpus).
   It needs, per arm of parse_inline, that the last byte consumed is not a letter or the appended node is the Text
   of the consumed bytes: for the raw-HTML forms of handle_pointy_brace that take `scanner match + k` bytes (CDATA,
   declaration, processing instruction) this is where valid UTF-8 enters (witness 1e).
   PROVED: with it the corrected full statement follows (inlines_total_from_T); without it: totality with the
   autolink extension off (1h), and for every option set the 60 sites of 1g. *)
Definition inlines_T_statement : Prop := InlinesTotal3Main.inlines_T_statement.

Theorem inlines_total_from_T : inlines_T_statement -> inlines_total_statement.
Proof. exact InlinesTotal3Main.inlines_total_from_T. Qed.
Print Assumptions inlines_total_from_T.

(* (S) and (T) hold in every state of the main loop, and the zipper of pe_loop stays embedded in every iteration of the
   final process_emphasis, on the 134 contents of InlinesTotal3Test.corpus under four option sets (evaluation) *)
From V Require Proofs.InlinesTotal3Test.
Theorem inlines_S_T_hold_on_corpus :
  InlinesTotal3Test.run_all (InlinesTotal3Test.io_all true) = []
  /\ InlinesTotal3Test.run_all (InlinesTotal3Test.io_all false) = []
  /\ InlinesTotal3Test.run_all InlinesTotal3Test.io_relaxed = []
  /\ InlinesTotal3Test.run_all io_default = [].
Proof. exact InlinesTotal3Test.corpus_all_ok. Qed.
Print Assumptions inlines_S_T_hold_on_corpus.

(* ==================================================================================================================
   C01, inline phase, fourth wave (Proofs/InlinesTotal4*.v): invariant (T), totality with the autolink extension ON.
   ---- 1j. (T) at the colon ----
   CORRECTION of 1i: inlines_T_statement (TH in EVERY reachable state) is FALSE - url_match does not look at the byte at
   its position, so in the state behind the autolink of `ftp://a.http //b.c` (next byte SPACE, then slash slash) it
   answers with rewind 4 while the last sibling is the Link (inlines_T_statement_refuted; the premise of
   inlines_total_from_T is therefore never met).  What the dispatcher needs is (T) in states whose next byte is the
   colon (InlinesTotal4Walk.THc; the walk of 1h is repeated with that hypothesis: InlinesTotal4Walk.v).
   The state invariant (InlinesTotal4Inv.J): when the bytes at pos are [ASCII letters] colon slash slash, the trailing
   Text siblings spell the letters immediately in front of pos.  PROVED kept by every arm of parse_inline:
     * the last byte consumed is no ASCII letter (InlinesTotal4Last.v, per arm): line endings and the spaces behind them,
       code spans and backtick runs (a closer is a backtick run), backslash escapes (punctuation / line end), entities
       (Entity.unescape matches end in `;`), the pointy-brace forms whose length is a scanner match - autolink_uri,
       autolink_email, html_tag, html_comment: every match ENDS in `>` (InlinesTotal4Re.re_last: an executable test on
       the regular expressions re2c was given, lifted by matches_last) -, delimiter runs, smart punctuation, dollar math
       (closers are dollar runs), wikilinks (`]]`), all paths of handle_close_bracket (`]`, `)`), `[`, `![`, `!`, `:`;
     * the two autolink arms may end on a letter without a Text: behind the link the bytes are NOT [letters] colon slash
       (InlinesTotal4Auto.v: ext_loop stops at white space / the end; autolink_delim cuts at `<` and takes away from the
       end only bytes that are no `/` - punctuation, closing brackets, `&letters;` - the first of them no letter);
     * the default text arm and the Text `w`: the appended Text holds the consumed bytes (left-trimmed after a hard
       break), its end column is >= its length (column_offset >= -pos); when all of them are letters, J before.
     * the three raw-HTML forms of handle_pointy_brace that take `scanner match + k` bytes - CDATA `<![`, declaration
       `<!X`, processing instruction `<?` - end in `>` when the content is valid UTF-8 without NUL (InlinesTotal4Utf8.v,
       InlinesTotal4Stop.v): what the scanner matched ends on a character boundary (u0: executable, the UTF-8 validator
       run over the byte classes of the expression), every valid character outside the terminator bytes is matched by
       the scanner's character class (cover: executable, derivatives over the bytes the validator accepts), so by
       maximality of the match the rest starts with the terminator or is too short for handle_pointy_brace to go on.
       This is where valid UTF-8 enters (witness 1e).
   CONSEQUENCES:
     inlines_total             the corrected full statement of 1e (inlines_total_statement, both memo switches): NUL-free, right-trimmed, valid
                               UTF-8 content, first line not blank, line endings covered by the line-offset table, budget
                               within its maximum => parse_inlines answers Ok, for EVERY option set (autolink and
                               relaxed_autolinks included), oracle and reference map: all 76 Panic sites unreachable.
     inlines_total_no_decl_pi  without any premise on NUL or UTF-8, for contents without the three forms: `no_decl_pi inp`
                               = behind every `<` there is no `?`, and a `!` only in front of `--` (comments allowed).
   That the block phase hands over such contents (1g) is still NOT proved here. *)
From V Require Proofs.InlinesTotal4Walk Proofs.InlinesTotal4Re Proofs.InlinesTotal4Last Proofs.InlinesTotal4Auto
     Proofs.InlinesTotal4Inv Proofs.InlinesTotal4Utf8 Proofs.InlinesTotal4Stop Proofs.InlinesTotal4Main.

Theorem inlines_T_statement_refuted : ~ inlines_T_statement.
Proof. exact InlinesTotal4Main.T_statement_refuted. Qed.
Print Assumptions inlines_T_statement_refuted.

Definition no_decl_pi : bytes -> bool := InlinesTotal4Main.no_decl_pi.

(* inlines_total_statement (1e) is the instance memo = true: Proofs/InlinesTotal4Main.inlines_total *)
Theorem inlines_total :
  forall memo o u inp lo sl refmap maxref rs0,
    has_nul inp = false -> Strings.rtrim_slice inp = inp -> Spec.EscapeSpec.utf8_valid inp = true ->
    first_line_not_blank inp = true -> line_endings inp < List.length lo -> (rs0 <= maxref)%N ->
    exists ch rs, parse_inlines memo o u inp lo sl refmap maxref rs0 = Ok (ch, rs).
Proof. exact InlinesTotal4Main.inlines_total_utf8. Qed.
Print Assumptions inlines_total.

Theorem inlines_total_no_decl_pi :
  forall memo o u inp lo sl refmap maxref rs0,
    Strings.rtrim_slice inp = inp -> first_line_not_blank inp = true ->
    line_endings inp < List.length lo -> (rs0 <= maxref)%N ->
    no_decl_pi inp = true ->
    exists ch rs, parse_inlines memo o u inp lo sl refmap maxref rs0 = Ok (ch, rs).
Proof. exact InlinesTotal4Main.inlines_total_no_decl_pi. Qed.
Print Assumptions inlines_total_no_decl_pi.

(* ---- 1k. the inline phase of a whole document (Model/Parse.v inline_phase: run_leaves over the leaves of the block
   tree, the reference budget threaded from 0; Proofs/InlinesTotal4Leaves.v) ----
   PROVED: it answers Ok as soon as every leaf the block phase hands over meets, after the right-trim run_inlines_gen
   does itself, the premises of inlines_total - or is empty (parse_inlines on [] returns at once; the exception is
   needed: an ATX heading without text has content [] and NO line offsets, InlinesTotal4LeafTest
   .empty_heading_has_no_line_offsets).  The budget: parse_inlines leaves ref_size <= max_ref_size.
   NOT PROVED: that parse_blocks establishes the premises.  Known: NUL-free leaves for a NUL-free document
   (C13_leaf_contents with Q = not NUL).  EVALUATED: all clauses hold on the 36 leaves of 27 documents under all block
   extensions (InlinesTotal4LeafTest.leaves_ok_on_corpus: headings, stripped reference definitions, tables, tab
   continuation, quotes, alerts, footnotes, description lists, CR LF / bare CR / no final line end, NUL, non-ASCII). *)
From V Require Model.Blocks Model.Parse Proofs.InlinesTotal4Leaves Proofs.InlinesTotal4LeafTest.

Theorem inline_phase_total_given_leaves :
  forall o u root refmap maxref,
    (forall p i, In (p, i) (Parse.bleaves [] root) ->
       let c := Strings.rtrim_slice (Blocks.bi_content i) in
       c = [] \/
       (has_nul c = false /\ Spec.EscapeSpec.utf8_valid c = true /\ first_line_not_blank c = true
        /\ line_endings c < List.length (Blocks.bi_lo i))) ->
    exists t, Parse.inline_phase o u root refmap maxref = Ok t.
Proof. exact InlinesTotal4Leaves.inline_phase_total. Qed.
Print Assumptions inline_phase_total_given_leaves.
