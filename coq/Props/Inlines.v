(* Props/Inlines.v — pinned statements about the inline-parser model (Model/Inlines.v: `Subject` of
   src/parser/inlines.rs, tied to the compiled parser by tools/checks/inlines_tie.py). *)
From Coq Require Import List NArith ZArith Bool Strings.String.
From V Require Import Base.Bytes Base.Res Model.Ast Model.Inlines Proofs.InlinesProofs Proofs.InlinesMemo.
From V Require Model.Scan Model.Strings Proofs.RefDefTitle.
From V Require Gen.Nodes.
Import ListNotations.

(* non-vacuity: the model parses `*a*` into one Emph holding the Text a *)
Theorem inlines_nonvacuous :
  run_inlines io_default oracle_ascii [x2a; x61; x2a] [0%N] 1%N [] 100000%N 0%N
  = Ok (Done [Node Emph (mkSp 1 1 1 3) [Node (Text [x61]) (mkSp 1 2 1 2) []]] 0%N).
Proof. exact inlines_example_proof. Qed.
Print Assumptions inlines_nonvacuous.

(* ---- 1. termination of the main loop (C01, inline half) ----
   FULL statements (kept visible): every iteration of `while subj.parse_inline(node) {}` that answers true moves
   `pos` forward, whatever the options; the whole inline phase of a block answers Ok (no Panic, no fuel exhaustion)
   on NUL-free right-trimmed content whose line_offsets cover its lines. *)
Definition parse_inline_advances_full_statement : Prop :=
  forall memo o u inp lo sl refmap maxref s s',
    parse_inline memo o u inp lo sl refmap maxref s = Ok (Some s') -> pos s < pos s'.

Definition inlines_total_full_statement : Prop :=
  forall o u inp lo sl refmap maxref rs0,
    has_nul inp = false -> Strings.rtrim_slice inp = inp ->
    List.length (filter (beqb x0a) inp) < List.length lo ->
    exists ch rs, parse_inlines true o u inp lo sl refmap maxref rs0 = Ok (ch, rs).

(* PROVED: with the autolink extension off (the arms `:` and `w` then emit one byte of text), every arm of
   parse_inline advances: newline, backticks (either outcome of the closing scan), backslash, entity, pointy
   brace (autolinks, the five raw HTML forms, plain), delimiter runs, hyphen, period, both brackets (wikilinks,
   inline links, reference links, footnote references, plain), bang, dollars, and the default arm (the byte that
   reaches it is not a stop byte of find_special_char: checked for all 256 bytes x 2^7 option sets x within). *)
Theorem parse_inline_advances_partial :
  forall memo o u inp lo sl refmap maxref s s',
    io_autolink o = false ->
    parse_inline memo o u inp lo sl refmap maxref s = Ok (Some s') -> pos s < pos s'.
Proof. exact parse_inline_advances_lemma. Qed.
Print Assumptions parse_inline_advances_partial.

(* PROVED: the fuel |content| + 1 given to the main loop is enough: if the loop reports OutOfFuel, the exhaustion
   happened inside one call of parse_inline (the bounded inner loops), never in the loop itself. *)
Theorem inlines_total_partial :
  forall memo o u inp lo sl refmap maxref rs0,
    io_autolink o = false ->
    inline_loop memo o u inp lo sl refmap maxref (S (List.length inp)) (init_st sl rs0) = OutOfFuel ->
    exists s', parse_inline memo o u inp lo sl refmap maxref s' = OutOfFuel.
Proof.
  intros memo o u inp lo sl refmap maxref rs0 Ha H.
  eapply inline_loop_fuel_lemma; [exact Ha| |exact H]. cbn [pos init_st]. apply PeanoNat.Nat.lt_succ_r, PeanoNat.Nat.le_sub_l.
Qed.
Print Assumptions inlines_total_partial.

(* ---- 2. node kinds (C04, inline half) ---- *)
Definition inline_kinds_valid_full_statement : Prop := InlinesProofs.inline_kinds_valid_full_statement.

(* PROVED parts: the inline values are children every inline-bearing parent accepts (table regenerated from
   can_contain_type), and insert_emph only makes inline values. *)
Theorem inline_values_accepted :
  forall v, ival v = true ->
    Gen.Nodes.can_contain KParagraph (kind_of v) = true /\ Gen.Nodes.can_contain KHeading (kind_of v) = true
    /\ Gen.Nodes.can_contain KEmph (kind_of v) = true
    /\ Gen.Nodes.can_contain KStrong (kind_of v) = true /\ Gen.Nodes.can_contain KLink (kind_of v) = true
    /\ Gen.Nodes.can_contain KImage (kind_of v) = true /\ Gen.Nodes.can_contain KStrikethrough (kind_of v) = true
    /\ Gen.Nodes.can_contain KSuperscript (kind_of v) = true /\ Gen.Nodes.can_contain KSubscript (kind_of v) = true
    /\ Gen.Nodes.can_contain KUnderline (kind_of v) = true /\ Gen.Nodes.can_contain KSpoileredText (kind_of v) = true
    /\ Gen.Nodes.can_contain KEscapedTag (kind_of v) = true /\ Gen.Nodes.can_contain KWikiLink (kind_of v) = true
    /\ Gen.Nodes.can_contain KEscaped (kind_of v) = true.
Proof. exact ival_can_contain. Qed.
Print Assumptions inline_values_accepted.

Theorem inline_values_accepted_by_cells :
  forall v, ival v = true -> (match v with SoftBreak | LineBreak => false | _ => true end) = true ->
    Gen.Nodes.can_contain KTableCell (kind_of v) = true.
Proof. exact ival_can_contain_cell. Qed.
Print Assumptions inline_values_accepted_by_cells.

Theorem insert_emph_values_inline : forall o c n, ival (emph_value o c n) = true.
Proof. exact emph_value_inline. Qed.
Print Assumptions insert_emph_values_inline.

(* ---- 3. the backtick memo (C06) ----
   FULL statement: scan_to_closing_backtick's memo (`scanned_for_backticks && backticks[n] <= pos` answers None
   without scanning) never changes the result of the inline phase: the parser with the memo and the parser that
   always scans (`run_inlines_gen false`) agree on every block.  It was FALSE of comrak before the repair of finding
   INL-1 (a later scan that stopped at its match overwrote backticks[k] with an earlier position); since the table
   is only written while no scan has reached the end of the input it is a theorem. *)
Definition backtick_memo_sound_full_statement : Prop := InlinesProofs.backtick_memo_sound_full_statement.

Theorem backtick_memo_sound : backtick_memo_sound_full_statement.
Proof. exact backtick_memo_sound_lemma. Qed.
Print Assumptions backtick_memo_sound.

(* the local form.  Invariant of the parser state (InlinesMemo.Inv, kept by every arm of parse_inline:
   backtick_memo_invariant below): once a scan has reached the end, every maximal backtick run of length
   n <= MAXBACKTICKS that starts at or after `pos` starts at or before backticks[n].  Under it, when the memo answers
   "no closer" (backticks[n] <= pos) at a position that does not hold a backtick, the scanning loop started there
   finds no run of length n, whatever table it is given. *)
Theorem backtick_memo_local :
  forall inp s otl fr b,
    Inv inp s -> bq inp (pos s) = false -> otl <= maxbt ->
    scanned s = true -> nth otl (bt s) 0 <= pos s ->
    fst (fst (stcb_loop (skipn (pos s) inp) (pos s) 0 otl fr b)) = None.
Proof. exact backtick_memo_local_lemma. Qed.
Print Assumptions backtick_memo_local.

Theorem backtick_memo_invariant :
  forall memo o u inp lo sl refmap maxref rs0 fuel s,
    inline_loop memo o u inp lo sl refmap maxref fuel (init_st sl rs0) = Ok s -> Inv inp s.
Proof. exact backtick_memo_invariant_lemma. Qed.
Print Assumptions backtick_memo_invariant.

(* Example: the former witness of INL-1 (three backticks, a, a two-backtick span holding a single backtick, d, then a
   one-backtick span x): the last child is the code span x with and without the memo *)
Theorem backtick_memo_witness_repaired :
  last_child (run_inlines_gen false io_default oracle_ascii memo_witness [0%N] 1%N [] 100000%N 0%N)
    = Some (Node (Code 1 [x78]) (mkSp 1 21 1 25) [])
  /\ last_child (run_inlines_gen true io_default oracle_ascii memo_witness [0%N] 1%N [] 100000%N 0%N)
    = Some (Node (Code 1 [x78]) (mkSp 1 21 1 25) []).
Proof. exact memo_witness_values. Qed.
Print Assumptions backtick_memo_witness_repaired.

(* PROVED: the memo only ever replaces an answer by None, and is not consulted before a scan has reached the end *)
Theorem backtick_memo_partial :
  forall inp s otl,
    fst (scan_to_closing_backtick true inp s otl) = None
    \/ scan_to_closing_backtick true inp s otl = scan_to_closing_backtick false inp s otl.
Proof. exact backtick_memo_partial_lemma. Qed.
Print Assumptions backtick_memo_partial.

Theorem backtick_memo_unscanned_same :
  forall inp s otl, scanned s = false ->
    scan_to_closing_backtick true inp s otl = scan_to_closing_backtick false inp s otl.
Proof. exact backtick_memo_unscanned. Qed.
Print Assumptions backtick_memo_unscanned_same.

(* ---- reference definitions (parse_reference_inline of parser/mod.rs, modelled for the tie's reference map) ----
   INL-2 (repaired by `title.clear()`): when the title stands on the next line and is followed by other text, the line
   is given back to the paragraph and the definition has no title.
   For EVERY content: a stored non-empty title is clean_title of a link_title match at p of length tl that ends
   inside the consumed bytes (p + tl <= n), so no byte of a stored title is ever given back to the paragraph. *)
Theorem refdef_title_inside_consumed : forall fold inp n lab url ct,
  parse_reference_inline fold inp = Ok (Some (n, Some (lab, (url, ct)))) -> ct <> [] ->
  exists p tl, Scan.scan_link_title (skipn p inp) = Some tl
               /\ Strings.clean_title (firstn tl (skipn p inp)) = Ok ct /\ p + tl <= n.
Proof. exact RefDefTitle.I.title_inside_consumed. Qed.
Print Assumptions refdef_title_inside_consumed.

(* the former witness of the defect (content: [a]: /u NEWLINE "t" junk NEWLINE): rest = "t" junk, entry a -> (/u, no title) *)
Theorem refdef_title_dropped_witness :
  refdefs (map to_lower_ascii) refdef_witness
  = Ok ([x22; x74; x22; x20; x6a; x75; x6e; x6b; x0a], [([x61], ([x2f; x75], []))]).
Proof. exact refdef_title_dropped_lemma. Qed.
Print Assumptions refdef_title_dropped_witness.
