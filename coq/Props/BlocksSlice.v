(* Props/BlocksSlice.v — C12 ("source positions point at the text they claim") for the START of block constructs, on the
   BLOCK PHASE model (Model/Blocks.v `parse_blocks`, tied string for string, source positions included, to the compiled
   parser by tools/checks/blocks_tie.py).  Only pinned statements.

   Columns are 1-based BYTE columns of the line: a tab, each byte of a multi-byte character and each byte of a byte-order
   mark count one (the handlers pass `first_nonspace + 1`, a byte offset).  Lines are numbered as Model/Feed.v `lines`
   splits the input (LF, CR LF, CR).
     byte_at x l c        the byte at column c of line l of the ORIGINAL input x (NUL kept)
     byte_at_repl x l c   the same on the lines the parser works on (every NUL replaced by U+FFFD, three bytes)
     claimed o v          ThematicBreak, BlockQuote, List, Item, HtmlBlock, FootnoteDefinition, Alert, MultilineBlockQuote,
                          ATX Heading, fenced CodeBlock;  Paragraph and setext Heading when the table extension is off
     byte_ok v ob         ThematicBreak: `*` `_` `-`;  BlockQuote, Alert, MultilineBlockQuote: `>`;  bullet List / Item: `*` `-`
                          `+` AND the byte is the bullet_char of the payload;  ordered List / Item: a digit;  HtmlBlock: `<`;
                          FootnoteDefinition: `[`;  ATX Heading: `#`;  fenced CodeBlock: backtick or `~` AND the byte is the
                          fence_char of the payload;  Paragraph, setext Heading: IF there is a byte at the position it is not a
                          space, tab, LF or CR (that the position lies inside the line is not claimed for these two)
   PROVED for every input x with parse_blocks o x = Ok r, for every node of the public tree, when front matter and the
   description list extension are off:
     BlocksSlice_start_repl   1 <= start line, 1 <= start column, byte_ok (value) (byte_at_repl x start)  — every input
     BlocksSlice_start        the same with byte_at x (the ORIGINAL input)                                 — inputs without NUL
   Tabs (also partially consumed ones), a byte-order mark on line 1 and lazy continuation lines are NOT exceptions.
   REFUTED (vm_compute on the model; replayed on the compiled parser):
     BlocksSlice_nul_refuted    with NUL the start column is the column in the U+FFFD-replaced line: `[^<NUL>]: > q` reports
                                the BlockQuote at 1:9, the `>` is at 1:7 (known class nul_shift, C12-i / C11-m)
     BlocksSlice_table_refuted  the Table node (and its rows) do not start on the first byte of the row's line content:
                                `x / |a| / |-|` (indented rows) reports Table 2:1, a blank (known class table_row_indent,
                                C12-f / C11-g).  Table, TableRow, TableCell are not claimed.
   NOT PROVED: BlocksSlice_full_statement (description lists on; front matter; Paragraph with the table extension on). *)
From Coq Require Import List NArith Bool.
From V Require Import Base.Bytes Base.Res Gen.Nodes Model.Ast Model.Scan Model.Feed Model.Blocks Proofs.BlocksPos Proofs.BlocksPosRun
  Proofs.BlocksSliceScan Proofs.BlocksSlice Proofs.BlocksSliceRun Proofs.BlocksSliceFinal.
Import ListNotations.
From Coq Require Import Strings.String.
Local Open Scope string_scope.
Local Open Scope list_scope.

(* the claim for one node of the public tree, `at_` = byte_at x or byte_at_repl x *)
Definition BlocksSlice_claim (o : bopts) (at_ : nat -> nat -> option byte) (n : node) : Prop :=
  claimed o (nval n) = true ->
  (1 <= sl (nsp n))%N /\ (1 <= sc (nsp n))%N /\
  byte_ok (nval n) (at_ (N.to_nat (sl (nsp n))) (N.to_nat (sc (nsp n)))) = true.

Theorem BlocksSlice_start_repl : forall o x r,
  parse_blocks o x = Ok r -> bo_front_matter_delimiter o = None -> bo_description_lists o = false ->
  forall n, In n (nsub (to_node (br_root r))) -> BlocksSlice_claim o (byte_at_repl x) n.
Proof. exact parse_blocks_start_repl. Qed.
Print Assumptions BlocksSlice_start_repl.

Theorem BlocksSlice_start : forall o x r,
  parse_blocks o x = Ok r -> bo_front_matter_delimiter o = None -> bo_description_lists o = false ->
  nul_free x = true ->
  forall n, In n (nsub (to_node (br_root r))) -> BlocksSlice_claim o (byte_at x) n.
Proof. exact parse_blocks_start. Qed.
Print Assumptions BlocksSlice_start.

(* without NUL the two notions of line are the same *)
Theorem BlocksSlice_lines_nul_free : forall x, nul_free x = true -> lines x = raw_lines x.
Proof. exact lines_nul_free. Qed.
Print Assumptions BlocksSlice_lines_nul_free.

(* the invariant on the model's own tree, and the step it is carried by: one line *)
Theorem BlocksSlice_invariant : forall o x r,
  parse_blocks o x = Ok r -> bo_front_matter_delimiter o = None -> bo_description_lists o = false ->
  all_info (Sn o (lines x)) (br_root r).
Proof. exact parse_blocks_sn. Qed.
Print Assumptions BlocksSlice_invariant.

Theorem BlocksSlice_process_line : forall o ls K st line0 st',
  bo_description_lists o = false -> nth_error ls K = Some line0 ->
  process_line o st line0 = Ok st' -> SB o ls K st -> SB o ls (S K) st'.
Proof. exact process_line_sb. Qed.
Print Assumptions BlocksSlice_process_line.

(* what the detectors of open_new_blocks see at first_nonspace: the first byte of a scanner match *)
Theorem BlocksSlice_scanners : forall s m,
  (scan_atx_heading_start s = Some m -> exists b t, s = b :: t /\ is_hash b = true) /\
  (scan_open_code_fence s = Some m -> exists b t, s = b :: t /\ is_fence b = true) /\
  (scan_html_block_start s = Some m -> exists b t, s = b :: t /\ is_lt b = true) /\
  (scan_html_block_start_7 s = Some m -> exists b t, s = b :: t /\ is_lt b = true) /\
  (scan_footnote_definition s = Some m -> exists b t, s = b :: t /\ is_lbracket b = true) /\
  (scan_open_multiline_block_quote_fence s = Some m -> exists b t, s = b :: t /\ is_gt b = true) /\
  (scan_description_item_start s = Some m -> exists b t, s = b :: t /\ is_dmark b = true).
Proof.
  exact (fun s m => conj (scan_atx_heading_start_first s m) (conj (scan_open_code_fence_first s m)
          (conj (scan_html_block_start_first s m) (conj (scan_html_block_start_7_first s m)
          (conj (scan_footnote_definition_first s m) (conj (scan_open_mbq_fence_first s m) (scan_description_item_start_first s m))))))).
Qed.
Print Assumptions BlocksSlice_scanners.

(* ---- refutations *)
Theorem BlocksSlice_nul_refuted :
  parsed_starts o_fn nul_doc = Ok
    [ (KDocument, (1, 1)%N, Some x5b); (KFootnoteDefinition, (1, 1)%N, Some x5b);
      (KBlockQuote, (1, 9)%N, Some x71); (KParagraph, (1, 11)%N, None); (KParagraph, (3, 1)%N, Some x5b) ]
  /\ byte_at nul_doc 1 7 = Some x3e /\ byte_at_repl nul_doc 1 9 = Some x3e.
Proof. exact nul_refuted. Qed.
Print Assumptions BlocksSlice_nul_refuted.

Theorem BlocksSlice_table_refuted :
  parsed_starts o_tb table_doc = Ok
    [ (KDocument, (1, 1)%N, Some x78); (KParagraph, (1, 1)%N, Some x78);
      (KTable, (2, 1)%N, Some x20); (KTableRow, (2, 1)%N, Some x20); (KTableCell, (2, 2)%N, Some x7c) ].
Proof. exact table_refuted. Qed.
Print Assumptions BlocksSlice_table_refuted.

(* ---- what is left open.  The claim for every option set (front matter and description lists included) and with Paragraph
   and setext Heading claimed also when the table extension is on, for inputs without NUL.  Gaps: (1) description lists:
   parse_desc_list_details writes the start of the paragraph it absorbs into the DescriptionList / DescriptionItem it reaches
   through the identifiers add_child returned; that these are the new (unclaimed) nodes needs the pairwise distinct
   identifiers of Proofs/ParserShapeTabPrim.v, which this walk does not carry; (2) front matter: the line counter starts at
   the number of line endings of the front matter, which has to be related to `raw_lines` of the whole input; (3) table
   extension: try_inserting_table_header_paragraph moves the start LINE of the paragraph that becomes the table before the
   paragraph is replaced; that the moved node is the replaced one needs the distinct identifiers again.  No counterexample
   on the compiled parser in 28 000 generated documents (tabs, NUL, byte-order mark, CR / CR LF, front matter, every block
   extension): the only failing starts are Table / TableRow / TableCell and nodes behind a NUL on their line. *)
Definition claimed_all (v : node_value) : bool :=
  match v with
  | ThematicBreak | BlockQuote | NList _ | Item _ | HtmlBlock _ _ | FootnoteDefinition _ _ | Alert _
  | MultilineBlockQuote _ _ | Heading _ _ | Paragraph => true
  | CodeBlock cb => cb_fenced cb
  | _ => false
  end.

Definition BlocksSlice_full_statement : Prop := forall o x r,
  parse_blocks o x = Ok r -> nul_free x = true ->
  forall n, In n (nsub (to_node (br_root r))) -> claimed_all (nval n) = true ->
  (1 <= sl (nsp n))%N /\ (1 <= sc (nsp n))%N /\
  byte_ok (nval n) (byte_at x (N.to_nat (sl (nsp n))) (N.to_nat (sc (nsp n)))) = true.

(* ---- non-vacuity: every claimed kind once, behind a byte-order mark, tabs after the markers, nested containers; the
   third component is the byte of the original input at the reported start *)
Example BlocksSlice_example :
  parsed_starts o_all ex_doc = Ok
    [ (KDocument, (1, 1)%N, Some xef);
      (KBlockQuote, (1, 4)%N, Some x3e); (KHeading, (1, 6)%N, Some x23);
      (KList, (2, 1)%N, Some x2d); (KItem, (2, 1)%N, Some x2d);
      (KList, (2, 3)%N, Some x31); (KItem, (2, 3)%N, Some x31); (KThematicBreak, (2, 6)%N, Some x2a);
      (KCodeBlock, (4, 1)%N, Some x7e);
      (KHtmlBlock, (7, 2)%N, Some x3c);
      (KFootnoteDefinition, (9, 1)%N, Some x5b); (KParagraph, (9, 7)%N, Some x74);
      (KAlert, (11, 1)%N, Some x3e); (KParagraph, (12, 3)%N, Some x61);
      (KMultilineBlockQuote, (14, 1)%N, Some x3e); (KHeading, (15, 1)%N, Some x70) ].
Proof. exact starts_example. Qed.
