(* Props/ParseMore.v — companions of Props/Parse.v (the whole parser as one Coq function, Model/Parse.v).  Only pinned
   statements.
     Parse_final_tree_sp_shape    s2, s3, s4, s7, s6w of final_tree_sp (Props/ParserShape.v Parser_shape with the moved column)
     Parse_final_tree_sp_none     final_tree_sp with no start column moved IS ParserShapeCompose.final_tree
     Parse_attach_is_attach, Parse_taskify_is_taskify
                                  the tree functions of Model/Parse.v are those of Proofs/ParserShapeAttach.v
     Parse_line_invariance_small  Parse_line_invariance with the budget premise discharged for inputs of at most 100000 bytes
     Parse_crlf / Parse_cr / Parse_final_newline / Parse_nul
                                  the four rewrites of C08 leave the result of the whole parser (tree or panic) unchanged *)
From Coq Require Import List NArith Arith Bool Strings.String.
From V Require Import Base.Bytes Base.Res Gen.Nodes Gen.FeedConst Model.Ast Model.Feed Model.Blocks Model.Inlines Model.Footnotes
  Model.Parse Model.Html Model.Xml
  Spec.Shape Spec.HtmlSpec Spec.XmlLex Spec.Valid Spec.NestSpec Spec.LineEndings
  Proofs.InlinesProofs Proofs.ParserShapeInl Proofs.ParserShapeAttach Proofs.ParserShapeCompose Proofs.ParseProofs.
Import ListNotations.
Local Open Scope string_scope.
Local Open Scope list_scope.

(* the composition with the moved start column keeps the shape clauses (Parser_shape for final_tree_sp) *)
Theorem Parse_final_tree_sp_shape : forall o x r fold pres perm inl1 inl2 act col,
  parse_blocks o x = Ok r -> inl_ok inl1 -> inl_ok inl2 ->
  let t := final_tree_sp (bo_footnotes o) fold pres perm inl1 inl2 act col (to_node (br_root r)) in
  s2 t = true /\ s3 t = true /\ s4 t = true /\ s7 t = true /\ s6w t = true.
Proof. exact final_shape_sp. Qed.
Print Assumptions Parse_final_tree_sp_shape.

Theorem Parse_final_tree_sp_none : forall fn fold pres perm inl1 inl2 act t0,
  final_tree_sp fn fold pres perm inl1 inl2 act (fun _ => None) t0 = final_tree fn fold pres perm inl1 inl2 act t0.
Proof. exact final_tree_sp_none. Qed.
Print Assumptions Parse_final_tree_sp_none.

(* the tree functions of Model/Parse.v are those of Proofs/ParserShapeAttach.v *)
Theorem Parse_attach_is_attach : p_attach = attach.
Proof. exact p_attach_eq. Qed.
Print Assumptions Parse_attach_is_attach.

Theorem Parse_taskify_is_taskify : forall sym drop n path,
  p_taskify sym drop path n = taskify (act_of_fns sym drop) path n.
Proof. exact p_taskify_eq. Qed.
Print Assumptions Parse_taskify_is_taskify.

Theorem Parse_line_invariance_small : forall o u x y,
  po_front_matter_delimiter o = None -> lines x = lines y ->
  (N.of_nat (List.length x) <= ref_budget_floor)%N -> (N.of_nat (List.length y) <= ref_budget_floor)%N ->
  parse_document_model o u x = parse_document_model o u y.
Proof. exact parse_line_invariance_small. Qed.
Print Assumptions Parse_line_invariance_small.

Theorem Parse_crlf : forall o u x,
  po_front_matter_delimiter o = None -> no_cr x = true -> (N.of_nat (List.length (to_crlf x)) <= ref_budget_floor)%N ->
  parse_document_model o u (to_crlf x) = parse_document_model o u x.
Proof. exact parse_crlf. Qed.
Print Assumptions Parse_crlf.

Theorem Parse_cr : forall o u x,
  po_front_matter_delimiter o = None -> no_cr x = true ->
  parse_document_model o u (to_cr x) = parse_document_model o u x.
Proof. exact parse_cr. Qed.
Print Assumptions Parse_cr.

Theorem Parse_final_newline : forall o u x,
  po_front_matter_delimiter o = None -> x <> [] -> ends_nl x = false ->
  (N.of_nat (List.length (add_final_nl x)) <= ref_budget_floor)%N ->
  parse_document_model o u (add_final_nl x) = parse_document_model o u x.
Proof. exact parse_final_newline. Qed.
Print Assumptions Parse_final_newline.

Theorem Parse_nul : forall o u x,
  po_front_matter_delimiter o = None -> (N.of_nat (List.length (nul_to_fffd x)) <= ref_budget_floor)%N ->
  parse_document_model o u (nul_to_fffd x) = parse_document_model o u x.
Proof. exact parse_nul. Qed.
Print Assumptions Parse_nul.
