(* Props/C11.v — Source positions always lie inside the source and nest consistently.
   Only pinned statements.  Level: proof of the arithmetic components (the queue that maps consumed bytes
   to columns, the signed column arithmetic of make_inline / column_add) and of what the executable
   predicates mean; the global statement `forall x, sp_in_bounds x (parse x) && sp_nested (parse x)` is
   NOT proved: it is evaluated on the implementation with the extracted predicates (tools/checks/c11.py)
   and is known to fail in the classes of Spec/SourcePosKnown.v. *)
From Coq Require Import List NArith ZArith Bool.
From V Require Import Base.Bytes Base.Res Model.Ast Model.Spx Spec.SourcePos Proofs.SpxProofs Proofs.SourcePosProofs.
Import ListNotations.
From Coq Require Import Strings.String.
Local Open Scope string_scope.
Local Open Scope list_scope.
Local Open Scope N_scope.

(* the global statement, kept visible *)
Definition C11_full_statement (parse : bytes -> node) : Prop :=
  forall src, sp_in_bounds src (parse src) = true /\ sp_nested (parse src) = true.

(* Spx::consume: with verbatim, adjacent pieces and enough bytes queued it never panics and returns
   start + consumed - 1, a column inside the merged span *)
Theorem C11_spx_consume_ok : forall q rem, q <> [] -> Forall verbatim q -> contiguous q -> rem <= total q ->
  exists c q', consume q rem = Ok (c, q') /\
    c + 1 = q_start q + rem /\ q_start q <= c + 1 /\ c <= q_end q.
Proof. exact spx_consume_ok. Qed.
Print Assumptions C11_spx_consume_ok.

(* ... and the queue it leaves satisfies the hypotheses again (repeated calls) *)
Theorem C11_spx_consume_invariant : forall q rem, q <> [] -> Forall verbatim q -> contiguous q -> rem <= total q ->
  exists c q', consume q rem = Ok (c, q') /\
    c + 1 = q_start q + rem /\
    Forall verbatim q' /\ contiguous q' /\ total q' = total q - rem /\
    (q' <> [] -> q_start q' = c + 1 /\ q_end q' = q_end q).
Proof. exact consume_ok_inv. Qed.
Print Assumptions C11_spx_consume_invariant.

(* without the verbatim hypothesis the assert fires (smart punctuation, multi-line text) *)
Theorem C11_spx_consume_refuted : exists q rem, q <> [] /\ rem <= total q /\ consume q rem = Panic site_assert.
Proof. exact spx_consume_refuted. Qed.
Print Assumptions C11_spx_consume_refuted.

(* F25: a piece that ends before it starts panics in the subtraction of the assert (debug build) *)
Theorem C11_spx_consume_sub_overflow : exists q rem, q <> [] /\ rem <= total q /\ consume q rem = Panic site_sub1.
Proof. exact spx_consume_sub_overflow. Qed.
Print Assumptions C11_spx_consume_sub_overflow.

(* signed arithmetic: try_from(..).unwrap() cannot fail when the sum is non-negative, and fails otherwise *)
Theorem C11_column_add_ok : forall col off, (0 <= Z.of_N col + off)%Z ->
  exists c, column_add col off = Ok c /\ Z.of_N c = (Z.of_N col + off)%Z.
Proof. exact column_add_ok. Qed.
Print Assumptions C11_column_add_ok.

Theorem C11_column_add_panics_iff : forall col off,
  column_add col off = Panic site_column_add <-> (Z.of_N col + off < 0)%Z.
Proof. exact column_add_panics_iff. Qed.
Print Assumptions C11_column_add_panics_iff.

Theorem C11_newline_offset_invariant : forall p q lo, p <= q ->
  (0 <= Z.of_N q + newline_offset p + Z.of_N lo)%Z.
Proof. exact newline_offset_invariant. Qed.
Print Assumptions C11_newline_offset_invariant.

Theorem C11_adjust_offset_invariant : forall p q sn ex lo, p <= q ->
  (0 <= Z.of_N q + adjust_offset p sn ex + Z.of_N lo)%Z.
Proof. exact adjust_offset_invariant. Qed.
Print Assumptions C11_adjust_offset_invariant.

(* the first byte after a line ending gets column line_offset + 1 *)
Theorem C11_newline_first_column : forall p lo,
  make_inline_cols p p (newline_offset p) lo = Ok (lo + 1, lo + 1).
Proof. exact newline_first_column. Qed.
Print Assumptions C11_newline_first_column.

(* what the executable predicates mean *)
Theorem C11_in_bounds_meaning : forall L sp, node_in_bounds L sp = true ->
  1 <= sl sp /\ sl sp <= el sp /\ el sp <= nlines L /\
  (sl sp < el sp \/ (sl sp = el sp /\ sc sp <= ec sp)) /\
  exists a b, line_at L (sl sp) = Some a /\ line_at L (el sp) = Some b /\
    1 <= sc sp /\ sc sp <= blen (ln_body a) + N.max 1 (blen (ln_term a)) /\
    1 <= ec sp /\ ec sp <= blen (ln_body b) + N.max 1 (blen (ln_term b)).
Proof. exact node_in_bounds_spec. Qed.
Print Assumptions C11_in_bounds_meaning.

Theorem C11_within_trans : forall a b c, sp_within a b = true -> sp_within b c = true -> sp_within a c = true.
Proof. exact sp_within_trans. Qed.
Print Assumptions C11_within_trans.

Theorem C11_before_within : forall a b x y,
  sp_before a b = true -> sp_within x a = true -> sp_within y b = true -> sp_before x y = true.
Proof. exact sp_before_within. Qed.
Print Assumptions C11_before_within.

(* non-vacuity: the documentation's own example  Hello *world*!  is accepted, an inverted range is not *)
Example C11_example_doc :
  let src := B "Hello *world*!" in
  let t := Node Document (mkSp 1 1 1 14)
            [Node Paragraph (mkSp 1 1 1 14)
              [Node (Text (B "Hello ")) (mkSp 1 1 1 6) [];
               Node Emph (mkSp 1 7 1 13) [Node (Text (B "world")) (mkSp 1 8 1 12) []];
               Node (Text (B "!")) (mkSp 1 14 1 14) []]] in
  sp_in_bounds src t = true /\ sp_nested t = true /\
  sp_in_bounds src (Node Document (mkSp 1 4 1 3) []) = false.
Proof. vm_compute. repeat split. Qed.
