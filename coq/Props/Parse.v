(* Props/Parse.v — Layer C, the WHOLE parser as one Coq function.  Only pinned statements, each closed by `exact` and
   followed by Print Assumptions.

   `parse_document_model o u x` (Model/Parse.v) is parse_document: the block phase (Model/Blocks.parse_blocks), then
   Parser::process_inlines (Model/Inlines.run_inlines_gen on every Paragraph / Heading / TableCell of the block tree, in the
   order of descendants(), with the content, line offsets and start line the block tree carries, the reference map and
   max_ref_size the block phase produced and the reference budget threaded from leaf to leaf), process_footnotes
   (Model/Footnotes.process, iff extension.footnotes), postprocess_text_nodes (Model/Inlines.postprocess_block on every
   leaf, the task-list effects applied to the ancestors).  `o` holds every option the parser reads, `u` the Unicode
   oracle of Model/Inlines.v.  It is tied END TO END to the compiled parse_document by tools/checks/parse_tie.py
   (`./check PARSE_TIE quick`): equal trees, kinds, payloads and source positions, nothing masked; the glue functions
   (parse_document, finish, finalize_document, process_inlines, process_inlines_node, parse_inlines, contains_inlines)
   are pinned verbatim by the translator item parse_glue.

   With this function the results of Props/ParserShape.v, which were about an abstract composition whose per-leaf
   inline lists were PARAMETERS, become statements about one function of the input bytes:

     Parse_is_final_tree     every tree the model returns is final_tree_sp (= ParserShapeCompose.final_tree plus the start
                             column process_tasklist moves) of the block tree, with inline lists that are inline trees
     Parse_shape             s2, s3, s4, s7, s6w of every tree the model returns
     Parse_C02               every HTML event is safe when render.unsafe is off          (C02_events, premises discharged)
     Parse_C10               the HTML events are well nested                            (C10_nested_weak)
     Parse_html_total / Parse_xml_total    the HTML / XML renderer models do not panic on it
     Parse_valid_partial     C04, tree clause: the final tree is the composition of a STRUCTURALLY VALID block tree
                             (Spec.Valid.structurally_valid: containment, root, heading levels, table shape and column
                             counts) with forests all of whose values are inline kinds, and itself satisfies the root,
                             heading-level and table-shape clauses
     Parse_valid_partial2    C04, tree clause, ALL of Spec.Valid.structurally_valid for the final tree (containment at every
                             edge above and below the leaves, root, heading levels, lists, table shape, the column-count
                             equation, literal kinds are leaves), under ONE premise about the block tree:
                             Spec.ParseValidSpec.bcells_ok, the content of every TableCell holds neither CR nor LF
     Parse_valid_no_table    the same WITHOUT premise when extension.table is off
     Parse_inline_forest_valid / Parse_post_forest_valid / Parse_forest_meaning
                             containment below the leaves: every forest parse_inlines returns, and every forest
                             postprocess_block makes of one, consists of trees valid at every edge whose roots a Paragraph
                             and a Heading accept, and a TableCell too when the input holds no CR / LF
     Parse_valid_report_sound  the executable report tools/checks/c04.py evaluates (premise, conclusion) is sound
     Parse_cells_row / Parse_cells_blocks
                             the premise, for every input: the prefix scanners::table_cell returns holds neither CR nor LF
                             (both spoiler settings: Props/ParseValid.v Parse_cells_scanner), so every cell table.rs::row cuts
                             is free of them (unescape_pipes and trim only remove bytes); and the block phase never puts a
                             line end into a TableCell (add_line is only applied to a Paragraph, a Heading, a CodeBlock, an
                             HtmlBlock): bcells_ok of the block tree
     Parse_valid             = Parse_valid_full_statement: C04, tree clause, ALL of Spec.Valid.structurally_valid for EVERY
                             tree the parser model returns, no premise
                             Props/ParseValid.v (obligations of C04 only): Parse_valid_corollaries - the validator model
                             accepts the tree, the HTML and XML renderer models return Ok on it, the report of the check
                             answers (true, true) whenever it answers
     Parse_line_invariance   C08 for the whole pipeline: without a front matter delimiter, equal lines and equal
                             reference budget max_ref_size(total_size) give the same result (tree or panic)
   Props/ParseMore.v: Parse_final_tree_sp_shape (Parser_shape for final_tree_sp), Parse_final_tree_sp_none (final_tree_sp with no
   column moved IS final_tree), Parse_attach_is_attach,
   Parse_taskify_is_taskify (the tree functions of Model/Parse.v are those of ParserShapeAttach.v),
   Parse_line_invariance_small (the budget premise holds when both inputs are at most 100000 bytes), Parse_crlf / Parse_cr /
   Parse_final_newline / Parse_nul (the four rewrites of C08).

   Every statement is about runs of the model that return Ok (totality of parse_blocks is Props/Blocks.v
   Blocks_total_full_statement, not proved), for EVERY option set, oracle and input. *)
From Coq Require Import List NArith Arith Bool Strings.String.
From V Require Import Base.Bytes Base.Res Gen.Nodes Gen.FeedConst Model.Ast Model.Feed Model.Blocks Model.Inlines Model.Footnotes
  Model.Parse Model.Html Model.Xml
  Spec.Shape Spec.HtmlSpec Spec.XmlLex Spec.Valid Spec.NestSpec Spec.LineEndings
  Proofs.InlinesProofs Proofs.ParserShapeInl Proofs.ParserShapeAttach Proofs.ParserShapeCompose Proofs.ParseProofs.
Import ListNotations.
Local Open Scope string_scope.
Local Open Scope list_scope.

(* ---- the function is the composition *)
Theorem Parse_is_final_tree : forall o u x t,
  parse_document_model o u x = Ok t ->
  exists r inl1 inl2 act col,
    parse_blocks (bopts_of o u) x = Ok r /\ inl_ok inl1 /\ inl_ok inl2 /\
    t = final_tree_sp (bo_footnotes (bopts_of o u)) (fn_fold u) (fn_pres u) fn_perm inl1 inl2 act col (to_node (br_root r)).
Proof. exact parse_is_final_tree. Qed.
Print Assumptions Parse_is_final_tree.

(* ---- the shape clauses of every tree the parser model returns *)
Theorem Parse_shape : forall o u x t,
  parse_document_model o u x = Ok t ->
  s2 t = true /\ s3 t = true /\ s4 t = true /\ s7 t = true /\ s6w t = true.
Proof. exact parse_shape. Qed.
Print Assumptions Parse_shape.

(* ---- the renderer theorems about what the parser produces *)
Theorem Parse_C02 : forall o u x t slug ro evs,
  parse_document_model o u x = Ok t ->
  o_unsafe ro = false -> (forall h, forallb inert_byte (slug h) = true) ->
  events slug ro t = Ok evs -> forallb safe_ev evs = true.
Proof. exact parse_html_safe. Qed.
Print Assumptions Parse_C02.

Theorem Parse_C10 : forall o u x t slug ro evs,
  parse_document_model o u x = Ok t -> events slug ro t = Ok evs -> well_nested evs = true.
Proof. exact parse_html_nested. Qed.
Print Assumptions Parse_C10.

Theorem Parse_html_total : forall o u x t slug ro,
  parse_document_model o u x = Ok t -> exists evs, events slug ro t = Ok evs.
Proof. exact parse_html_total. Qed.
Print Assumptions Parse_html_total.

Theorem Parse_xml_total : forall o u x t ro,
  parse_document_model o u x = Ok t -> exists b, xml ro t = Ok b.
Proof. exact parse_xml_total. Qed.
Print Assumptions Parse_xml_total.

(* ---- C04, the tree clause for the final tree *)
Definition Parse_valid_full_statement : Prop :=
  forall o u x t, parse_document_model o u x = Ok t -> structurally_valid t = true.

Theorem Parse_valid_partial : forall o u x t,
  parse_document_model o u x = Ok t ->
  exists r inl1 inl2 act col,
    parse_blocks (bopts_of o u) x = Ok r /\
    structurally_valid (to_node (br_root r)) = true /\
    (forall p, forallb itree (inl1 p) = true) /\ (forall p, forallb itree (inl2 p) = true) /\
    t = final_tree_sp (bo_footnotes (bopts_of o u)) (fn_fold u) (fn_pres u) fn_perm inl1 inl2 act col (to_node (br_root r)) /\
    s2 t = true /\ headings_ok t = true /\ s3 t = true.
Proof. exact parse_valid_partial. Qed.
Print Assumptions Parse_valid_partial.

(* ---- C08 for the whole pipeline *)
Theorem Parse_line_invariance : forall o u x y,
  po_front_matter_delimiter o = None -> lines x = lines y ->
  max_ref_size (Feed.total_size x) = max_ref_size (Feed.total_size y) ->
  parse_document_model o u x = parse_document_model o u y.
Proof. exact parse_line_invariance. Qed.
Print Assumptions Parse_line_invariance.

(* ---- non-vacuity: a task item with emphasis, a reference link resolved from a definition of the same document, a
   numbered and an unresolved footnote reference, an autolink inside the definition, a table with strikethrough *)
Example Parse_example :
  exists t, parse_document_model ex_o ex_u ex_doc = Ok t /\
    map (fun c => kind_of (nval c)) (nch t) = [KList; KTable; KFootnoteDefinition] /\
    match nch t with
    | Node (NList l) _ [Node (TaskItem (Some s)) _ [Node Paragraph psp kids]] :: _ =>
      l_task l = true /\ s = B "x" /\ sc psp = 7%N /\
      map (fun c => kind_of (nval c)) kids = [KEmph; KText; KLink; KText; KFootnoteReference; KText]
    | _ => False
    end /\
    s2 t && s3 t && s4 t && s7 t && s6w t = true /\
    parse_document_model ex_o ex_u (to_crlf ex_doc) = Ok t.
Proof. exact parse_example. Qed.

(* ================================================================== C04, the tree clause for the final tree (second wave) *)
From V Require Import Spec.ParseValidSpec Proofs.ParseValidInl Proofs.ParseValidTree Proofs.ParseValid.

(* containment below the leaves.  ivt nb n: every value of n is an inline value, a node of a literal kind (Text, SoftBreak,
   LineBreak, Code, HtmlInline, FootnoteReference, Math) has no children, and with nb = true no SoftBreak / LineBreak occurs *)
Theorem Parse_inline_forest_valid : forall nb memo o u inp lo sl refmap maxref rs0 ch rs,
  (nb = true -> no_nl inp = true) ->
  parse_inlines memo o u inp lo sl refmap maxref rs0 = Ok (ch, rs) -> forallb (ivt nb) ch = true.
Proof. exact pv_parse_inlines_tree7. Qed.
Print Assumptions Parse_inline_forest_valid.

Theorem Parse_post_forest_valid : forall nb o ctx children ch' eff,
  forallb (ivt nb) children = true -> postprocess_block o ctx children = Ok (ch', eff) -> forallb (ivt nb) ch' = true.
Proof. exact pv_postprocess_tree7. Qed.
Print Assumptions Parse_post_forest_valid.

Theorem Parse_forest_meaning : forall nb n, ivt nb n = true ->
  valid n = true /\ child_allowed Paragraph n = true /\ (forall l s, child_allowed (Heading l s) n = true) /\
  (nb = true -> child_allowed TableCell n = true).
Proof. exact ivt_meaning. Qed.
Print Assumptions Parse_forest_meaning.

(* the whole tree clause, under the premise on the cells of the block tree *)
Theorem Parse_valid_partial2 : forall o u x t,
  parse_document_model o u x = Ok t ->
  exists r, parse_blocks (bopts_of o u) x = Ok r /\ (bcells_ok (br_root r) = true -> structurally_valid t = true).
Proof. exact parse_valid_cells. Qed.
Print Assumptions Parse_valid_partial2.

Theorem Parse_valid_no_table : forall o u x t,
  po_table o = false -> parse_document_model o u x = Ok t -> structurally_valid t = true.
Proof. exact parse_valid_no_table. Qed.
Print Assumptions Parse_valid_no_table.

Theorem Parse_valid_report_sound : forall o u x c v,
  parse_valid_report o u x = Some (c, v) -> c = true -> v = true.
Proof. exact parse_valid_report_sound. Qed.
Print Assumptions Parse_valid_report_sound.

(* non-vacuity: the document of Parse_example (a table with strikethrough in a cell, footnotes, a task item) satisfies the
   premise and the conclusion; a cell whose text is followed by a backslash does too (no LineBreak is made in a cell) *)
Example Parse_valid_example :
  parse_valid_report ex_o ex_u ex_doc = Some (true, true) /\
  parse_valid_report ex_o ex_u (B "| a\ |" ++ [x0a] ++ B "|---|" ++ [x0a] ++ B "| b  |" ++ [x0a]) = Some (true, true).
Proof. vm_compute. split; reflexivity. Qed.

(* ================================================================== C04, the tree clause WITHOUT premise (third wave) *)
From V Require Proofs.ParseCellsRow Proofs.ParseCellsWalk Proofs.ParseCells.

(* table.rs::row: every cell it returns is free of CR and LF, for every input string and both spoiler settings *)
Theorem Parse_cells_row : forall s spoiler po cells,
  row s spoiler = Ok (Some (po, cells)) -> Forall (fun c => no_nl (ce_content c) = true) cells.
Proof. exact ParseCellsRow.row_cells_no_nl. Qed.
Print Assumptions Parse_cells_row.

(* the block phase: the content of every TableCell of the tree it returns holds neither CR nor LF *)
Theorem Parse_cells_blocks : forall o x r, parse_blocks o x = Ok r -> bcells_ok (br_root r) = true.
Proof. exact ParseCellsWalk.parse_blocks_cells. Qed.
Print Assumptions Parse_cells_blocks.

(* C04, tree clause, for every tree the parser model returns *)
Theorem Parse_valid : Parse_valid_full_statement.
Proof. exact ParseCells.parse_valid. Qed.
Print Assumptions Parse_valid.

(* non-vacuity: a row with an escaped pipe (the backslash is removed, the pipe stays in the cell), and the header row taken
   from the LAST line of a two-line paragraph (the cells do not span the line end) *)
Example Parse_cells_example :
  (exists cells, row (B "| a | b\|c |" ++ [x0a]) false = Ok (Some (0, cells)) /\ map ce_content cells = [B "a"; B "b|c"]) /\
  (exists cells, row (B "x" ++ [x0a] ++ B "| a | b |" ++ [x0a]) false = Ok (Some (2, cells)) /\ map ce_content cells = [B "a"; B "b"]).
Proof. split; eexists; split; vm_compute; reflexivity. Qed.
