(* Props/C15.v — Footnote links and heading anchors are referentially intact.
   Only pinned statements: each theorem is closed by `exact <lemma>` and followed by Print Assumptions.
   Anchors: Model/Anchor.v (`Anchorizer::anchorize`, suffix loop on fuel, `slug` a parameter).
   Footnotes: Model/Footnotes.v (`process_footnotes` and its three tree walks). *)
From Coq Require Import List NArith Bool.
From V Require Import Base.Bytes Base.Res Model.Ast Model.Anchor Proofs.AnchorProofs.
Import ListNotations.
From Coq Require Import Strings.String.
Local Open Scope string_scope.
Local Open Scope list_scope.

(* ------------------------------------------------------------------ anchors *)
(* the decimal printer used for the -N suffix is injective (left inverse: read the digits back) *)
Theorem C15_dec_injective : forall a b, dec a = dec b -> a = b.
Proof. exact dec_inj. Qed.
Print Assumptions C15_dec_injective.

(* anchor_fuel: fuel |issued| + 1 always suffices (pigeonhole over the pairwise distinct candidates
   id, id-1, ..., id-|issued|), the i32 counter cannot overflow below 2^31 issued ids, and the
   returned id is new.  Holds for every `slug`. *)
Theorem C15_anchor_fuel : forall (slug : bytes -> bytes) issued header,
  (N.of_nat (List.length issued) <= i32_max)%N ->
  exists id, anchorize slug issued header = Ok (id :: issued, id)
             /\ ~ In id issued /\ exists k, id = candidate (slug header) k.
Proof. exact anchor_fuel_lemma. Qed.
Print Assumptions C15_anchor_fuel.

(* more fuel changes nothing *)
Theorem C15_anchor_fuel_more : forall (slug : bytes -> bytes) issued header fuel,
  (N.of_nat (List.length issued) <= i32_max)%N -> (S (List.length issued) <= fuel)%nat ->
  anchorize_fuel slug fuel issued header = anchorize slug issued header.
Proof. exact anchor_fuel_more_lemma. Qed.
Print Assumptions C15_anchor_fuel_more.

(* anchors_nodup: one Anchorizer over any header sequence, any `slug`: never fails, one id per header,
   the ids are pairwise distinct *)
Theorem C15_anchors_nodup : forall (slug : bytes -> bytes) headers,
  (N.of_nat (List.length headers) <= i32_max)%N ->
  exists ids, anchorize_all slug [] headers = Ok (rev ids, ids) /\ List.length ids = List.length headers /\ NoDup ids.
Proof. exact anchors_nodup_lemma. Qed.
Print Assumptions C15_anchors_nodup.

(* heading ids as written by html.rs (common prefix prepended) are pairwise distinct *)
Theorem C15_heading_ids_distinct : forall (slug : bytes -> bytes) headers (prefix : bytes),
  (N.of_nat (List.length headers) <= i32_max)%N ->
  exists ids, anchorize_all slug [] headers = Ok (rev ids, ids) /\ List.length ids = List.length headers
              /\ NoDup (map (fun i => prefix ++ i) ids).
Proof. exact heading_ids_distinct_lemma. Qed.
Print Assumptions C15_heading_ids_distinct.

(* non-vacuity: the collision sequence of the property text, under the ASCII slug *)
Example C15_anchor_example :
  anchorize_all slug_ascii [] [B "a"; B "a-1"; B "a"; B "A"; B "a 1"; B "a-1-1"]
  = Ok (rev [B "a"; B "a-1"; B "a-2"; B "a-3"; B "a-1-1"; B "a-1-1-1"],
        [B "a"; B "a-1"; B "a-2"; B "a-3"; B "a-1-1"; B "a-1-1-1"]).
Proof. vm_compute. reflexivity. Qed.
