(* Props/C15.v — Footnote links and heading anchors are referentially intact.
   Only pinned statements: each theorem is closed by `exact <lemma>` and followed by Print Assumptions.
   Anchors: Model/Anchor.v (`Anchorizer::anchorize`, suffix loop on fuel, `slug` a parameter).
   Footnotes: Model/Footnotes.v (`process_footnotes` and its three tree walks). *)
From Coq Require Import List NArith Bool.
From V Require Import Base.Bytes Base.Res Model.Ast Model.Anchor Proofs.AnchorProofs.
Import ListNotations.
From Coq Require Import Strings.String.
Local Open Scope string_scope.
Local Open Scope list_scope.

(* ------------------------------------------------------------------ anchors *)
(* the decimal printer used for the -N suffix is injective (left inverse: read the digits back) *)
Theorem C15_dec_injective : forall a b, dec a = dec b -> a = b.
Proof. exact dec_inj. Qed.
Print Assumptions C15_dec_injective.

(* anchor_fuel: fuel |issued| + 1 always suffices (pigeonhole over the pairwise distinct candidates
   id, id-1, ..., id-|issued|), the i32 counter cannot overflow below 2^31 issued ids, and the
   returned id is new.  Holds for every `slug`. *)
Theorem C15_anchor_fuel : forall (slug : bytes -> bytes) issued header,
  (N.of_nat (List.length issued) <= i32_max)%N ->
  exists id, anchorize slug issued header = Ok (id :: issued, id)
             /\ ~ In id issued /\ exists k, id = candidate (slug header) k.
Proof. exact anchor_fuel_lemma. Qed.
Print Assumptions C15_anchor_fuel.

(* more fuel changes nothing *)
Theorem C15_anchor_fuel_more : forall (slug : bytes -> bytes) issued header fuel,
  (N.of_nat (List.length issued) <= i32_max)%N -> (S (List.length issued) <= fuel)%nat ->
  anchorize_fuel slug fuel issued header = anchorize slug issued header.
Proof. exact anchor_fuel_more_lemma. Qed.
Print Assumptions C15_anchor_fuel_more.

(* anchors_nodup: one Anchorizer over any header sequence, any `slug`: never fails, one id per header,
   the ids are pairwise distinct *)
Theorem C15_anchors_nodup : forall (slug : bytes -> bytes) headers,
  (N.of_nat (List.length headers) <= i32_max)%N ->
  exists ids, anchorize_all slug [] headers = Ok (rev ids, ids) /\ List.length ids = List.length headers /\ NoDup ids.
Proof. exact anchors_nodup_lemma. Qed.
Print Assumptions C15_anchors_nodup.

(* heading ids as written by html.rs (common prefix prepended) are pairwise distinct *)
Theorem C15_heading_ids_distinct : forall (slug : bytes -> bytes) headers (prefix : bytes),
  (N.of_nat (List.length headers) <= i32_max)%N ->
  exists ids, anchorize_all slug [] headers = Ok (rev ids, ids) /\ List.length ids = List.length headers
              /\ NoDup (map (fun i => prefix ++ i) ids).
Proof. exact heading_ids_distinct_lemma. Qed.
Print Assumptions C15_heading_ids_distinct.

(* non-vacuity: the collision sequence of the property text, under the ASCII slug *)
Example C15_anchor_example :
  anchorize_all slug_ascii [] [B "a"; B "a-1"; B "a"; B "A"; B "a 1"; B "a-1-1"]
  = Ok (rev [B "a"; B "a-1"; B "a-2"; B "a-3"; B "a-1-1"; B "a-1-1-1"],
        [B "a"; B "a-1"; B "a-2"; B "a-3"; B "a-1-1"; B "a-1-1-1"]).
Proof. vm_compute. reflexivity. Qed.

(* ------------------------------------------------------------------ footnotes *)
From Coq Require Import Permutation Sorted.
From V Require Import Model.Footnotes Spec.FootnoteSpec Proofs.FootnoteProofs Proofs.FootnoteOrder Proofs.FootnoteResolve Proofs.FootnoteOmit Proofs.FootnoteOnce Proofs.FootnoteNumbers Proofs.FootnoteEmit
  Proofs.FootnoteResolveAll.
From V Require Spec.Valid.

(* sort_perm_indep: the tree returned by process does not depend on the order in which the HashMap's
   into_values() yields its entries (any two orders that are permutations of the entries) *)
Theorem C15_sort_perm_indep : forall (fold pres : bytes -> bytes) (perm1 perm2 : list fdef -> list fdef) root,
  (forall m, Permutation (perm1 m) m) -> (forall m, Permutation (perm2 m) m) ->
  process fold pres perm1 root = process fold pres perm2 root.
Proof. exact sort_perm_indep_process. Qed.
Print Assumptions C15_sort_perm_indep.

(* the list-level fact behind it: with pairwise distinct numbers, sorting two orders of the same
   entries and dropping the unnumbered ones gives the same list *)
Theorem C15_sorted_order_unique : forall l1 l2,
  Permutation l1 l2 -> NoDup (map f_ix (filter has_ix l1)) ->
  filter has_ix (sort_by_ix l1) = filter has_ix (sort_by_ix l2).
Proof. exact sort_perm_indep_lemma. Qed.
Print Assumptions C15_sorted_order_unique.

(* ix_contiguous, the part that is proved: after find_footnote_references the numbers held by the map
   entries are pairwise distinct and are exactly 1..ix, for every tree and every fold/preserve;
   and the appended definitions are in increasing number order *)
Theorem C15_ix_contiguous_partial : forall (fold pres : bytes -> bytes) root,
  let st := snd (refs fold pres root (collect fold pres (top_defs root) 0 [], 0%N)) in
  NoDup (ixs (fst st))
  /\ Forall (fun o => exists i, o = Some i /\ (1 <= i <= snd st)%N) (ixs (fst st))
  /\ (forall i, (1 <= i <= snd st)%N -> In (Some i) (ixs (fst st))).
Proof. exact inv_after_walk. Qed.
Print Assumptions C15_ix_contiguous_partial.

Theorem C15_appended_order_sorted : forall (perm : list fdef -> list fdef) m,
  StronglySorted (fun a b => ix_le (f_ix a) (f_ix b) = true) (filter has_ix (sort_by_ix (perm m))).
Proof. exact appended_order_sorted. Qed.
Print Assumptions C15_appended_order_sorted.

(* "footnotes are numbered 1..n in order of first reference": in the tree left by the reference walk
   (find_footnote_references, started from the collected map and counter 0) the numbers carried by the
   reference nodes, read in document order, pass fs_ok from 0 — each is a number already issued or the
   next new one — and the walk's final counter is the number of distinct numbers; in the Spec's
   vocabulary, the first occurrences are exactly 1, 2, .., ix.  For every tree whose reference nodes are
   leaves (refs_leaf), every fold / preserve. *)
Theorem C15_numbered_in_order_of_first_reference : forall (fold pres : bytes -> bytes) root,
  refs_leaf root = true ->
  let r := refs fold pres root (collect fold pres (top_defs root) 0 [], 0%N) in
  fs_ok 0 (ref_ixs (fst r)) = Some (snd (snd r)).
Proof. exact refs_numbered_in_order. Qed.
Print Assumptions C15_numbered_in_order_of_first_reference.

Theorem C15_first_seen_is_1_to_n : forall (fold pres : bytes -> bytes) root,
  refs_leaf root = true ->
  let r := refs fold pres root (collect fold pres (top_defs root) 0 [], 0%N) in
  first_seen [] (ref_ixs (fst r)) = nseq 1 (N.to_nat (snd (snd r))).
Proof. exact refs_first_seen. Qed.
Print Assumptions C15_first_seen_is_1_to_n.

(* the same under C04's own leaf clause (Spec.Valid.leaves_ok: FootnoteReference nodes have no children) *)
Theorem C15_numbered_in_order_valid_trees : forall (fold pres : bytes -> bytes) root,
  Spec.Valid.leaves_ok root = true ->
  let r := refs fold pres root (collect fold pres (top_defs root) 0 [], 0%N) in
  fs_ok 0 (ref_ixs (fst r)) = Some (snd (snd r)) /\
  first_seen [] (ref_ixs (fst r)) = nseq 1 (N.to_nat (snd (snd r))).
Proof. exact refs_first_seen_valid. Qed.
Print Assumptions C15_numbered_in_order_valid_trees.

(* non-vacuity: references b, a, b with both labels defined are numbered 1, 2, 1 and the counter ends at 2 *)
Example C15_numbered_in_order_example :
  refs_leaf w_order = true /\
  ref_ixs (fst (refs idb idb w_order (collect idb idb (top_defs w_order) 0 [], 0%N))) = [1; 2; 1]%N /\
  snd (snd (refs idb idb w_order (collect idb idb (top_defs w_order) 0 [], 0%N))) = 2%N.
Proof. exact w_order_example. Qed.

(* "every footnote reference points to a definition" (the name half) and "unresolved references stay literal text":
   every FootnoteReference node left in the tree by the reference walk carries the normalised name of a definition
   reachable from the root and a number >= 1; the walk never changes the key set of the map; a reference whose folded
   label is the folded label of no reachable definition becomes the Text node [^name] and leaves the state alone, and one
   whose folded label is defined stays a reference — at every state with the collected key set, i.e. (C15_walk_keeps_keys)
   at every state of the walk. *)
Theorem C15_refs_point_to_definitions : forall (fold pres : bytes -> bytes) root,
  refs_leaf root = true ->
  let r := refs fold pres root (collect fold pres (top_defs root) 0 [], 0%N) in
  Forall (fun p : bytes * N * N =>
            (exists d, In d (top_defs root) /\ fst (fst p) = pres (def_name d)) /\ (1 <= snd p)%N)
         (all_refs (fst r)).
Proof. exact refs_point_to_definitions. Qed.
Print Assumptions C15_refs_point_to_definitions.

Theorem C15_walk_keeps_keys : forall (fold pres : bytes -> bytes) n st,
  map f_key (fst (snd (refs fold pres n st))) = map f_key (fst st).
Proof. exact refs_keys. Qed.
Print Assumptions C15_walk_keeps_keys.

Theorem C15_unresolved_stay_literal : forall (fold pres : bytes -> bytes) root st name r i sp,
  map f_key (fst st) = map f_key (collect fold pres (top_defs root) 0 []) ->
  (forall d, In d (top_defs root) -> fold (def_name d) <> fold name) ->
  refs fold pres (Node (FootnoteReference name r i) sp []) st
  = (Node (Text ([x5b; x5e] ++ name ++ [x5d])) sp [], st).
Proof. exact unresolved_stay_literal. Qed.
Print Assumptions C15_unresolved_stay_literal.

Theorem C15_resolved_stay_references : forall (fold pres : bytes -> bytes) root st name r i sp,
  map f_key (fst st) = map f_key (collect fold pres (top_defs root) 0 []) ->
  (exists d, In d (top_defs root) /\ fold (def_name d) = fold name) ->
  is_ref (nval (fst (refs fold pres (Node (FootnoteReference name r i) sp []) st))) = true.
Proof. exact resolved_stay_references. Qed.
Print Assumptions C15_resolved_stay_references.

(* "unreferenced definitions are omitted", the half that is true of the model: every definition at the tail of the root
   of the processed tree (every definition process_footnotes appends) has been referenced at least once — for every
   tree whose root is no definition, every fold / preserve, every order of the HashMap's values.  (The other half, a
   definition written inside a definition, is refuted below: finding F22.) *)
Theorem C15_appended_definitions_are_referenced : forall (fold pres : bytes -> bytes) (perm : list fdef -> list fdef) root,
  (forall m, Permutation (perm m) m) -> is_def root = false ->
  forallb (fun d => (1 <=? fdef_total d)%N) (tail_part (nch (process fold pres perm root))) = true.
Proof. intros fold pres perm root P D. exact (appended_defs_referenced fold pres perm P root D). Qed.
Print Assumptions C15_appended_definitions_are_referenced.

(* "a definition that is rendered exactly once": the second conjunct of C15_ix_contiguous_full_statement below, proved
   WITHOUT its no_nested_defs and idempotence premises — the definitions at the tail of the processed root have pairwise
   distinct names and each has been referenced (Spec.FootnoteSpec.defs_once_and_referenced). *)
Theorem C15_definitions_once_and_referenced : forall (fold pres : bytes -> bytes) (perm : list fdef -> list fdef) root,
  (forall x y, pres x = pres y -> fold x = fold y) ->
  (forall m, Permutation (perm m) m) -> is_def root = false ->
  defs_once_and_referenced (process fold pres perm root) = true.
Proof. intros fold pres perm root C P D. exact (process_defs_once_and_referenced fold pres C perm P root D). Qed.
Print Assumptions C15_definitions_once_and_referenced.

(* non-vacuity: on the tree of C15_numbered_in_order_example both definitions are appended, b first *)
Example C15_definitions_once_example :
  map fdef_name (tail_part (nch (process idb idb idp w_order))) = [[x62]; [x61]] /\
  defs_once_and_referenced (process idb idb idp w_order) = true.
Proof. vm_compute. split; reflexivity. Qed.

(* "every footnote reference points to a definition that is rendered exactly once ... numbered 1..n": the statement this
   file kept open as C15_ix_contiguous_full_statement, PROVED with the premise that was missing there (reference nodes
   are leaves; C04's leaves_ok implies it: C15_numbered_in_order_valid_trees) and without no_nested_defs — every
   reference node of the processed tree carries a number k >= 1 such that the k-th definition at the tail of the root
   exists and has the reference's name; those definitions have pairwise distinct names and each is referenced. *)
Theorem C15_ix_contiguous : forall (fold pres : bytes -> bytes) (perm : list fdef -> list fdef) root,
  (forall x y, pres x = pres y -> fold x = fold y) ->
  (forall m, Permutation (perm m) m) -> is_def root = false -> refs_leaf root = true ->
  let t := process fold pres perm root in
  refs_resolve t = true /\ defs_once_and_referenced t = true.
Proof. intros fold pres perm root C P D L. exact (process_ix_contiguous fold pres perm P root C D L). Qed.
Print Assumptions C15_ix_contiguous.

(* the definitions process appends carry the numbers 1, 2, .., n in this order (n = the walk's counter) *)
Theorem C15_appended_numbers_1_to_n : forall (fold pres : bytes -> bytes) (perm : list fdef -> list fdef) root,
  (forall m, Permutation (perm m) m) ->
  let r := refs fold pres root (collect fold pres (top_defs root) 0 [], 0%N) in
  map f_ix (filter has_ix (sort_by_ix (perm (fst (snd r))))) = map Some (nseq 1 (N.to_nat (snd (snd r)))).
Proof. intros fold pres perm root P. exact (appended_numbers_1_to_n fold pres perm P root). Qed.
Print Assumptions C15_appended_numbers_1_to_n.

(* without the leaf premise the open statement is false of the model (ill-shaped tree: an unresolved reference with a
   child reference); with it, it is C15_ix_contiguous *)
Theorem C15_ix_contiguous_needs_leaf_premise :
  is_def w_child_ref = false /\ no_nested_defs w_child_ref = true /\ refs_leaf w_child_ref = false /\
  refs_resolve (process idb idb idp w_child_ref) = false.
Proof. exact w_child_ref_facts. Qed.
Print Assumptions C15_ix_contiguous_needs_leaf_premise.

Example C15_ix_contiguous_example :
  refs_leaf w_order = true /\ is_def w_order = false /\
  refs_resolve (process idb idb idp w_order) = true /\ defs_once_and_referenced (process idb idb idp w_order) = true.
Proof. vm_compute. repeat split; reflexivity. Qed.

(* Kept for the record: the statement as first written — FALSE without the leaf premise (C15_ix_contiguous_needs_leaf_premise), proved with it (C15_ix_contiguous); evaluated on every real final tree and every model result by the check):
   every reference left in the tree carries the number and name of exactly one appended definition,
   unreferenced definitions are absent, definitions sit at the tail of the root *)
Definition C15_ix_contiguous_full_statement : Prop :=
  forall (fold pres : bytes -> bytes) (perm : list fdef -> list fdef) root,
    (forall x, pres (pres x) = pres x) -> (forall x y, pres x = pres y -> fold x = fold y) ->
    (forall m, Permutation (perm m) m) -> is_def root = false -> no_nested_defs root = true ->
    let t := process fold pres perm root in
    refs_resolve t = true /\ defs_once_and_referenced t = true.

Definition C15_defs_at_root_tail_full_statement : Prop :=
  forall (fold pres : bytes -> bytes) (perm : list fdef -> list fdef) root,
    (forall m, Permutation (perm m) m) -> is_def root = false ->
    defs_at_root_tail (process fold pres perm root) = true.

(* "every rendered definition links back to each of its references and to nothing else" is FALSE of
   the faithful model: witness  text / [^a]: x[^b] / [^b]: y  (finding F8, class ref_in_dropped_def) *)
Theorem C15_backrefs_exact_refuted : ~ backrefs_exact_statement.
Proof. exact backrefs_exact_statement_refuted. Qed.
Print Assumptions C15_backrefs_exact_refuted.

Theorem C15_backrefs_exact_refuted_witness :
  no_nested_defs w_dropped = true /\ no_ref_in_dropped_def idb w_dropped = false /\
  process idb idb idp w_dropped =
    nd Document [nd Paragraph [nd (Text [x74]) []];
                 nd (FootnoteDefinition [x62] 1) [nd Paragraph [nd (Text [x79]) []]]] /\
  backrefs_exact (process idb idb idp w_dropped) = false.
Proof. exact backrefs_exact_refuted_dropped. Qed.
Print Assumptions C15_backrefs_exact_refuted_witness.

(* "unreferenced definitions are omitted" is FALSE of the faithful model when a definition is written
   inside a definition: witness  x[^a] / [^a]: one / (indented) [^b]: two  (finding F22, class nested_definition) *)
Theorem C15_unreferenced_omitted_refuted : ~ unreferenced_omitted_statement.
Proof. exact unreferenced_omitted_statement_refuted. Qed.
Print Assumptions C15_unreferenced_omitted_refuted.

Theorem C15_nested_definition_witness :
  no_ref_in_dropped_def idb w_nested = true /\ no_nested_defs w_nested = false /\
  nested_def (process idb idb idp w_nested) = true /\
  In (FootnoteDefinition [x62] 0) (map nval (flat_map nch (tail_part (nch (process idb idb idp w_nested))))).
Proof. exact unreferenced_omitted_refuted_nested. Qed.
Print Assumptions C15_nested_definition_witness.

(* NOT proved: the conditional forms excluding the two classes *)
Definition C15_backrefs_exact_conditional_full_statement : Prop :=
  forall (fold pres : bytes -> bytes) (perm : list fdef -> list fdef) root,
    (forall x, pres (pres x) = pres x) -> (forall x y, pres x = pres y -> fold x = fold y) ->
    (forall m, Permutation (perm m) m) -> is_def root = false ->
    no_ref_in_dropped_def fold root = true -> no_nested_defs root = true ->
    backrefs_exact (process fold pres perm root) = true /\ no_zero_def (process fold pres perm root) = true.
