(* Props/ParseValid.v — what follows from Props/Parse.v Parse_valid (C04, the tree clause for every tree the whole-parser
   model returns) without premise; obligations of the C04 check only (Props/Parse.v is checked by several properties and
   every Print Assumptions over the whole parser costs about ten seconds).  Only pinned statements. *)
From Coq Require Import List NArith Arith Bool Strings.String.
From V Require Import Base.Bytes Base.Res Model.Ast Model.Scan Model.Blocks Model.Inlines Model.Parse Model.Html Model.Xml
  Spec.Valid Spec.ParseValidSpec.
From V Require Proofs.ParseCellsRow Proofs.ParseCells.
Import ListNotations.
Local Open Scope list_scope.

(* scanners::table_cell(s, spoiler), both spoiler settings: the prefix it returns holds neither CR nor LF *)
Theorem Parse_cells_scanner : forall s spoiler n,
  scan_table_cell s spoiler = Some n -> no_nl (firstn n s) = true.
Proof. exact ParseCellsRow.table_cell_bytes. Qed.
Print Assumptions Parse_cells_scanner.

(* for every option set, oracle and input on which the parser model returns a tree:
   1. the validator (Spec.Valid.validate, the model of nodes::Node::validate) accepts the tree;
   2. both renderer models return Ok on it (bytes, not only events), for every slug function and every render option set;
   3. the report the C04 check evaluates (bcells_ok of the block tree, structurally_valid of the final tree) answers
      (true, true) whenever it answers *)
Theorem Parse_valid_corollaries :
  (forall o u x t, parse_document_model o u x = Ok t -> validate t = None) /\
  (forall o u x t slug ro, parse_document_model o u x = Ok t -> (exists b, html slug ro t = Ok b) /\ (exists b, xml ro t = Ok b)) /\
  (forall o u x c v, parse_valid_report o u x = Some (c, v) -> c = true /\ v = true).
Proof.
  exact (conj ParseCells.parse_validator_accepts (conj ParseCells.parse_formatters_total ParseCells.parse_valid_report_true)).
Qed.
Print Assumptions Parse_valid_corollaries.
