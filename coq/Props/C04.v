(* Props/C04.v — C04, containment / shape half: "the tree returned by the parser satisfies the
   documented node-containment rules (the library's own validator accepts it) ... and keeps its
   shape invariants: heading levels are 1 to 6, lists contain only items, every table row has
   exactly as many cells as the table has columns and alignments, and the header row comes first.
   Formatters therefore never meet a node in a context they do not handle."
   (The links clause is Props/C04_links.v.)  Only pinned statements.

   valid      = Node::validate, over Gen.Nodes.can_contain, the Coq copy of can_contain_type that is
                regenerated from /repo/src/nodes.rs on every run; the check compares `validate` with
                the library's verdict (and the offending pair) on every parser tree and on synthetic
                valid and invalid trees.
   The statement `forall input options, structurally_valid (parse options input)` is NOT proved:
   there is no Coq model of the block and inline parsers.  It is evaluated on every tree the real
   parser returns in the search phase of the check (C04_parser_full_statement below stays a
   Definition).  What is proved:
     - what the validator's verdict implies for every tree (lists, leaves, table kinds) and what it
       does not imply (validator_not_enough, valid_not_tables_ok);
     - the property's table clause implies the S3 clause the renderer theorems assume;
     - the formatter clause for the HTML and XML renderer models under valid /\ S2 /\ S3;
     - the cell arithmetic of the parser's table builder (try_opening_header / try_opening_row). *)
From Coq Require Import List NArith Bool Arith.
From V Require Import Base.Bytes Base.Res Model.Ast Model.Html Model.Xml Model.AddChild Gen.Nodes Gen.TableRows Gen.AddChild
  Spec.Shape Spec.HtmlSpec Spec.XmlLex Spec.Valid Proofs.HtmlNest Proofs.ValidProofs.
Import ListNotations.

(* ---- the statement about the parser, kept visible; `parse` would be a model of parse_document *)
Definition C04_parser_full_statement (parse : bytes -> node) : Prop :=
  forall input, structurally_valid (parse input) = true.

(* what is proved of it: the six clauses reduce to four (lists and leaves follow from the validator) *)
Theorem C04_parser_partial : forall parse : bytes -> node,
  (forall input, valid (parse input) && s2 (parse input) && headings_ok (parse input) && tables_ok (parse input) = true) ->
  C04_parser_full_statement parse.
Proof. exact parser_partial. Qed.
Print Assumptions C04_parser_partial.

Theorem C04_structurally_valid_reduced : forall t,
  structurally_valid t = (valid t && s2 t && headings_ok t && tables_ok t).
Proof. exact structurally_valid_reduced. Qed.
Print Assumptions C04_structurally_valid_reduced.

(* ---- the validator *)
Theorem C04_valid_meaning : forall v sp ch,
  valid (Node v sp ch) = true <->
  (forall c, In c ch -> can_contain (kind_of v) (kind_of (nval c)) = true /\ valid c = true).
Proof. exact valid_node. Qed.
Print Assumptions C04_valid_meaning.

(* the stack traversal of Node::validate returns Ok exactly on the valid trees *)
Theorem C04_validate_ok_iff_valid : forall t, valid t = true <-> validate t = None.
Proof. exact valid_iff_validate. Qed.
Print Assumptions C04_validate_ok_iff_valid.

(* ---- what the validator's table gives (finite checks over the generated table) *)
Theorem C04_valid_list_children : forall t, valid t = true ->
  forall n l, In n (subnodes t) -> nval n = NList l ->
  forall c, In c (nch n) -> (exists li, nval c = Item li) \/ (exists s, nval c = TaskItem s).
Proof. exact valid_list_children. Qed.
Print Assumptions C04_valid_list_children.

Theorem C04_valid_lists_ok : forall t, valid t = true -> lists_ok t = true.
Proof. exact valid_list_children_b. Qed.
Print Assumptions C04_valid_lists_ok.

Theorem C04_valid_leaves : forall t, valid t = true ->
  forall n, In n (subnodes t) -> leaf_kind (kind_of (nval n)) = true -> nch n = [].
Proof. exact valid_leaves. Qed.
Print Assumptions C04_valid_leaves.

Theorem C04_valid_leaves_ok : forall t, valid t = true -> leaves_ok t = true /\ literal_leaves t = true.
Proof. exact valid_leaves_both. Qed.
Print Assumptions C04_valid_leaves_ok.

Theorem C04_valid_table_kinds : forall t, valid t = true ->
  forall n c, In n (subnodes t) -> In c (nch n) ->
  (kind_of (nval n) = KTable -> kind_of (nval c) = KTableRow) /\
  (kind_of (nval n) = KTableRow -> kind_of (nval c) = KTableCell).
Proof. exact valid_table_kinds. Qed.
Print Assumptions C04_valid_table_kinds.

Theorem C04_document_only_at_root : forall p, can_contain p KDocument = false.
Proof. exact document_is_root_only. Qed.
Print Assumptions C04_document_only_at_root.

Theorem C04_front_matter_under_document : forall p, can_contain p KFrontMatter = true -> p = KDocument.
Proof. exact front_matter_under_document_only. Qed.
Print Assumptions C04_front_matter_under_document.

(* no container accepts both a block and an inline (front matter aside) *)
Theorem C04_no_mixed_container : forall p a b,
  can_contain p a = true -> can_contain p b = true ->
  block a = block b \/ a = KFrontMatter \/ b = KFrontMatter.
Proof. exact no_mixed_container. Qed.
Print Assumptions C04_no_mixed_container.

(* ---- the shape clauses *)
Theorem C04_headings_ok_is_s4 : forall t, headings_ok t = s4 t.
Proof. exact headings_ok_is_s4. Qed.
Print Assumptions C04_headings_ok_is_s4.

(* the table clause of the property implies the clause S3 assumed by C02 / C09 / C10 *)
Theorem C04_tables_ok_implies_s3 : forall t, tables_ok t = true -> s3 t = true.
Proof. exact tables_ok_s3. Qed.
Print Assumptions C04_tables_ok_implies_s3.

(* ... and says, of every table in the tree: columns = alignments, header row first and only
   first, every row has exactly that many children, all of them cells *)
Theorem C04_tables_ok_meaning : forall t, tables_ok t = true ->
  forall n tb, In n (subnodes t) -> nval n = Table tb ->
  t_cols tb = N.of_nat (List.length (t_aligns tb)) /\
  (exists h rs, nch n = h :: rs /\ is_row_of true h = true /\ Forall (fun r => is_row_of false r = true) rs) /\
  (forall r, In r (nch n) -> List.length (nch r) = List.length (t_aligns tb) /\ forallb is_cell_node (nch r) = true).
Proof. exact tables_ok_cols. Qed.
Print Assumptions C04_tables_ok_meaning.

Theorem C04_s3_implies_cells_ok : forall t, s3 t = true -> cells_ok t = true.
Proof. exact s3_cells_ok. Qed.
Print Assumptions C04_s3_implies_cells_ok.

(* ---- "formatters therefore never meet a node in a context they do not handle" *)
Theorem C04_formatters_total : forall slug o t,
  valid t = true -> s2 t = true -> s3 t = true ->
  (exists b, html slug o t = Ok b) /\ (exists b, xml o t = Ok b).
Proof. exact formatters_total. Qed.
Print Assumptions C04_formatters_total.

Theorem C04_structurally_valid_formatters : forall slug o t,
  structurally_valid t = true ->
  (exists b, html slug o t = Ok b) /\ (exists b, xml o t = Ok b).
Proof. exact structurally_valid_formatters. Qed.
Print Assumptions C04_structurally_valid_formatters.

(* the validator's verdict alone does not give that clause: Document > TableCell is accepted by the
   validator (a cell is block()), and both renderers panic on it *)
Theorem C04_validator_not_enough :
  valid w_cell_at_root = true /\ s2 w_cell_at_root = true /\ s3 w_cell_at_root = false /\
  tables_ok w_cell_at_root = false /\
  (exists site, events slug_id o_plain w_cell_at_root = Panic site) /\
  (exists site, xml o_plain w_cell_at_root = Panic site).
Proof. exact validator_not_enough. Qed.
Print Assumptions C04_validator_not_enough.

(* nor the table clause: a second header row and a short row pass the validator *)
Theorem C04_valid_does_not_imply_tables_ok :
  valid w_ragged = true /\ tables_ok w_ragged = false /\ s3 w_ragged = false.
Proof. exact valid_not_tables_ok. Qed.
Print Assumptions C04_valid_does_not_imply_tables_ok.

(* ---- the parser's table builder (parser/table.rs; loop shapes and limits tied by translator item
   table_rows) *)
Theorem C04_row_cells : forall blank cols rows nonempty aligns this_row k ne',
  try_opening_row_cells blank cols rows nonempty aligns this_row = Some (k, ne') ->
  k = aligns /\ exists cells, this_row = Some cells /\ ne' = (nonempty + N.of_nat (Nat.min aligns cells))%N /\
  blank = false /\ (autocompleted cols rows nonempty <= max_autocompleted_cells)%N.
Proof. exact row_cells. Qed.
Print Assumptions C04_row_cells.

Theorem C04_row_refused_iff : forall blank cols rows nonempty aligns this_row,
  try_opening_row_cells blank cols rows nonempty aligns this_row = None <->
  blank = true \/ (max_autocompleted_cells < autocompleted cols rows nonempty)%N \/ this_row = None.
Proof. exact row_refused. Qed.
Print Assumptions C04_row_refused_iff.

Theorem C04_header_cells : forall header delim a c k,
  try_opening_header_cells header delim = Some (a, c, k) ->
  a = c /\ k = c /\ header = Some c /\ delim = Some c.
Proof. exact header_cells. Qed.
Print Assumptions C04_header_cells.

Theorem C04_row_result_bounds : forall cells all n, row_result cells all = Some n ->
  n = cells /\ 1 <= n /\ (N.of_nat n <= max_columns)%N.
Proof. exact row_result_bounds. Qed.
Print Assumptions C04_row_result_bounds.

(* a table whose rows have the counts the builder returns satisfies the table clause *)
Theorem C04_built_table_ok : forall aligns hk body,
  hk = List.length aligns -> Forall (fun k => k = List.length aligns) body ->
  tables_ok (Node Document (mkSp 0 0 0 0) [built_table aligns (N.of_nat (List.length aligns)) hk body]) = true.
Proof. exact built_table_ok. Qed.
Print Assumptions C04_built_table_ok.

(* ---- Parser::add_child, the loop that closes ancestors until one may contain the new block
   (body tied by translator item add_child; call sites audited below) *)
Theorem C04_add_child_contains : forall chain c p,
  add_child_parent chain c = Ok p -> can_contain p c = true /\ In p chain.
Proof. exact add_child_contains. Qed.
Print Assumptions C04_add_child_contains.

Theorem C04_add_child_skips_only_refusing_ancestors : forall chain c p,
  add_child_parent chain c = Ok p ->
  exists skipped rest, chain = skipped ++ p :: rest /\ forall q, In q skipped -> can_contain q c = false.
Proof. exact add_child_skips. Qed.
Print Assumptions C04_add_child_skips_only_refusing_ancestors.

Theorem C04_add_child_sites_audit : map snd add_child_sites = expected_add_child_kinds.
Proof. exact add_child_sites_audit. Qed.
Print Assumptions C04_add_child_sites_audit.

(* at every audited call site the loop stops at or before the root, at a parent that may contain the
   child: free kinds are accepted by the Document at the end of every ancestor chain, the six
   direct kinds by the parent their call site passes *)
Theorem C04_add_child_never_past_root : forall s chain,
  In s add_child_sites ->
  (match direct_parent (snd s) with
   | Some p => exists up, chain = p :: up
   | None => exists up, chain = up ++ [KDocument]
   end) ->
  exists p, add_child_parent chain (snd s) = Ok p /\ can_contain p (snd s) = true.
Proof. exact add_child_never_past_root. Qed.
Print Assumptions C04_add_child_never_past_root.

Theorem C04_valid_append_leaf : forall v sp ch c csp,
  valid (Node v sp ch) = true -> can_contain (kind_of v) (kind_of c) = true ->
  valid (Node v sp (ch ++ [Node c csp []])) = true.
Proof. exact valid_append_leaf. Qed.
Print Assumptions C04_valid_append_leaf.

(* ---- non-vacuity: the example tree of C10 (three-row table, lists, image, links, footnotes, raw
   HTML, headings) is structurally valid, and both renderer models return *)
Example C04_example :
  structurally_valid ex_tree = true /\ validate ex_tree = None /\
  (exists b, html slug_id o_rich ex_tree = Ok b) /\ (exists b, xml o_rich ex_tree = Ok b) /\
  try_opening_row_cells false 3 1 3 3 (Some 1) = Some (3, 4%N) /\
  try_opening_row_cells false 3 1 3 3 (Some 5) = Some (3, 6%N) /\
  try_opening_row_cells false 1000 501 0 1000 (Some 1) = None /\
  validate w_ragged = None /\
  add_child_parent [KParagraph; KItem; KList; KBlockQuote; KDocument] KHeading = Ok KItem /\
  add_child_parent [KParagraph; KItem; KList; KDocument] KItem = Ok KList /\
  validate (nd Document [nd Paragraph [nd Paragraph []]]) = Some (KParagraph, KParagraph).
Proof.
  split; [vm_compute; reflexivity|]. split; [vm_compute; reflexivity|].
  split; [apply (structurally_valid_formatters slug_id o_rich); vm_compute; reflexivity|].
  split; [apply (structurally_valid_formatters slug_id o_rich); vm_compute; reflexivity|].
  repeat split; vm_compute; reflexivity.
Qed.
