(* Props/C06.v — Bounded work and output: the caps as theorems (pinned statements only).

   What is proved here, for ALL inputs: the reference budget (every sequence of lookups), the table
   auto-completion cap (every header width, every sequence of rows), the column cap, the XML indent cap,
   the six-fold bound of both escapers, and the size of the HTML serialisation per event list.
   What is NOT proved: that parsing/rendering cost is quasi-linear (measured by tools/checks/c06.py in
   deterministic units on the compiled code), and the bound of the HTML event list by the tree
   (html_output_bound_full_statement below is a Definition, not a theorem). *)
From Coq Require Import List NArith PeanoNat Bool Lia.
From V Require Import Base.Bytes Base.Res Gen.Consts Gen.NodesXml Model.Ast Model.Caps Model.Xml Model.Html
  Spec.EscapeSpec Proofs.CapsProofs Proofs.XmlProofs Proofs.HtmlSize.
Import ListNotations.
From Coq Require Import Strings.String.
Local Open Scope string_scope.
Local Open Scope list_scope.

(* ---- reference expansion ---- *)
(* for every reference map, input size and sequence of looked-up labels: no panic (the usize
   subtraction never wraps), ref_size <= max_ref_size at the end (hence after every prefix), and the
   url+title bytes handed out are at most max(100000, input size) *)
Theorem C06_ref_budget : forall m total labs,
  exists answers r, document_lookups m total labs = Ok (answers, r) /\
    (rm_size r <= rm_max r)%N /\ rm_max r = N.max ref_floor total /\
    expanded answers = rm_size r /\ (expanded answers <= N.max ref_floor total)%N /\
    List.length answers = List.length labs.
Proof. exact ref_budget. Qed.
Print Assumptions C06_ref_budget.

Theorem C06_ref_invariant_step : forall r lab, (rm_size r <= rm_max r)%N ->
  exists a r', lookup r lab = Ok (a, r') /\ (rm_size r' <= rm_max r')%N /\ rm_max r' = rm_max r /\
               rm_map r' = rm_map r /\ rm_size r' = (rm_size r + answer_size a)%N.
Proof. exact lookup_step. Qed.
Print Assumptions C06_ref_invariant_step.

(* a lookup that would exceed the remaining budget answers None and does not add *)
Theorem C06_ref_lookup_refuses : forall r lab e, (rm_size r <= rm_max r)%N ->
  map_get (rm_map r) lab = Some e -> (rm_max r - rm_size r < entry_size e)%N ->
  lookup r lab = Ok (None, r).
Proof. exact lookup_refuses. Qed.
Print Assumptions C06_ref_lookup_refuses.

Theorem C06_ref_lookup_grants : forall r lab e, (rm_size r <= rm_max r)%N ->
  map_get (rm_map r) lab = Some e -> (entry_size e <= rm_max r - rm_size r)%N ->
  lookup r lab = Ok (Some e, mkRefMap (rm_map r) (rm_max r) (rm_size r + entry_size e)).
Proof. exact lookup_grants. Qed.
Print Assumptions C06_ref_lookup_grants.

(* ---- table auto-completion ---- *)
Theorem C06_autocomplete_cap : forall ncols rows,
  let '(t, created) := feed_rows (open_header ncols) rows 0 in
  created = get_num_autocompleted_cells t /\ (created <= max_autocompleted_cells + ncols)%N.
Proof. exact autocomplete_cap. Qed.
Print Assumptions C06_autocomplete_cap.

Theorem C06_autocomplete_refuses : forall t n,
  (max_autocompleted_cells < get_num_autocompleted_cells t)%N -> try_opening_row t n = None.
Proof. exact row_refused_above_cap. Qed.
Print Assumptions C06_autocomplete_refuses.

Theorem C06_columns_cap : forall (cells v : list bytes), row_cells cells [] = Some v ->
  v = cells /\ (N.of_nat (List.length v) <= max_columns)%N.
Proof. exact (@columns_cap bytes). Qed.
Print Assumptions C06_columns_cap.

Theorem C06_columns_cap_rejects : forall (cells : list bytes),
  (max_columns < N.of_nat (List.length cells))%N -> row_cells cells [] = None.
Proof. exact (@columns_cap_rejects bytes). Qed.
Print Assumptions C06_columns_cap_rejects.

(* ---- XML indentation (C09_indent_capped, restated) ---- *)
Theorem C06_xml_indent_cap : forall ind,
  List.length (indent_bytes ind) <= 40 /\ forallb (beqb x20) (indent_bytes ind) = true.
Proof. exact indent_capped. Qed.
Print Assumptions C06_xml_indent_cap.

(* ---- output size ---- *)
Theorem C06_escape_expansion : forall s, List.length (escape_spec s) <= 6 * List.length s.
Proof. exact escape_expansion. Qed.
Print Assumptions C06_escape_expansion.

Theorem C06_escape_href_expansion : forall s, List.length (escape_href_spec s) <= 6 * List.length s.
Proof. exact escape_href_expansion. Qed.
Print Assumptions C06_escape_href_expansion.

(* html_output_bound_partial: for every tree, options and slug oracle, the HTML output is at most six
   times the document bytes carried by the renderer's events plus the markup bytes of those events *)
Theorem C06_html_output_bound_partial : forall slug o t out, html slug o t = Ok out ->
  exists evs, events slug o t = Ok evs /\
    List.length out <= 6 * sum_map ev_payload evs + sum_map ev_overhead evs.
Proof. exact html_size_by_events. Qed.
Print Assumptions C06_html_output_bound_partial.

(* The full statement (NOT proved; kept visible): the events themselves are bounded by the tree —
   payload a constant multiple of the payload of the tree (heading text is repeated in the anchor),
   markup a constant per node and per footnote back-reference plus the width of the decimals printed. *)
Definition value_payload (v : node_value) : nat :=
  match v with
  | FrontMatter l | HtmlBlock _ l | Text l | Code _ l | HtmlInline l | Raw l | EscapedTag l | WikiLink l
  | Math _ _ l => List.length l
  | CodeBlock cb => List.length (cb_info cb) + List.length (cb_literal cb)
  | FootnoteDefinition n _ | FootnoteReference n _ _ => List.length n
  | Link u t | Image u t => List.length u + List.length t
  | TaskItem (Some s) => List.length s
  | Alert a => match a_title a with Some t => List.length t | None => 0 end
  | _ => 0
  end.
Fixpoint tree_payload (n : node) : nat :=
  match n with Node v _ ch => value_payload v + fold_right (fun c acc => tree_payload c + acc) 0 ch end.
Definition value_numeric (v : node_value) : nat :=
  match v with
  | NList l | Item l => List.length (dec (l_start l))
  | Heading lv _ => List.length (dec lv)
  | FootnoteDefinition _ tr => N.to_nat tr * (1 + List.length (dec tr))
  | FootnoteReference _ rn ix => List.length (dec rn) + List.length (dec ix)
  | _ => 0
  end.
Fixpoint tree_numeric (n : node) : nat :=
  match n with Node v _ ch => value_numeric v + fold_right (fun c acc => tree_numeric c + acc) 0 ch end.

Definition html_output_bound_full_statement : Prop :=
  exists Kp K K0 : nat, forall slug o t out,
    (forall h, List.length (slug h) <= List.length h) ->
    o_sourcepos o = false ->
    html slug o t = Ok out ->
    List.length out <= Kp * tree_payload t + K * (node_size t + tree_numeric t) + K0.

(* ---- the constants the theorems speak about are the ones in the source (Gen/Consts.v) ---- *)
Example C06_consts :
  (max_autocompleted_cells = 500000 /\ max_columns = 65535 /\ ref_floor = 100000 /\ max_link_parens = 32 /\
   maxbackticks = 80 /\ max_link_label_length = 1000 /\ max_math_dollars = 2 /\ max_list_depth = 100 /\
   Consts.max_indent = N.of_nat NodesXml.max_indent)%N.
Proof. repeat split. Qed.

(* ---- non-vacuity ---- *)
(* a 60000-byte URL can be handed out once under the 100000 floor; the second lookup is refused *)
Example C06_ref_budget_bites :
  let e := (repeat x75 60000, @nil byte) in
  match document_lookups [([x78], e)] 10 [[x78]; [x78]; [x79]] with
  | Ok ([Some _; None; None], r) => rm_size r = 60000%N
  | _ => False
  end.
Proof. vm_compute. reflexivity. Qed.

(* 1000 columns: rows of one cell are accepted until the counter passes the cap (502 rows), then refused *)
Example C06_autocomplete_bites :
  let '(t, created) := feed_rows (open_header 1000) (repeat 1%N 600) 0 in
  (created = 500499 /\ tb_rows t = 502)%N.
Proof. vm_compute. split; reflexivity. Qed.

Example C06_columns_bites : row_cells (repeat x61 65536) [] = None /\ row_cells (repeat x61 3) [] = Some (repeat x61 3).
Proof. split; [apply columns_cap_rejects; vm_compute; reflexivity | vm_compute; reflexivity]. Qed.
