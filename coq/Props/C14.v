(* Props/C14.v — Tagfilter neutralises exactly the disallowed raw HTML tags.
   Only pinned statements.  `tagfilter`, `tagfilter_block`, `html_block_payload`,
   `html_inline_payload` are the models of Model/Tagfilter.v (blacklist and the byte set that ends a
   tag name regenerated from /repo/src on every run, bodies pinned by the translator item `tagfilter`).
   `disallowed_at`, `gfm_filter` are the GFM reading of Spec/GfmFilter.v (a tag name is ended by one of
   the six GFM whitespace characters, GT, or SLASH GT).

   Result: the code implements the GFM reading exactly and totally (C14_tagfilter_spec,
   C14_tagfilter_block_spec), for every byte string.  Before the repair of finding C14-a
   (tagfilter_vt_ff: the name was ended by space, tab, LF, CR only) both statements were refuted by
   LT title FF GT; that witness is replayed below. *)
From Coq Require Import List NArith Bool.
From V Require Import Base.Bytes Base.Res Model.Tagfilter Spec.GfmFilter Proofs.TagfilterProofs.
Import ListNotations.
From Coq Require Import Strings.String.
Local Open Scope string_scope.
Local Open Scope list_scope.

(* ---- rendering a raw-HTML node never fails: no Panic branch, no fuel exhaustion, for any bytes *)
Theorem C14_tagfilter_total : forall s, exists b, tagfilter s = Ok b.
Proof. exact tagfilter_total. Qed.
Print Assumptions C14_tagfilter_total.

Theorem C14_tagfilter_block_total : forall s, exists o, tagfilter_block s = Ok o.
Proof. exact tagfilter_block_total. Qed.
Print Assumptions C14_tagfilter_block_total.

Theorem C14_block_node_total : forall escape_ unsafe_ tagfilter_ lit,
  exists o, html_block_payload escape_ unsafe_ tagfilter_ lit = Ok o.
Proof. exact block_payload_total. Qed.
Print Assumptions C14_block_node_total.

Theorem C14_inline_node_total : forall escape_ unsafe_ tagfilter_ lit,
  exists o, html_inline_payload escape_ unsafe_ tagfilter_ lit = Ok o.
Proof. exact inline_payload_total. Qed.
Print Assumptions C14_inline_node_total.

(* ---- what the code computes, exactly: the GFM reading, for all inputs *)
Theorem C14_tagfilter_spec : forall s, tagfilter s = Ok (disallowed_at s).
Proof. exact tagfilter_spec. Qed.
Print Assumptions C14_tagfilter_spec.

Theorem C14_tagfilter_block_spec : forall s, tagfilter_block s = Ok (gfm_filter s).
Proof. exact tagfilter_block_spec. Qed.
Print Assumptions C14_tagfilter_block_spec.

(* the code never rewrites anything but the LT of a GFM-disallowed tag *)
Theorem C14_tagfilter_sound : forall s, tagfilter s = Ok true -> disallowed_at s = true.
Proof. exact tagfilter_sound. Qed.
Print Assumptions C14_tagfilter_sound.

(* ---- nothing else is altered: the filter output is the input with the entity substituted exactly at
   the positions where a disallowed tag begins, and such a position always holds LT
   (the code's output is gfm_filter by C14_tagfilter_block_spec) *)
Theorem C14_filter_only_lt : forall s,
  gfm_filter s = subst_lt_at (fun i => disallowed_at (skipn i s)) s.
Proof. exact (filter_only_lt_ws gfm_ws). Qed.
Print Assumptions C14_filter_only_lt.

Theorem C14_disallowed_is_lt : forall s, disallowed_at s = true -> exists r, s = x3c :: r.
Proof. exact (disallowed_lt gfm_ws). Qed.
Print Assumptions C14_disallowed_is_lt.

(* the relation checked end to end: output = input with some LT written as the entity *)
Theorem C14_filter_lt_expansion : forall s, lt_expansion s (gfm_filter s) = true.
Proof. exact (filter_lt_expansion gfm_ws). Qed.
Print Assumptions C14_filter_lt_expansion.

Theorem C14_block_lt_expansion : forall s o, tagfilter_block s = Ok o -> lt_expansion s o = true.
Proof. exact block_lt_expansion. Qed.
Print Assumptions C14_block_lt_expansion.

(* ---- no such tag survives in an HTML block *)
Theorem C14_filter_clean : forall s i, disallowed_at (skipn i (gfm_filter s)) = false.
Proof. exact (filter_clean_positions gfm_ws gfm_ws_amp). Qed.
Print Assumptions C14_filter_clean.

Theorem C14_filter_idempotent : forall s, gfm_filter (gfm_filter s) = gfm_filter s.
Proof. exact (filter_idempotent gfm_ws gfm_ws_amp). Qed.
Print Assumptions C14_filter_idempotent.

(* on the code's own output: no position begins a disallowed tag *)
Theorem C14_block_clean : forall s o, tagfilter_block s = Ok o -> any_disallowed o = false.
Proof. exact block_clean. Qed.
Print Assumptions C14_block_clean.

(* ---- the option cascade of render_html_block / render_html_inline *)
Theorem C14_block_cascade : forall lit,
  html_block_payload false true true lit = Ok (gfm_filter lit) /\
  html_block_payload false true false lit = Ok lit.
Proof. exact block_payload_exact. Qed.
Print Assumptions C14_block_cascade.

Theorem C14_inline_cascade : forall lit,
  html_inline_payload false true true lit = Ok (lt_escape_first lit) /\
  html_inline_payload false true false lit = Ok lit.
Proof. exact inline_cascade. Qed.
Print Assumptions C14_inline_cascade.

(* with `escape`, or without `unsafe`, the tagfilter option changes nothing *)
Theorem C14_option_irrelevant : forall escape_ unsafe_ lit, escape_ || negb unsafe_ = true ->
  html_block_payload escape_ unsafe_ true lit = html_block_payload escape_ unsafe_ false lit /\
  html_inline_payload escape_ unsafe_ true lit = html_inline_payload escape_ unsafe_ false lit.
Proof. exact payload_option_irrelevant. Qed.
Print Assumptions C14_option_irrelevant.

(* non-vacuity: the filter acts, and on names in mixed case, closing tags and SLASH GT only *)
Example C14_example :
  let s := B "<div>
<TiTlE>x</title >
<xmp/><titles><script" in
  tagfilter_block s = Ok (B "<div>
&lt;TiTlE>x&lt;/title >
&lt;xmp/><titles><script").
Proof. vm_compute; reflexivity. Qed.

(* the witnesses of the repaired defect C14-a (tagfilter_vt_ff), which refuted the three statements
   above before the repair, are neutralised now: LT title FF GT (vtff_witness) and LT script VT GT *)
Example C14_vtff_witness_tagfilter : tagfilter vtff_witness = Ok true.
Proof. vm_compute. reflexivity. Qed.

Example C14_vtff_witness_block :
  tagfilter_block vtff_witness = Ok (lt_entity ++ tl vtff_witness) /\
  any_disallowed (lt_entity ++ tl vtff_witness) = false.
Proof. split; vm_compute; reflexivity. Qed.

Example C14_vt_witness_block :
  let s := [x3c; x73; x63; x72; x69; x70; x74; x0b; x3e] in   (* LT script VT GT *)
  tagfilter s = Ok true /\ tagfilter_block s = Ok (lt_entity ++ tl s) /\
  html_inline_payload false true true s = Ok (lt_entity ++ tl s).
Proof. repeat split; vm_compute; reflexivity. Qed.
