(* Props/BlocksPos.v — C11, first sentence, for the BLOCK PHASE model (Model/Blocks.v `parse_blocks`, tied to the compiled
   parser by tools/checks/blocks_tie.py, source positions included).  Only pinned statements.

   N = `block_lines o x` = the value of Parser.line_number when finalize_document runs: the number of lines of the
   input (Model/Feed.v `lines`) without front matter (BlocksPos_block_lines_plain); with front matter, the LF bytes of
   the front matter + the lines of the rest, which is NOT always the number of lines (BlocksPos_front_matter_refuted).

   PROVED for every option set and every input x with parse_blocks o x = Ok r, for every node of the public tree:
     1 <= start line, 1 <= start column;
     start line <= max 1 N and end line <= max 1 N  when `free_val o value`;
     start line <= max 1 (end line)                 for ThematicBreak, fenced CodeBlock, MultilineBlockQuote when the
                                                    description list extension is off (`tbl`).
   (max 1: the empty input has N = 0 and the Document 1:1-0:0, BlocksPos_empty_document_refuted.)
   `free_val o v` is: not (description lists and table extension both on), v is not FrontMatter, and (table extension
   off, or v is none of Paragraph, setext Heading, Table, TableRow, TableCell, DescriptionList, DescriptionItem).
   So with the table extension off the line bounds hold for EVERY node except the front matter.
   REFUTED (witnesses by vm_compute on the model; the model is tied to the implementation):
     start line <= end line for HtmlBlock (known class C11-h), 1 <= end line for the Document of the empty input (C11-a),
     end line <= N for FrontMatter (NEW: front matter whose closing line has no line end).
   NOT PROVED in the first round: the two full statements below.  The SECOND ROUND at the end of this file proves the
   first (BlocksPos_lines: line bounds for every value but FrontMatter under every option set) and start-line nesting
   with the description list extension off (BlocksPos_start_nest). *)
From Coq Require Import List NArith Bool.
From V Require Import Base.Bytes Base.Res Gen.Nodes Model.Ast Model.Feed Model.Blocks Proofs.BlocksPos Proofs.BlocksPosRun.
From V Require Proofs.BlocksNest Proofs.BlocksNestFinal.
Import ListNotations.
From Coq Require Import Strings.String.
Local Open Scope string_scope.
Local Open Scope list_scope.

Theorem BlocksPos_positions : forall o x r,
  parse_blocks o x = Ok r ->
  forall n, In n (nsub (to_node (br_root r))) ->
  let sp := nsp n in
  (1 <= sl sp)%N /\ (1 <= sc sp)%N /\
  (free_val o (nval n) = true ->
     (sl sp <= N.max 1 (N.of_nat (block_lines o x)))%N /\ (el sp <= N.max 1 (N.of_nat (block_lines o x)))%N) /\
  (tbl o (nval n) = true -> (sl sp <= N.max 1 (el sp))%N).
Proof. exact parse_blocks_positions. Qed.
Print Assumptions BlocksPos_positions.

(* the same on the model's own tree, with the crate-private fields (used by other proofs) *)
Theorem BlocksPos_invariant : forall o x r,
  parse_blocks o x = Ok r -> all_info (Pn o (block_lines o x)) (br_root r).
Proof. exact parse_blocks_pos. Qed.
Print Assumptions BlocksPos_invariant.

Theorem BlocksPos_block_lines_plain : forall o x,
  bo_front_matter_delimiter o = None -> block_lines o x = List.length (lines x).
Proof. exact block_lines_plain. Qed.
Print Assumptions BlocksPos_block_lines_plain.

(* the invariant is carried by every line: the statement the proof goes through *)
Theorem BlocksPos_process_line : forall o L st line st',
  process_line o st line = Ok st' -> PIL o L st -> PIL o (S L) st'.
Proof. exact process_line_pil. Qed.
Print Assumptions BlocksPos_process_line.

(* ---- refutations *)
Theorem BlocksPos_empty_document_refuted : parsed_positions o_plain [] = Ok [(KDocument, (1, 1, 0, 0))%N].
Proof. exact empty_document_refuted. Qed.
Print Assumptions BlocksPos_empty_document_refuted.

Theorem BlocksPos_html_block_refuted :
  parsed_positions o_plain (B "<?php ?>" ++ [x0a]) = Ok [(KDocument, (1, 1, 1, 8))%N; (KHtmlBlock, (1, 1, 0, 0))%N].
Proof. exact html_block_start_after_end_refuted. Qed.
Print Assumptions BlocksPos_html_block_refuted.

Theorem BlocksPos_front_matter_refuted :
  parsed_positions o_fm (B "---" ++ [x0a] ++ B "x" ++ [x0a] ++ B "---")
    = Ok [(KDocument, (1, 1, 2, 0))%N; (KFrontMatter, (1, 1, 3, 3))%N]
  /\ block_lines o_fm (B "---" ++ [x0a] ++ B "x" ++ [x0a] ++ B "---") = 2
  /\ List.length (lines (B "---" ++ [x0a] ++ B "x" ++ [x0a] ++ B "---")) = 3.
Proof. exact front_matter_end_refuted. Qed.
Print Assumptions BlocksPos_front_matter_refuted.

(* ---- what the first round left open *)
(* (1) [PROVED at the end of this file: BlocksPos_lines] the bounds for EVERY value other than FrontMatter and under every option set.  Gap: with the table extension on,
   try_inserting_table_header_paragraph moves the start of the paragraph by the LF count of the preface; that count is
   bounded by the paragraph's line_offsets (one per line added), but carrying `start + |line_offsets| <= line_number`
   through the replacement of the paragraph by the table needs that node identifiers are unique (upd and edit_kids
   find the same node), which is not proved for the model.  With description lists on as well, parse_desc_list_details
   copies such a start through an identifier returned by add_child; that it is the new node needs `identifiers < ps_next`. *)
Definition BlocksPos_lines_full_statement : Prop := forall o x r,
  parse_blocks o x = Ok r ->
  forall n, In n (nsub (to_node (br_root r))) ->
  match nval n with FrontMatter _ => True | _ =>
    (sl (nsp n) <= N.max 1 (N.of_nat (block_lines o x)))%N /\ (el (nsp n) <= N.max 1 (N.of_nat (block_lines o x)))%N
  end.

(* (2) start line <= end line for every value other than HtmlBlock (and the Document of the empty input).  Gap: a block
   closed by finalize's last branch gets end line = line_number - 1, so the statement needs that no block other than an
   HtmlBlock is closed on the line that created it: the chain finalize_up_to / add_child_loop climbs consists of blocks
   with an earlier start (start-line nesting parent <= child, which fails below a DescriptionTerm), and no handler
   fires after a table row was opened (the cursor is at the line end).  Observed true on the compiled parser on
   170 000 generated documents (the survey is not part of the check).
   Second round: the start-line nesting is now proved with description lists off (BlocksPos_start_nest) and the line
   bounds for every value (BlocksPos_lines: the branches that set end = line_number are settled); still missing is the
   link from nesting to `the block closed by the line_number - 1 branch was not created on this line` (the chain
   add_child_loop / finalize_up_to climbs starts at ps_current or at a matched container, which takes an invariant about
   ps_current and the open spine) and the table-row argument. *)
Definition BlocksPos_start_le_end_full_statement : Prop := forall o x r,
  parse_blocks o x = Ok r -> 1 <= block_lines o x ->
  forall n, In n (nsub (to_node (br_root r))) ->
  match nval n with HtmlBlock _ _ => True | _ => (sl (nsp n) <= el (nsp n))%N end.

(* ---- non-vacuity *)
Example BlocksPos_example :
  parsed_positions o_plain (B "> ```" ++ [x0a] ++ B "> x" ++ [x0a] ++ B "> ```" ++ [x0a] ++ B "***" ++ [x0a])
    = Ok [(KDocument, (1, 1, 4, 3))%N; (KBlockQuote, (1, 1, 3, 5))%N; (KCodeBlock, (1, 3, 3, 5))%N; (KThematicBreak, (4, 1, 4, 3))%N].
Proof. exact positions_example. Qed.


(* ================================================================== second round (Proofs/BlocksNest*.v)
   The invariant there has a clause per node and a clause per (parent, child) edge and is carried together with the
   pairwise distinct identifiers of Props/ParserShape.v (state invariant TI of Proofs/ParserShapeTabPrim.v) and the
   containment invariant of Props/Blocks.v (a Paragraph has no children):
     every node            : start line <= max 1 N;  end line <= max 1 N unless the value is FrontMatter
     every Paragraph       : start line + |line_offsets| <= N + 1   (one entry per line it was given; this is what bounds
                             the start try_inserting_table_header_paragraph moves by the LF count of the preface)
     every (parent, child) : start line of the parent <= start line of the child, when the description list extension is off
   PROVED now, every option set: BlocksPos_lines_full_statement (= BlocksPos_lines).
   PROVED with description lists off: start-line nesting (BlocksPos_start_nest); with them on it is FALSE below a
   DescriptionTerm (BlocksPos_start_nest_description_term_refuted, known class C11-l) and not proved elsewhere
   (BlocksPos_start_nest_full_statement).
   STILL NOT PROVED: BlocksPos_start_le_end_full_statement. *)
Theorem BlocksPos_lines : BlocksPos_lines_full_statement.
Proof. exact BlocksNestFinal.parse_blocks_lines. Qed.
Print Assumptions BlocksPos_lines.

(* the start line of EVERY node, the front matter included *)
Theorem BlocksPos_start_line : forall o x r,
  parse_blocks o x = Ok r ->
  forall n, In n (nsub (to_node (br_root r))) -> (sl (nsp n) <= N.max 1 (N.of_nat (block_lines o x)))%N.
Proof. exact BlocksNestFinal.parse_blocks_start_line. Qed.
Print Assumptions BlocksPos_start_line.

(* start-line nesting, description lists off: every node starts at or before each of its children *)
Theorem BlocksPos_start_nest : forall o x r,
  parse_blocks o x = Ok r -> bo_description_lists o = false ->
  forall n, In n (nsub (to_node (br_root r))) -> forall c, In c (nch n) -> (sl (nsp n) <= sl (nsp c))%N.
Proof. exact BlocksNestFinal.parse_blocks_start_nest. Qed.
Print Assumptions BlocksPos_start_nest.

(* the crate-private line_offsets of a paragraph: at most one entry per line since its start *)
Theorem BlocksPos_line_offsets : forall o x r,
  parse_blocks o x = Ok r ->
  forall b, In b (ParserShapeTree.bsub (br_root r)) -> bval b = Paragraph ->
  bi_sl (binf b) + List.length (bi_lo (binf b)) <= block_lines o x + 1.
Proof. exact BlocksNestFinal.parse_blocks_line_offsets. Qed.
Print Assumptions BlocksPos_line_offsets.

(* the invariant the proof goes through, on the model's own tree *)
Theorem BlocksPos_nest_invariant : forall o x r,
  parse_blocks o x = Ok r ->
  BlocksNest.tn (BlocksNest.Q (block_lines o x) 1) (BlocksNest.rl (bo_description_lists o)) (br_root r).
Proof. exact BlocksNestFinal.parse_blocks_xi. Qed.
Print Assumptions BlocksPos_nest_invariant.

(* with description lists: the DescriptionTerm is created on the line of the colon around the paragraph that precedes it *)
Theorem BlocksPos_start_nest_description_term_refuted :
  parsed_positions BlocksNestFinal.o_dl (B "a" ++ [x0a; x0a] ++ B ": b" ++ [x0a])
    = Ok [(KDocument, (1, 1, 3, 3))%N; (KDescriptionList, (1, 1, 3, 3))%N; (KDescriptionItem, (1, 1, 3, 3))%N;
          (KDescriptionTerm, (3, 1, 3, 0))%N; (KParagraph, (1, 1, 1, 1))%N;
          (KDescriptionDetails, (3, 1, 3, 3))%N; (KParagraph, (3, 3, 3, 3))%N].
Proof. exact BlocksNestFinal.start_nest_description_term_refuted. Qed.
Print Assumptions BlocksPos_start_nest_description_term_refuted.

(* start-line nesting under every option set, with the one exception observed (170 000 + 415 000 generated documents on
   the compiled parser: the only failing (parent, child) pairs are (DescriptionTerm, Paragraph)).  Gap: with description
   lists on, parse_desc_list_details writes the start of the absorbed paragraph into the DescriptionList / DescriptionItem
   it has just appended under an ANCESTOR of the paragraph's parent (add_child climbs while can_contain fails); that this
   ancestor starts at or before the paragraph needs the transitive form of the clause (every ancestor that is not a
   DescriptionTerm starts at or before every descendant), i.e. a lower bound handed down the tree instead of a clause per
   edge; the invariant of Proofs/BlocksNest.v is per edge. *)
Definition BlocksPos_start_nest_full_statement : Prop := forall o x r,
  parse_blocks o x = Ok r ->
  forall n, In n (nsub (to_node (br_root r))) ->
  match nval n with DescriptionTerm => True | _ => forall c, In c (nch n) -> (sl (nsp n) <= sl (nsp c))%N end.

(* non-vacuity: paragraph lines in front of a table; the paragraph start is moved and the table starts on line 3 *)
Example BlocksPos_table_example :
  parsed_positions BlocksNestFinal.o_tbl (B "x" ++ [x0a] ++ B "y" ++ [x0a] ++ B "a|b" ++ [x0a] ++ B "-|-" ++ [x0a] ++ B "c|d" ++ [x0a])
    = Ok [(KDocument, (1, 1, 5, 3))%N; (KParagraph, (1, 1, 2, 1))%N; (KTable, (3, 1, 5, 3))%N;
          (KTableRow, (3, 1, 3, 3))%N; (KTableCell, (3, 1, 3, 1))%N; (KTableCell, (3, 3, 3, 3))%N;
          (KTableRow, (5, 1, 5, 3))%N; (KTableCell, (5, 1, 5, 1))%N; (KTableCell, (5, 3, 5, 3))%N].
Proof. exact BlocksNestFinal.table_after_paragraph_example. Qed.
