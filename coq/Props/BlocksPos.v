(* Props/BlocksPos.v — C11, first sentence, for the BLOCK PHASE model (Model/Blocks.v `parse_blocks`, tied to the compiled
   parser by tools/checks/blocks_tie.py, source positions included).  Only pinned statements.

   N = `block_lines o x` = the value of Parser.line_number when finalize_document runs: the number of lines of the
   input (Model/Feed.v `lines`) without front matter (BlocksPos_block_lines_plain); with front matter, the LF bytes of
   the front matter + the lines of the rest, which is NOT always the number of lines (BlocksPos_front_matter_refuted).

   PROVED for every option set and every input x with parse_blocks o x = Ok r, for every node of the public tree:
     1 <= start line, 1 <= start column;
     start line <= max 1 N and end line <= max 1 N  when `free_val o value`;
     start line <= max 1 (end line)                 for ThematicBreak, fenced CodeBlock, MultilineBlockQuote when the
                                                    description list extension is off (`tbl`).
   (max 1: the empty input has N = 0 and the Document 1:1-0:0, BlocksPos_empty_document_refuted.)
   `free_val o v` is: not (description lists and table extension both on), v is not FrontMatter, and (table extension
   off, or v is none of Paragraph, setext Heading, Table, TableRow, TableCell, DescriptionList, DescriptionItem).
   So with the table extension off the line bounds hold for EVERY node except the front matter.
   REFUTED (witnesses by vm_compute on the model; the model is tied to the implementation):
     start line <= end line for HtmlBlock (known class C11-h), 1 <= end line for the Document of the empty input (C11-a),
     end line <= N for FrontMatter (NEW: front matter whose closing line has no line end).
   NOT PROVED: see the two full statements below. *)
From Coq Require Import List NArith Bool.
From V Require Import Base.Bytes Base.Res Gen.Nodes Model.Ast Model.Feed Model.Blocks Proofs.BlocksPos Proofs.BlocksPosRun.
Import ListNotations.
From Coq Require Import Strings.String.
Local Open Scope string_scope.
Local Open Scope list_scope.

Theorem BlocksPos_positions : forall o x r,
  parse_blocks o x = Ok r ->
  forall n, In n (nsub (to_node (br_root r))) ->
  let sp := nsp n in
  (1 <= sl sp)%N /\ (1 <= sc sp)%N /\
  (free_val o (nval n) = true ->
     (sl sp <= N.max 1 (N.of_nat (block_lines o x)))%N /\ (el sp <= N.max 1 (N.of_nat (block_lines o x)))%N) /\
  (tbl o (nval n) = true -> (sl sp <= N.max 1 (el sp))%N).
Proof. exact parse_blocks_positions. Qed.
Print Assumptions BlocksPos_positions.

(* the same on the model's own tree, with the crate-private fields (used by other proofs) *)
Theorem BlocksPos_invariant : forall o x r,
  parse_blocks o x = Ok r -> all_info (Pn o (block_lines o x)) (br_root r).
Proof. exact parse_blocks_pos. Qed.
Print Assumptions BlocksPos_invariant.

Theorem BlocksPos_block_lines_plain : forall o x,
  bo_front_matter_delimiter o = None -> block_lines o x = List.length (lines x).
Proof. exact block_lines_plain. Qed.
Print Assumptions BlocksPos_block_lines_plain.

(* the invariant is carried by every line: the statement the proof goes through *)
Theorem BlocksPos_process_line : forall o L st line st',
  process_line o st line = Ok st' -> PIL o L st -> PIL o (S L) st'.
Proof. exact process_line_pil. Qed.
Print Assumptions BlocksPos_process_line.

(* ---- refutations *)
Theorem BlocksPos_empty_document_refuted : parsed_positions o_plain [] = Ok [(KDocument, (1, 1, 0, 0))%N].
Proof. exact empty_document_refuted. Qed.
Print Assumptions BlocksPos_empty_document_refuted.

Theorem BlocksPos_html_block_refuted :
  parsed_positions o_plain (B "<?php ?>" ++ [x0a]) = Ok [(KDocument, (1, 1, 1, 8))%N; (KHtmlBlock, (1, 1, 0, 0))%N].
Proof. exact html_block_start_after_end_refuted. Qed.
Print Assumptions BlocksPos_html_block_refuted.

Theorem BlocksPos_front_matter_refuted :
  parsed_positions o_fm (B "---" ++ [x0a] ++ B "x" ++ [x0a] ++ B "---")
    = Ok [(KDocument, (1, 1, 2, 0))%N; (KFrontMatter, (1, 1, 3, 3))%N]
  /\ block_lines o_fm (B "---" ++ [x0a] ++ B "x" ++ [x0a] ++ B "---") = 2
  /\ List.length (lines (B "---" ++ [x0a] ++ B "x" ++ [x0a] ++ B "---")) = 3.
Proof. exact front_matter_end_refuted. Qed.
Print Assumptions BlocksPos_front_matter_refuted.

(* ---- what is not proved *)
(* (1) the bounds for EVERY value other than FrontMatter and under every option set.  Gap: with the table extension on,
   try_inserting_table_header_paragraph moves the start of the paragraph by the LF count of the preface; that count is
   bounded by the paragraph's line_offsets (one per line added), but carrying `start + |line_offsets| <= line_number`
   through the replacement of the paragraph by the table needs that node identifiers are unique (upd and edit_kids
   find the same node), which is not proved for the model.  With description lists on as well, parse_desc_list_details
   copies such a start through an identifier returned by add_child; that it is the new node needs `identifiers < ps_next`. *)
Definition BlocksPos_lines_full_statement : Prop := forall o x r,
  parse_blocks o x = Ok r ->
  forall n, In n (nsub (to_node (br_root r))) ->
  match nval n with FrontMatter _ => True | _ =>
    (sl (nsp n) <= N.max 1 (N.of_nat (block_lines o x)))%N /\ (el (nsp n) <= N.max 1 (N.of_nat (block_lines o x)))%N
  end.

(* (2) start line <= end line for every value other than HtmlBlock (and the Document of the empty input).  Gap: a block
   closed by finalize's last branch gets end line = line_number - 1, so the statement needs that no block other than an
   HtmlBlock is closed on the line that created it: the chain finalize_up_to / add_child_loop climbs consists of blocks
   with an earlier start (start-line nesting parent <= child, which fails below a DescriptionTerm), and no handler
   fires after a table row was opened (the cursor is at the line end).  Observed true on the compiled parser on
   170 000 generated documents (the survey is not part of the check). *)
Definition BlocksPos_start_le_end_full_statement : Prop := forall o x r,
  parse_blocks o x = Ok r -> 1 <= block_lines o x ->
  forall n, In n (nsub (to_node (br_root r))) ->
  match nval n with HtmlBlock _ _ => True | _ => (sl (nsp n) <= el (nsp n))%N end.

(* ---- non-vacuity *)
Example BlocksPos_example :
  parsed_positions o_plain (B "> ```" ++ [x0a] ++ B "> x" ++ [x0a] ++ B "> ```" ++ [x0a] ++ B "***" ++ [x0a])
    = Ok [(KDocument, (1, 1, 4, 3))%N; (KBlockQuote, (1, 1, 3, 5))%N; (KCodeBlock, (1, 3, 3, 5))%N; (KThematicBreak, (4, 1, 4, 3))%N].
Proof. exact positions_example. Qed.
