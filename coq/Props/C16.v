(* Props/C16.v — The command-line tool renders exactly what the library renders.
   Only pinned statements.  `options_of_cli`, `formatter_of`, `sink_of`, `highlighter_of`,
   `inplace_precheck`, the flag table and the enums are GENERATED from /repo/src/main.rs on every run
   (Gen/Cli.v, translator item `cli`); `documented_*` is Spec/CliDoc.v, written from README.md;
   `splice` / `cli_with_config_model` is Model/CliModel.v (transcription of fn cli_with_config, body text
   audited by the translator).  clap itself, shell_words::split, the file system and process exit are
   NOT modelled: the correspondence cli.run observes them on the compiled binary. *)
From Coq Require Import List NArith ZArith Bool Strings.String.
From V Require Import Base.Bytes Base.Res Gen.Cli Model.CliModel Spec.CliDoc Proofs.CliProofs.
Import ListNotations.
Local Open Scope string_scope.
Local Open Scope list_scope.

(* the Options value main() assembles is the documented one, for every parsed command line: all
   2^18 extension subsets (and every list spelling of them), every flag combination, every value *)
Theorem C16_cli_mapping_documented : forall c, options_of_cli c = documented_options c.
Proof. exact options_documented. Qed.
Print Assumptions C16_cli_mapping_documented.

(* `-e NAME` is in force exactly when the extension of that help-text name is in the parsed list *)
Theorem C16_extension_exact : forall c e, In e (c_extensions c) <-> ext_given (extension_name e) c = true.
Proof. exact extension_exact. Qed.
Print Assumptions C16_extension_exact.

(* value names of --extension / --to / --list-style and the option table are those of the help text *)
Theorem C16_value_names_documented :
  map extension_name all_extensions = documented_extension_names /\
  map format_name all_formats = documented_format_names /\
  map list_style_name all_list_styles = documented_list_style_names /\
  (forall e, In e all_extensions).
Proof. exact value_names_documented. Qed.
Print Assumptions C16_value_names_documented.

Theorem C16_flags_documented :
  map flag_view (filter (fun f => negb (is_positional f)) cli_flags) = documented_flags.
Proof. exact flags_documented. Qed.
Print Assumptions C16_flags_documented.

(* --gfm = -e strikethrough,tagfilter,table,autolink,tasklist --github-pre-lang --gfm-quirks *)
Theorem C16_gfm_bundle : forall c, options_of_cli (with_gfm true c) = options_of_cli (gfm_spelled_out c).
Proof. exact gfm_is_its_bundle. Qed.
Print Assumptions C16_gfm_bundle.

Theorem C16_gfm_sets_seven : forall c, c_gfm c = true ->
  let o := options_of_cli c in
  o_strikethrough o = true /\ o_tagfilter o = true /\ o_table o = true /\ o_autolink o = true /\
  o_tasklist o = true /\ o_github_pre_lang o = true /\ o_gfm_quirks o = true.
Proof. exact gfm_sets_seven. Qed.
Print Assumptions C16_gfm_sets_seven.

(* formatter / sink / highlighter selection as documented; --inplace forces the CommonMark formatter
   (whatever --to would say; clap additionally rejects --inplace with --to or --output) and never
   installs the syntax highlighter, which is HTML-only *)
Theorem C16_inplace_forces_commonmark : forall c, c_inplace c = true ->
  formatter_of c = R_commonmark /\ installs_highlighter c = false.
Proof. exact inplace_forces. Qed.
Print Assumptions C16_inplace_forces_commonmark.

Theorem C16_plan_documented : forall c,
  formatter_of c = documented_renderer c /\ sink_of c = documented_sink c /\
  highlighter_of c = documented_highlighter c /\ (installs_highlighter c = true <-> formatter_of c = R_html).
Proof. exact plan_documented. Qed.
Print Assumptions C16_plan_documented.

Theorem C16_inplace_precheck : forall c,
  inplace_precheck c = None <-> (c_inplace c = false \/ exists f, c_files c = Some [f]).
Proof. exact inplace_precheck_spec. Qed.
Print Assumptions C16_inplace_precheck.

Theorem C16_exit_codes :
  EXIT_SUCCESS = 0%Z /\ EXIT_PARSE_CONFIG <> 0%Z /\ EXIT_READ_INPUT <> 0%Z /\ EXIT_CHECK_FILE_NUM <> 0%Z /\
  read_error_exit <> success_exit /\ config_parse_error_exit <> success_exit.
Proof. exact exit_codes_distinct. Qed.
Print Assumptions C16_exit_codes.

(* ---- cli_with_config: which argument list clap receives.  When every real argument is valid
   UTF-8, the second parse sees the real argv FIRST and the config file's words AFTER it. *)
Theorem C16_config_splice : forall real cf config,
  bytes_eqb cf config_none_word = false ->
  cli_with_config_model (map Some real) cf (Cfg_words config)
  = Ok (Parse_twice (map Some real) (real ++ config)).
Proof. exact config_model_splice. Qed.
Print Assumptions C16_config_splice.

(* --config-file none, or a file that cannot be read, leave the real arguments alone; a file with
   unbalanced quotes ends in exit status 2 *)
Theorem C16_config_untouched : forall real cf src,
  cli_with_config_model real config_none_word src = Ok (Parse_once real) /\
  cli_with_config_model real cf Cfg_unreadable = Ok (Parse_once real) /\
  (bytes_eqb cf config_none_word = false -> cli_with_config_model real cf Cfg_bad_quotes = Ok (Exit_with 2%Z)).
Proof. exact config_untouched. Qed.
Print Assumptions C16_config_untouched.

(* the splice for ARBITRARY argv (file names need not be UTF-8) would have to keep every argument in
   place and never panic.  That is false of the code: *)
Definition C16_config_splice_full_statement : Prop :=
  forall (real : list (option word)) (config : list word), exists out, splice real config = Ok out /\ List.length out = List.length real + List.length config.

Theorem C16_config_splice_refuted : ~ C16_config_splice_full_statement.
Proof. exact splice_full_refuted. Qed.
Print Assumptions C16_config_splice_refuted.

Theorem C16_config_splice_drops_argument :
  splice [Some (w "comrak"); None; Some (w "b.md")] [w "--smart"] = Ok [w "comrak"; w "--smart"; w "b.md"].
Proof. exact splice_nonutf8_drops_and_reorders. Qed.
Print Assumptions C16_config_splice_drops_argument.

(* outside the known class nonutf8_argv_with_config the splice is exactly real ++ config; the refuting
   witness lies inside the class *)
Theorem C16_config_splice_partial : forall real config,
  nonutf8_argv_with_config real true = false ->
  exists r, real = map Some r /\ splice real config = Ok (r ++ config).
Proof. exact splice_outside_known. Qed.
Print Assumptions C16_config_splice_partial.

Theorem C16_config_splice_witness_known :
  nonutf8_argv_with_config [Some (w "comrak"); None; Some (w "b.md")] true = true.
Proof. exact splice_witness_in_known. Qed.
Print Assumptions C16_config_splice_witness_known.

(* ---- F19.  Documented: the config file's options are in force together with the command line's.
   Under the (observed) clap rule that a non-append argument may be given once, the merged list is
   accepted exactly when no such argument is on both sides. *)
Definition C16_merge_full_statement : Prop :=
  forall real config, clap_accepts real = true -> clap_accepts config = true ->
    clap_accepts (documented_effective_flags real config) = true.

Theorem C16_merge_respects_doc_partial : forall real config,
  clap_accepts real = true -> clap_accepts config = true ->
  clap_accepts (documented_effective_flags real config) = negb (overlapping_config real config).
Proof. exact merge_ok_iff_disjoint. Qed.
Print Assumptions C16_merge_respects_doc_partial.

Theorem C16_merge_refuted : ~ C16_merge_full_statement.
Proof. exact merge_full_refuted. Qed.
Print Assumptions C16_merge_refuted.

(* non-vacuity: comrak --gfm -e superscript,footnotes --width 72 --header-ids p- *)
Example C16_example :
  let c := cli_of_assoc (B "cfg") [("gfm", CBool true); ("extensions", CExts [E_Superscript; E_Footnotes]);
                                   ("width", CNum 72%N); ("header_ids", COptStr (Some (B "p-")))] in
  let o := options_of_cli c in
  (o_tagfilter o, o_superscript o, o_subscript o, o_footnotes o, o_gfm_quirks o, o_width o, o_header_ids o, o_smart o)
  = (true, true, false, true, true, 72%N, Some (B "p-"), false).
Proof. reflexivity. Qed.
