(* Props/C07.v — CommonMark output re-parses to the same document: what is PROVED.
   The global statement  html(parse(cm(parse x))) = html(parse x)  is NOT proved (it needs the whole block
   and inline parser); it is evaluated on the implementation by tools/checks/c07.py with the failure classes
   of known_findings.json.  Pinned here, for ALL inputs:
   - the two admitted normalisations are idempotent and touch nothing else (lines other than the end-of-list
     comment keep their order and content; every node value other than a Strong marker is kept, and a tree
     or text without the pattern is returned unchanged);
   - reading side of the escapes cm.rs outc writes (sets translated from the source, Gen/RtOutc.v):
     backslash escapes, two-digit percent encoding, decimal character references. *)
From Coq Require Import List NArith Bool Strings.String.
From V Require Import Base.Bytes Gen.RtOutc Model.Ast Spec.RoundTrip Proofs.RoundTripProofs.
Import ListNotations.
Local Open Scope string_scope.
Local Open Scope list_scope.
Local Open Scope bool_scope.

Definition C07_full_statement : Prop :=
  forall (parse : bytes -> node) (cm html : node -> bytes) (x : bytes),
    strip_end_list_comments (html (parse (cm (parse x))))
    = strip_end_list_comments (html (collapse_nested_strong (parse x))).
(* not proved and false of the implementation on the classes of known_findings.json (C07-a ...) *)

Theorem C07_strip_idempotent : forall h,
  strip_end_list_comments (strip_end_list_comments h) = strip_end_list_comments h.
Proof. exact strip_idempotent. Qed.
Print Assumptions C07_strip_idempotent.

Theorem C07_strip_only_comment_lines : forall h,
  split_nl (strip_end_list_comments h) = (filter keep_line (fst (split_nl h)), snd (split_nl h)).
Proof. exact strip_lines. Qed.
Print Assumptions C07_strip_only_comment_lines.

Theorem C07_strip_identity : forall h,
  forallb keep_line (fst (split_nl h)) = true -> strip_end_list_comments h = h.
Proof. exact strip_identity. Qed.
Print Assumptions C07_strip_identity.

Theorem C07_lines_roundtrip : forall s, join_nl (split_nl s) = s.
Proof. exact join_split. Qed.
Print Assumptions C07_lines_roundtrip.

Theorem C07_collapse_idempotent : forall n,
  collapse_nested_strong (collapse_nested_strong n) = collapse_nested_strong n.
Proof. exact collapse_idempotent. Qed.
Print Assumptions C07_collapse_idempotent.

Theorem C07_collapse_removes_all : forall n, no_nested_strong (collapse_nested_strong n) = true.
Proof. exact collapse_no_nested. Qed.
Print Assumptions C07_collapse_removes_all.

Theorem C07_collapse_identity : forall n, no_nested_strong n = true -> collapse_nested_strong n = n.
Proof. exact collapse_identity. Qed.
Print Assumptions C07_collapse_identity.

Theorem C07_collapse_keeps_values : forall n,
  non_strong_values (collapse_nested_strong n) = non_strong_values n.
Proof. exact collapse_keeps_values. Qed.
Print Assumptions C07_collapse_keeps_values.

(* backslash + ASCII punctuation reads back as the punctuation byte *)
Theorem C07_escape_punct_rt : forall c, is_ascii_punct c = true -> unescape_backslashes [bs; c] = [c].
Proof. exact escape_punct_rt. Qed.
Print Assumptions C07_escape_punct_rt.

(* text over the full byte alphabet, every byte of outc's Normal-mode sets escaped *)
Theorem C07_escape_all_rt : forall t, unescape_backslashes (escape_all t) = t.
Proof. exact unescape_escape_all. Qed.
Print Assumptions C07_escape_all_rt.

(* any per-position decision that stays inside outc's sets and always escapes the backslash *)
Theorem C07_escape_policy_rt : forall l : list (byte * bool),
  forallb (fun p => (negb (snd p) || mem_byte (fst p) outc_normal_any)
                    && (negb (beqb (fst p) bs) || snd p)) l = true ->
  unescape_backslashes (escape_dec l) = map fst l.
Proof. exact unescape_outc_policy. Qed.
Print Assumptions C07_escape_policy_rt.

Theorem C07_pct_ws_rt : forall c, pct_decode1 (pct_encode c) = Some c.
Proof. exact pct_rt. Qed.
Print Assumptions C07_pct_ws_rt.

(* DESIGN F14 (fixed by 7e6ac86): the former width-2 space-padded format does not decode *)
Theorem C07_pct_old_format_refuted : pct_decode1 (pct_encode_old x09) = None.
Proof. exact pct_old_refuted. Qed.
Print Assumptions C07_pct_old_format_refuted.

Theorem C07_entity_numeric_rt : forall c,
  (bN c < outc_ctrl_bound)%N -> numeric_entity_value (numeric_entity c) = Some (bN c).
Proof. exact entity_numeric_rt. Qed.
Print Assumptions C07_entity_numeric_rt.

(* non-vacuity *)
Example C07_strip_example :
  strip_end_list_comments (B "<ul></ul>" ++ [nl] ++ end_list_comment ++ [nl] ++ B "<ul></ul>" ++ [nl])
  = B "<ul></ul>" ++ [nl] ++ B "<ul></ul>" ++ [nl].
Proof. vm_compute. reflexivity. Qed.
Example C07_collapse_example :
  let sp := mkSp 0 0 0 0 in
  collapse_nested_strong (Node Strong sp [Node (Text (B "a")) sp []; Node Strong sp [Node (Text (B "b")) sp []]])
  = Node Strong sp [Node (Text (B "a")) sp []; Node (Text (B "b")) sp []].
Proof. vm_compute. reflexivity. Qed.
Example C07_escape_example : escape_all (B "a*b\") = B "a\*b\\".
Proof. vm_compute. reflexivity. Qed.
