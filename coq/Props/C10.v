(* Props/C10.v — HTML output is balanced and properly nested.
   Only pinned statements.  `events` is the renderer model of Model/Html.v (tied to src/html.rs by the
   byte-for-byte correspondence check on `ser (events t)`); `nest` / `well_nested` are the stack
   discipline of Spec/HtmlSpec.v; s2 / s3 / s6 are the tree-shape clauses of Spec/Shape.v, which
   are evaluated on every tree the real parser produces.

   Raw HTML is a RawHtml / Cmt / Txt event and inert for `nest`: at event level the theorems hold for
   every option record, so the clause about raw HTML not being passed through does not appear here
   (it matters for the byte-level statement, where passed-through bytes are lexed as tags).

   Elements are not balanced node by node (tbody is opened by a row and closed by the table, the
   footnote section is opened by the first definition and closed by `finish`, tight paragraphs /
   nested strong / nested links suppress both tags under a condition the code writes twice); the
   proof goes through a generalised invariant, pinned below as C10_subtree_invariant. *)
From Coq Require Import List NArith Bool.
From V Require Import Base.Bytes Base.Res Model.Ast Model.Html Spec.HtmlSpec Spec.Shape Spec.NestSpec Proofs.HtmlNest.
Import ListNotations.
From Coq Require Import Strings.String.
Local Open Scope string_scope.
Local Open Scope list_scope.

(* the main theorem: every start tag is closed in the right order, nothing is left open at the end *)
Theorem C10_nested : forall slug o t evs,
  s2 t = true -> s3 t = true -> s6 t = true ->
  events slug o t = Ok evs -> well_nested evs = true.
Proof. exact nested. Qed.
Print Assumptions C10_nested.

(* the same under the weakest footnote clause: the first definition in document order is a child of
   the root (S6 implies it) *)
Theorem C10_nested_weak : forall slug o t evs,
  s2 t = true -> s3 t = true -> s6w t = true ->
  events slug o t = Ok evs -> well_nested evs = true.
Proof. exact nested_weak. Qed.
Print Assumptions C10_nested_weak.

Theorem C10_s6_implies_s6w : forall t, s6 t = true -> s6w t = true.
Proof. exact s6_s6w. Qed.
Print Assumptions C10_s6_implies_s6w.

(* the invariant: a subtree rendered in ANY context, state and stack leaves on the stack exactly
   `tbody` when it is a non-header row after a header row, `ol; section` when it is the first footnote
   definition met, and nothing otherwise.  So list items, figure wrappers, table head sections,
   whole tables (a table closes the body section its second row opened) ... open and close inside
   the subtree that produces them. *)
Theorem C10_subtree_invariant : forall slug o n c st evs st' s,
  s3_go (c_parent c) (c_gparent c) n = true ->
  ((0 < fn_ix st)%N \/ nofn n = true \/ is_fndef (nval n) = true) ->
  render slug o c n st = Ok (evs, st') ->
  nest s evs = Some (res_of (c_prev c) (nval n) ++ fres st (nval n) ++ s).
Proof. intros slug o n c st evs st' s H3 Hp Hr. exact (proj1 (render_P slug o n c st evs st' s H3 Hp Hr)). Qed.
Print Assumptions C10_subtree_invariant.

(* the footnote section opens at most once and closes as often as it opens — for EVERY tree, no
   shape clause needed (the counter fn_ix never returns to 0) *)
Theorem C10_footnote_section_once : forall slug o t evs,
  events slug o t = Ok evs ->
  count_open (B "section") evs = count_close (B "section") evs /\
  (count_open (B "section") evs <= 1)%nat.
Proof. exact section_once. Qed.
Print Assumptions C10_footnote_section_once.

(* table sections: a table that satisfies S3 (and has no table nested in its cells, so that only
   its own sections are counted) emits one table element, one head section, and one body section
   exactly when it has a second row — each opened once and closed once *)
Theorem C10_table_sections : forall slug o c t sp ch st evs st',
  s3_go (c_parent c) (c_gparent c) (Node (Table t) sp ch) = true ->
  forallb no_table ch = true ->
  render slug o c (Node (Table t) sp ch) st = Ok (evs, st') ->
  let body := if Nat.leb 2 (List.length ch) then 1%nat else 0%nat in
  count_open (B "thead") evs = 1%nat /\ count_close (B "thead") evs = 1%nat /\
  count_open (B "tbody") evs = body /\ count_close (B "tbody") evs = body /\
  count_open (B "table") evs = 1%nat /\ count_close (B "table") evs = 1%nat.
Proof. exact table_sections. Qed.
Print Assumptions C10_table_sections.

(* the renderer meets no context it does not handle: no Panic branch of Model/Html.v (cell without
   row / table, alignments index, table without rows, paragraph without parent) is reachable and
   the anchor loop does not run out of fuel *)
Theorem C10_html_total : forall slug o t,
  s2 t = true -> s3 t = true -> exists evs, events slug o t = Ok evs.
Proof. exact total. Qed.
Print Assumptions C10_html_total.

Theorem C10_html_total_bytes : forall slug o t,
  s2 t = true -> s3 t = true -> exists b, html slug o t = Ok b.
Proof. exact total_bytes. Qed.
Print Assumptions C10_html_total_bytes.

(* S2 is only used to exclude a Paragraph at the root *)
Theorem C10_html_total_any_root : forall slug o t,
  nval t <> Paragraph -> s3 t = true -> exists evs, events slug o t = Ok evs.
Proof. exact total_gen. Qed.
Print Assumptions C10_html_total_any_root.

Theorem C10_dec_injective : forall a b, dec a = dec b -> a = b.
Proof. exact dec_inj. Qed.
Print Assumptions C10_dec_injective.

Theorem C10_anchor_loop_has_fuel : forall iss id,
  exists a, h_uniq_loop (S (List.length iss)) iss id 0%N = Ok a.
Proof. exact uniq_loop_total. Qed.
Print Assumptions C10_anchor_loop_has_fuel.

(* every shape clause is needed: dropping it admits a tree on which the model (and, by the
   correspondence check on synthetic trees, the implementation) is unbalanced or panics *)
Theorem C10_without_s6_refuted :
  s2 w_fn_in_quote = true /\ s3 w_fn_in_quote = true /\ s6 w_fn_in_quote = false /\ unbalanced w_fn_in_quote.
Proof. exact s6_needed. Qed.
Print Assumptions C10_without_s6_refuted.

Theorem C10_without_s3_header_refuted :
  s2 w_two_headers = true /\ s6 w_two_headers = true /\ s3 w_two_headers = false /\ unbalanced w_two_headers.
Proof. exact s3_header_needed. Qed.
Print Assumptions C10_without_s3_header_refuted.

Theorem C10_without_s3_row_parent_refuted :
  s2 w_row_outside = true /\ s6 w_row_outside = true /\ s3 w_row_outside = false /\ unbalanced w_row_outside.
Proof. exact s3_row_parent_needed. Qed.
Print Assumptions C10_without_s3_row_parent_refuted.

Theorem C10_total_without_s3_cell_refuted :
  s2 w_cell_at_root = true /\ s3 w_cell_at_root = false /\ panics w_cell_at_root.
Proof. exact s3_cell_parent_needed. Qed.
Print Assumptions C10_total_without_s3_cell_refuted.

Theorem C10_total_without_s3_rows_refuted :
  s2 w_empty_table = true /\ s3 w_empty_table = false /\ panics w_empty_table.
Proof. exact s3_nonempty_needed. Qed.
Print Assumptions C10_total_without_s3_rows_refuted.

Theorem C10_total_without_s3_width_refuted :
  s2 w_wide_row = true /\ s3 w_wide_row = false /\ panics w_wide_row.
Proof. exact s3_width_needed. Qed.
Print Assumptions C10_total_without_s3_width_refuted.

Theorem C10_total_without_s2_refuted :
  s3 w_para_root = true /\ s2 w_para_root = false /\ panics w_para_root.
Proof. exact s2_needed. Qed.
Print Assumptions C10_total_without_s2_refuted.

(* S6 itself is stronger than balance needs: a definition nested in a definition violates S6 (and
   mis-attributes back references, see C15) but its output is still well nested *)
Theorem C10_s6_not_necessary :
  s6 w_fn_in_fn = false /\ s6w w_fn_in_fn = true /\
  exists evs, events slug_id o_plain w_fn_in_fn = Ok evs /\ well_nested evs = true.
Proof. exact s6_not_necessary. Qed.
Print Assumptions C10_s6_not_necessary.

(* non-vacuity: a tree with a three-row table, a tight and a loose list, an image rendered as a
   figure with caption, strong in strong under gfm_quirks, link in link under relaxed_autolinks,
   raw HTML, heading anchors, and two footnote definitions at the root tail meets S2, S3, S6 and
   renders to a well-nested stream *)
Example C10_example :
  s2 ex_tree = true /\ s3 ex_tree = true /\ s6 ex_tree = true /\
  exists evs, events slug_id o_rich ex_tree = Ok evs /\ well_nested evs = true /\
              (0 < List.length evs)%nat.
Proof.
  repeat split; try (vm_compute; reflexivity).
  eexists. split; [vm_compute; reflexivity|]. split; vm_compute; [reflexivity|].
  repeat constructor.
Qed.
