(* Props/C08.v — Output is invariant under line-ending style, final newline, NUL and BOM.
   Only pinned statements.  `feed_lines_res`, `lines`, `total_size`, `norm_line`, `seen_lines`, `max_ref_size`
   are the loop-faithful models of Model/Feed.v (Parser::feed with eof = true on a fresh parser followed by
   the flush of Parser::finish; the prologue of process_line; the budget of finalize_document), over the
   constants regenerated from /repo/src/parser/mod.rs and src/strings.rs on every run.
   `to_crlf`, `to_cr`, `add_final_nl`, `nul_to_fffd`, `prepend_bom`, `spec_lines` are Spec/LineEndings.v,
   written from the property text and CommonMark 2.1 / 2.3.

   Level: the theorems decide the property at the place where the code decides it, the line splitter: the
   four rewrites hand the block parser the same sequence of lines.  That equal line sequences (and an equal
   reference budget) give equal HTML is the determinism of code this model does not contain; it is stated
   as the factorisation theorems (quantified over an arbitrary `rest` of the pipeline), tied by the
   translator item `feed` (single call site of feed, three of process_line) and checked end to end on the
   implementation by tools/checks/c08.py. *)
From Coq Require Import List NArith Bool.
From V Require Import Base.Bytes Base.Res Gen.FeedConst Model.Feed Spec.LineEndings Proofs.FeedProofs.
Import ListNotations.
From Coq Require Import Strings.String.
Local Open Scope string_scope.
Local Open Scope list_scope.

(* the splitter terminates within its fuel and has no reachable panic site *)
Theorem C08_feed_total : forall x, exists ls n, feed_lines_res x = Ok (ls, n).
Proof. exact feed_total. Qed.
Print Assumptions C08_feed_total.

(* what it computes: the lines of the text in the sense of CommonMark 2.1 with NUL replaced (2.3), and the byte length *)
Theorem C08_feed_is_commonmark_lines : forall x,
  feed_lines_res x = Ok (spec_lines x, add_total 0 (N.of_nat (List.length x))).
Proof. exact feed_lines_res_spec. Qed.
Print Assumptions C08_feed_is_commonmark_lines.

(* rewriting LF as CRLF, or as CR, in a text without CR: the same slices reach process_line *)
Theorem C08_lines_crlf : forall x, no_cr x = true -> lines (to_crlf x) = lines x.
Proof. exact lines_crlf. Qed.
Print Assumptions C08_lines_crlf.

Theorem C08_lines_cr : forall x, no_cr x = true -> lines (to_cr x) = lines x.
Proof. exact lines_cr. Qed.
Print Assumptions C08_lines_cr.

(* adding a newline to a non-empty text that lacks a final one (true of the slices, not only after normalisation) *)
Theorem C08_lines_final_nl : forall x, x <> [] -> ends_nl x = false -> lines (add_final_nl x) = lines x.
Proof. exact lines_final_nl. Qed.
Print Assumptions C08_lines_final_nl.

(* the empty text is the exception at this level: no line against one blank line (the HTML is empty in both
   cases on the implementation; that needs the block parser and is checked by the search only) *)
Definition C08_lines_final_nl_full_statement : Prop :=
  forall x, ends_nl x = false -> lines (add_final_nl x) = lines x.
Theorem C08_lines_final_nl_refuted : ~ C08_lines_final_nl_full_statement.
Proof.
  intro H. specialize (H [] eq_refl). destruct lines_final_nl_empty_differs as [A B0].
  rewrite A, B0 in H. discriminate.
Qed.
Print Assumptions C08_lines_final_nl_refuted.

(* replacing NUL by U+FFFD *)
Theorem C08_lines_nul : forall x, lines (nul_to_fffd x) = lines x.
Proof. exact lines_nul. Qed.
Print Assumptions C08_lines_nul.

(* the block parser never sees CR, LF or NUL inside a slice ... *)
Theorem C08_lines_clean : forall x, Forall (fun l => clean_line l = true) (lines x).
Proof. exact lines_clean. Qed.
Print Assumptions C08_lines_clean.

(* ... and process_line therefore always appends exactly one LF: LF is the only terminator it works with *)
Theorem C08_norm_lines : forall x, map norm_line (lines x) = map (fun l => l ++ [LF]) (lines x).
Proof. exact norm_lines. Qed.
Print Assumptions C08_norm_lines.

(* total_size differs between the copies, and it feeds max_ref_size = max(floor, total_size) *)
Theorem C08_total_size_crlf : forall x,
  (N.of_nat (List.length (to_crlf x)) <= usize_max)%N ->
  total_size (to_crlf x) = (total_size x + N.of_nat (count_lf x))%N.
Proof. exact total_size_crlf. Qed.
Print Assumptions C08_total_size_crlf.

Theorem C08_budget_not_binding : forall x,
  (N.of_nat (List.length x) <= ref_budget_floor)%N -> max_ref_size (total_size x) = ref_budget_floor.
Proof. exact budget_not_binding. Qed.
Print Assumptions C08_budget_not_binding.

(* F18: above the floor the CRLF copy gets a larger reference budget; the side condition below is needed *)
Theorem C08_budget_crlf_differs :
  exists x, no_cr x = true /\ max_ref_size (total_size (to_crlf x)) <> max_ref_size (total_size x).
Proof. exact budget_crlf_differs. Qed.
Print Assumptions C08_budget_crlf_differs.

(* the side condition of the factorisation theorems is the complement of the run-time class known_above_floor *)
Theorem C08_known_above_floor_iff : forall x,
  known_above_floor ref_budget_floor x = false <-> (N.of_nat (List.length x) <= ref_budget_floor)%N.
Proof. exact known_above_floor_iff. Qed.
Print Assumptions C08_known_above_floor_iff.

(* factorisation: for ANY continuation `rest` of the pipeline that reads the lines and the budget *)
Theorem C08_factor_crlf : forall (A : Type) (rest : list bytes -> N -> A) x,
  no_cr x = true -> (N.of_nat (List.length (to_crlf x)) <= ref_budget_floor)%N ->
  pipeline rest (to_crlf x) = pipeline rest x.
Proof. exact factor_crlf. Qed.
Print Assumptions C08_factor_crlf.

Theorem C08_factor_cr : forall (A : Type) (rest : list bytes -> N -> A) x,
  no_cr x = true -> pipeline rest (to_cr x) = pipeline rest x.
Proof. exact factor_cr. Qed.
Print Assumptions C08_factor_cr.

Theorem C08_factor_final_nl : forall (A : Type) (rest : list bytes -> N -> A) x,
  x <> [] -> ends_nl x = false -> (N.of_nat (List.length (add_final_nl x)) <= ref_budget_floor)%N ->
  pipeline rest (add_final_nl x) = pipeline rest x.
Proof. exact factor_final_nl. Qed.
Print Assumptions C08_factor_final_nl.

Theorem C08_factor_nul : forall (A : Type) (rest : list bytes -> N -> A) x,
  (N.of_nat (List.length (nul_to_fffd x)) <= ref_budget_floor)%N ->
  pipeline rest (nul_to_fffd x) = pipeline rest x.
Proof. exact factor_nul. Qed.
Print Assumptions C08_factor_nul.

(* byte-order mark: it stays at the front of the first slice ... *)
Theorem C08_lines_bom : forall x,
  lines (prepend_bom x) = match lines x with l :: r => (bom ++ l) :: r | [] => [bom] end.
Proof. exact lines_bom. Qed.
Print Assumptions C08_lines_bom.

(* ... and process_line starts the first line after it, so the block parser reads the same bytes.
   Full statement, its refutation on the faithful model (a text that already starts with a mark: only the
   first of two marks is skipped; class known_bom_on_bom), and the conditional form. *)
Definition C08_seen_lines_bom_full_statement : Prop :=
  forall x, x <> [] -> seen_lines (prepend_bom x) = seen_lines x.
Theorem C08_seen_lines_bom_refuted : ~ C08_seen_lines_bom_full_statement.
Proof.
  intro H. destruct seen_lines_bom_on_bom_refuted as [x [Hne [_ Hd]]]. exact (Hd (H x Hne)).
Qed.
Print Assumptions C08_seen_lines_bom_refuted.

Theorem C08_seen_lines_bom_partial : forall x,
  x <> [] -> known_bom_on_bom x = false -> seen_lines (prepend_bom x) = seen_lines x.
Proof. exact seen_lines_bom. Qed.
Print Assumptions C08_seen_lines_bom_partial.

Theorem C08_known_bom_on_bom_witness :
  known_bom_on_bom bom = true /\ seen_lines (prepend_bom bom) <> seen_lines bom.
Proof. split; [reflexivity|vm_compute; discriminate]. Qed.
Print Assumptions C08_known_bom_on_bom_witness.

(* non-vacuity: mixed content through the model; the hypotheses of the rewrite theorems are met by it *)
Example C08_example :
  let x := B "a" ++ [x0a] ++ B "b" ++ [x00] ++ B "c" ++ [x0a; x0a] ++ B "d" in
  no_cr x = true /\ x <> [] /\ ends_nl x = false /\
  lines x = [B "a"; B "b" ++ fffd ++ B "c"; []; B "d"] /\
  lines (to_crlf x) = lines x /\ lines (to_cr x) = lines x /\ lines (add_final_nl x) = lines x /\
  lines (nul_to_fffd x) = lines x /\ to_crlf x <> x /\ to_cr x <> x /\ nul_to_fffd x <> x /\
  seen_lines (prepend_bom x) = seen_lines x.
Proof. vm_compute. repeat split; try reflexivity; discriminate. Qed.
