(* Spec/GfmFilter.v — what C14 demands, written from the GFM specification, section 6.11
   "Disallowed Raw HTML (extension)" and the reference implementation's tag test (cmark-gfm,
   extensions/tagfilter.c, is_tag), NOT from comrak.

   GFM 6.11: the tags title, textarea, style, xmp, iframe, noembed, noframes, script, plaintext are
   filtered when rendering HTML output; filtering is done by replacing the leading LT with the
   entity for LT.  All other HTML tags are left untouched.

   cmark-gfm is_tag(data, size, name): size >= 3, data[0] is LT, an optional SLASH, then the name
   compared byte by byte against tolower(data[i]); if the data ends with (or inside) the name the
   answer is no; otherwise the byte after the name must be cmark_isspace, GT, or SLASH followed by GT.
   cmark_isspace (cmark-gfm cmark_ctype.c, the GFM spec's "whitespace character"): space, tab,
   newline, line tabulation, form feed, carriage return.

   Everything is parameterised by the whitespace predicate `ws` so that the structural theorems
   hold for any reading of "whitespace"; the pinned spec is the instance `gfm_ws`. *)
From Coq Require Import List NArith Bool Strings.String.
From V Require Import Base.Bytes.
Import ListNotations.
Local Open Scope string_scope.
Local Open Scope list_scope.

Definition gfm_disallowed_names : list bytes := Eval compute in
  [B "title"; B "textarea"; B "style"; B "xmp"; B "iframe"; B "noembed"; B "noframes"; B "script"; B "plaintext"].

(* GFM "whitespace character": U+0020, U+0009, U+000A, U+000B, U+000C, U+000D *)
Definition gfm_ws (b : byte) : bool :=
  beqb b x20 || beqb b x09 || beqb b x0a || beqb b x0b || beqb b x0c || beqb b x0d.

(* ASCII case folding of one byte (C locale tolower) *)
Definition ascii_lower (b : byte) : byte :=
  if in_range 65 90 b then byte_of_N (bN b + 32) else b.

(* name (given in lower case) is a prefix of s up to ASCII case *)
Fixpoint name_prefix_ci (s name : bytes) {struct name} : bool :=
  match name, s with
  | [], _ => true
  | y :: name', x :: s' => beqb (ascii_lower x) y && name_prefix_ci s' name'
  | _ :: _, [] => false
  end.

Definition lt_entity : bytes := [x26; x6c; x74; x3b].   (* the entity for LT *)

Section WS.
  Variable ws : byte -> bool.

  (* what must follow the name: a whitespace byte, GT, or SLASH GT; end of input does not qualify *)
  Definition tag_end (r : bytes) : bool :=
    match r with
    | [] => false
    | c :: r' =>
      ws c || beqb c x3e ||
      (beqb c x2f && match r' with d :: _ => beqb d x3e | [] => false end)
    end.

  (* r (what follows LT and the optional SLASH) begins with some disallowed name, properly ended *)
  Definition name_then_end (r : bytes) : bool :=
    existsb (fun n => name_prefix_ci r n && tag_end (skipn (List.length n) r)) gfm_disallowed_names.

  (* s begins with an opening or closing disallowed tag *)
  Definition disallowed_at_ws (s : bytes) : bool :=
    match s with
    | c :: r =>
      beqb c x3c &&
      match r with
      | d :: r' => if beqb d x2f then name_then_end r' else name_then_end r
      | [] => false
      end
    | [] => false
    end.

  (* every byte is copied, except the LT at a disallowed position, which is written as the entity *)
  Fixpoint gfm_filter_ws (s : bytes) : bytes :=
    match s with
    | [] => []
    | c :: r => (if disallowed_at_ws s then lt_entity else [c]) ++ gfm_filter_ws r
    end.

  (* an inline literal: only its first byte is looked at *)
  Definition lt_escape_first_ws (s : bytes) : bytes :=
    if disallowed_at_ws s then lt_entity ++ tl s else s.

  (* some position of o begins a disallowed tag *)
  Fixpoint any_disallowed_ws (o : bytes) : bool :=
    match o with
    | [] => false
    | _ :: r => disallowed_at_ws o || any_disallowed_ws r
    end.
End WS.

Definition disallowed_at : bytes -> bool := disallowed_at_ws gfm_ws.
Definition gfm_filter : bytes -> bytes := gfm_filter_ws gfm_ws.
Definition lt_escape_first : bytes -> bytes := lt_escape_first_ws gfm_ws.
Definition any_disallowed : bytes -> bool := any_disallowed_ws gfm_ws.

(* s with the byte at every position selected by P replaced by the entity, nothing else touched *)
Definition subst_lt_at (P : nat -> bool) (s : bytes) : bytes :=
  List.concat (map (fun i => if P i then lt_entity else firstn 1 (skipn i s)) (seq 0 (List.length s))).

(* relation used end to end: o is s with some LT bytes written as the entity (and nothing else changed) *)
Fixpoint lt_expansion (s o : bytes) {struct s} : bool :=
  match s with
  | [] => match o with [] => true | _ => false end
  | c :: r =>
    match o with
    | [] => false
    | c' :: o' =>
      (beqb c c' && lt_expansion r o') ||
      (beqb c x3c && starts_with o lt_entity && lt_expansion r (skipn 4 o))
    end
  end.
