(* Spec/SourcePos.v — C11 / C12: source positions, written from the property text and from comrak's
   DOCUMENTATION of what a position is, not from the parser.

   C11  Every node's reported source position refers to real text: 1 <= start line <= end line <=
        number of lines, the start does not come after the end, and both columns fall within their
        lines.  For the node kinds the documentation calls reliable (core blocks other than lists and
        items, all inlines, GFM extensions) a child's range lies within its parent's and siblings
        appear in increasing, non-overlapping order.
   C12  Slicing the input at a node's source position returns that node's own source: for a text node
        copied verbatim (no escape, entity, smart punctuation or NUL involved) the slice equals its
        literal, and for delimited inlines and blocks (code spans, emphasis, strong, strikethrough,
        links, images, autolinks, headings, fenced code, block quotes, thematic breaks, table cells)
        the slice starts and ends on the construct's own delimiters or content.

   Documentation (src/nodes.rs): Sourcepos.start is the line and column of the first character of
   this node, Sourcepos.end the line and column of the last character of this node; LineColumn holds
   the 1-based line number and the 1-based column number of the character.  Columns are BYTE columns.
   Documentation (src/parser/mod.rs, RenderOptions::sourcepos): Sourcepos information is reliable for
   core block items excluding lists and list items, all inlines, and most extensions.  The description
   lists extension still has issues.

   RELIABLE KINDS (the parameter `reliable` below), exactly the three groups of the property text:
     core blocks other than lists and items : Document BlockQuote CodeBlock HtmlBlock Paragraph Heading
                                              ThematicBreak
     all inlines                            : Text SoftBreak LineBreak Code HtmlInline Raw Emph Strong
                                              Link Image Strikethrough Superscript FootnoteReference Math
                                              Escaped WikiLink Underline Subscript SpoileredText EscapedTag
     GFM extensions (block kinds)           : Table TableRow TableCell
   NOT reliable: List Item TaskItem (lists and list items; a TaskItem is a list item), DescriptionList
   DescriptionItem DescriptionTerm DescriptionDetails (the documentation says they still have issues),
   and the block kinds of the non-GFM extensions FrontMatter FootnoteDefinition MultilineBlockQuote
   Alert (the documentation says only: most extensions; the property text names GFM extensions only).
   The in-bounds clause applies to EVERY node, reliable or not.

   LINES.  CommonMark 2.1: a line ending is LF, CR not followed by LF, or CR LF; a line is the
   characters up to a line ending or the end of file.  Positions refer to the ORIGINAL bytes (a NUL is
   one byte although the parser replaces it by three, the byte-order mark is three bytes of line 1).
   A text that ends with a line ending has no further empty line; the empty text has one empty line
   (a position needs a line to lie on).

   COLUMNS.  `col_ok`: 1 <= c <= |line| + max(1, |terminator|).  The characters of a line are its bytes
   AND its line ending: soft and hard line breaks are inlines (all inlines are reliable) whose own
   source is the line ending, so their columns are |line|+1 (and |line|+2 for the LF of CR LF).  The +1
   is granted on an unterminated last line as well: an empty slice at the end of a line starts at
   |line|+1, and the parser completes an unterminated last line with LF.  Column 0 is never within a
   line: the documentation says columns are 1-based and name a character.

   WHOLE LINES.  A block construct owns its lines up to the line ending: CommonMark 4.2 lets the closing
   sequence of an ATX heading be followed by spaces or tabs only, 4.1 lets a thematic break line end with
   spaces or tabs; these trailing blanks belong to the heading line, so the heading clause is applied to
   the slice with trailing blanks removed.  A table cell is the text between its pipes: the cell clause
   demands that the slice lies on one line and, trimmed of blanks, neither starts with a pipe nor ends
   with an unescaped pipe (it starts and ends on the cell content, not on the delimiters of its
   neighbours).

   Everything here is executable and extracted; the checks evaluate THESE predicates on the trees the
   real parser returns. *)
From Coq Require Import List NArith Bool Strings.String.
From V Require Import Base.Bytes Model.Ast.
Import ListNotations.
Local Open Scope N_scope.
Local Open Scope list_scope.

Definition LF : byte := x0a.
Definition CR : byte := x0d.

Record srcline := mkLine { ln_body : bytes; ln_term : bytes }.

(* `cur` is the line being read, reversed *)
Fixpoint lines_from (cur : bytes) (s : bytes) : list srcline :=
  match s with
  | [] => match cur with [] => [] | _ => [mkLine (rev cur) []] end
  | b :: s' =>
    if beqb b CR then
      match s' with
      | c :: s'' => if beqb c LF then mkLine (rev cur) [CR; LF] :: lines_from [] s''
                    else mkLine (rev cur) [CR] :: lines_from [] s'
      | [] => [mkLine (rev cur) [CR]]
      end
    else if beqb b LF then mkLine (rev cur) [LF] :: lines_from [] s'
    else lines_from (b :: cur) s'
  end.

Definition lines_of (src : bytes) : list srcline :=
  match lines_from [] src with [] => [mkLine [] []] | l => l end.

Definition ln_full (l : srcline) : bytes := ln_body l ++ ln_term l.
Definition blen (b : bytes) : N := N.of_nat (List.length b).
Definition nlines (L : list srcline) : N := N.of_nat (List.length L).
Definition line_at (L : list srcline) (n : N) : option srcline :=
  if n =? 0 then None else nth_error L (N.to_nat (n - 1)).

Definition col_ok (l : srcline) (c : N) : bool :=
  (1 <=? c) && (c <=? blen (ln_body l) + N.max 1 (blen (ln_term l))).

(* (l1,c1) <= (l2,c2), (l1,c1) < (l2,c2) lexicographically *)
Definition lex_le (l1 c1 l2 c2 : N) : bool := (l1 <? l2) || ((l1 =? l2) && (c1 <=? c2)).
Definition lex_lt (l1 c1 l2 c2 : N) : bool := (l1 <? l2) || ((l1 =? l2) && (c1 <? c2)).

Definition node_in_bounds (L : list srcline) (sp : sourcepos) : bool :=
  (1 <=? sl sp) && (sl sp <=? el sp) && (el sp <=? nlines L) &&
  lex_le (sl sp) (sc sp) (el sp) (ec sp) &&
  match line_at L (sl sp), line_at L (el sp) with
  | Some a, Some b => col_ok a (sc sp) && col_ok b (ec sp)
  | _, _ => false
  end.

(* ---- reliable kinds (see the header) ---- *)
Definition reliable (k : kind) : bool :=
  match k with
  | KDocument | KBlockQuote | KCodeBlock | KHtmlBlock | KParagraph | KHeading | KThematicBreak
  | KText | KSoftBreak | KLineBreak | KCode | KHtmlInline | KRaw | KEmph | KStrong | KLink | KImage
  | KStrikethrough | KSuperscript | KFootnoteReference | KMath | KEscaped | KWikiLink | KUnderline
  | KSubscript | KSpoileredText | KEscapedTag
  | KTable | KTableRow | KTableCell => true
  | KList | KItem | KTaskItem | KDescriptionList | KDescriptionItem | KDescriptionTerm
  | KDescriptionDetails | KFrontMatter | KFootnoteDefinition | KMultilineBlockQuote | KAlert => false
  end.
Definition nrel (n : node) : bool := reliable (kind_of (nval n)).

Definition sp_within (c p : sourcepos) : bool :=
  lex_le (sl p) (sc p) (sl c) (sc c) && lex_le (el c) (ec c) (el p) (ec p).
Definition sp_before (a b : sourcepos) : bool := lex_lt (el a) (ec a) (sl b) (sc b).

(* ---- slicing: the bytes from (sl,sc) to (el,ec) inclusive, line endings as in the source ---- *)
Fixpoint lines_between (L : list srcline) (from : nat) (count : nat) : bytes :=
  match count with
  | O => []
  | S k => match nth_error L from with
           | Some l => ln_full l ++ lines_between L (S from) k
           | None => []
           end
  end.

Definition slice (L : list srcline) (sp : sourcepos) : option bytes :=
  if negb ((1 <=? sl sp) && (sl sp <=? el sp) && (1 <=? sc sp)) then None else
  match line_at L (sl sp), line_at L (el sp) with
  | Some a, Some b =>
    let fa := ln_full a in let fb := ln_full b in
    if sl sp =? el sp then
      if (sc sp - 1 <=? ec sp) && (ec sp <=? blen fa)
      then Some (firstn (N.to_nat (ec sp - (sc sp - 1))) (skipn (N.to_nat (sc sp - 1)) fa))
      else None
    else
      if (sc sp - 1 <=? blen fa) && (ec sp <=? blen fb)
      then Some (skipn (N.to_nat (sc sp - 1)) fa
                 ++ lines_between L (N.to_nat (sl sp)) (N.to_nat (el sp - sl sp - 1))
                 ++ firstn (N.to_nat (ec sp)) fb)
      else None
  | _, _ => None
  end.

(* ---- byte-string helpers ---- *)
Definition is_ws (b : byte) : bool := beqb b x20 || beqb b x09 || beqb b LF || beqb b CR.
Definition first_b (s : bytes) : option byte := match s with [] => None | b :: _ => Some b end.
Definition last_b (s : bytes) : option byte := first_b (rev s).
Definition ends_with (s p : bytes) : bool := starts_with (rev s) (rev p).
Definition ob_is (o : option byte) (b : byte) : bool := match o with Some x => beqb x b | None => false end.
Definition ob_nonws (o : option byte) : bool := match o with Some x => negb (is_ws x) | None => false end.
Definition BSL : byte := x5c.
Definition AMP : byte := x26.
Definition NUL : byte := x00.
Definition has_special (s : bytes) : bool :=
  existsb (fun b => beqb b BSL || beqb b AMP || beqb b NUL) s.
Definition rep (n : N) (b : byte) : bytes := repeat_bytes (N.to_nat n) b.
Fixpoint ltrim_ws (s : bytes) : bytes :=
  match s with b :: r => if is_ws b then ltrim_ws r else s | [] => [] end.
Definition rtrim_ws (s : bytes) : bytes := rev (ltrim_ws (rev s)).
Definition trim_ws (s : bytes) : bytes := rtrim_ws (ltrim_ws s).
(* two adjacent pipes: spoiler syntax (extension), which a cell may begin or end with *)
Fixpoint has_double_pipe (s : bytes) : bool :=
  match s with
  | a :: ((b :: _) as r) => (beqb a x7c && beqb b x7c) || has_double_pipe r
  | _ => false
  end.
Definition first_line (s : bytes) : bytes :=
  (fix go (s : bytes) : bytes :=
     match s with [] => [] | b :: r => if beqb b LF || beqb b CR then [] else b :: go r end) s.

(* a bare autolink (www., scheme://, e-mail found in text) is a Link whose only child is a Text with the
   link's own source; escape and entity are excluded as for verbatim text *)
(* ---- C12: the slice clause of one node (true = satisfied or no clause for this kind) ----
   smart = the smart-punctuation option was on (then the verbatim clause is not demanded) *)
Definition bare_autolink (L : list srcline) (n : node) (s : bytes) : bool :=
  match nch n with
  | [Node (Text lit) _ []] => has_special s || bytes_eqb s lit
  | _ => false
  end.

(* A delimited span (emphasis, strong, strikethrough) is its opening delimiter, its content, and its closing
   delimiter, with nothing else: the slice must be exactly  d ++ (the source from the start of the first
   child to the end of the last child) ++ d.  This is what makes the start of the node the start of ITS OWN
   delimiter: a position that also swallows delimiter characters left over in front of it (three asterisks
   then a, closed by one asterisk: the emphasis is the last asterisk of the run, a, and the closer) still
   starts and ends with an asterisk, but is not delimiter, content, delimiter. *)
Definition children_span (ch : list node) : option sourcepos :=
  match ch, rev ch with
  | a :: _, z :: _ => Some (mkSp (sl (nsp a)) (sc (nsp a)) (el (nsp z)) (ec (nsp z)))
  | _, _ => None
  end.
Definition wraps (L : list srcline) (s d : bytes) (ch : list node) : bool :=
  match children_span ch with
  | None => true
  | Some csp => match slice L csp with
                | Some inner => bytes_eqb s (d ++ inner ++ d)
                | None => false
                end
  end.

Definition slice_clause (L : list srcline) (smart : bool) (n : node) : bool :=
  let sp := nsp n in
  let covered :=
    match nval n with
    | Text _ => negb smart
    | Code _ _ | Emph | Strong | Strikethrough | Link _ _ | Image _ _ | Heading _ _ | BlockQuote
    | ThematicBreak | TableCell => true
    | CodeBlock cb => cb_fenced cb
    | _ => false
    end in
  if negb covered then true else
  match slice L sp with
  | None => false
  | Some s =>
    match nval n with
    | Text lit => if has_special s then true else bytes_eqb s lit
    | Code nb _ => starts_with s (rep nb x60) && ends_with s (rep nb x60) && (2 * nb <=? blen s)
    | Emph => (ob_is (first_b s) x2a && ob_is (last_b s) x2a || ob_is (first_b s) x5f && ob_is (last_b s) x5f)
              && (2 <=? blen s) && (wraps L s [x2a] (nch n) || wraps L s [x5f] (nch n))
    | Strong => (starts_with s [x2a; x2a] && ends_with s [x2a; x2a] || starts_with s [x5f; x5f] && ends_with s [x5f; x5f])
                && (4 <=? blen s) && (wraps L s [x2a; x2a] (nch n) || wraps L s [x5f; x5f] (nch n))
    | Strikethrough => ob_is (first_b s) x7e && ob_is (last_b s) x7e && (2 <=? blen s)
                       && (wraps L s [x7e] (nch n) || wraps L s [x7e; x7e] (nch n))
    | Link _ _ =>
      if ob_is (first_b s) x5b then ob_is (last_b s) x29 || ob_is (last_b s) x5d
      else if ob_is (first_b s) x3c then ob_is (last_b s) x3e || bare_autolink L n s
      else bare_autolink L n s
    | Image _ _ => starts_with s [x21; x5b] && (ob_is (last_b s) x29 || ob_is (last_b s) x5d)
    | Heading _ setext =>
      let s' := rtrim_ws s in
      if setext then ob_nonws (first_b s) && (ob_is (last_b s') x3d || ob_is (last_b s') x2d)
      else ob_is (first_b s) x23 && bytes_eqb (first_line s') s'
    | CodeBlock cb => starts_with s (rep (cb_fence_length cb) (byte_of_N (cb_fence_char cb)))
    | BlockQuote => ob_is (first_b s) x3e
    | ThematicBreak =>
      let s' := rtrim_ws s in
      match first_b s' with
      | Some c => (beqb c x2a || beqb c x2d || beqb c x5f) && ob_is (last_b s') c
                  && forallb (fun b => beqb b c || beqb b x20 || beqb b x09) s'
      | None => false
      end
    | TableCell =>
      let s' := trim_ws s in
      bytes_eqb (first_line s) s &&
      (has_double_pipe s ||
       negb (ob_is (first_b s') x7c) && (negb (ob_is (last_b s') x7c) || ends_with s' [BSL; x7c]))
    | _ => true
    end
  end.

(* ---- failures: every node that breaks a clause, with what classification needs ---- *)
Inductive clause := CBounds | CNest | CSibling | CSlice.
Record fail := mkFail {
  f_clause : clause;
  f_path : list N;          (* child indices from the root *)
  f_node : node;
  f_anc : list node;        (* ancestors, nearest first *)
  f_prev : option node      (* for CSibling: the sibling before *)
}.

Fixpoint fails_go (L : list srcline) (smart : bool) (anc : list node) (path : list N)
         (prev : option node) (n : node) : list fail :=
  match n with
  | Node v sp ch =>
    (if node_in_bounds L sp then [] else [mkFail CBounds path n anc None]) ++
    (match anc with
     | p :: _ => if nrel p && nrel n && negb (sp_within sp (nsp p)) then [mkFail CNest path n anc None] else []
     | [] => []
     end) ++
    (match prev with
     | Some a => if nrel a && nrel n && negb (sp_before (nsp a) sp) then [mkFail CSibling path n anc prev] else []
     | None => []
     end) ++
    (if slice_clause L smart n then [] else [mkFail CSlice path n anc None]) ++
    (fix kids (i : N) (prev : option node) (l : list node) : list fail :=
       match l with
       | [] => []
       | c :: r => fails_go L smart (n :: anc) (path ++ [i]) prev c ++ kids (i + 1) (Some c) r
       end) 0 None ch
  end.

Definition sp_fails (src : bytes) (smart : bool) (t : node) : list fail :=
  fails_go (lines_of src) smart [] [] None t.

Definition clause_eqb (a b : clause) : bool :=
  match a, b with
  | CBounds, CBounds | CNest, CNest | CSibling, CSibling | CSlice, CSlice => true
  | _, _ => false
  end.
Definition no_fail (c : clause) (l : list fail) : bool :=
  forallb (fun f => negb (clause_eqb (f_clause f) c)) l.

(* the three predicates of the property text *)
Definition sp_in_bounds (src : bytes) (t : node) : bool := no_fail CBounds (sp_fails src false t).
Definition sp_nested (t : node) : bool :=
  let l := sp_fails [] false t in no_fail CNest l && no_fail CSibling l.
Definition sp_slice_ok (src : bytes) (smart : bool) (t : node) : bool := no_fail CSlice (sp_fails src smart t).
