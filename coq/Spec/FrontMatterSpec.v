(* Spec/FrontMatterSpec.v — what C20 demands of the front-matter splitter, LINE BASED and written from
   the property text and comrak's documentation of `front_matter_delimiter`, not from the code:

     "Front matter, which begins with the delimiter string at the beginning of the file and ends at
      the end of the next line that contains only the delimiter ..."
     "Text that merely resembles front matter (not at the very start, unterminated, delimiter not
      alone on its line) is treated as ordinary Markdown."

   * The input (after one optional byte-order mark) is cut into lines.  A line ending is what
     CommonMark calls a line ending: LF, CR LF, or a CR that is not followed by LF.
   * There is front matter iff the first line is exactly the delimiter and is terminated, and some
     later line is exactly the delimiter.  The FIRST such line closes it.
   * The front matter is everything up to the end of the closing line.  The documentation stops
     there (`spec_split_doc`).  The library has always kept ONE following blank line with the front
     matter (so that `---` / blank / text round-trips); that is immaterial for rendering and we
     accept it: `spec_split` absorbs one following empty line.  `spec_absorb_only_moves_blank`
     (Proofs) states that the two readings differ by exactly that line.
   * A delimiter is a non-empty string without CR or LF (`delim_ok`); anything else cannot be
     "alone on a line" and the spec answers None.

   Also here: the decidable classes of inputs on which the library deviated from this spec BEFORE the
   repair `fix: front matter is cut by lines` (`fm_class`; known_findings F11, C20-a, F9, F10, all fixed).
   Since the repair the splitter is proved equal to this spec (Props/C20.v C20_split_vs_spec); the classes
   excuse nothing, the check uses them only to label its coverage and the Examples of Props/C20.v to show
   that each old witness lies in its class.  *)
From Coq Require Import List NArith Bool.
From V Require Import Base.Bytes.
Import ListNotations.
Local Open Scope list_scope.

Inductive eol := ELF | ECRLF | ECR | EEOF.

Definition eol_bytes (e : eol) : bytes :=
  match e with ELF => [x0a] | ECRLF => [x0d; x0a] | ECR => [x0d] | EEOF => [] end.

Definition line := (bytes * eol)%type.

(* cut into lines; the last line always has terminator EEOF (and may be empty) *)
Fixpoint lines (s : bytes) : list line :=
  match s with
  | [] => [([], EEOF)]
  | b :: r =>
    if beqb b x0a then ([], ELF) :: lines r
    else if beqb b x0d then
      match r with
      | b2 :: r' => if beqb b2 x0a then ([], ECRLF) :: lines r' else ([], ECR) :: lines r
      | [] => ([], ECR) :: lines r
      end
    else match lines r with
         | (c, e) :: ls => (b :: c, e) :: ls
         | [] => [([b], EEOF)]
         end
  end.

Definition join1 (l : line) : bytes := fst l ++ eol_bytes (snd l).
Definition join (ls : list line) : bytes := flat_map join1 ls.

Definition terminated (e : eol) : bool := match e with EEOF => false | _ => true end.

Definition spec_bom : bytes := [xef; xbb; xbf].
Definition strip_bom (s : bytes) : bytes :=
  if starts_with s spec_bom then skipn 3 s else s.

Definition is_nl (b : byte) : bool := beqb b x0a || beqb b x0d.
Definition delim_ok (d : bytes) : bool :=
  match d with [] => false | _ => negb (existsb is_nl d) end.

(* the lines up to and including the first one that is exactly d, and the lines after it *)
Fixpoint find_closer (d : bytes) (ls : list line) : option (list line * list line) :=
  match ls with
  | [] => None
  | (c, e) :: r =>
    if bytes_eqb c d then Some ([(c, e)], r)
    else match find_closer d r with
         | Some (a, b) => Some ((c, e) :: a, b)
         | None => None
         end
  end.

(* one following empty, terminated line goes with the front matter *)
Definition absorb_blank (after : list line) : list line * list line :=
  match after with
  | ([], e) :: r => if terminated e then ([([], e)], r) else ([], after)
  | _ => ([], after)
  end.

Definition spec_split_gen (absorb : bool) (s d : bytes) : option (bytes * bytes) :=
  if negb (delim_ok d) then None else
  match lines (strip_bom s) with
  | (c0, e0) :: ls =>
    if bytes_eqb c0 d && terminated e0 then
      match find_closer d ls with
      | Some (body, after) =>
        let (bl, after') := if absorb then absorb_blank after else ([], after) in
        Some (join ((c0, e0) :: body ++ bl), join after')
      | None => None
      end
    else None
  | [] => None
  end.

Definition spec_split_doc : bytes -> bytes -> option (bytes * bytes) := spec_split_gen false.
Definition spec_split : bytes -> bytes -> option (bytes * bytes) := spec_split_gen true.

(* ------------------------------------------------------------------------------------------------
   The classes of the repaired deviations (DESIGN §8 F9, F10, F11, F25).  All are stated on the lines of
   the input and on the spec's own answer, never on the implementation's. *)

Fixpoint has_lone_cr (s : bytes) : bool :=
  match s with
  | [] => false
  | b :: r =>
    if beqb b x0d then
      match r with
      | b2 :: _ => if beqb b2 x0a then has_lone_cr r else true
      | [] => true
      end
    else has_lone_cr r
  end.

Definition exact_with (d : bytes) (e : eol) (l : line) : bool :=
  bytes_eqb (fst l) d && match e, snd l with ELF, ELF | ECRLF, ECRLF | ECR, ECR | EEOF, EEOF => true | _, _ => false end.

Definition last_eol (ls : list line) : eol :=
  match rev ls with (_, e) :: _ => e | [] => EEOF end.

(* 0 = inside no known class.
   1 lone_cr:               the front matter the spec finds contains a CR that is not followed by LF
                            (CR-only or mixed line endings; F11)
   2 empty_front_matter:    the closing line follows the opening line immediately (F25)
   3 later_crlf_closer:     the closing line ends in LF and a LATER line is exactly the delimiter and
                            ends in CR LF (F9)
   4 prefix_line_hides_eof_closer: the closing line is the last line of the input, unterminated, and
                            an earlier body line (not the first) starts with the delimiter (F10)   *)
Definition fm_class (s d : bytes) : N :=
  if negb (delim_ok d) then 0%N else
  match lines (strip_bom s) with
  | (c0, e0) :: ls =>
    if bytes_eqb c0 d && terminated e0 then
      match find_closer d ls with
      | Some (body, after) =>
        let (bl, _) := absorb_blank after in
        if has_lone_cr (join ((c0, e0) :: body ++ bl)) then 1%N
        else match body with
             | [_] => 2%N
             | _ =>
               match last_eol body with
               | ELF => if existsb (exact_with d ECRLF) after then 3%N else 0%N
               | EEOF => if existsb (fun l => starts_with (fst l) d) (removelast (tl body)) then 4%N else 0%N
               | _ => 0%N
               end
             end
      | None => 0%N
      end
    else 0%N
  | [] => 0%N
  end.

(* ------------------------------------------------------------------------------------------------
   End-to-end helpers used by the check on the implementation's outputs. *)

(* number of line endings LF inside a byte string: the amount by which source lines of the rest of
   the document are shifted when the front matter is written with LF or CRLF line endings *)
Definition lf_count (s : bytes) : N := N.of_nat (List.length (filter (fun b => beqb b x0a) s)).

(* number of (terminated) lines of a front matter: the amount by which the source lines of the rest
   of the document are shifted *)
Definition spec_line_count (fm : bytes) : N :=
  N.of_nat (List.length (filter (fun l => terminated (snd l)) (lines fm))).

(* class bom_after_front_matter (F12): the rest of the document begins with a byte-order mark.  Alone it
   would be dropped by the parser; after front matter it is kept as text. *)
Definition rest_has_bom (r : bytes) : bool := starts_with r spec_bom.
