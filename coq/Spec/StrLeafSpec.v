(* Spec/StrLeafSpec.v — specifications of the leaf string functions, written from CommonMark 0.31
   (backslash escapes 2.4, code spans 6.1, entity references 2.5, link destinations 6.3) and not from
   comrak.  Executable. *)
From Coq Require Import List NArith Bool.
From V Require Import Base.Bytes Gen.Ctype.
Import ListNotations.

(* 2.4: any ASCII punctuation character may be backslash-escaped; the backslash disappears, the
   escaped character stays and is not itself the start of an escape *)
Fixpoint unescape_spec (s : bytes) : bytes :=
  match s with
  | [] => []
  | c :: s1 =>
    match s1 with
    | d :: s2 => if beqb c x5c && ispunct d then d :: unescape_spec s2 else c :: unescape_spec s1
    | [] => [c]
    end
  end.

(* 6.1: line endings (CR LF, CR, LF) are converted to spaces *)
Fixpoint line_endings_to_spaces (s : bytes) : bytes :=
  match s with
  | [] => []
  | c :: r =>
    if beqb c x0d then
      match r with
      | d :: r2 => if beqb d x0a then x20 :: line_endings_to_spaces r2 else x20 :: line_endings_to_spaces r
      | [] => [x20]
      end
    else if beqb c x0a then x20 :: line_endings_to_spaces r
    else c :: line_endings_to_spaces r
  end.

Definition all_spaces (t : bytes) : bool := forallb (fun b => beqb b x20) t.

(* 6.1: if the resulting string both begins and ends with a space character, but does not consist
   entirely of space characters, a single space character is removed from the front and back *)
Definition code_span_spec (s : bytes) : bytes :=
  let t := line_endings_to_spaces s in
  match t with
  | x :: r =>
    if beqb x x20 && beqb (last t x00) x20 && negb (all_spaces t) then removelast r else t
  | [] => []
  end.

(* 6.3 link destination, second form: running depth of the unescaped parentheses of a destination;
   None when the depth exceeds `cap` or a closing parenthesis has no partner *)
Fixpoint paren_depth (cap : nat) (s : bytes) (skip d : nat) : option nat :=
  match s with
  | [] => Some d
  | b :: r =>
    match skip with
    | S k => paren_depth cap r k d
    | O =>
      if beqb b x5c && (match r with e :: _ => ispunct e | [] => false end) then paren_depth cap r 1 d
      else if beqb b x28 then if Nat.ltb cap (S d) then None else paren_depth cap r 0 (S d)
      else if beqb b x29 then match d with O => None | S n => paren_depth cap r 0 n end
      else paren_depth cap r 0 d
    end
  end.
