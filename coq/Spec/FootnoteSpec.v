(* Spec/FootnoteSpec.v — what C15 demands of a tree that went through the footnote pass, written from
   the property text (not from comrak).  Executable, so that the predicates can be extracted and run on
   the trees the real parser returns. *)
From Coq Require Import List NArith Bool.
From V Require Import Base.Bytes Model.Ast.
Import ListNotations.
Local Open Scope list_scope.

Definition is_fdef (n : node) : bool :=
  match nval n with FootnoteDefinition _ _ => true | _ => false end.

Definition fdef_name (n : node) : bytes :=
  match nval n with FootnoteDefinition name _ => name | _ => [] end.

Definition fdef_total (n : node) : N :=
  match nval n with FootnoteDefinition _ t => t | _ => 0%N end.

(* a definition at this node or anywhere below *)
Fixpoint contains_def (n : node) : bool :=
  match n with Node v _ ch => is_fdef n || existsb contains_def ch end.

(* a definition strictly inside a definition *)
Fixpoint nested_def (n : node) : bool :=
  match n with
  | Node v _ ch =>
    match v with
    | FootnoteDefinition _ _ => existsb contains_def ch
    | _ => existsb nested_def ch
    end
  end.

(* every reference node, document order: (name, ref_num, ix) *)
Fixpoint all_refs (n : node) : list (bytes * N * N) :=
  match n with
  | Node v _ ch =>
    match v with
    | FootnoteReference name r i => [(name, r, i)]
    | _ => flat_map all_refs ch
    end
  end.

(* root children split at the first definition *)
Fixpoint body_part (l : list node) : list node :=
  match l with [] => [] | x :: r => if is_fdef x then [] else x :: body_part r end.
Fixpoint tail_part (l : list node) : list node :=
  match l with [] => [] | x :: r => if is_fdef x then l else tail_part r end.

(* S6: definitions occur only as a suffix of the root's children (or nested inside a definition) *)
Definition defs_at_root_tail (t : node) : bool :=
  negb (is_fdef t) &&
  forallb is_fdef (tail_part (nch t)) && negb (existsb contains_def (body_part (nch t))).

Fixpoint names_distinct (l : list bytes) : bool :=
  match l with
  | [] => true
  | x :: r => negb (existsb (bytes_eqb x) r) && names_distinct r
  end.

(* every reference carries the number and the name of exactly one rendered definition: the ix-th *)
Definition refs_resolve (t : node) : bool :=
  let defs := tail_part (nch t) in
  forallb (fun p : bytes * N * N =>
             let '(name, _, ix) := p in
             (1 <=? ix)%N &&
             match nth_error defs (N.to_nat (ix - 1)) with
             | Some d => bytes_eqb (fdef_name d) name
             | None => false
             end)
          (all_refs t).

(* each definition rendered exactly once, and only referenced ones *)
Definition defs_once_and_referenced (t : node) : bool :=
  let defs := tail_part (nch t) in
  names_distinct (map fdef_name defs) && forallb (fun d => (1 <=? fdef_total d)%N) defs.

Fixpoint nums_distinct (l : list N) : bool :=
  match l with
  | [] => true
  | x :: r => negb (existsb (N.eqb x) r) && nums_distinct r
  end.

Definition refnums_of (t : node) (d : node) : list N :=
  map (fun p : bytes * N * N => snd (fst p))
      (filter (fun p : bytes * N * N => bytes_eqb (fst (fst p)) (fdef_name d)) (all_refs t)).

(* the back-references written for a definition are 1..total_references; the references to it that
   are in the tree carry pairwise distinct numbers in that range ... *)
Definition backrefs_subset (t : node) : bool :=
  forallb (fun d =>
             let mine := refnums_of t d in
             nums_distinct mine && forallb (fun k => (1 <=? k)%N && (k <=? fdef_total d)%N) mine)
          (tail_part (nch t)).

(* ... and there are exactly total_references of them: back-references and references in bijection *)
Definition backrefs_exact (t : node) : bool :=
  backrefs_subset t &&
  forallb (fun d => (N.of_nat (length (refnums_of t d)) =? fdef_total d)%N) (tail_part (nch t)).

(* first occurrences of the numbers, document order *)
Fixpoint first_seen (seen : list N) (l : list N) : list N :=
  match l with
  | [] => []
  | x :: r => if existsb (N.eqb x) seen then first_seen seen r else x :: first_seen (x :: seen) r
  end.
