(* Spec/CliDoc.v — the DOCUMENTED contract of the comrak binary, written from README.md (the --help
   text reproduced there) and NOT from src/main.rs.  Only the types (cli, copts, extension, ...) are
   shared with Gen/Cli.v; extensions are looked up by the NAME the help text gives them, options by the
   flag the help text describes.

   README, "Options:" (abridged, one line per clause used below):
     --hardbreaks               Treat newlines as hard line breaks
     --smart                    Use smart punctuation
     --github-pre-lang          Use GitHub-style <pre lang> for code blocks
     --full-info-string         Enable full info strings for code blocks
     --gfm                      Enable GitHub-flavored markdown extensions: strikethrough, tagfilter, table,
                                autolink, and tasklist. Also enables --github-pre-lang and --gfm-quirks
     --gfm-quirks               Enables GFM-style quirks in output HTML
     --relaxed-tasklist-character   Enable relaxing which character is allowed in a tasklists
     --relaxed-autolinks        Enable relaxing of autolink parsing
     --tasklist-classes         Output classes on tasklist elements
     --default-info-string <INFO>   Default value for fenced code block's info strings if none is given
     --unsafe                   Allow raw HTML and dangerous URLs
     --escape                   Escape raw HTML instead of clobbering it
     --escaped-char-spans       Wrap escaped characters in span tags
     -e, --extension <EXTENSION>    Specify extension name(s) to use [possible values: strikethrough, ...]
     -t, --to <FORMAT>          Specify output format [default: html] [possible values: html, xml, commonmark]
     -o, --output <FILE>        Write output to FILE instead of stdout
     --width <WIDTH>            Specify wrap width (0 = nowrap) [default: 0]
     --header-ids <PREFIX>      Use the Comrak header IDs extension, with the given ID prefix
     --front-matter-delimiter <DELIMITER>  Ignore front-matter that starts and ends with the given string
     --syntax-highlighting <THEME>  Syntax highlighting for codefence blocks. Choose a theme or 'none' for
                                disabling [default: base16-ocean.dark]
     --list-style <LIST_STYLE>  Specify bullet character for lists (-, +, star) in CommonMark output
                                [default: dash] [possible values: dash, plus, star]
     --sourcepos                Include source position attribute in HTML and XML output
     --ignore-setext            Ignore setext headers
     --ignore-empty-links       Ignore empty links
     --experimental-minimize-commonmark  Minimize escapes in CommonMark output
     -i, --inplace              To perform an in-place formatting
     -c, --config-file <PATH>   Path to config file containing command-line arguments, or 'none'
   and: By default, Comrak will attempt to read command-line options from a config file specified by
   --config-file. This behaviour can be disabled by passing --config-file none. It is not an error if
   the file does not exist. *)
From Coq Require Import List NArith ZArith Bool Strings.String.
From V Require Import Base.Bytes Gen.Cli.
Import ListNotations.
Local Open Scope string_scope.
Local Open Scope list_scope.
Local Open Scope bool_scope.

(* `-e NAME` was given (possibly several times, possibly comma separated) *)
Definition ext_given (name : string) (c : cli) : bool :=
  existsb (fun e => String.eqb (extension_name e) name) (c_extensions c).

(* the list-style value names and what they select: "bullet character for lists (-, +, star)" *)
Definition doc_list_style (l : list_style) : list_style_type :=
  if String.eqb (list_style_name l) "dash" then LST_Dash
  else if String.eqb (list_style_name l) "plus" then LST_Plus
  else LST_Star.

Definition documented_options (c : cli) : copts := {|
  (* --gfm: "strikethrough, tagfilter, table, autolink, and tasklist" *)
  o_strikethrough := ext_given "strikethrough" c || c_gfm c;
  o_tagfilter := ext_given "tagfilter" c || c_gfm c;
  o_table := ext_given "table" c || c_gfm c;
  o_autolink := ext_given "autolink" c || c_gfm c;
  o_tasklist := ext_given "tasklist" c || c_gfm c;
  (* every other extension: exactly when named *)
  o_superscript := ext_given "superscript" c;
  o_header_ids := c_header_ids c;
  o_footnotes := ext_given "footnotes" c;
  o_description_lists := ext_given "description-lists" c;
  o_multiline_block_quotes := ext_given "multiline-block-quotes" c;
  o_math_dollars := ext_given "math-dollars" c;
  o_math_code := ext_given "math-code" c;
  o_wikilinks_title_after_pipe := ext_given "wikilinks-title-after-pipe" c;
  o_wikilinks_title_before_pipe := ext_given "wikilinks-title-before-pipe" c;
  o_underline := ext_given "underline" c;
  o_subscript := ext_given "subscript" c;
  o_spoiler := ext_given "spoiler" c;
  o_greentext := ext_given "greentext" c;
  o_alerts := ext_given "alerts" c;
  o_front_matter_delimiter := c_front_matter_delimiter c;
  (* parse options *)
  o_smart := c_smart c;
  o_default_info_string := c_default_info_string c;
  o_relaxed_tasklist_matching := c_relaxed_tasklist_character c;
  o_relaxed_autolinks := c_relaxed_autolinks c;
  (* render options; --gfm "Also enables --github-pre-lang and --gfm-quirks" *)
  o_hardbreaks := c_hardbreaks c;
  o_github_pre_lang := c_github_pre_lang c || c_gfm c;
  o_full_info_string := c_full_info_string c;
  o_width := c_width c;
  o_unsafe_ := c_unsafe_ c;
  o_escape := c_escape c;
  o_list_style := doc_list_style (c_list_style c);
  o_sourcepos := c_sourcepos c;
  o_experimental_minimize_commonmark := c_experimental_minimize_commonmark c;
  o_escaped_char_spans := c_escaped_char_spans c;
  o_ignore_setext := c_ignore_setext c;
  o_ignore_empty_links := c_ignore_empty_links c;
  o_gfm_quirks := c_gfm_quirks c || c_gfm c;
  o_tasklist_classes := c_tasklist_classes c;
  (* the help text offers no option for these library settings: they stay at the library default *)
  o_prefer_fenced := false;
  o_figure_with_caption := false;
  o_ol_width := 0%N
|}.

(* the five extensions of the --gfm bundle, by name *)
Definition gfm_bundle_names : list string := ["strikethrough"; "tagfilter"; "table"; "autolink"; "tasklist"].
Definition gfm_bundle_exts : list extension :=
  filter (fun e => existsb (String.eqb (extension_name e)) gfm_bundle_names) all_extensions.

(* "[possible values: ...]" of --extension, in the order of the help text *)
Definition documented_extension_names : list string :=
  ["strikethrough"; "tagfilter"; "table"; "autolink"; "tasklist"; "superscript"; "footnotes"; "description-lists";
   "multiline-block-quotes"; "math-dollars"; "math-code"; "wikilinks-title-after-pipe"; "wikilinks-title-before-pipe";
   "underline"; "subscript"; "spoiler"; "greentext"; "alerts"].
Definition documented_format_names : list string := ["html"; "xml"; "commonmark"].
Definition documented_list_style_names : list string := ["dash"; "plus"; "star"].

(* (long name, short name, takes a value, default) for every option of the help text, in its order.
   --gemojis is listed in the README but belongs to the non-default `shortcodes` feature: not here.
   -h/--help and -V/--version are clap built-ins. *)
Definition documented_flags : list (string * string * bool * string) := [
  ("config-file", "c", true, "<xdg-config>/comrak/config");
  ("inplace", "i", false, "");
  ("hardbreaks", "", false, "");
  ("smart", "", false, "");
  ("github-pre-lang", "", false, "");
  ("full-info-string", "", false, "");
  ("gfm", "", false, "");
  ("gfm-quirks", "", false, "");
  ("relaxed-tasklist-character", "", false, "");
  ("relaxed-autolinks", "", false, "");
  ("tasklist-classes", "", false, "");
  ("default-info-string", "", true, "");
  ("unsafe", "", false, "");
  ("escape", "", false, "");
  ("escaped-char-spans", "", false, "");
  ("extension", "e", true, "");
  ("to", "t", true, "html");
  ("output", "o", true, "");
  ("width", "", true, "0");
  ("header-ids", "", true, "");
  ("front-matter-delimiter", "", true, "");
  ("syntax-highlighting", "", true, "base16-ocean.dark");
  ("list-style", "", true, "dash");
  ("sourcepos", "", false, "");
  ("ignore-setext", "", false, "");
  ("ignore-empty-links", "", false, "");
  ("experimental-minimize-commonmark", "", false, "")
].
Definition flag_view (f : flag) : string * string * bool * string :=
  (fl_long f, fl_short f, match fl_kind f with K_bool => false | _ => true end, fl_default f).
Definition is_positional (f : flag) : bool := match fl_kind f with K_files => true | _ => false end.

(* output format: -t FORMAT; "--inplace: to perform an in-place formatting" = rewrite the file as CommonMark *)
Definition documented_renderer (c : cli) : renderer :=
  if c_inplace c then R_commonmark
  else if String.eqb (format_name (c_format c)) "html" then R_html
  else if String.eqb (format_name (c_format c)) "xml" then R_xml
  else R_commonmark.

(* sink: stdout, or FILE with -o, or the (single) input file with -i *)
Definition documented_sink (c : cli) : sink :=
  match c_output c with
  | Some f => S_file f
  | None => if c_inplace c then S_first_input else S_stdout
  end.

(* "Choose a theme or 'none' for disabling" — for codefence blocks of HTML output *)
Definition documented_highlighter (c : cli) : option bytes :=
  if bytes_eqb (c_syntax_highlighting c) (B "none") then None
  else match c_syntax_highlighting c with [] => None | t => Some t end.

(* ---- config file: "read command-line options from a config file": the options of the file are in
   force together with those of the command line.  On argument names (Cli fields): *)
Definition documented_effective_flags (real config : list string) : list string := real ++ config.

(* known-finding class overlapping_config (F19): some non-append argument is given both on the command
   line and in the config file.  The predicate exists once, here; extracted for the run-time classifier. *)
Definition flag_is_append (f : string) : bool :=
  existsb (fun fl => String.eqb (fl_field fl) f && fl_append fl) cli_flags.
Definition overlapping_config (real config : list string) : bool :=
  existsb (fun f => negb (flag_is_append f) && existsb (String.eqb f) config) real.

(* known-finding class nonutf8_argv_with_config: a command-line argument (a FILE name) that is not valid
   UTF-8 while a config file was read and split into words: the splice loses its place *)
Definition is_nonutf8 (a : option bytes) : bool := match a with None => true | Some _ => false end.
Definition nonutf8_argv_with_config (real : list (option bytes)) (config_was_read : bool) : bool :=
  config_was_read && existsb is_nonutf8 real.

(* known-finding class double_dash_config: the real arguments contain the end-of-options marker and the
   config file contributes words: they land after the marker and are read as FILE arguments *)
Definition double_dash_config (real config : list bytes) : bool :=
  existsb (bytes_eqb (B "--")) real && negb (match config with [] => true | _ => false end).

(* known-finding class unknown_theme: HTML output with a --syntax-highlighting value that is neither
   'none' nor one of the theme names the highlighter ships (the list is supplied by the caller) *)
Definition unknown_theme (shipped : list bytes) (c : cli) : bool :=
  match documented_renderer c, documented_highlighter c with
  | R_html, Some t => negb (existsb (bytes_eqb t) shipped)
  | _, _ => false
  end.
