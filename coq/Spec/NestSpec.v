(* Spec/NestSpec.v — counting start and end tags of one element in an event stream (for the
   exactly-once clauses of C10). *)
From Coq Require Import List NArith Bool.
From V Require Import Base.Bytes Model.Html.
Import ListNotations.

Fixpoint count_open (t : bytes) (evs : list ev) : nat :=
  match evs with
  | [] => 0
  | Open t' _ :: r => (if bytes_eqb t t' then 1 else 0) + count_open t r
  | _ :: r => count_open t r
  end.

Fixpoint count_close (t : bytes) (evs : list ev) : nat :=
  match evs with
  | [] => 0
  | Close t' :: r => (if bytes_eqb t t' then 1 else 0) + count_close t r
  | _ :: r => count_close t r
  end.
