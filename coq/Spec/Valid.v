(* Spec/Valid.v — C04: what "structurally valid" means, as executable predicates over the tree.

   Part A  `valid` — the library's own validator (Node::validate): every node other than the root
           has a kind its parent may contain, the table being Gen.Nodes.can_contain (regenerated
           from can_contain_type in /repo/src/nodes.rs on every run).  `first_invalid` reproduces the
           traversal order of validate() (a stack: the LAST child is visited first) and returns the
           first offending (parent kind, child kind) pair, which is what the harness reports.
   Part B  the shape invariants of the property, written from the PROPERTY TEXT and not from the
           validator table:
             heading levels are 1 to 6                                      (HtmlSpec.s4)
             lists contain only items                                       lists_ok
             every table row has exactly as many cells as the table has
               columns and alignments; the header row comes first (and only
               first); rows live in tables, cells in rows                    tables_ok
             kinds that carry their content as a literal (or have none)
               are leaves                                                    leaves_ok
   Part C  the arithmetic of the parser's table builder (parser/table.rs try_opening_header /
           try_opening_row): how many cells a row receives.  Cell SPLITTING (fn row) is not
           modelled; its result enters as the number of cells it found. *)
From Coq Require Import List NArith Bool Arith.
From V Require Import Base.Bytes Base.Res Model.Ast Gen.Nodes Gen.TableRows Spec.Shape.
Import ListNotations.
From Coq Require Import Strings.String.
Local Open Scope string_scope.
Local Open Scope list_scope.

(* ------------------------------------------------------------------ Part A: the validator *)
Definition child_allowed (pv : node_value) (c : node) : bool :=
  can_contain (kind_of pv) (kind_of (nval c)).

Fixpoint valid (n : node) : bool :=
  match n with
  | Node v _ ch => forallb (child_allowed v) ch && forallb valid ch
  end.

(* validate(): stack = [root]; pop n; if n has a parent p and !can_contain_type(p, n) -> Err(p, n);
   push the children in order (so the last child is popped next).  pk = kind of n's parent. *)
Fixpoint first_invalid (pk : option kind) (n : node) : option (kind * kind) :=
  match n with
  | Node v _ ch =>
    let here := match pk with
                | Some p => if can_contain p (kind_of v) then None else Some (p, kind_of v)
                | None => None
                end in
    match here with
    | Some e => Some e
    | None =>
      (fix go (l : list node) : option (kind * kind) :=
         match l with
         | [] => None
         | c :: r => match go r with
                     | Some e => Some e
                     | None => first_invalid (Some (kind_of v)) c
                     end
         end) ch
    end
  end.

Definition validate (t : node) : option (kind * kind) := first_invalid None t.

(* ------------------------------------------------------------------ Part B: shape invariants *)
(* lists contain only items (a task list item is an item) *)
Definition is_item (n : node) : bool :=
  match nval n with Item _ | TaskItem _ => true | _ => false end.

Fixpoint lists_ok (n : node) : bool :=
  match n with
  | Node v _ ch =>
    (match v with NList _ => forallb is_item ch | _ => true end) && forallb lists_ok ch
  end.

(* tables, top down: at a Table node its rows are inspected directly *)
Definition is_cell_node (n : node) : bool := match nval n with TableCell => true | _ => false end.

Definition row_ok (ncols : nat) (hdr : bool) (r : node) : bool :=
  match nval r with
  | TableRow h => Bool.eqb h hdr && forallb is_cell_node (nch r) && Nat.eqb (List.length (nch r)) ncols
  | _ => false
  end.

Definition table_node_ok (t : node_table) (ch : list node) : bool :=
  N.eqb (t_cols t) (N.of_nat (List.length (t_aligns t))) &&
  match ch with
  | [] => false
  | h :: rs => row_ok (List.length (t_aligns t)) true h && forallb (row_ok (List.length (t_aligns t)) false) rs
  end.

(* a row occurs only directly under a table, a cell only directly under a row *)
Definition placed (pv : node_value) (c : node) : bool :=
  match nval c with
  | TableRow _ => match pv with Table _ => true | _ => false end
  | TableCell => match pv with TableRow _ => true | _ => false end
  | _ => true
  end.

Fixpoint tables_ok_in (n : node) : bool :=
  match n with
  | Node v _ ch =>
    (match v with Table t => table_node_ok t ch | _ => true end)
    && forallb (placed v) ch && forallb tables_ok_in ch
  end.

Definition tables_ok (t : node) : bool :=
  match nval t with
  | TableRow _ | TableCell => false
  | _ => tables_ok_in t
  end.

(* leaves: kinds whose content is a literal payload, or that have no content at all *)
Definition leaf_kind (k : kind) : bool :=
  match k with
  | KFrontMatter | KCodeBlock | KHtmlBlock | KThematicBreak | KText | KSoftBreak | KLineBreak
  | KCode | KHtmlInline | KRaw | KFootnoteReference | KMath => true
  | _ => false
  end.

Fixpoint leaves_ok (n : node) : bool :=
  match n with
  | Node v _ ch =>
    (if leaf_kind (kind_of v) then match ch with [] => true | _ => false end else true)
    && forallb leaves_ok ch
  end.

(* heading levels, restated here so that the file reads on its own; equal to HtmlSpec.s4
   (ValidProofs.headings_ok_is_s4) *)
Fixpoint headings_ok (n : node) : bool :=
  match n with
  | Node v _ ch =>
    (match v with Heading level _ => N.leb 1 level && N.leb level 6 | _ => true end)
    && forallb headings_ok ch
  end.

(* everything C04 asks of the tree itself (links are the other half: Props/C04_links.v) *)
Definition structurally_valid (t : node) : bool :=
  valid t && s2 t && headings_ok t && lists_ok t && tables_ok t && leaves_ok t.

(* ------------------------------------------------------------------ Part C: table builder arithmetic *)
(* `while i < bound { add one TableCell; i += 1 }` — returns the final i and the number of cells
   appended; fuel = bound suffices (ValidProofs.cell_loop_spec) *)
Fixpoint cell_loop (fuel i bound added : nat) : nat * nat :=
  match fuel with
  | 0 => (i, added)
  | S f => if Nat.ltb i bound then cell_loop f (S i) bound (S added) else (i, added)
  end.

(* get_num_autocompleted_cells *)
Definition autocompleted (cols rows nonempty : N) : N :=
  if N.ltb (cols * rows) nonempty then 0%N else (cols * rows - nonempty)%N.

(* try_opening_row for a table with `aligns` alignments whose counters are (cols, rows, nonempty);
   this_row = Some n when fn row split the line into n >= 1 cells, None when it refused the line.
   Result: None = no row is added; Some (k, nonempty') = a TableRow(false) with k TableCell children
   is appended and num_nonempty_cells becomes nonempty'. *)
Definition try_opening_row_cells (blank : bool) (cols rows nonempty : N) (aligns : nat) (this_row : option nat)
  : option (nat * N) :=
  if blank then None
  else if N.ltb max_autocompleted_cells (autocompleted cols rows nonempty) then None
  else match this_row with
       | None => None
       | Some cells =>
         let '(i, k1) := cell_loop (Nat.min aligns cells) 0 (Nat.min aligns cells) 0 in
         let '(_, k2) := cell_loop aligns i aligns k1 in
         Some (k2, (nonempty + N.of_nat i)%N)
       end.

(* fn row: Some only for a non-empty cell vector that did not hit the u16::MAX column limit *)
Definition row_result (cells : nat) (consumed_all : bool) : option nat :=
  if negb consumed_all || Nat.eqb cells 0 || N.ltb max_columns (N.of_nat cells) then None else Some cells.

(* try_opening_header: header = cells of the paragraph's last line, delim = cells of the delimiter
   line (each the result of fn row).  Result: None = no table; Some (alignments, num_columns,
   header cells). *)
Definition try_opening_header_cells (header delim : option nat) : option (nat * nat * nat) :=
  match delim with
  | None => None
  | Some d =>
    match header with
    | None => None
    | Some h =>
      if negb (Nat.eqb h d) then None
      else let '(_, k) := cell_loop h 0 h 0 in Some (d, h, k)
    end
  end.
