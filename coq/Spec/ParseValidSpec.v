(* Spec/ParseValidSpec.v — C04 for the whole-parser model: the executable premise of Props/Parse.v Parse_valid_cells and one
   answer per document for the check.

     no_nl s          s holds neither CR nor LF
     bcells_ok t      the content of every TableCell of a block-phase tree holds neither CR nor LF.  A TableCell accepts
                      every inline kind except SoftBreak and LineBreak (can_contain_type), and the inline parser makes
                      those two exactly at a CR / LF of its input; table.rs::row cuts the cells out of ONE line with
                      scanners::table_cell, whose class excludes CR and LF.
     parse_valid_report o u x
                      Some (bcells_ok of the block tree, structurally_valid of the final tree) for a document the model
                      parses; evaluated by tools/checks/c04.py on generated documents (driver op `pvalid`). *)
From Coq Require Import List NArith Bool.
From V Require Import Base.Bytes Base.Res Model.Ast Model.Blocks Model.Inlines Model.Parse Spec.Valid.
Import ListNotations.
Local Open Scope list_scope.

Definition no_nl (s : bytes) : bool := forallb (fun b => negb (beqb b x0a) && negb (beqb b x0d)) s.

Definition is_cell_v (v : node_value) : bool := match v with TableCell => true | _ => false end.

Fixpoint bcells_ok (t : bnode) : bool :=
  match t with
  | BNode i ch => (if is_cell_v (bi_val i) then no_nl (bi_content i) else true) && forallb bcells_ok ch
  end.

Definition parse_valid_report (o : popts) (u : oracle) (x : bytes) : option (bool * bool) :=
  match parse_blocks (bopts_of o u) x, parse_document_model o u x with
  | Ok r, Ok t => Some (bcells_ok (br_root r), structurally_valid t)
  | _, _ => None
  end.
