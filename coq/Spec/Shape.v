(* Spec/Shape.v — tree-shape clauses (boolean, executable) that the rendering theorems take as
   preconditions.  They are written from the CommonMark / GFM document model (DESIGN C04, C15), not
   from the renderer, and are evaluated on every tree the real parser produces.

     s2  the root is a Document (in particular a Paragraph is never the root)
     s3  tables: a Table has at least one child, the first child is a header row, every other
         child a non-header row, every row consists of TableCells, one per column alignment; a
         TableRow occurs only under a Table, a TableCell only under a TableRow under a Table
     s6  footnote definitions occur only as children of the root, where they form a suffix of the
         children, and never contain a footnote definition
     s6w (weaker, what balanced HTML output actually needs) the first footnote definition in document
         order is a child of the root *)
From Coq Require Import List NArith Bool.
From V Require Import Base.Bytes Model.Ast.
Import ListNotations.

Definition is_document (v : node_value) : bool := match v with Document => true | _ => false end.
Definition is_fndef (v : node_value) : bool :=
  match v with FootnoteDefinition _ _ => true | _ => false end.
Definition is_table_v (v : node_value) : bool := match v with Table _ => true | _ => false end.
Definition is_row_v (v : node_value) : bool := match v with TableRow _ => true | _ => false end.

(* ---- S2 ---- *)
Definition s2 (t : node) : bool := is_document (nval t).

(* ---- S3 ---- *)
Definition is_cell (n : node) : bool := match nval n with TableCell => true | _ => false end.
Definition is_row_of (h : bool) (n : node) : bool :=
  match nval n with TableRow h' => Bool.eqb h h' | _ => false end.

(* children of a Table: header row first, then non-header rows only *)
Definition table_children_ok (ch : list node) : bool :=
  match ch with
  | [] => false
  | r :: rs => is_row_of true r && forallb (is_row_of false) rs
  end.

(* pv / gv: value of the parent / grandparent (None at the root) *)
Fixpoint s3_go (pv gv : option node_value) (n : node) : bool :=
  match n with
  | Node v _ ch =>
    (match v with
     | Table _ => table_children_ok ch
     | TableRow _ =>
       match pv with
       | Some (Table t) => forallb is_cell ch && Nat.eqb (List.length ch) (List.length (t_aligns t))
       | _ => false
       end
     | TableCell =>
       match pv, gv with
       | Some (TableRow _), Some (Table _) => true
       | _, _ => false
       end
     | _ => true
     end) && forallb (s3_go (Some v) pv) ch
  end.

Definition s3 (t : node) : bool := s3_go None None t.

(* ---- S6 ---- *)
(* no footnote definition anywhere in the subtree *)
Fixpoint nofn (n : node) : bool :=
  match n with Node v _ ch => negb (is_fndef v) && forallb nofn ch end.

(* a footnote definition that contains none *)
Definition fn_leaf (n : node) : bool := is_fndef (nval n) && forallb nofn (nch n).

(* a prefix free of definitions, then definitions only *)
Fixpoint s6_list (l : list node) : bool :=
  match l with
  | [] => true
  | x :: r => if is_fndef (nval x) then forallb fn_leaf l else nofn x && s6_list r
  end.

Definition s6 (t : node) : bool := negb (is_fndef (nval t)) && s6_list (nch t).

(* the first definition in document order is a child of the root *)
Fixpoint s6w_list (l : list node) : bool :=
  match l with
  | [] => true
  | x :: r => if is_fndef (nval x) then true else nofn x && s6w_list r
  end.

Definition s6w (t : node) : bool := s6w_list (nch t).

(* no Table anywhere in the subtree (used to state that the sections of a table are counted without
   those of tables nested in its cells) *)
Fixpoint no_table (n : node) : bool :=
  match n with Node v _ ch => negb (is_table_v v) && forallb no_table ch end.
