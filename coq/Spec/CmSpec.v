(* Spec/CmSpec.v — notions the CommonMark formatter's leaf theorems are stated with; written from
   the CommonMark text (code spans: a backtick string is a MAXIMAL run of backticks; a fenced code
   block is closed by a run of at least the opening length), not from comrak. *)
From Coq Require Import List NArith Bool Lia.
From V Require Import Base.Bytes.
Import ListNotations.

(* a maximal run of exactly n >= 1 bytes f occurs in l: n copies of f, not preceded and not
   followed by another f *)
Definition ends_with_byte (l : bytes) (f : byte) : Prop := exists l', l = l' ++ [f].
Definition begins_with_byte (l : bytes) (f : byte) : Prop := exists l', l = f :: l'.

Definition is_run (l : bytes) (f : byte) (n : nat) : Prop :=
  1 <= n /\ exists pre post,
    l = pre ++ repeat f n ++ post /\ ~ ends_with_byte pre f /\ ~ begins_with_byte post f.

(* executable: the lengths of the maximal runs of f in l, in order; cur = length of the run that
   is open at the left edge *)
Fixpoint run_list (l : bytes) (f : byte) (cur : nat) : list nat :=
  match l with
  | [] => match cur with O => [] | _ => [cur] end
  | c :: r =>
    if beqb c f then run_list r f (S cur)
    else match cur with O => run_list r f 0 | _ => cur :: run_list r f 0 end
  end.
Definition runs (l : bytes) (f : byte) : list nat := run_list l f 0.
Definition has_run (l : bytes) (f : byte) (n : nat) : bool := existsb (Nat.eqb n) (runs l f).
