(* Spec/CmSpec.v — notions the CommonMark formatter's leaf theorems are stated with; written from
   the CommonMark text (code spans: a backtick string is a MAXIMAL run of backticks; a fenced code
   block is closed by a run of at least the opening length), not from comrak. *)
From Coq Require Import List NArith Bool Lia.
From V Require Import Base.Bytes.
Import ListNotations.

(* a maximal run of exactly n >= 1 bytes f occurs in l: n copies of f, not preceded and not
   followed by another f *)
Definition ends_with_byte (l : bytes) (f : byte) : Prop := exists l', l = l' ++ [f].
Definition begins_with_byte (l : bytes) (f : byte) : Prop := exists l', l = f :: l'.

Definition is_run (l : bytes) (f : byte) (n : nat) : Prop :=
  1 <= n /\ exists pre post,
    l = pre ++ repeat f n ++ post /\ ~ ends_with_byte pre f /\ ~ begins_with_byte post f.

(* executable: the lengths of the maximal runs of f in l, in order; cur = length of the run that
   is open at the left edge *)
Fixpoint run_list (l : bytes) (f : byte) (cur : nat) : list nat :=
  match l with
  | [] => match cur with O => [] | _ => [cur] end
  | c :: r =>
    if beqb c f then run_list r f (S cur)
    else match cur with O => run_list r f 0 | _ => cur :: run_list r f 0 end
  end.
Definition runs (l : bytes) (f : byte) : list nat := run_list l f 0.
Definition has_run (l : bytes) (f : byte) (n : nat) : bool := existsb (Nat.eqb n) (runs l f).

(* ---- shape clauses under which the formatter does not panic (cm_total) ----
   K1 every Item / TaskItem is the child of a List            (format_item: unreachable!(), unwrap)
   K2 no Code node has an empty literal                       (format_code: literal[0])
   K3 every TableCell is the child of a TableRow, and the last cell of a header row has a Table
      grandparent                                             (format_table_cell: panic!(), unwrap)
   anc = values of the ancestors (parent first), next = value of the next sibling *)
From V Require Import Model.Ast.

Definition cm_node_ok (v : node_value) (anc : list node_value) (next : option node_value) : bool :=
  match v with
  | Item _ | TaskItem _ => match anc with NList _ :: _ => true | _ => false end
  | Code _ lit => match lit with [] => false | _ => true end
  | TableCell =>
    match anc with
    | TableRow header :: up =>
      if header && (match next with None => true | Some _ => false end)
      then match up with Table _ :: _ => true | _ => false end
      else true
    | _ => false
    end
  | _ => true
  end.

Fixpoint cm_shape (anc : list node_value) (next : option node_value) (n : node) : bool :=
  match n with
  | Node v _ ch =>
    cm_node_ok v anc next &&
    (fix go (l : list node) : bool :=
       match l with
       | [] => true
       | x :: r => cm_shape (v :: anc) (match r with y :: _ => Some (nval y) | [] => None end) x && go r
       end) ch
  end.

Fixpoint cm_shape_list (anc : list node_value) (l : list node) : bool :=
  match l with
  | [] => true
  | x :: r => cm_shape anc (match r with y :: _ => Some (nval y) | [] => None end) x && cm_shape_list anc r
  end.

(* K4 (debug builds only): the counter of an ordered list does not overflow usize *)
Fixpoint cm_no_ol_overflow (n : node) : bool :=
  match n with
  | Node v _ ch =>
    (match v with
     | NList l => match l_type l with
                  | Ordered => (l_start l + N.of_nat (List.length ch) <? 18446744073709551616)%N
                  | Bullet => true
                  end
     | _ => true
     end) && forallb cm_no_ol_overflow ch
  end.
