(* Spec/RoundTrip.v — C07 / C17: what can be said about the CommonMark round trip without the
   formatter model (Model/Cm.v is another component).
   1. the two admitted normalisations: strip_end_list_comments (on HTML bytes, line based) and
      collapse_nested_strong (on trees);
   2. the CommonMark backslash-escape rule (unescape_backslashes), percent decoding of one octet and
      decimal numeric character references, written from the CommonMark spec;
   3. escape_with: any escaping policy that writes a backslash before chosen bytes; the policy of
      cm.rs outc is Gen/RtOutc.v (translated from the source on every run);
   4. class predicates on dumped trees that the checks evaluate through the extracted code. *)
From Coq Require Import List NArith Bool Strings.String.
From V Require Import Base.Bytes Gen.RtOutc Model.Ast.
Import ListNotations.
Local Open Scope string_scope.
Local Open Scope list_scope.
Local Open Scope bool_scope.

(* ------------------------------------------------------------------ 1a. end-of-list comments *)
Definition nl : byte := x0a.

(* the lines terminated by a newline (without it) and the unterminated rest *)
Fixpoint split_nl (s : bytes) : list bytes * bytes :=
  match s with
  | [] => ([], [])
  | c :: r =>
    let '(ls, rest) := split_nl r in
    if beqb c nl then ([] :: ls, rest)
    else match ls with
         | [] => ([], c :: rest)
         | l :: ls' => ((c :: l) :: ls', rest)
         end
  end.

Definition join_nl (p : list bytes * bytes) : bytes :=
  List.concat (map (fun l => l ++ [nl]) (fst p)) ++ snd p.

Definition end_list_comment : bytes := Eval compute in B "<!-- end list -->".

Definition keep_line (l : bytes) : bool := negb (bytes_eqb l end_list_comment).

(* remove every newline-terminated line that is exactly the comment cm.rs writes between a list and
   a following list or code block (html.rs renders that HTML block as the line itself) *)
Definition strip_end_list_comments (h : bytes) : bytes :=
  let '(ls, rest) := split_nl h in join_nl (filter keep_line ls, rest).

(* ------------------------------------------------------------------ 1b. nested strong *)
Definition is_strong (v : node_value) : bool := match v with Strong => true | _ => false end.

(* cm.rs writes no delimiters for a Strong whose parent is a Strong: the children of the inner
   node become children of the outer one *)
Fixpoint collapse_nested_strong (n : node) : node :=
  match n with
  | Node v sp ch =>
    Node v sp ((fix go (l : list node) : list node :=
                  match l with
                  | [] => []
                  | c :: r =>
                    let c' := collapse_nested_strong c in
                    (if is_strong v && is_strong (nval c') then nch c' else [c']) ++ go r
                  end) ch)
  end.

Fixpoint no_nested_strong (n : node) : bool :=
  match n with
  | Node v _ ch =>
    (fix go (l : list node) : bool :=
       match l with
       | [] => true
       | c :: r => negb (is_strong v && is_strong (nval c)) && no_nested_strong c && go r
       end) ch
  end.

(* everything but the Strong markers, in document order *)
Fixpoint non_strong_values (n : node) : list node_value :=
  match n with
  | Node v _ ch =>
    (if is_strong v then [] else [v]) ++
    (fix go (l : list node) : list node_value :=
       match l with [] => [] | c :: r => non_strong_values c ++ go r end) ch
  end.

(* ------------------------------------------------------------------ 2. the reading side, from the spec *)
Definition bs : byte := x5c.

(* CommonMark 0.31 section 2.1: ASCII punctuation character *)
Definition is_ascii_punct (c : byte) : bool :=
  in_range 33 47 c || in_range 58 64 c || in_range 91 96 c || in_range 123 126 c.

(* section 2.4: a backslash before an ASCII punctuation character stands for that character; before
   anything else it is a literal backslash *)
Fixpoint unescape_backslashes (s : bytes) : bytes :=
  match s with
  | [] => []
  | c :: r =>
    if beqb c bs then
      match r with
      | p :: r' => if is_ascii_punct p then p :: unescape_backslashes r' else c :: unescape_backslashes r
      | [] => [c]
      end
    else c :: unescape_backslashes r
  end.

(* an escaping policy: each byte comes with the decision taken for it (outc decides from the byte, the
   previous byte, the next byte and begin_content) *)
Definition escape_dec (l : list (byte * bool)) : bytes :=
  flat_map (fun p : byte * bool => if snd p then [bs; fst p] else [fst p]) l.

(* a decision list is admissible when only punctuation is escaped and a backslash always is *)
Definition dec_ok (p : byte * bool) : bool :=
  (negb (snd p) || is_ascii_punct (fst p)) && (negb (beqb (fst p) bs) || snd p).

(* context-free policy: escape exactly the members of a set *)
Definition escape_with (set : bytes) (t : bytes) : bytes :=
  escape_dec (map (fun c => (c, mem_byte c set)) t).

(* every byte outc may escape with a backslash in Normal mode, in some context *)
Definition outc_normal_any : bytes :=
  outc_normal_always ++ outc_normal_begin ++ outc_normal_after_digit ++ outc_normal_before_alpha.

Definition escape_all (t : bytes) : bytes := escape_with outc_normal_any t.

(* percent-encoding of one octet as cm.rs writes it (two upper-case hex digits) and RFC 3986 decoding *)
Definition hex_upper (n : N) : byte :=
  if (n <? 10)%N then byte_of_N (48 + n) else byte_of_N (55 + n).
Definition pct_encode (c : byte) : bytes := [x25; hex_upper (bN c / 16); hex_upper (bN c mod 16)].
Definition pct_decode1 (s : bytes) : option byte :=
  match s with
  | [p; h; l] =>
    if beqb p x25 then
      match hex_val h, hex_val l with
      | Some a, Some b => Some (byte_of_N (a * 16 + b))
      | _, _ => None
      end
    else None
  | _ => None
  end.

(* the broken format of before 7e6ac86: width 2 padded with a space *)
Definition pct_encode_old (c : byte) : bytes :=
  [x25; (if (bN c / 16 =? 0)%N then x20 else hex_upper (bN c / 16)); hex_upper (bN c mod 16)].

Definition is_space_c (c : byte) : bool :=
  (bN c =? 9)%N || (bN c =? 10)%N || (bN c =? 11)%N || (bN c =? 12)%N || (bN c =? 13)%N || (bN c =? 32)%N.

(* decimal numeric character reference, CommonMark section 2.5: 1 to 7 digits *)
Fixpoint dec_value (acc : N) (s : bytes) : option (N * bytes) :=
  match s with
  | c :: r => if is_digit c then dec_value (acc * 10 + (bN c - 48)) r
              else Some (acc, s)
  | [] => Some (acc, [])
  end.
Definition numeric_entity_value (s : bytes) : option N :=
  match s with
  | a :: h :: d :: r =>
    if beqb a x26 && beqb h x23 && is_digit d then
      match dec_value 0 (d :: r) with
      | Some (v, [semi]) => if beqb semi x3b && Nat.leb (List.length (d :: r)) 8 then Some v else None
      | _ => None
      end
    else None
  | _ => None
  end.
(* what cm.rs writes for a control byte: format!("&#{};", c) *)
Definition numeric_entity (c : byte) : bytes := [x26; x23] ++ dec (bN c) ++ [x3b].

(* ------------------------------------------------------------------ canonical spellings (C17) *)
(* section 4.1 thematic break: up to three spaces, then three or more of one of - _ * with optional
   spaces and tabs between and after *)
Fixpoint hr_body (ch : byte) (count : nat) (s : bytes) : bool :=
  match s with
  | [] => Nat.leb 3 count
  | c :: r => if beqb c ch then hr_body ch (S count) r
              else if beqb c x20 || beqb c x09 then hr_body ch count r
              else false
  end.
Fixpoint skip_spaces (k : nat) (s : bytes) : bytes :=
  match k, s with
  | S k', c :: r => if beqb c x20 then skip_spaces k' r else s
  | _, _ => s
  end.
Definition is_thematic_break (line : bytes) : bool :=
  match skip_spaces 3 line with
  | c :: _ => (beqb c x2d || beqb c x5f || beqb c x2a) && hr_body c 0 (skip_spaces 3 line)
  | [] => false
  end.
Definition cm_thematic_break : bytes := Eval compute in B "-----".

(* section 4.2 ATX heading opening: up to three spaces, one to six number signs, then a space, a tab or
   the end of the line; returns the level *)
Fixpoint count_hash (s : bytes) : nat * bytes :=
  match s with
  | c :: r => if beqb c x23 then let '(n, t) := count_hash r in (S n, t) else (O, s)
  | [] => (O, [])
  end.
Definition atx_level (line : bytes) : option nat :=
  let '(n, t) := count_hash (skip_spaces 3 line) in
  if Nat.leb 1 n && Nat.leb n 6 then
    match t with
    | [] => Some n
    | c :: _ => if beqb c x20 || beqb c x09 then Some n else None
    end
  else None.
(* what cm.rs format_heading writes before the content *)
Definition cm_atx_open (level : nat) : bytes := repeat x23 level ++ [x20].

(* ------------------------------------------------------------------ 4. class predicates on trees *)
Section Exists.
  Variable P : node -> bool.
  Fixpoint exists_node (n : node) : bool :=
    P n || match n with
           | Node _ _ ch => (fix go (l : list node) : bool :=
                               match l with [] => false | c :: r => exists_node c || go r end) ch
           end.
End Exists.

Definition has_byte (b : byte) (s : bytes) : bool := mem_byte b s.

(* class tilde_text (DESIGN F15): a Text literal holds a tilde (meaningful when strikethrough is on) *)
Definition c_tilde_text : node -> bool :=
  exists_node (fun n => match nval n with Text l => has_byte x7e l | _ => false end).

(* class empty_dest_title: a link or image with an empty destination and a non-empty title *)
Definition c_empty_dest_title : node -> bool :=
  exists_node (fun n => match nval n with
                        | Link u t | Image u t => match u, t with [], _ :: _ => true | _, _ => false end
                        | _ => false end).

(* class heading_softbreak: a heading holds a soft line break *)
Definition is_softbreak (n : node) : bool := match nval n with SoftBreak => true | _ => false end.
Definition c_heading_softbreak : node -> bool :=
  exists_node (fun n => match nval n with Heading _ _ => exists_node is_softbreak n | _ => false end).

(* class nested_link: a link inside a link *)
Definition is_link (n : node) : bool := match nval n with Link _ _ => true | _ => false end.
Definition c_nested_link : node -> bool :=
  exists_node (fun n => is_link n && existsb (exists_node is_link) (nch n)).

(* ends_empty n, for an item or a list n: following LAST children from n, through items (whose last child
   must then be a list) and lists, one arrives at an item without children.  cm.rs format_item leaves such an
   item with cr() only and neither format_list nor the enclosing format_item write anything on the way out,
   so no blank line separates n from what is written next. *)
Definition is_list (n : node) : bool := match nval n with NList _ => true | _ => false end.
Definition is_item_v (v : node_value) : bool := match v with Item _ | TaskItem _ => true | _ => false end.
Definition is_list_v (v : node_value) : bool := match v with NList _ => true | _ => false end.
Definition list_tight (n : node) : bool := match nval n with NList l => l_tight l | _ => true end.
Definition childless (n : node) : bool := match nch n with [] => true | _ => false end.
Fixpoint ends_empty (n : node) : bool :=
  match n with
  | Node v _ ch =>
    match ch with
    | [] => is_item_v v
    | _ :: _ =>
      (is_item_v v || is_list_v v) &&
      (fix last (l : list node) : bool :=
         match l with
         | [] => false
         | c :: r => match r with
                     | [] => (is_list c || negb (is_item_v v)) && ends_empty c
                     | _ :: _ => last r
                     end
         end) ch
    end
  end.

(* class empty_item_blank_line: a loose list one of whose items ends in an item without children, or a list
   that ends in an item without children and has a following sibling *)
Fixpoint followed_empty_last (l : list node) : bool :=
  match l with
  | a :: ((_ :: _) as r) => (is_list a && ends_empty a) || followed_empty_last r
  | _ => false
  end.
Definition c_empty_item_blank_line : node -> bool :=
  exists_node (fun n => (is_list n && negb (list_tight n) && existsb ends_empty (nch n))
                        || followed_empty_last (nch n)).

(* class end_list_after_empty_item (C17): a list that ends in an item without children, directly followed by a
   list or a code block (where cm.rs writes the end-of-list comment) *)
Definition is_list_or_code (n : node) : bool :=
  match nval n with NList _ | CodeBlock _ => true | _ => false end.
Fixpoint empty_last_then_list_or_code (l : list node) : bool :=
  match l with
  | a :: ((b :: _) as r) =>
    (is_list a && is_list_or_code b && ends_empty a) || empty_last_then_list_or_code r
  | _ => false
  end.
Definition c_end_list_after_empty_item : node -> bool :=
  exists_node (fun n => empty_last_then_list_or_code (nch n)).

(* class loose_single_block_list: a loose list with exactly one item that has exactly one block *)
Definition c_loose_single_block_list : node -> bool :=
  exists_node (fun n => is_list n && negb (list_tight n) &&
                        match nch n with
                        | [it] => match nch it with [_] => true | _ => false end
                        | _ => false
                        end).

(* class ol_width_code: an ordered item with content whose marker, padded to ol_width, is followed by five
   or more spaces (digits + 6 <= ol_width) *)
Definition ndigits (n : N) : nat := List.length (dec n).
Fixpoint ol_items_wide (w : nat) (num : N) (items : list node) : bool :=
  match items with
  | [] => false
  | it :: r => (negb (childless it) && Nat.leb (ndigits num + 6) w) || ol_items_wide w (num + 1) r
  end.
Definition c_ol_width_code (w : N) : node -> bool :=
  exists_node (fun n => match nval n with
                        | NList l => match l_type l with
                                     | Ordered => ol_items_wide (N.to_nat w) (l_start l) (nch n)
                                     | Bullet => false end
                        | _ => false end).

(* the predicates above as one list of flags, in this order:
   tilde_text empty_dest_title heading_softbreak nested_link empty_item_blank_line
   end_list_after_empty_item ol_width_code loose_single_block_list *)
Definition tree_classes (ol_width : N) (t : node) : list bool :=
  [c_tilde_text t; c_empty_dest_title t; c_heading_softbreak t; c_nested_link t;
   c_empty_item_blank_line t; c_end_list_after_empty_item t; c_ol_width_code ol_width t;
   c_loose_single_block_list t].
