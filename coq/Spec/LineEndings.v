(* Spec/LineEndings.v — C08, written from the property text and CommonMark 0.31 sections 2.1 and 2.3,
   not from comrak.

   Property text: a document means the same whatever its line-ending convention: rewriting LF as CRLF
   or CR changes the HTML only by the same rewrite inside literal content.  Likewise adding a newline to
   a text that lacks a final one, replacing NUL by U+FFFD, or prepending a byte-order mark leaves the
   rendered HTML unchanged.

   CommonMark 2.1: a line is a sequence of zero or more characters other than line feed (U+000A) or
   carriage return (U+000D), followed by a line ending or by the end of file.  A line ending is a line
   feed, a carriage return not followed by a line feed, or a carriage return and a following line feed.
   CommonMark 2.3: for security reasons, the Unicode character U+0000 must be replaced with the
   REPLACEMENT CHARACTER (U+FFFD).

   Everything here is executable and extracted; the check applies THESE rewrites to the generated
   documents and evaluates THESE predicates on the implementation's inputs and outputs. *)
From Coq Require Import List NArith Bool.
From V Require Import Base.Bytes.
Import ListNotations.
Local Open Scope list_scope.

Definition LF : byte := x0a.
Definition CR : byte := x0d.
Definition NUL : byte := x00.
Definition fffd : bytes := [xef; xbf; xbd].     (* U+FFFD in UTF-8 *)
Definition bom : bytes := [xef; xbb; xbf].      (* U+FEFF in UTF-8 *)

(* ---- the rewrites of the property text ---- *)
Definition to_crlf (x : bytes) : bytes := flat_map (fun b => if beqb b LF then [CR; LF] else [b]) x.
Definition to_cr (x : bytes) : bytes := map (fun b => if beqb b LF then CR else b) x.
Definition add_final_nl (x : bytes) : bytes := x ++ [LF].
Definition nul_to_fffd (x : bytes) : bytes := flat_map (fun b => if beqb b NUL then fffd else [b]) x.
Definition prepend_bom (x : bytes) : bytes := bom ++ x.

(* ---- their domains ---- *)
Definition no_cr (x : bytes) : bool := forallb (fun b => negb (beqb b CR)) x.
Fixpoint ends_nl (x : bytes) : bool :=
  match x with
  | [] => false
  | [b] => beqb b LF
  | _ :: r => ends_nl r
  end.
Definition has_bom (x : bytes) : bool := starts_with x bom.

Definition count_lf (x : bytes) : nat := List.length (filter (fun b => beqb b LF) x).
Definition count_nul (x : bytes) : nat := List.length (filter (fun b => beqb b NUL) x).

(* ---- the lines of a text (CommonMark 2.1 with the 2.3 replacement applied) ----
   `cur` is the line being read.  A text that ends without a line ending ends its last line at the end
   of file; a text that ends with a line ending has no further (empty) line. *)
Fixpoint lines_from (cur : bytes) (s : bytes) : list bytes :=
  match s with
  | [] => match cur with [] => [] | _ => [cur] end
  | b :: s' =>
    if beqb b CR then
      cur :: match s' with
             | c :: s'' => if beqb c LF then lines_from [] s'' else lines_from [] s'
             | [] => lines_from [] s'
             end
    else if beqb b LF then cur :: lines_from [] s'
    else if beqb b NUL then lines_from (cur ++ fffd) s'
    else lines_from (cur ++ [b]) s'
  end.

Definition spec_lines (x : bytes) : list bytes := lines_from [] x.

(* a line never contains a line-ending character or NUL *)
Definition clean_byte (b : byte) : bool := negb (beqb b CR) && negb (beqb b LF) && negb (beqb b NUL).
Definition clean_line (l : bytes) : bool := forallb clean_byte l.

(* ---- classes of inputs for which the byte-order-mark clause is known not to hold on the unchanged tree
        (one definition, used by the run-time classifier and by the conditional statements) ---- *)
(* the text already starts with a byte-order mark: only the first of two marks is skipped *)
Definition known_bom_on_bom (x : bytes) : bool := has_bom x.

(* the text is longer than the floor of the reference budget (the budget is max(floor, byte length), so a
   longer copy of the same text gets a larger budget; DESIGN F18).  `floor` is the constant of the code. *)
Definition known_above_floor (floor : N) (x : bytes) : bool := (floor <? N.of_nat (List.length x))%N.
