(* Spec/SpSpec.v — C18: what "deleting every data-sourcepos attribute from the HTML (or sourcepos
   attribute from the XML)" means, written from the property text and the HTML / XML syntax, not from
   comrak.  Executable; extracted and evaluated on the implementation's real output on every run.

   HTML: two deletions.  `strip_sourcepos` (Spec/HtmlSpec.v) is token-wise over the strict lexer of
   comrak's own output language.  `strip_sp_pat` below needs no lexer: it deletes every byte sequence
     SP data-sourcepos EQ QUOTE (bytes other than QUOTE)* QUOTE
   wherever it occurs.  Text and attribute values written by the renderer never contain a raw QUOTE
   (C02: every QUOTE of the document is written as the quot entity), so outside passed-through raw
   HTML such a sequence can only be an attribute inside a tag.  It is the fallback when the document's
   own raw HTML (option unsafe) puts the output outside the strict lexer's language.

   XML: `strip_xml_sourcepos` walks the document with three states (character data / inside a tag /
   inside a quoted attribute value) and deletes  SP sourcepos EQ QUOTE ... QUOTE  when it begins
   inside a tag and outside a value.  `xdrop_sp` is the same deletion on the element tree returned by
   the reader of Spec/XmlLex.v. *)
From Coq Require Import List NArith Bool Strings.String.
From V Require Import Base.Bytes Model.Html Spec.HtmlSpec Spec.XmlLex.
Import ListNotations.
Local Open Scope string_scope.
Local Open Scope list_scope.

(* number of bytes up to and including the next QUOTE *)
Fixpoint quoted_len (s : bytes) : option nat :=
  match s with
  | [] => None
  | b :: r => if beqb b x22 then Some 1 else match quoted_len r with Some n => Some (S n) | None => None end
  end.

(* ------------------------------------------------------------------ HTML, lexer-free *)
Definition sp_marker : bytes := Eval compute in B " data-sourcepos=""".

Fixpoint strip_pat_go (marker : bytes) (skip : nat) (s : bytes) : bytes :=
  match s with
  | [] => []
  | b :: r =>
    match skip with
    | S k => strip_pat_go marker k r
    | O =>
      if starts_with s marker then
        match quoted_len (skipn (List.length marker) s) with
        | Some n => strip_pat_go marker (List.length marker + n - 1) r   (* the whole attribute *)
        | None => b :: strip_pat_go marker 0 r
        end
      else b :: strip_pat_go marker 0 r
    end
  end.

Definition strip_sp_pat (s : bytes) : bytes := strip_pat_go sp_marker 0 s.

(* the comparison the check makes on a pair (output with the option on, output with it off).
   0  strip_sourcepos on = off                                  (lexer, the property as stated)
   1  off itself carries a data-sourcepos attribute (it can only come from the document's own raw
      HTML): the token-wise deletion also deletes that one; then  strip on = strip off  is required
   2  mismatch (lexer)
   3  off is in the output language but on is not, or a strip failed
   4/5/6  the same as 0/1/2 with the lexer-free deletion, used when off is outside the strict
      lexer's language (raw HTML passed through) *)
Definition html_sp_check (on off : bytes) : N :=
  (if relex_identity off then
     if relex_identity on then
       match strip_sourcepos on, strip_sourcepos off with
       | Some a, Some b =>
         if bytes_eqb b off then (if bytes_eqb a off then 0 else 2)
         else (if bytes_eqb a b then 1 else 2)
       | _, _ => 3
       end
     else 3
   else
     let a := strip_sp_pat on in
     let b := strip_sp_pat off in
     if bytes_eqb b off then (if bytes_eqb a off then 4 else 6)
     else (if bytes_eqb a b then 5 else 6))%N.

(* the lexer-free comparison alone: 0 equal, 1 excluded (off carries the marker itself), 2 mismatch *)
Definition html_sp_pat_check (on off : bytes) : N :=
  (let a := strip_sp_pat on in
   let b := strip_sp_pat off in
   if bytes_eqb b off then (if bytes_eqb a off then 0 else 2)
   else (if bytes_eqb a b then 1 else 2))%N.

(* ------------------------------------------------------------------ XML, bytes *)
Definition xsp_marker : bytes := Eval compute in B " sourcepos=""".

Inductive xst := XT | XG | XV.   (* character data / in a tag / in an attribute value *)

Fixpoint strip_xml_go (st : xst) (skip : nat) (s : bytes) : option bytes :=
  match s with
  | [] => match st, skip with XT, O => Some [] | _, _ => None end
  | b :: r =>
    match skip with
    | S k => strip_xml_go st k r
    | O =>
      let keep st' := match strip_xml_go st' 0 r with Some t => Some (b :: t) | None => None end in
      match st with
      | XT => if beqb b x3c then keep XG else keep XT
      | XV => if beqb b x22 then keep XG else keep XV
      | XG =>
        if beqb b x3e then keep XT
        else if beqb b x22 then keep XV
        else if starts_with s xsp_marker then
          match quoted_len (skipn (List.length xsp_marker) s) with
          | Some n => strip_xml_go XG (List.length xsp_marker + n - 1) r
          | None => None
          end
        else keep XG
      end
    end
  end.

Definition strip_xml_sourcepos (s : bytes) : option bytes := strip_xml_go XT 0 s.

(* 0 equal, 1 on does not scan, 2 mismatch, 3 off changes under the deletion (it must not: XML output
   with the option off has no sourcepos attribute, and text can not fake one because QUOTE and LT are
   always escaped) *)
Definition xml_sp_check (on off : bytes) : N :=
  (match strip_xml_sourcepos on, strip_xml_sourcepos off with
   | Some a, Some b => if bytes_eqb b off then (if bytes_eqb a off then 0 else 2) else 3
   | None, _ => 1
   | _, None => 3
   end)%N.

(* ------------------------------------------------------------------ XML, element trees *)
Definition sp_key : bytes := Eval compute in B "sourcepos".
Definition not_sp_kv (kv : bytes * bytes) : bool := negb (bytes_eqb (fst kv) sp_key).

Fixpoint xdrop_sp (x : xtree) : xtree :=
  match x with
  | XElem n a cs => XElem n (filter not_sp_kv a) (map xdrop_sp cs)
  | XText n a t => XText n (filter not_sp_kv a) t
  end.

Fixpoint kvs_eqb (a b : list (bytes * bytes)) : bool :=
  match a, b with
  | [], [] => true
  | (k, v) :: a', (k', v') :: b' => bytes_eqb k k' && bytes_eqb v v' && kvs_eqb a' b'
  | _, _ => false
  end.

Fixpoint xtree_eqb (x y : xtree) : bool :=
  match x, y with
  | XElem n a cs, XElem n' a' cs' =>
    bytes_eqb n n' && kvs_eqb a a' &&
    (fix go (l l' : list xtree) : bool :=
       match l, l' with
       | [], [] => true
       | c :: r, c' :: r' => xtree_eqb c c' && go r r'
       | _, _ => false
       end) cs cs'
  | XText n a t, XText n' a' t' => bytes_eqb n n' && kvs_eqb a a' && bytes_eqb t t'
  | _, _ => false
  end.

(* reader level: 0 the tree read from `on` with its sourcepos attributes dropped is the tree read
   from `off`; 1 on is not well-formed; 2 trees differ; 3 off is not well-formed; 4 off has a
   sourcepos attribute itself *)
Definition xml_sp_tree_check (on off : bytes) : N :=
  (match xml_read on, xml_read off with
   | Some x, Some y =>
     if xtree_eqb (xdrop_sp y) y then (if xtree_eqb (xdrop_sp x) y then 0 else 2) else 4
   | None, _ => 1
   | _, None => 3
   end)%N.
