(* Spec/SpSpec.v — C18: what "deleting every data-sourcepos attribute from the HTML (or sourcepos
   attribute from the XML)" means, written from the property text and the HTML / XML syntax, not from
   comrak.  Executable; extracted and evaluated on the implementation's real output on every run.

   HTML: two deletions.  `strip_sourcepos` (Spec/HtmlSpec.v) is token-wise over the strict lexer of
   comrak's own output language.  `strip_sp_pat` below needs no lexer: it deletes every byte sequence
     SP data-sourcepos EQ QUOTE (bytes other than QUOTE)* QUOTE
   wherever it occurs.  Text and attribute values written by the renderer never contain a raw QUOTE
   (C02: every QUOTE of the document is written as the quot entity), so outside passed-through raw
   HTML such a sequence can only be an attribute inside a tag.  It is the fallback when the document's
   own raw HTML (option unsafe) puts the output outside the strict lexer's language.

   XML: `strip_xml_sourcepos` walks the document with three states (character data / inside a tag /
   inside a quoted attribute value) and deletes  SP sourcepos EQ QUOTE ... QUOTE  when it begins
   inside a tag and outside a value.  `xdrop_sp` is the same deletion on the element tree returned by
   the reader of Spec/XmlLex.v. *)
From Coq Require Import List NArith Bool Strings.String.
From V Require Import Base.Bytes Model.Html Spec.HtmlSpec Spec.XmlLex.
Import ListNotations.
Local Open Scope string_scope.
Local Open Scope list_scope.

(* number of bytes up to and including the next QUOTE *)
Fixpoint quoted_len (s : bytes) : option nat :=
  match s with
  | [] => None
  | b :: r => if beqb b x22 then Some 1 else match quoted_len r with Some n => Some (S n) | None => None end
  end.

(* ------------------------------------------------------------------ HTML, lexer-free *)
Definition sp_marker : bytes := Eval compute in B " data-sourcepos=""".

Fixpoint strip_pat_go (marker : bytes) (skip : nat) (s : bytes) : bytes :=
  match s with
  | [] => []
  | b :: r =>
    match skip with
    | S k => strip_pat_go marker k r
    | O =>
      if starts_with s marker then
        match quoted_len (skipn (List.length marker) s) with
        | Some n => strip_pat_go marker (List.length marker + n - 1) r   (* the whole attribute *)
        | None => b :: strip_pat_go marker 0 r
        end
      else b :: strip_pat_go marker 0 r
    end
  end.

Definition strip_sp_pat (s : bytes) : bytes := strip_pat_go sp_marker 0 s.

Fixpoint contains (s p : bytes) : bool :=
  match s with
  | [] => starts_with [] p
  | _ :: r => starts_with s p || contains r p
  end.

(* a well-formed position value  D+ COLON D+ HYPHEN D+ COLON D+ QUOTE : its length, QUOTE included.
   st = index of the number being read, seen = it has at least one digit *)
Fixpoint sp_value_len (st : nat) (seen : bool) (s : bytes) : option nat :=
  match s with
  | [] => None
  | b :: r =>
    if is_digit b then match sp_value_len st true r with Some n => Some (S n) | None => None end
    else if seen then
      match st with
      | 0 | 2 => if beqb b x3a then match sp_value_len (S st) false r with Some n => Some (S n) | None => None end else None
      | 1 => if beqb b x2d then match sp_value_len 2 false r with Some n => Some (S n) | None => None end else None
      | 3 => if beqb b x22 then Some 1 else None
      | _ => None
      end
    else None
  end.

(* length of a complete well-formed  SP data-sourcepos EQ QUOTE L:C-L:C QUOTE  at the head of s *)
Definition sp_attr_len (s : bytes) : option nat :=
  if starts_with s sp_marker then
    match sp_value_len 0 false (skipn (List.length sp_marker) s) with
    | Some n => Some (List.length sp_marker + n)
    | None => None
    end
  else None.

(* `off` is `on` with some complete well-formed data-sourcepos attributes deleted and nothing else
   changed.  Greedy: an attribute text that is also at the current position of `off` is kept (it is
   the document's own), any other one is deleted.  Used when the option-off output carries the
   marker text itself (raw HTML of the document passed through): there the deletion of EVERY
   attribute would also delete the document's own. *)
Fixpoint sp_del_go (skip : nat) (on off : bytes) : bool :=
  match on with
  | [] => match off, skip with [], O => true | _, _ => false end
  | a :: on' =>
    match skip with
    | S k => sp_del_go k on' off
    | O =>
      let step :=
        match off with
        | b :: off' => if beqb a b then sp_del_go 0 on' off' else false
        | [] => false
        end in
      match sp_attr_len on with
      | Some len => if starts_with off (firstn len on) then step else sp_del_go (len - 1) on' off
      | None => step
      end
    end
  end.

Definition sp_deleted (on off : bytes) : bool := sp_del_go 0 on off.

(* the comparison the check makes on a pair (output with the option on, output with it off).
   Both outputs in the strict lexer's language (always the case when no raw bytes of the document are
   passed through):
     0  off has no data-sourcepos attribute and  strip_sourcepos on = off      (the property as stated)
     1  off itself has a data-sourcepos attribute (token level; it can only come from raw HTML of the
        document passed through — the caller checks that): the token-wise deletion of EVERY attribute
        also deletes that one; required instead:  sp_deleted on off  and  strip on = strip off
     2  mismatch
     3  off is in the language but on is not, or a strip failed
   off outside the language (raw HTML of the document passed through):
     4  off does not contain the marker text  SP data-sourcepos EQ QUOTE  and  strip_sp_pat on = off
     5  off contains the marker text: sp_deleted on off
     6  mismatch
   Independently of the code, `sp_deleted on off` must hold for every pair. *)
Definition html_sp_check (on off : bytes) : N :=
  (if relex_identity off then
     if relex_identity on then
       match strip_sourcepos on, strip_sourcepos off with
       | Some a, Some b =>
         if bytes_eqb b off then (if bytes_eqb a off then 0 else 2)
         else (if sp_deleted on off && bytes_eqb a b then 1 else 2)
       | _, _ => 3
       end
     else 3
   else
     if contains off sp_marker then (if sp_deleted on off then 5 else 6)
     else (if bytes_eqb (strip_sp_pat on) off then 4 else 6))%N.

(* ------------------------------------------------------------------ XML, bytes *)
Definition xsp_marker : bytes := Eval compute in B " sourcepos=""".

Inductive xst := XT | XG | XV.   (* character data / in a tag / in an attribute value *)

Fixpoint strip_xml_go (st : xst) (skip : nat) (s : bytes) : option bytes :=
  match s with
  | [] => match st, skip with XT, O => Some [] | _, _ => None end
  | b :: r =>
    match skip with
    | S k => strip_xml_go st k r
    | O =>
      let keep st' := match strip_xml_go st' 0 r with Some t => Some (b :: t) | None => None end in
      match st with
      | XT => if beqb b x3c then keep XG else keep XT
      | XV => if beqb b x22 then keep XG else keep XV
      | XG =>
        if beqb b x3e then keep XT
        else if beqb b x22 then keep XV
        else if starts_with s xsp_marker then
          match quoted_len (skipn (List.length xsp_marker) s) with
          | Some n => strip_xml_go XG (List.length xsp_marker + n - 1) r
          | None => None
          end
        else keep XG
      end
    end
  end.

Definition strip_xml_sourcepos (s : bytes) : option bytes := strip_xml_go XT 0 s.

(* 0 equal, 1 on does not scan, 2 mismatch, 3 off changes under the deletion (it must not: XML output
   with the option off has no sourcepos attribute, and text can not fake one because QUOTE and LT are
   always escaped) *)
Definition xml_sp_check (on off : bytes) : N :=
  (match strip_xml_sourcepos on, strip_xml_sourcepos off with
   | Some a, Some b => if bytes_eqb b off then (if bytes_eqb a off then 0 else 2) else 3
   | None, _ => 1
   | _, None => 3
   end)%N.

(* ------------------------------------------------------------------ XML, element trees *)
Definition sp_key : bytes := Eval compute in B "sourcepos".
Definition not_sp_kv (kv : bytes * bytes) : bool := negb (bytes_eqb (fst kv) sp_key).

Fixpoint xdrop_sp (x : xtree) : xtree :=
  match x with
  | XElem n a cs => XElem n (filter not_sp_kv a) (map xdrop_sp cs)
  | XText n a t => XText n (filter not_sp_kv a) t
  end.

Fixpoint kvs_eqb (a b : list (bytes * bytes)) : bool :=
  match a, b with
  | [], [] => true
  | (k, v) :: a', (k', v') :: b' => bytes_eqb k k' && bytes_eqb v v' && kvs_eqb a' b'
  | _, _ => false
  end.

Fixpoint xtree_eqb (x y : xtree) : bool :=
  match x, y with
  | XElem n a cs, XElem n' a' cs' =>
    bytes_eqb n n' && kvs_eqb a a' &&
    (fix go (l l' : list xtree) : bool :=
       match l, l' with
       | [], [] => true
       | c :: r, c' :: r' => xtree_eqb c c' && go r r'
       | _, _ => false
       end) cs cs'
  | XText n a t, XText n' a' t' => bytes_eqb n n' && kvs_eqb a a' && bytes_eqb t t'
  | _, _ => false
  end.

(* reader level: 0 the tree read from `on` with its sourcepos attributes dropped is the tree read
   from `off`; 1 on is not well-formed; 2 trees differ; 3 off is not well-formed; 4 off has a
   sourcepos attribute itself *)
Definition xml_sp_tree_check (on off : bytes) : N :=
  (match xml_read on, xml_read off with
   | Some x, Some y =>
     if xtree_eqb (xdrop_sp y) y then (if xtree_eqb (xdrop_sp x) y then 0 else 2) else 4
   | None, _ => 1
   | _, None => 3
   end)%N.
