(* Spec/XmlLex.v — what C09 demands, written from the property text, the XML 1.0 grammar (the subset
   the property names) and the CommonMark.dtd conventions; NOT from comrak's xml.rs.

   1. a generic element tree `xtree` and a READER `xml_read : bytes -> option xtree` that accepts
        prolog?  doctype?  element  whitespace*
      element  ::= LT name (ws+ name EQ QUOTE value QUOTE)* ws* ( SLASH GT | GT content LT SLASH name ws* GT )
      names are XML names (ASCII subset); attribute values are double quoted; in values and in
      character data the only entities are the four predefined ones written by name, and none of
      LT GT AMP QUOTE may appear raw ("every markup character is escaped"); attribute names of one
      element are pairwise distinct; an element carrying xml:space=preserve has character data only,
      kept verbatim; any other element has child elements only, separated by ignorable whitespace;
      nothing but whitespace follows the root.  Anything else is rejected (None).
      Scope note (DESIGN C09 i): XML's Char production is not among the things the property lists;
      control bytes are accepted.
   2. `tree_to_xtree o t`: the element tree that the XML rendering of the node tree `t` must be:
      one element per node, same order and nesting, element name per node kind, the payload fields
      that the AST calls literal / url / title / name / info carried as text or attributes.
   3. the shape preconditions under which the statements are made (checked on every dumped tree). *)
From Coq Require Import List NArith Bool Strings.String.
From V Require Import Base.Bytes Model.Ast Spec.EscapeSpec.
Import ListNotations.
Local Open Scope string_scope.
Local Open Scope list_scope.

(* ------------------------------------------------------------------ generic element tree *)
Inductive xtree :=
| XElem (name : bytes) (attrs : list (bytes * bytes)) (children : list xtree)   (* element content *)
| XText (name : bytes) (attrs : list (bytes * bytes)) (text : bytes).           (* character data only *)

Definition xname (x : xtree) : bytes := match x with XElem n _ _ | XText n _ _ => n end.
Definition xattrs (x : xtree) : list (bytes * bytes) := match x with XElem _ a _ | XText _ a _ => a end.

(* ------------------------------------------------------------------ lexical helpers *)
Definition is_ws (b : byte) : bool := beqb b x20 || beqb b x0a || beqb b x09 || beqb b x0d.

Fixpoint skip_ws (s : bytes) : bytes :=
  match s with
  | b :: r => if is_ws b then skip_ws r else s
  | [] => []
  end.

(* XML Name, ASCII subset: NameStartChar = letter, underscore, colon; NameChar adds digit, hyphen, dot *)
Definition xname_start (b : byte) : bool := is_upper b || is_lower b || beqb b x5f || beqb b x3a.
Definition xname_byte (b : byte) : bool := xname_start b || is_digit b || beqb b x2d || beqb b x2e.
Definition xname_ok (n : bytes) : bool :=
  match n with [] => false | b :: r => xname_start b && forallb xname_byte r end.

Fixpoint take_xname (s : bytes) : bytes * bytes :=
  match s with
  | b :: r => if xname_byte b then let (n, t) := take_xname r in (b :: n, t) else ([], s)
  | [] => ([], [])
  end.

(* the four predefined entities, nothing else; raw LT GT QUOTE or a stray AMP is an error.
   (the HTML text decoder of Spec/EscapeSpec.v is exactly this function) *)
Definition xml_unescape (s : bytes) : option bytes := html_unescape s.

(* attribute value: up to the closing QUOTE, raw LT / GT rejected  (EscapeSpec.take_value) *)

Fixpoint nodup_names (l : list bytes) : bool :=
  match l with
  | [] => true
  | n :: r => negb (existsb (bytes_eqb n) r) && nodup_names r
  end.

(* after the element name:  (ws+ name EQ QUOTE value QUOTE)* ws* (GT | SLASH GT);
   returns (attributes, self-closing?, rest).  fuel bounds the number of attributes. *)
Fixpoint read_attrs (fuel : nat) (s : bytes) : option (list (bytes * bytes) * bool * bytes) :=
  match fuel with
  | O => None
  | S f =>
    match skip_ws s with
    | [] => None
    | c :: r =>
      if beqb c x3e then Some ([], false, r)
      else if beqb c x2f then
        match r with
        | d :: r' => if beqb d x3e then Some ([], true, r') else None
        | [] => None
        end
      else
        match s with
        | w :: _ =>
          if is_ws w then                           (* an attribute is preceded by whitespace *)
            let (n, t) := take_xname (c :: r) in
            if xname_ok n then
              match t with
              | e :: q :: t' =>
                if beqb e x3d && beqb q x22 then
                  match take_value t' with
                  | Some (v, t'') =>
                    match xml_unescape v with
                    | Some dv =>
                      match read_attrs f t'' with
                      | Some (l, sc, rest) => Some ((n, dv) :: l, sc, rest)
                      | None => None
                      end
                    | None => None
                    end
                  | None => None
                  end
                else None
              | _ => None
              end
            else None
          else None
        | [] => None
        end
    end
  end.

Definition xml_space : bytes := Eval compute in B "xml:space".
Definition preserve : bytes := Eval compute in B "preserve".
Definition is_preserve (attrs : list (bytes * bytes)) : bool :=
  existsb (fun kv => bytes_eqb (fst kv) xml_space && bytes_eqb (snd kv) preserve) attrs.

(* character data up to the next LT *)
Fixpoint take_text (s : bytes) : bytes * bytes :=
  match s with
  | b :: r => if beqb b x3c then ([], s) else let (t, r') := take_text r in (b :: t, r')
  | [] => ([], [])
  end.

(* LT SLASH name ws* GT, the name being the one of the open element *)
Definition read_close (n s : bytes) : option bytes :=
  match s with
  | a :: b :: r =>
    if beqb a x3c && beqb b x2f then
      let (m, t) := take_xname r in
      if bytes_eqb m n then
        match skip_ws t with
        | c :: r' => if beqb c x3e then Some r' else None
        | [] => None
        end
      else None
    else None
  | _ => None
  end.

(* one element / a run of child elements up to (not including) the parent's closing tag.
   fuel: one unit per element, per attribute list and per sibling step. *)
Fixpoint read_elem (fuel : nat) (s : bytes) : option (xtree * bytes) :=
  match fuel with
  | O => None
  | S f =>
    match s with
    | c :: r =>
      if beqb c x3c then
        let (n, r1) := take_xname r in
        if xname_ok n then
          match read_attrs f r1 with
          | Some (attrs, selfclose, r2) =>
            if nodup_names (map fst attrs) then
              if is_preserve attrs then
                if selfclose then Some (XText n attrs [], r2)
                else
                  let (raw, r3) := take_text r2 in
                  match xml_unescape raw with
                  | Some t =>
                    match read_close n r3 with
                    | Some r4 => Some (XText n attrs t, r4)
                    | None => None
                    end
                  | None => None
                  end
              else
                if selfclose then Some (XElem n attrs [], r2)
                else
                  match read_children f r2 with
                  | Some (cs, r3) =>
                    match read_close n r3 with
                    | Some r4 => Some (XElem n attrs cs, r4)
                    | None => None
                    end
                  | None => None
                  end
            else None
          | None => None
          end
        else None
      else None
    | [] => None
    end
  end
with read_children (fuel : nat) (s : bytes) : option (list xtree * bytes) :=
  match fuel with
  | O => None
  | S f =>
    match skip_ws s with
    | a :: b :: r =>
      if beqb a x3c && beqb b x2f then Some ([], a :: b :: r)
      else
        match read_elem f (a :: b :: r) with
        | Some (x, r1) =>
          match read_children f r1 with
          | Some (xs, r2) => Some (x :: xs, r2)
          | None => None
          end
        | None => None
        end
    | _ => None
    end
  end.

(* LT QUESTION ... QUESTION GT *)
Fixpoint skip_pi (s : bytes) : option bytes :=
  match s with
  | a :: r =>
    match r with
    | b :: r' => if beqb a x3f && beqb b x3e then Some r' else skip_pi r
    | [] => None
    end
  | [] => None
  end.

Definition pi_xml : bytes := Eval compute in B "<?xml".
Definition doctype_kw : bytes := Eval compute in B "<!DOCTYPE".

Definition skip_prolog (s : bytes) : option bytes :=
  if starts_with s pi_xml then skip_pi s else Some s.

(* doctype declaration without an internal subset: up to the first GT, no LT, no bracket *)
Fixpoint skip_to_gt (s : bytes) : option bytes :=
  match s with
  | b :: r =>
    if beqb b x3e then Some r
    else if beqb b x3c || beqb b x5b then None
    else skip_to_gt r
  | [] => None
  end.

Definition skip_doctype (s : bytes) : option bytes :=
  if starts_with s doctype_kw then
    match s with _ :: r => skip_to_gt r | [] => None end
  else Some s.

Definition xml_read (s : bytes) : option xtree :=
  match skip_prolog s with
  | None => None
  | Some s1 =>
    match skip_doctype (skip_ws s1) with
    | None => None
    | Some s2 =>
      let s3 := skip_ws s2 in
      match read_elem (List.length s3) s3 with
      | Some (x, rest) => if forallb is_ws rest then Some x else None
      | None => None
      end
    end
  end.

(* ------------------------------------------------------------------ the mirror of a node tree *)
(* element names: CommonMark.dtd for the core kinds, snake case of the kind for the extensions *)
Definition spec_name (k : kind) : bytes :=
  match k with
  | KDocument => B "document" | KFrontMatter => B "frontmatter" | KBlockQuote => B "block_quote"
  | KList => B "list" | KItem => B "item" | KDescriptionList => B "description_list"
  | KDescriptionItem => B "description_item" | KDescriptionTerm => B "description_term"
  | KDescriptionDetails => B "description_details" | KCodeBlock => B "code_block"
  | KHtmlBlock => B "html_block" | KParagraph => B "paragraph" | KHeading => B "heading"
  | KThematicBreak => B "thematic_break" | KFootnoteDefinition => B "footnote_definition"
  | KTable => B "table" | KTableRow => B "table_row" | KTableCell => B "table_cell"
  | KText => B "text" | KTaskItem => B "taskitem" | KSoftBreak => B "softbreak"
  | KLineBreak => B "linebreak" | KCode => B "code" | KHtmlInline => B "html_inline"
  | KRaw => B "raw" | KEmph => B "emph" | KStrong => B "strong"
  | KStrikethrough => B "strikethrough" | KSuperscript => B "superscript" | KLink => B "link"
  | KImage => B "image" | KFootnoteReference => B "footnote_reference" | KMath => B "math"
  | KMultilineBlockQuote => B "multiline_block_quote" | KEscaped => B "escaped"
  | KWikiLink => B "wikilink" | KUnderline => B "underline" | KSubscript => B "subscript"
  | KSpoileredText => B "spoiler" | KEscapedTag => B "escaped_tag" | KAlert => B "alert"
  end.

Definition spec_bool (b : bool) : bytes := if b then B "true" else B "false".
Definition spec_align (a : align) : option bytes :=
  match a with ANone => None | ALeft => Some (B "left") | ACenter => Some (B "center") | ARight => Some (B "right") end.
Definition spec_delim (d : delim_type) : bytes := match d with Period => B "period" | Paren => B "paren" end.
Definition spec_alert (a : alert_type) : bytes :=
  match a with Note => B "note" | Tip => B "tip" | Important => B "important" | Warning => B "warning" | Caution => B "caution" end.

Definition spec_sourcepos (sp : sourcepos) : bytes :=
  dec (sl sp) ++ B ":" ++ dec (sc sp) ++ B "-" ++ dec (el sp) ++ B ":" ++ dec (ec sp).

Definition preserve_attr : bytes * bytes := (xml_space, preserve).

(* character data of the kinds whose content the AST holds as a literal *)
Definition spec_text (v : node_value) : option bytes :=
  match v with
  | Text lit | Code _ lit | HtmlBlock _ lit | HtmlInline lit | Raw lit | Math _ _ lit => Some lit
  | CodeBlock cb => Some (cb_literal cb)
  | _ => None
  end.

(* the table a header cell belongs to: parent is a header row, grandparent a table *)
Definition header_table (par gp : option node_value) : option node_table :=
  match par, gp with
  | Some (TableRow true), Some (Table t) => Some t
  | _, _ => None
  end.

(* attributes by kind (par / gp / ix: the parent's value, the grandparent's value, the index among
   the siblings — a header cell carries the alignment of its column) *)
Definition spec_attrs (v : node_value) (par gp : option node_value) (ix : nat) : list (bytes * bytes) :=
  match v with
  | Document => [(B "xmlns", B "http://commonmark.org/xml/1.0")]
  | Text _ | Code _ _ | HtmlBlock _ _ | HtmlInline _ | Raw _ => [preserve_attr]
  | NList nl =>
    match l_type nl with
    | Bullet => [(B "type", B "bullet")]
    | Ordered => [(B "type", B "ordered"); (B "start", dec (l_start nl)); (B "delim", spec_delim (l_delim nl))]
    end ++ (if l_task nl then [(B "tasklist", B "true")] else []) ++ [(B "tight", spec_bool (l_tight nl))]
  | Heading level _ => [(B "level", dec level)]
  | CodeBlock cb =>
    match cb_info cb with
    | [] => []
    | _ :: _ => (B "info", cb_info cb) :: (if bytes_eqb (cb_info cb) (B "math") then [(B "math_style", B "display")] else [])
    end ++ [preserve_attr]
  | Link url title | Image url title => [(B "destination", url); (B "title", title)]
  | TableCell =>
    match header_table par gp with
    | Some t =>
      match nth_error (t_aligns t) ix with
      | Some a => match spec_align a with Some n => [(B "align", n)] | None => [] end
      | None => []
      end
    | None => []
    end
  | FootnoteDefinition name _ => [(B "label", name)]
  | FootnoteReference name _ _ => [(B "label", name)]
  | TaskItem (Some _) => [(B "completed", B "true")]
  | TaskItem None => [(B "completed", B "false")]
  | Math _ display _ => [(B "math_style", if display then B "display" else B "inline"); preserve_attr]
  | WikiLink url => [(B "destination", url)]
  | EscapedTag data => [(B "tag", data)]
  | Alert al =>
    [(B "type", spec_alert (a_type al))]
    ++ (match a_title al with Some t => [(B "title", t)] | None => [] end)
    ++ (if a_multiline al then [(B "multiline", B "true")] else [])
  | _ => []
  end.

Definition spec_sp_attr (o : opts) (sp : sourcepos) : list (bytes * bytes) :=
  if o_sourcepos o && negb (sl sp =? 0)%N then [(B "sourcepos", spec_sourcepos sp)] else [].

Definition map_ix {A} (f : nat -> node -> A) :=
  fix go (l : list node) (i : nat) : list A :=
    match l with
    | [] => []
    | c :: r => f i c :: go r (S i)
    end.

Fixpoint tree_to_xtree_at (o : opts) (par gp : option node_value) (ix : nat) (n : node) : xtree :=
  match n with
  | Node v sp ch =>
    let name := spec_name (kind_of v) in
    let attrs := spec_sp_attr o sp ++ spec_attrs v par gp ix in
    match spec_text v with
    | Some t => XText name attrs t
    | None => XElem name attrs (map_ix (fun i c => tree_to_xtree_at o (Some v) par i c) ch 0)
    end
  end.

Definition tree_to_xtree (o : opts) (t : node) : xtree := tree_to_xtree_at o None None 0 t.

(* ------------------------------------------------------------------ shape preconditions *)
(* S-cell: a table cell has a parent and a grandparent, and a cell of a header row of a table has
   a column alignment (index < number of alignments).  This is exactly what format_node needs. *)
Definition cell_ok (par gp : option node_value) (ix : nat) : bool :=
  match par, gp with
  | Some _, Some _ =>
    match header_table par gp with
    | Some t => Nat.ltb ix (List.length (t_aligns t))
    | None => true
    end
  | _, _ => false
  end.

Definition forallb_ix (f : nat -> node -> bool) :=
  fix go (l : list node) (i : nat) : bool :=
    match l with
    | [] => true
    | c :: r => f i c && go r (S i)
    end.

Fixpoint cells_ok_at (par gp : option node_value) (ix : nat) (n : node) : bool :=
  match n with
  | Node v _ ch =>
    (match v with TableCell => cell_ok par gp ix | _ => true end)
    && forallb_ix (fun i c => cells_ok_at (Some v) par i c) ch 0
  end.
Definition cells_ok (t : node) : bool := cells_ok_at None None 0 t.

(* S-leaf: the literal kinds are leaves *)
Fixpoint literal_leaves (n : node) : bool :=
  match n with
  | Node v _ ch =>
    (match spec_text v with Some _ => match ch with [] => true | _ => false end | None => true end)
    && forallb literal_leaves ch
  end.

Definition shape_ok (t : node) : bool := cells_ok t && literal_leaves t.

(* ------------------------------------------------------------------ indentation *)
(* the longest run of SPACE that begins a line and is followed by LT (a tag written by the
   renderer: inside character data LT is always escaped) *)
Fixpoint lead_spaces (s : bytes) : nat * bytes :=
  match s with
  | b :: r => if beqb b x20 then let (n, t) := lead_spaces r in (S n, t) else (O, s)
  | [] => (O, [])
  end.

Fixpoint max_tag_indent_from (bol : bool) (s : bytes) (best : nat) : nat :=
  match s with
  | [] => best
  | b :: r =>
    let best' :=
      if bol then
        let (n, t) := lead_spaces s in
        match t with c :: _ => if beqb c x3c then Nat.max best n else best | [] => best end
      else best in
    max_tag_indent_from (beqb b x0a) r best'
  end.
Definition max_tag_indent (s : bytes) : nat := max_tag_indent_from true s 0.
