(* Spec/EscapeSpec.v — what C19 demands of the escaping helpers, written from the property text
   and the HTML syntax, not from comrak: per-byte escaping functions, the decoders, the
   href output language, a start-tag lexer, UTF-8 validity. *)
From Coq Require Import List NArith Bool Strings.String.
From V Require Import Base.Bytes.
Import ListNotations.
Local Open Scope string_scope.
Local Open Scope list_scope.

(* ---- text escaper ---- *)
Definition amp_ent  : bytes := Eval compute in B "&amp;".
Definition lt_ent   : bytes := Eval compute in B "&lt;".
Definition gt_ent   : bytes := Eval compute in B "&gt;".
Definition quot_ent : bytes := Eval compute in B "&quot;".
Definition apos_ent : bytes := Eval compute in B "&#x27;".

Definition esc1_spec (b : byte) : bytes :=
  if beqb b x22 then quot_ent
  else if beqb b x26 then amp_ent
  else if beqb b x3c then lt_ent
  else if beqb b x3e then gt_ent
  else [b].

Definition escape_spec (s : bytes) : bytes := flat_map esc1_spec s.

(* A decoder that accepts exactly the four entities; any other ampersand (or a raw LT, GT, QUOTE) is an error. *)
Fixpoint html_unescape_skip (skip : nat) (s : bytes) : option bytes :=
  match s with
  | [] => match skip with O => Some [] | S _ => None end
  | b :: r =>
    match skip with
    | S k => html_unescape_skip k r                (* inside an entity already recognised *)
    | O =>
      if beqb b x26 then
        if starts_with s amp_ent then option_map (cons x26) (html_unescape_skip 4 r)
        else if starts_with s lt_ent then option_map (cons x3c) (html_unescape_skip 3 r)
        else if starts_with s gt_ent then option_map (cons x3e) (html_unescape_skip 3 r)
        else if starts_with s quot_ent then option_map (cons x22) (html_unescape_skip 5 r)
        else None
      else if beqb b x3c || beqb b x3e || beqb b x22 then None
      else option_map (cons b) (html_unescape_skip 0 r)
    end
  end.
Definition html_unescape (s : bytes) : option bytes := html_unescape_skip 0 s.

Definition no_active_byte (b : byte) : bool := negb (beqb b x3c || beqb b x3e || beqb b x22).

(* ---- href escaper ---- *)
(* URL-safe set as the property / cmark-gfm documents it: alphanumerics and -_.+!*(),%#@?=;:/$~ *)
Definition url_safe_punct : bytes := Eval compute in B "-_.+!*(),%#@?=;:/$~".
Definition url_safe_spec (b : byte) : bool :=
  is_upper b || is_lower b || is_digit b || mem_byte b url_safe_punct.

Definition is_upper_hex (b : byte) : bool := is_digit b || in_range 65 70 b.

(* recogniser of (safe | %HH | &amp; | &#x27;)*.  Since the percent sign and the hex digits are
   themselves in the safe set, and so are the bytes that follow the ampersand in the two entities,
   this is: every byte is URL-safe, except an ampersand, which must begin one of the two entities. *)
Fixpoint href_wf (s : bytes) : bool :=
  match s with
  | [] => true
  | b :: r =>
    (if beqb b x26 then starts_with s amp_ent || starts_with s apos_ent else url_safe_spec b)
    && href_wf r
  end.

(* per-byte spec of the href escaper *)
Definition href1_spec (b : byte) : bytes :=
  if url_safe_spec b then [b]
  else if beqb b x26 then amp_ent
  else if beqb b x27 then apos_ent
  else x25 :: hex2 b.

Definition escape_href_spec (s : bytes) : bytes := flat_map href1_spec s.

(* the decoder: percent-hex-hex to byte, the two entities to their character, everything else literal *)
Fixpoint href_decode_skip (skip : nat) (s : bytes) : option bytes :=
  match s with
  | [] => match skip with O => Some [] | S _ => None end
  | b :: r =>
    match skip with
    | S k => href_decode_skip k r
    | O =>
      if beqb b x26 then
        if starts_with s amp_ent then option_map (cons x26) (href_decode_skip 4 r)
        else if starts_with s apos_ent then option_map (cons x27) (href_decode_skip 5 r)
        else None
      else if beqb b x25 then
        match r with
        | h :: l :: _ =>
          match hex_val h, hex_val l with
          | Some hv, Some lv => option_map (cons (byte_of_N (hv * 16 + lv))) (href_decode_skip 2 r)
          | _, _ => option_map (cons b) (href_decode_skip 0 r)
          end
        | _ => option_map (cons b) (href_decode_skip 0 r)
        end
      else option_map (cons b) (href_decode_skip 0 r)
    end
  end.
Definition href_decode (s : bytes) : option bytes := href_decode_skip 0 s.

Definition is_hex (b : byte) : bool := match hex_val b with Some _ => true | None => false end.

(* no percent sign of s is followed by two hex digits *)
Fixpoint no_pct_hex (s : bytes) : bool :=
  match s with
  | [] => true
  | b :: r =>
    (if beqb b x25 then
       match r with
       | h :: l :: _ => negb (is_hex h && is_hex l)
       | _ => true
       end
     else true) && no_pct_hex r
  end.

(* ---- start-tag lexer: LT name, then (SP name EQ QUOTE value QUOTE)*, then GT ---- *)
Definition name_byte (b : byte) : bool :=
  is_upper b || is_lower b || is_digit b || beqb b x2d || beqb b x5f || beqb b x3a.
Definition name_ok (n : bytes) : bool :=
  match n with [] => false | _ => forallb name_byte n end.

Fixpoint take_name (s : bytes) : bytes * bytes :=
  match s with
  | b :: r => if name_byte b then let (n, t) := take_name r in (b :: n, t) else ([], s)
  | [] => ([], [])
  end.

(* value up to the closing quote; a raw LT or GT inside a value makes the tag malformed for our purposes *)
Fixpoint take_value (s : bytes) : option (bytes * bytes) :=
  match s with
  | [] => None
  | b :: r =>
    if beqb b x22 then Some ([], r)
    else if beqb b x3c || beqb b x3e then None
    else match take_value r with Some (v, t) => Some (b :: v, t) | None => None end
  end.

(* attribute list; fuel bounds the number of attributes (each consumes at least one byte) *)
Fixpoint lex_attrs (fuel : nat) (s : bytes) : option (list (bytes * bytes) * bytes) :=
  match fuel with
  | O => None
  | S f =>
    match s with
    | [] => None
    | c :: r =>
      if beqb c x3e then Some ([], r)
      else if beqb c x20 then
        let (n, t) := take_name r in
        if name_ok n then
          match t with
          | e :: q :: t' =>
            if beqb e x3d && beqb q x22 then
              match take_value t' with
              | Some (v, t'') =>
                match html_unescape v with
                | Some dv =>
                  match lex_attrs f t'' with
                  | Some (l, rest) => Some ((n, dv) :: l, rest)
                  | None => None
                  end
                | None => None
                end
              | None => None
              end
            else None
          | _ => None
          end
        else None
      else None
    end
  end.

(* returns (tag, decoded attributes, remaining input) *)
Definition lex_start_tag (s : bytes) : option (bytes * list (bytes * bytes) * bytes) :=
  match s with
  | c :: r =>
    if beqb c x3c then
      let (n, t) := take_name r in
      if name_ok n then
        match lex_attrs (S (List.length t)) t with
        | Some (attrs, rest) => Some (n, attrs, rest)
        | None => None
        end
      else None
    else None
  | [] => None
  end.

(* ---- UTF-8 validity (RFC 3629 table 3-7 of Unicode) ---- *)
Definition cont (b : byte) : bool := in_range 128 191 b.

Inductive ust := U0 | U1 | U2 | U2e0 | U2ed | U3 | U3f0 | U3f4.

Definition ustep (st : ust) (b : byte) : option ust :=
  match st with
  | U0 =>
    if is_ascii b then Some U0
    else if in_range 194 223 b then Some U1
    else if beqb b xe0 then Some U2e0
    else if beqb b xed then Some U2ed
    else if in_range 224 239 b then Some U2
    else if beqb b xf0 then Some U3f0
    else if beqb b xf4 then Some U3f4
    else if in_range 241 243 b then Some U3
    else None
  | U1 => if cont b then Some U0 else None
  | U2 => if cont b then Some U1 else None
  | U2e0 => if in_range 160 191 b then Some U1 else None
  | U2ed => if in_range 128 159 b then Some U1 else None
  | U3 => if cont b then Some U2 else None
  | U3f0 => if in_range 144 191 b then Some U2 else None
  | U3f4 => if in_range 128 143 b then Some U2 else None
  end.

Fixpoint utf8_run (st : ust) (s : bytes) : bool :=
  match s with
  | [] => match st with U0 => true | _ => false end
  | b :: r => match ustep st b with Some st' => utf8_run st' r | None => false end
  end.
Definition utf8_valid (s : bytes) : bool := utf8_run U0 s.
