(* Spec/HtmlSpec.v — what C02 / C10 / C18 / C15 demand of HTML output, written from the property
   text and the HTML syntax, not from comrak.
   Part A: predicates over renderer events (used by the theorems about Model/Html.v).
   Part B: a strict lexer of comrak's output language over BYTES plus token-level predicates; these
   are extracted and evaluated on the real implementation's output on every run. *)
From Coq Require Import List NArith Bool Strings.String.
From V Require Import Base.Bytes Base.Res Model.Ast Model.Html Spec.EscapeSpec.
Import ListNotations.
Local Open Scope string_scope.
Local Open Scope list_scope.

(* ------------------------------------------------------------------ vocabulary *)
(* every element comrak may emit without plugins, with the attribute names it may carry
   (data-sourcepos is allowed everywhere and is listed once) *)
Definition vocab : list (string * list string) :=
  [("p", ["class"]); ("h1", []); ("h2", []); ("h3", []); ("h4", []); ("h5", []); ("h6", []);
   ("a", ["href"; "title"; "aria-hidden"; "class"; "id"; "data-wikilink"; "data-footnote-ref";
          "data-footnote-backref"; "data-footnote-backref-idx"; "aria-label"]);
   ("blockquote", []); ("em", []); ("strong", []); ("del", []);
   ("code", ["class"; "data-meta"; "data-math-style"]);
   ("pre", ["lang"; "data-meta"; "data-math-style"]);
   ("ul", ["class"]); ("ol", ["class"; "start"]); ("li", ["class"; "id"]);
   ("hr", []); ("br", []); ("img", ["src"; "alt"; "title"]);
   ("table", []); ("thead", []); ("tbody", []); ("tr", []); ("th", ["align"]); ("td", ["align"]);
   ("input", ["type"; "class"; "checked"; "disabled"]);
   ("section", ["class"; "data-footnotes"]); ("sup", ["class"]); ("sub", []); ("u", []);
   ("span", ["class"; "data-escaped-char"; "data-math-style"]); ("div", ["class"]);
   ("dl", []); ("dt", []); ("dd", []); ("figure", []); ("figcaption", [])].

Definition void_tags : list string := ["hr"; "br"; "img"; "input"].

Definition lookup_tag (t : bytes) : option (list string) :=
  match find (fun p => bytes_eqb (B (fst p)) t) vocab with
  | Some p => Some (snd p)
  | None => None
  end.

Definition attr_allowed (t n : bytes) : bool :=
  bytes_eqb n sp_name ||
  match lookup_tag t with
  | Some l => existsb (fun a => bytes_eqb (B a) n) l
  | None => false
  end.

Definition is_void_tag (t : bytes) : bool := existsb (fun v => bytes_eqb (B v) t) void_tags.

(* ------------------------------------------------------------------ dangerous URLs (spec) *)
Fixpoint ci_starts (s p : bytes) {struct p} : bool :=
  match p, s with
  | [], _ => true
  | y :: p', x :: s' => beqb (to_lower_ascii x) y && ci_starts s' p'
  | _ :: _, [] => false
  end.

Definition dangerous_spec (u : bytes) : bool :=
  ci_starts u (B "javascript:") || ci_starts u (B "vbscript:") || ci_starts u (B "file:") ||
  (ci_starts u (B "data:") &&
   negb (ci_starts u (B "data:image/png") || ci_starts u (B "data:image/gif") ||
         ci_starts u (B "data:image/jpeg") || ci_starts u (B "data:image/webp"))).

(* ------------------------------------------------------------------ Part A: events *)
Definition not_sp (a : attr) : bool := match a with SpAttr _ => false | _ => true end.

Definition erase_sp (e : ev) : ev :=
  match e with
  | Open t a => Open t (filter not_sp a)
  | Void t a => Void t (filter not_sp a)
  | _ => e
  end.

(* stack discipline over Open/Close; everything else is inert *)
Fixpoint nest (stack : list bytes) (evs : list ev) : option (list bytes) :=
  match evs with
  | [] => Some stack
  | Open t _ :: r => nest (t :: stack) r
  | Close t :: r =>
    match stack with
    | t' :: s => if bytes_eqb t t' then nest s r else None
    | [] => None
    end
  | _ :: r => nest stack r
  end.

Definition well_nested (evs : list ev) : bool :=
  match nest [] evs with Some [] => true | _ => false end.

(* bytes that may appear raw in text or inside a double-quoted attribute value *)
Definition inert_byte (b : byte) : bool :=
  negb (beqb b x3c || beqb b x3e || beqb b x22 || beqb b x26).

Definition part_safe (p : part) : bool :=
  match p with
  | PEsc _ => true
  | PHref _ => true
  | PConst b => forallb inert_byte b
  | PPre b => match html_unescape b with Some _ => true | None => false end
  end.

Definition is_url_attr (n : bytes) : bool := bytes_eqb n (B "href") || bytes_eqb n (B "src").

(* a URL attribute value: empty, or one escape_href'ed non-dangerous URL, or a fragment reference
   (constant starting with '#') *)
Definition url_value_safe (v : list part) : bool :=
  match v with
  | [] => true
  | [PHref u] => negb (dangerous_spec u)
  | PConst c :: r => (match c with x23 :: _ => true | _ => false end) && forallb part_safe v
  | _ => false
  end.

Definition attr_safe (t : bytes) (a : attr) : bool :=
  match a with
  | SpAttr _ => true
  | BAttr n => attr_allowed t n
  | Attr n v => attr_allowed t n && forallb part_safe v && (if is_url_attr n then url_value_safe v else true)
  end.

Definition safe_ev (e : ev) : bool :=
  match e with
  | Open t a => (match lookup_tag t with Some _ => true | None => false end) && negb (is_void_tag t) && forallb (attr_safe t) a
  | Void t a => is_void_tag t && forallb (attr_safe t) a
  | Close t => (match lookup_tag t with Some _ => true | None => false end) && negb (is_void_tag t)
  | Txt _ => true
  | Lit b => forallb inert_byte b
  | RawHtml b => forallb inert_byte b
  | Cmt => true
  | Cr => true
  end.

(* tree shape clause S7: no Raw nodes; EscapedTag payloads are inert *)
Fixpoint s7 (n : node) : bool :=
  match n with
  | Node v _ ch =>
    (match v with
     | Raw _ => false
     | EscapedTag l => forallb inert_byte l
     | _ => true
     end) && forallb s7 ch
  end.

(* ---- statement-level definitions for the corollaries of C02 ---- *)
(* payloads of the RawHtml events, in order *)
Definition raws (e : list ev) : list bytes :=
  flat_map (fun x => match x with RawHtml b => [b] | _ => [] end) e.
(* literals of the node kinds whose payload the renderer writes as is *)
Definition raw_lit (v : node_value) : list bytes :=
  match v with EscapedTag l => [l] | Raw l => [l] | _ => [] end.
Fixpoint raw_lits (n : node) : list bytes :=
  match n with Node v _ ch => raw_lit v ++ flat_map raw_lits ch end.

Definition attrs_of (e : ev) : list attr :=
  match e with Open _ a => a | Void _ a => a | _ => [] end.

(* the three shapes of a URL attribute value: empty, one escape_href'ed URL that is not dangerous,
   or a fragment reference starting with a constant '#...' *)
Definition url_shape (v : list part) : Prop :=
  v = [] \/
  (exists u, v = [PHref u] /\ dangerous_spec u = false) \/
  (exists c r, v = PConst (x23 :: c) :: r /\ forallb part_safe v = true).

(* tree shape clause S4: heading levels are 1..6 (ATX scanner #{1,6}, setext 1 or 2).  The
   renderer writes the tag h<level> for whatever level the tree carries, so without S4 the tag
   need not be in the vocabulary (it is still made of inert bytes). *)
Fixpoint s4 (n : node) : bool :=
  match n with
  | Node v _ ch =>
    (match v with
     | Heading level _ => (1 <=? level)%N && (level <=? 6)%N
     | _ => true
     end) && forallb s4 ch
  end.

(* ------------------------------------------------------------------ Part B: bytes *)
Inductive tok :=
| TOpen (name : bytes) (attrs : list (bytes * option bytes))   (* value still in escaped form *)
| TVoid (name : bytes) (attrs : list (bytes * option bytes))
| TClose (name : bytes)
| TText (b : bytes)
| TCmt.

Definition tag_byte (b : byte) : bool := is_lower b || is_upper b || is_digit b || beqb b x2d.
Definition attrname_byte (b : byte) : bool := is_lower b || is_digit b || beqb b x2d.

Fixpoint span (p : byte -> bool) (s : bytes) : bytes * bytes :=
  match s with
  | b :: r => if p b then let (a, t) := span p r in (b :: a, t) else ([], s)
  | [] => ([], [])
  end.

(* value up to the closing quote; raw '<' '>' inside a value are rejected *)
Fixpoint lex_value (s : bytes) : option (bytes * bytes) :=
  match s with
  | [] => None
  | b :: r =>
    if beqb b x22 then Some ([], r)
    else if beqb b x3c || beqb b x3e then None
    else match lex_value r with Some (v, t) => Some (b :: v, t) | None => None end
  end.

(* after the tag name: ( SP name ( EQ QUOTE value QUOTE )? )* ( SP SLASH )? GT *)
Fixpoint lex_tag_attrs (fuel : nat) (s : bytes) (acc : list (bytes * option bytes))
  : option (list (bytes * option bytes) * bool * bytes) :=
  match fuel with
  | O => None
  | S f =>
    match s with
    | c :: r =>
      if beqb c x3e then Some (rev acc, false, r)
      else if beqb c x20 then
        match r with
        | d :: r' =>
          if beqb d x2f then
            match r' with
            | e :: r'' => if beqb e x3e then Some (rev acc, true, r'') else None
            | [] => None
            end
          else
            let (n, t) := span attrname_byte r in
            match n with
            | [] => None
            | _ =>
              match t with
              | e :: q :: t' =>
                if beqb e x3d then
                  if beqb q x22 then
                    match lex_value t' with
                    | Some (v, t'') => lex_tag_attrs f t'' ((n, Some v) :: acc)
                    | None => None
                    end
                  else None
                else lex_tag_attrs f t ((n, None) :: acc)
              | _ => lex_tag_attrs f t ((n, None) :: acc)
              end
            end
        | [] => None
        end
      else None
    | [] => None
    end
  end.

Fixpoint html_lex_go (fuel : nat) (s : bytes) (acc : list tok) : option (list tok) :=
  match fuel with
  | O => None
  | S f =>
    match s with
    | [] => Some (rev acc)
    | c :: r =>
      if beqb c x3c then
        if starts_with s omitted then html_lex_go f (skipn (List.length omitted) s) (TCmt :: acc)
        else
          match r with
          | d :: r' =>
            if beqb d x2f then
              let (n, t) := span tag_byte r' in
              match n, t with
              | _ :: _, e :: t' => if beqb e x3e then html_lex_go f t' (TClose n :: acc) else None
              | _, _ => None
              end
            else
              let (n, t) := span tag_byte r in
              match n with
              | [] => None
              | _ =>
                match lex_tag_attrs (S (List.length t)) t [] with
                | Some (attrs, void, t') => html_lex_go f t' ((if void then TVoid n attrs else TOpen n attrs) :: acc)
                | None => None
                end
              end
          | [] => None
          end
      else
        let (txt, t) := span (fun b => negb (beqb b x3c)) s in
        html_lex_go f t (TText txt :: acc)
    end
  end.

Definition html_lex (s : bytes) : option (list tok) := html_lex_go (S (List.length s)) s [].

(* text between tags: no raw GT or QUOTE, every ampersand begins one of the four entities *)
Definition text_ok (b : bytes) : bool :=
  match html_unescape b with Some _ => true | None => false end.

(* attribute value (escaped form): entities of the text escaper plus the href escaper's &#x27; *)
Fixpoint value_ok_skip (skip : nat) (s : bytes) : bool :=
  match s with
  | [] => match skip with O => true | S _ => false end
  | b :: r =>
    match skip with
    | S k => value_ok_skip k r
    | O =>
      if beqb b x26 then
        if starts_with s amp_ent then value_ok_skip 4 r
        else if starts_with s lt_ent then value_ok_skip 3 r
        else if starts_with s gt_ent then value_ok_skip 3 r
        else if starts_with s quot_ent then value_ok_skip 5 r
        else if starts_with s apos_ent then value_ok_skip 5 r
        else false
      else value_ok_skip 0 r
    end
  end.
Definition value_ok (s : bytes) : bool := value_ok_skip 0 s.

(* decode &amp; in a URL value for the scheme test (only the prefix matters) *)
Definition tok_attr_ok (t : bytes) (a : bytes * option bytes) : bool :=
  let (n, v) := a in
  attr_allowed t n &&
  match v with
  | None => true
  | Some v => value_ok v && (if is_url_attr n then negb (dangerous_spec v) else true)
  end.

Definition tok_safe (k : tok) : bool :=
  match k with
  | TOpen t a => (match lookup_tag t with Some _ => true | None => false end) && negb (is_void_tag t) && forallb (tok_attr_ok t) a
  | TVoid t a => is_void_tag t && forallb (tok_attr_ok t) a
  | TClose t => (match lookup_tag t with Some _ => true | None => false end) && negb (is_void_tag t)
  | TText b => text_ok b
  | TCmt => true
  end.

Fixpoint tok_nest (stack : list bytes) (ts : list tok) : option (list bytes) :=
  match ts with
  | [] => Some stack
  | TOpen t _ :: r => tok_nest (t :: stack) r
  | TClose t :: r =>
    match stack with
    | t' :: s => if bytes_eqb t t' then tok_nest s r else None
    | [] => None
    end
  | _ :: r => tok_nest stack r
  end.

(* the checks run on real output: 0 = ok, 1 = does not lex, 2 = unsafe token, 3 = not balanced *)
Definition html_safe_check (s : bytes) : N :=
  match html_lex s with
  | None => 1
  | Some ts => if forallb tok_safe ts then 0 else 2
  end%N.

Definition html_balanced_check (s : bytes) : N :=
  match html_lex s with
  | None => 1
  | Some ts => match tok_nest [] ts with Some [] => 0 | _ => 3 end
  end%N.

(* delete every data-sourcepos attribute, token-wise, and print the tokens back *)
Definition tok_attr_bytes (a : bytes * option bytes) : bytes :=
  match a with
  | (n, Some v) => [x20] ++ n ++ [x3d; x22] ++ v ++ [x22]
  | (n, None) => [x20] ++ n
  end.
Definition tok_bytes (k : tok) : bytes :=
  match k with
  | TOpen t a => [x3c] ++ t ++ flat_map tok_attr_bytes a ++ [x3e]
  | TVoid t a => [x3c] ++ t ++ flat_map tok_attr_bytes a ++ [x20; x2f; x3e]
  | TClose t => [x3c; x2f] ++ t ++ [x3e]
  | TText b => b
  | TCmt => omitted
  end.
Definition drop_sp_attr (k : tok) : tok :=
  let keep (a : bytes * option bytes) := negb (bytes_eqb (fst a) sp_name) in
  match k with
  | TOpen t a => TOpen t (filter keep a)
  | TVoid t a => TVoid t (filter keep a)
  | _ => k
  end.
Definition strip_sourcepos (s : bytes) : option bytes :=
  match html_lex s with
  | Some ts => Some (flat_map tok_bytes (map drop_sp_attr ts))
  | None => None
  end.
(* printing the tokens back without change must reproduce the input (sanity of the lexer on the
   input at hand; evaluated together with strip_sourcepos) *)
Definition relex_identity (s : bytes) : bool :=
  match html_lex s with
  | Some ts => bytes_eqb (flat_map tok_bytes ts) s
  | None => false
  end.
