(* Spec/Doc.v — C03: the construct grammar of CommonMark 0.31.2 + GFM (tables, strikethrough, task
   items, footnotes, autolinks) as an inductive type, its canonical spelling (`write`), the HTML the
   specifications prescribe for it (`ref_html`) and the intended syntax tree (`tree_of`).

   Everything here is written from the specification texts (section numbers of CommonMark 0.31.2 /
   GFM 0.29 in the comments), not from comrak.  For the two extensions that have no specification
   (footnotes; loose task items) the documented output of cmark-gfm is followed, and said so.

   `canonical d = true` rules out exactly the spellings whose reading would depend on a precedence
   or tie-breaking rule; every exclusion carries its reason. *)
From Coq Require Import List NArith Bool Strings.String.
From V Require Import Base.Bytes Model.Ast Spec.EscapeSpec.
Import ListNotations.
Local Open Scope string_scope.
Local Open Scope list_scope.

(* ====================================================================== alphabets *)
Definition is_alnum (b : byte) : bool := is_upper b || is_lower b || is_digit b.

(* ASCII punctuation (spec 2.1): 21-2f 3a-40 5b-60 7b-7e *)
Definition is_apunct (b : byte) : bool :=
  in_range 33 47 b || in_range 58 64 b || in_range 91 96 b || in_range 123 126 b.

(* Punctuation bytes that are special in NO position of any construct used here: , ; ? / % { } ' QUOTE ^
   (^ is special only directly after an opening bracket, footnotes; `canonical` looks at that place).
   Excluded on purpose, reachable through IEsc only:  ! # $ & ( ) * + - . : < = > @ [ \ ] _ ` | ~
   ('.' and ':' and '@' because of the GFM autolink extension, '-' '+' '#' '>' '=' because of block
   starts and setext underlines at the beginning of a line). *)
Definition safe_punct : bytes := Eval compute in B ",;?/%{}'""^".
Definition safe_ascii (b : byte) : bool := is_alnum b || mem_byte b safe_punct.

(* Words may also contain three non-ASCII letters (two- and three-byte UTF-8): e-acute c3 a9,
   E-acute c3 89, han e6 bc a2.  A little automaton keeps the encoding well formed:
   state 0 = between characters, 1 = after c3, 2 = after e6, 3 = after e6 bc. *)
Fixpoint scan (ok : byte -> bool) (st : nat) (s : bytes) : bool :=
  match s with
  | [] => Nat.eqb st 0
  | b :: r =>
    match st with
    | 0 => if ok b then scan ok 0 r
           else if beqb b xc3 then scan ok 1 r
           else if beqb b xe6 then scan ok 2 r
           else false
    | 1 => (beqb b xa9 || beqb b x89) && scan ok 0 r
    | 2 => beqb b xbc && scan ok 3 r
    | _ => beqb b xa2 && scan ok 0 r
    end
  end.

Definition nonempty {A} (l : list A) : bool := match l with [] => false | _ => true end.
Definition safe_word (w : bytes) : bool := nonempty w && scan safe_ascii 0 w.

(* labels of reference definitions: letters and digits (plus the non-ASCII letters) *)
Definition label_ok (l : bytes) : bool :=
  nonempty l && scan is_alnum 0 l &&
  (* a one-letter label x would make the shortcut reference look like a task marker (GFM 5.3) *)
  negb (bytes_eqb l [x78]) && negb (bytes_eqb l [x58]).
(* footnote labels: lower-case letters and digits (no specification: no case variants) *)
Definition fn_label_ok (l : bytes) : bool := nonempty l && forallb (fun b => is_lower b || is_digit b) l.

(* case folding of labels (spec 6.3 matching of labels): ASCII + E-acute *)
Fixpoint fold_label (s : bytes) : bytes :=
  match s with
  | [] => []
  | b :: r =>
    match r with
    | b1 :: r' => if beqb b xc3 && beqb b1 x89 then xc3 :: xa9 :: fold_label r'
                  else to_lower_ascii b :: fold_label r
    | [] => [to_lower_ascii b]
    end
  end.

(* link destinations and titles *)
Definition url_punct : bytes := Eval compute in B "/:.-_~?=#%+,;@!$*'&".
Definition url_ascii (b : byte) : bool := is_alnum b || mem_byte b url_punct.
Definition url_ascii_angle (b : byte) : bool := url_ascii b || beqb b x20 || beqb b x28 || beqb b x29.
Definition title_punct : bytes := Eval compute in B " ,;?/%{}'""<>&()\*_".
Definition title_ascii (b : byte) : bool := is_alnum b || mem_byte b title_punct.
Definition info_punct : bytes := Eval compute in B "+-.#_".
Definition info_ascii (b : byte) : bool := is_alnum b || mem_byte b info_punct.
Definition printable (b : byte) : bool := in_range 32 126 b.

Record dest := mkDest { d_url : bytes; d_angle : bool; d_title : option (nat * bytes) }.
Record refdef := mkDef { rd_label : bytes; rd_dest : dest }.

Definition dest_ok (d : dest) : bool :=
  (if d_angle d then scan url_ascii_angle 0 (d_url d)
   else nonempty (d_url d) && scan url_ascii 0 (d_url d)) &&
  match d_title d with
  | None => true
  | Some (q, t) => Nat.ltb q 3 && nonempty t && scan title_ascii 0 t
  end.

(* ====================================================================== inlines *)
Inductive rstyle := RFull | RCollapsed | RShortcut.

Inductive inline :=
| IStr (w : bytes)                     (* a word over the safe alphabet *)
| IEsc (c : byte)                      (* backslash-escaped ASCII punctuation (2.4) *)
| IEnt (k : nat)                       (* entity / numeric reference number k of ent_table (2.5) *)
| ISp                                  (* one space *)
| ISoft                                (* soft line break (6.8) *)
| IHard (bs : bool)                    (* hard line break: backslash / two spaces (6.7) *)
| IEm (us : bool) (l : list inline)    (* emphasis with * or _ (6.2) *)
| IStrong (us : bool) (l : list inline)
| IDel (l : list inline)               (* strikethrough ~~ (GFM 6.5) *)
| ICode (t : bytes)                    (* code span (6.1) *)
| ILink (l : list inline) (d : dest)   (* inline link (6.3) *)
| IImg (l : list inline) (d : dest)    (* image (6.4) *)
| IRef (img : bool) (st : rstyle) (l : list inline) (label : bytes)  (* reference link / image *)
| IAuto (email : bool) (url : bytes)   (* autolink (6.5) *)
| IFoot (label : bytes).               (* footnote reference *)

Section inline_ind2.
  Variable P : inline -> Prop.
  Hypothesis Hstr : forall w, P (IStr w).
  Hypothesis Hesc : forall c, P (IEsc c).
  Hypothesis Hent : forall k, P (IEnt k).
  Hypothesis Hsp : P ISp.
  Hypothesis Hsoft : P ISoft.
  Hypothesis Hhard : forall b, P (IHard b).
  Hypothesis Hem : forall us l, Forall P l -> P (IEm us l).
  Hypothesis Hstrong : forall us l, Forall P l -> P (IStrong us l).
  Hypothesis Hdel : forall l, Forall P l -> P (IDel l).
  Hypothesis Hcode : forall t, P (ICode t).
  Hypothesis Hlink : forall l d, Forall P l -> P (ILink l d).
  Hypothesis Himg : forall l d, Forall P l -> P (IImg l d).
  Hypothesis Href : forall img st l lb, Forall P l -> P (IRef img st l lb).
  Hypothesis Hauto : forall e u, P (IAuto e u).
  Hypothesis Hfoot : forall lb, P (IFoot lb).
  Fixpoint inline_ind2 (i : inline) : P i :=
    let go := fix go (l : list inline) : Forall P l :=
                match l with [] => Forall_nil P | x :: r => Forall_cons x (inline_ind2 x) (go r) end in
    match i with
    | IStr w => Hstr w | IEsc c => Hesc c | IEnt k => Hent k | ISp => Hsp | ISoft => Hsoft
    | IHard b => Hhard b
    | IEm us l => Hem us l (go l) | IStrong us l => Hstrong us l (go l) | IDel l => Hdel l (go l)
    | ICode t => Hcode t
    | ILink l d => Hlink l d (go l) | IImg l d => Himg l d (go l)
    | IRef im st l lb => Href im st l lb (go l)
    | IAuto e u => Hauto e u | IFoot lb => Hfoot lb
    end.
End inline_ind2.

(* entity table: source spelling, expansion (2.5; the replacement character for &#0;) *)
Definition ent_table : list (bytes * bytes) := Eval compute in
  [ (B "&amp;", B "&"); (B "&lt;", B "<"); (B "&gt;", B ">"); (B "&quot;", [x22]);
    (B "&copy;", [xc2; xa9]); (B "&auml;", [xc3; xa4]); (B "&#35;", B "#"); (B "&#x22;", [x22]);
    (B "&#42;", B "*"); (B "&nbsp;", [xc2; xa0]); (B "&#0;", [xef; xbf; xbd]); (B "&#1234;", [xd3; x92]);
    (B "&ouml;", [xc3; xb6]); (B "&#X5F;", B "_"); (B "&ne;", [xe2; x89; xa0]); (B "&#96;", B "`") ].
Definition ent_src (k : nat) : bytes := fst (nth k ent_table ([], [])).
Definition ent_exp (k : nat) : bytes := snd (nth k ent_table ([], [])).

(* ---- spelling of inlines ---- *)
Fixpoint max_run (c : byte) (s : bytes) (cur best : nat) : nat :=
  match s with
  | [] => Nat.max cur best
  | b :: r => if beqb b c then max_run c r (S cur) best else max_run c r 0 (Nat.max cur best)
  end.
(* 6.1: a backtick string one longer than the longest one inside *)
Definition code_ticks (t : bytes) : nat := S (max_run x60 t 0 0).
Definition all_spaces (t : bytes) : bool := forallb (beqb x20) t.
(* 6.1: one space is stripped on both sides when both are there and the content is not all spaces;
   so a space is added on both sides when the text begins or ends with a backtick, or begins and
   ends with a space without being all spaces *)
Definition code_pad (t : bytes) : bool :=
  negb (all_spaces t) &&
  (beqb (hd x00 t) x60 || beqb (last t x00) x60 || (beqb (hd x00 t) x20 && beqb (last t x00) x20)).
(* GFM 4.10: a pipe inside a table cell is written with a backslash, also inside code spans *)
Definition esc_pipes (tbl : bool) (t : bytes) : bytes :=
  if tbl then flat_map (fun b => if beqb b x7c then [x5c; x7c] else [b]) t else t.

Definition w_url (u : bytes) : bytes := flat_map (fun b => if beqb b x26 then amp_ent else [b]) u.
Definition w_title (qt : nat * bytes) : bytes :=
  let (q, t) := qt in
  let (o, c) := match q with 0 => (x22, x22) | 1 => (x27, x27) | _ => (x28, x29) end in
  [o] ++ flat_map (fun b => if beqb b x26 then amp_ent
                            else if beqb b o || beqb b c || beqb b x5c then [x5c; b] else [b]) t ++ [c].
Definition w_dest (d : dest) : bytes :=
  (if d_angle d then [x3c] ++ w_url (d_url d) ++ [x3e] else w_url (d_url d)) ++
  match d_title d with None => [] | Some qt => [x20] ++ w_title qt end.

Definition em_char (us : bool) : byte := if us then x5f else x2a.

Fixpoint w_inl (tbl : bool) (i : inline) : bytes :=
  match i with
  | IStr w => w
  | IEsc c => [x5c; c]
  | IEnt k => ent_src k
  | ISp => [x20]
  | ISoft => [x0a]
  | IHard bs => if bs then [x5c; x0a] else [x20; x20; x0a]
  | IEm us l => [em_char us] ++ flat_map (w_inl tbl) l ++ [em_char us]
  | IStrong us l => [em_char us; em_char us] ++ flat_map (w_inl tbl) l ++ [em_char us; em_char us]
  | IDel l => [x7e; x7e] ++ flat_map (w_inl tbl) l ++ [x7e; x7e]
  | ICode t =>
    let n := code_ticks t in
    let pad := if code_pad t then [x20] else [] in
    repeat_bytes n x60 ++ pad ++ esc_pipes tbl t ++ pad ++ repeat_bytes n x60
  | ILink l d => [x5b] ++ flat_map (w_inl tbl) l ++ [x5d; x28] ++ w_dest d ++ [x29]
  | IImg l d => [x21; x5b] ++ flat_map (w_inl tbl) l ++ [x5d; x28] ++ w_dest d ++ [x29]
  | IRef img st l lb =>
    (if img then [x21] else []) ++ [x5b] ++ flat_map (w_inl tbl) l ++ [x5d] ++
    match st with
    | RFull => [x5b] ++ lb ++ [x5d]
    | RCollapsed => [x5b; x5d]
    | RShortcut => []
    end
  | IAuto _ u => [x3c] ++ u ++ [x3e]
  | IFoot lb => [x5b; x5e] ++ lb ++ [x5d]
  end.
Definition w_inls (tbl : bool) (l : list inline) : bytes := flat_map (w_inl tbl) l.

Definition first_b (tbl : bool) (i : inline) : byte := hd x20 (w_inl tbl i).
Definition last_b (tbl : bool) (i : inline) : byte := last (w_inl tbl i) x20.

(* ---- flanking (6.2) ---- *)
Inductive cls := CW | CP | CA.
Definition cls_of (b : byte) : cls :=
  if beqb b x20 || beqb b x0a then CW else if is_apunct b then CP else CA.
Definition isW c := match c with CW => true | _ => false end.
Definition isP c := match c with CP => true | _ => false end.
Definition left_fl (p n : cls) : bool := negb (isW n) && (negb (isP n) || isW p || isP p).
Definition right_fl (p n : cls) : bool := negb (isW p) && (negb (isP p) || isW n || isP n).
Definition can_open (c : byte) (p n : cls) : bool :=
  if beqb c x5f then left_fl p n && (negb (right_fl p n) || isP p) else left_fl p n.
Definition can_close (c : byte) (p n : cls) : bool :=
  if beqb c x5f then right_fl p n && (negb (left_fl p n) || isP n) else right_fl p n.

(* context of an inline *)
Record ictx := mkIctx {
  x_tbl : bool;            (* inside a table cell *)
  x_breaks : bool;         (* line breaks allowed (paragraph, setext heading) *)
  x_in_link : bool;        (* inside link text: no links (6.3: links may not contain links) *)
  x_in_img : bool;         (* inside an image description *)
  x_fn_ok : bool;          (* footnote references allowed here *)
  x_no_fn : bool;          (* the document has no footnote definitions *)
  x_labels : list bytes;   (* folded labels of the reference definitions *)
  x_fnlabels : list bytes; (* labels of the footnote definitions *)
  x_encl : list (byte * nat) (* delimiter runs (character, length) of the enclosing emphasis up to the nearest bracket *)
}.
Definition cx_set_encl (cx : ictx) (e : list (byte * nat)) : ictx :=
  mkIctx (x_tbl cx) (x_breaks cx) (x_in_link cx) (x_in_img cx) (x_fn_ok cx) (x_no_fn cx) (x_labels cx) (x_fnlabels cx) e.
Definition cx_link (cx : ictx) : ictx :=
  mkIctx (x_tbl cx) (x_breaks cx) true (x_in_img cx) false (x_no_fn cx) (x_labels cx) (x_fnlabels cx) [].
Definition cx_img (cx : ictx) : ictx :=
  mkIctx (x_tbl cx) (x_breaks cx) (x_in_link cx) true false (x_no_fn cx) (x_labels cx) (x_fnlabels cx) [].

(* a sequence of inlines between the bytes p and n: each element is checked between the last byte
   of its left neighbour and the first byte of its right neighbour *)
Definition chain (tbl : bool) (f : byte -> byte -> inline -> bool) : byte -> list inline -> byte -> bool :=
  fix go (p : byte) (l : list inline) (n : byte) {struct l} : bool :=
    match l with
    | [] => true
    | x :: r => f p (match r with [] => n | y :: _ => first_b tbl y end) x && go (last_b tbl x) r n
    end.

Definition mem_bytes (x : bytes) (l : list bytes) : bool := existsb (bytes_eqb x) l.

(* Delimiter run of length k of character c opening (resp. closing) an emphasis whose content
   begins with byte n1 (resp. ends with byte p1); p / n are the bytes outside.
   - the run must not touch another run of the same character (it would be one longer run);
   - it must be able to open (close) by the flanking rules;
   - if an OPENING run can also close, then with every enclosing run of the same character the
     sum of lengths must be a multiple of 3 (rule 9/10 of 6.2, the rule of three, then forbids the
     wrong match; lengths are 1 or 2, so both being multiples of three does not occur);
     a closing run that can also open is harmless: the nearest unmatched opener of that character is
     its own, of the same length, and 2 and 4 are not multiples of 3. *)
Definition opener_ok (c : byte) (k : nat) (encl : list (byte * nat)) (p n1 : byte) : bool :=
  negb (beqb p c) && negb (beqb n1 c) &&
  can_open c (cls_of p) (cls_of n1) &&
  (negb (can_close c (cls_of p) (cls_of n1)) ||
   forallb (fun e => negb (beqb (fst e) c) || Nat.eqb (Nat.modulo (k + snd e) 3) 0) encl).
Definition closer_ok (c : byte) (p1 n : byte) : bool :=
  negb (beqb p1 c) && negb (beqb n c) && can_close c (cls_of p1) (cls_of n).

Definition email_local (b : byte) : bool := is_alnum b.
(* scheme autolinks: one of five schemes, then URL characters without & (6.5 leaves entity handling
   in autolinks open) ; email autolinks: alnum+ @ alnum+ ( . alnum+ )*  *)
Definition auto_schemes : list bytes := Eval compute in [B "http://"; B "https://"; B "ftp://"; B "mailto:"; B "irc:"].
Fixpoint strip_prefix (p s : bytes) {struct p} : option bytes :=
  match p with
  | [] => Some s
  | a :: p' => match s with b :: s' => if beqb a b then strip_prefix p' s' else None | [] => None end
  end.
Definition auto_url_ok (u : bytes) : bool :=
  existsb (fun sch => match strip_prefix sch u with
                      | Some rest => forallb (fun b => url_ascii b && negb (beqb b x26)) rest
                      | None => false end) auto_schemes.
(* state 0: local part, nothing yet; 1: in local part; 2: just after @ or . ; 3: inside a domain label *)
Fixpoint email_scan (st : nat) (s : bytes) : bool :=
  match s with
  | [] => Nat.eqb st 3
  | b :: r =>
    match st with
    | 0 => is_alnum b && email_scan 1 r
    | 1 => if is_alnum b then email_scan 1 r else beqb b x40 && email_scan 2 r
    | 2 => is_alnum b && email_scan 3 r
    | _ => if is_alnum b then email_scan 3 r else beqb b x2e && email_scan 2 r
    end
  end.

Definition is_ws_b (b : byte) : bool := beqb b x20 || beqb b x0a.
Definition is_str1 (l : list inline) (lb : bytes) : bool :=
  match l with [IStr w] => bytes_eqb w lb | _ => false end.
(* description / link text beginning with ^ : reads as a footnote label when there are footnotes *)
Definition caret_ok (cx : ictx) (tbl : bool) (l : list inline) : bool :=
  x_no_fn cx || negb (beqb (hd x20 (w_inls tbl l)) x5e).

Fixpoint canon_i (cx : ictx) (p n : byte) (i : inline) {struct i} : bool :=
  let tbl := x_tbl cx in
  match i with
  | IStr w => safe_word w
  | IEsc c => is_apunct c
  | IEnt k => Nat.ltb k (List.length ent_table)
  (* spaces: single, interior, not next to a line break (leading / trailing spaces of a line are
     stripped, 4.8; two spaces before a line ending are a hard break, 6.7) *)
  | ISp => negb (is_ws_b p) && negb (is_ws_b n)
  | ISoft => x_breaks cx && negb (is_ws_b p) && negb (is_ws_b n)
  | IHard _ => x_breaks cx && negb (is_ws_b p) && negb (is_ws_b n)
  | IEm us l =>
    let c := em_char us in
    let generic :=
      nonempty l &&
      opener_ok c 1 (x_encl cx) p (hd x20 (w_inls tbl l)) &&
      closer_ok c (last (w_inls tbl l) x20) n &&
      chain tbl (canon_i (cx_set_encl cx ((c, 1) :: x_encl cx))) c l c in
    match l with
    | [IStrong us2 l2] =>
      if Bool.eqb us us2 then
        (* one run of THREE on each side: emphasis whose only content is strong emphasis written with
           the same character (6.2: ***strong emph*** is <em><strong>..</strong></em>, also inside a
           word for the asterisk, where both runs can open and close and the lengths, both multiples of
           three, are exempt from the rule of three).  The flanking tests are those of the run as a whole *)
        nonempty l2 &&
        opener_ok c 3 (x_encl cx) p (hd x20 (w_inls tbl l2)) &&
        closer_ok c (last (w_inls tbl l2) x20) n &&
        chain tbl (canon_i (cx_set_encl cx ((c, 3) :: x_encl cx))) c l2 c
      else generic
    | _ => generic
    end
  | IStrong us l =>
    let c := em_char us in
    nonempty l &&
    opener_ok c 2 (x_encl cx) p (hd x20 (w_inls tbl l)) &&
    closer_ok c (last (w_inls tbl l) x20) n &&
    chain tbl (canon_i (cx_set_encl cx ((c, 2) :: x_encl cx))) c l c
  | IDel l =>
    nonempty l &&
    opener_ok x7e 2 (x_encl cx) p (hd x20 (w_inls tbl l)) &&
    closer_ok x7e (last (w_inls tbl l) x20) n &&
    chain tbl (canon_i (cx_set_encl cx ((x7e, 2) :: x_encl cx))) x7e l x7e
  (* code spans: non-empty, printable ASCII or the non-ASCII letters, no line endings; in a table
     cell no backslash (GFM 4.10 turns backslash-pipe into a pipe there) *)
  | ICode t => nonempty t && scan printable 0 t && (negb tbl || negb (mem_byte x5c t)) &&
               (* 6.1: a backtick string is neither preceded nor followed by a backtick *)
               negb (beqb p x60) && negb (beqb n x60)
  | ILink l d =>
    negb (x_in_link cx) && dest_ok d && caret_ok cx tbl l &&
    chain tbl (canon_i (cx_link cx)) x5b l x5d
  | IImg l d =>
    dest_ok d && caret_ok cx tbl l &&
    chain tbl (canon_i (cx_img cx)) x5b l x5d
  | IRef img st l lb =>
    (img || negb (x_in_link cx)) && label_ok lb && mem_bytes (fold_label lb) (x_labels cx) &&
    caret_ok cx tbl l &&
    match st with
    | RFull => true
    | RCollapsed => is_str1 l lb
    (* 6.3: a shortcut reference must not be followed by [ (or by a parenthesis) *)
    | RShortcut => is_str1 l lb && negb (beqb n x5b) && negb (beqb n x28)
    end &&
    chain tbl (canon_i (if img then cx_img cx else cx_link cx)) x5b l x5d
  | IAuto email u => negb (x_in_link cx) && (if email then email_scan 0 u else auto_url_ok u)
  (* a footnote reference directly followed by [ would read as a full reference link (6.3) *)
  | IFoot lb => x_fn_ok cx && mem_bytes lb (x_fnlabels cx) && negb (beqb n x5b)
  end.

Definition canon_inls (cx : ictx) (p : byte) (l : list inline) (n : byte) : bool :=
  chain (x_tbl cx) (canon_i cx) p l n.

(* ====================================================================== blocks *)
Inductive block :=
| BPara (l : list inline)                                   (* 4.8 *)
| BAtx (lvl : nat) (closing : nat) (l : list inline)       (* 4.2; closing = length of the closing sequence, 0 = none *)
| BSetext (lvl2 : bool) (l : list inline)                   (* 4.3 *)
| BHr (c : byte) (n : nat) (sp : bool)                      (* 4.1 *)
| BFence (tilde : bool) (len : nat) (info : bytes) (lines : list bytes)  (* 4.5 *)
| BIndent (lines : list bytes)                              (* 4.4 *)
| BQuote (bs : list block)                                  (* 5.1 *)
| BBullet (tight : bool) (marker : byte) (items : list block)       (* 5.2, 5.3: items are BItem *)
| BOrdered (tight : bool) (start : N) (paren : bool) (items : list block)
| BItem (task : option bool) (bs : list block)              (* list item; Some checked = task item (GFM 5.3) *)
| BHtml (k : nat)                                           (* 4.6: one of the fixed shapes html_shapes *)
| BTable (al : list align) (hdr : list (list inline)) (rows : list (list (list inline)))  (* GFM 4.10 *)
| BFn (label : bytes) (bs : list block).                    (* footnote definition *)

Section block_ind2.
  Variable P : block -> Prop.
  Hypothesis Hpara : forall l, P (BPara l).
  Hypothesis Hatx : forall a b l, P (BAtx a b l).
  Hypothesis Hsetext : forall a l, P (BSetext a l).
  Hypothesis Hhr : forall a b c, P (BHr a b c).
  Hypothesis Hfence : forall a b c d, P (BFence a b c d).
  Hypothesis Hindent : forall l, P (BIndent l).
  Hypothesis Hquote : forall bs, Forall P bs -> P (BQuote bs).
  Hypothesis Hbullet : forall t m bs, Forall P bs -> P (BBullet t m bs).
  Hypothesis Hordered : forall t s d bs, Forall P bs -> P (BOrdered t s d bs).
  Hypothesis Hitem : forall t bs, Forall P bs -> P (BItem t bs).
  Hypothesis Hhtml : forall k, P (BHtml k).
  Hypothesis Htable : forall a h r, P (BTable a h r).
  Hypothesis Hfn : forall lb bs, Forall P bs -> P (BFn lb bs).
  Fixpoint block_ind2 (b : block) : P b :=
    let go := fix go (l : list block) : Forall P l :=
                match l with [] => Forall_nil P | x :: r => Forall_cons x (block_ind2 x) (go r) end in
    match b with
    | BPara l => Hpara l | BAtx a b l => Hatx a b l | BSetext a l => Hsetext a l | BHr a b c => Hhr a b c
    | BFence a b c d => Hfence a b c d | BIndent l => Hindent l
    | BQuote bs => Hquote bs (go bs) | BBullet t m bs => Hbullet t m bs (go bs)
    | BOrdered t s d bs => Hordered t s d bs (go bs) | BItem t bs => Hitem t bs (go bs)
    | BHtml k => Hhtml k | BTable a h r => Htable a h r | BFn lb bs => Hfn lb bs (go bs)
    end.
End block_ind2.

Record doc := mkDoc { defs : list refdef; defs_first : bool; body : list block }.

(* HTML blocks (4.6): start condition number, lines.  1: pre (contains a blank line), 2: comment,
   3: processing instruction, 4: declaration, 5: CDATA, 6: block-level tag, 7: any complete open tag *)
Definition html_shapes : list (N * list bytes) := Eval compute in
  [ (6%N, [B "<div>"; B "*hello*"; B "</div>"]);
    (2%N, [B "<!-- a"; B ""; B "comment -->"]);
    (1%N, [B "<pre>"; B "code"; B ""; B "more & <b>"; B "</pre>"]);
    (3%N, [B "<?php echo 1; ?>"]);
    (4%N, [B "<!DOCTYPE html>"]);
    (5%N, [B "<![CDATA["; B "x < y"; B "]]>"]);
    (7%N, [B "<a href=""x"">"; B "*t*"; B "</a>"]);
    (6%N, [B "<table>"; B "  <tr><td>x</td></tr>"; B "</table>"]) ].
Definition html_type (k : nat) : N := fst (nth k html_shapes (0%N, [])).
Definition html_lines (k : nat) : list bytes := snd (nth k html_shapes (0%N, [])).

Definition unlines (ls : list bytes) : bytes := flat_map (fun l => l ++ [x0a]) ls.

(* ---- spelling of blocks: a list of lines ---- *)
Fixpoint split_lines_aux (s : bytes) (cur : bytes) : list bytes :=
  match s with
  | [] => [rev cur]
  | b :: r => if beqb b x0a then rev cur :: split_lines_aux r [] else split_lines_aux r (b :: cur)
  end.
Definition split_lines (s : bytes) : list bytes := split_lines_aux s [].

Definition spaces (n : nat) : bytes := repeat_bytes n x20.
Fixpoint join_blocks (tight : bool) (parts : list (list bytes)) : list bytes :=
  match parts with
  | [] => []
  | [p] => p
  | p :: r => p ++ (if tight then [] else [[]]) ++ join_blocks tight r
  end.
(* first line after the marker, the others indented by its width (5.2); blank lines stay empty *)
Definition attach (m : bytes) (ls : list bytes) : list bytes :=
  match ls with
  | [] => [m]
  | l0 :: r => (m ++ l0) :: map (fun l => match l with [] => [] | _ => spaces (List.length m) ++ l end) r
  end.
Definition quote_line (l : bytes) : bytes := match l with [] => [x3e] | _ => [x3e; x20] ++ l end.

Definition hr_line (c : byte) (n : nat) (sp : bool) : bytes :=
  if sp then c :: flat_map (fun b => [x20; b]) (repeat_bytes (pred n) c) else repeat_bytes n c.
Definition w_cell (l : list inline) : bytes := w_inls true l.
Definition w_row (cells : list (list inline)) : bytes :=
  [x7c] ++ flat_map (fun c => [x20] ++ w_cell c ++ [x20; x7c]) cells.
Definition w_align (a : align) : bytes :=
  match a with ANone => B "---" | ALeft => B ":--" | ARight => B "--:" | ACenter => B ":-:" end.
Definition w_delim_row (al : list align) : bytes :=
  [x7c] ++ flat_map (fun a => [x20] ++ w_align a ++ [x20; x7c]) al.

Fixpoint number_from (k : N) (l : list (list bytes)) : list (N * list bytes) :=
  match l with [] => [] | x :: r => (k, x) :: number_from (k + 1)%N r end.

Definition task_mark (t : option bool) : bytes :=
  match t with None => [] | Some false => B "[ ] " | Some true => B "[x] " end.

(* `tight` = tightness of the list the block is an item of (only read by BItem) *)
Fixpoint w_block (tight : bool) (b : block) : list bytes :=
  match b with
  | BPara l => split_lines (w_inls false l)
  | BAtx lvl closing l =>
    [repeat_bytes lvl x23 ++ (match l with [] => [] | _ => [x20] ++ w_inls false l end) ++
     (match closing with 0 => [] | _ => [x20] ++ repeat_bytes closing x23 end)]
  | BSetext lvl2 l => split_lines (w_inls false l) ++ [if lvl2 then B "---" else B "==="]
  | BHr c n sp => [hr_line c n sp]
  | BFence tilde len info lines =>
    let f := repeat_bytes len (if tilde then x7e else x60) in
    [f ++ info] ++ lines ++ [f]
  | BIndent lines => map (fun l => spaces 4 ++ l) lines
  | BQuote bs => map quote_line (join_blocks false (map (w_block false) bs))
  | BBullet t m items => join_blocks t (map (fun it => attach [m; x20] (w_block t it)) items)
  | BOrdered t start paren items =>
    join_blocks t (map (fun ni => attach (dec (fst ni) ++ [if paren then x29 else x2e; x20]) (snd ni))
                       (number_from start (map (w_block t) items)))
  | BItem task bs =>
    match join_blocks tight (map (w_block false) bs) with
    | [] => [task_mark task]
    | l0 :: r => (task_mark task ++ l0) :: r
    end
  | BHtml k => html_lines k
  | BTable al hdr rows => [w_row hdr; w_delim_row al] ++ map w_row rows
  | BFn lb bs =>
    (* continuation lines of a footnote definition are indented by four spaces *)
    match join_blocks false (map (w_block false) bs) with
    | [] => [[x5b; x5e] ++ lb ++ [x5d; x3a]]
    | l0 :: r => ([x5b; x5e] ++ lb ++ [x5d; x3a; x20] ++ l0) ::
                 map (fun l => match l with [] => [] | _ => spaces 4 ++ l end) r
    end
  end.

Definition w_def (d : refdef) : bytes := [x5b] ++ rd_label d ++ [x5d; x3a; x20] ++ w_dest (rd_dest d).

Definition write_lines (d : doc) : list bytes :=
  let bl := join_blocks false (map (w_block false) (body d)) in
  let dl := map w_def (defs d) in
  match dl, bl with
  | [], _ => bl
  | _, [] => dl
  | _, _ => if defs_first d then dl ++ [[]] ++ bl else bl ++ [[]] ++ dl
  end.
Definition write (d : doc) : bytes := unlines (write_lines d).

(* ====================================================================== canonical: blocks *)
Definition cx_mode (cx : ictx) (tbl breaks : bool) : ictx :=
  mkIctx tbl breaks (x_in_link cx) (x_in_img cx) (x_fn_ok cx) (x_no_fn cx) (x_labels cx) (x_fnlabels cx) [].
Definition cx_nofn (cx : ictx) : ictx :=
  mkIctx (x_tbl cx) (x_breaks cx) (x_in_link cx) (x_in_img cx) false (x_no_fn cx) (x_labels cx) (x_fnlabels cx) [].

Definition is_para (b : block) : bool := match b with BPara _ => true | _ => false end.
Definition is_item (b : block) : bool := match b with BItem _ _ => true | _ => false end.
Definition is_fn (b : block) : bool := match b with BFn _ _ => true | _ => false end.

(* does the block end with a paragraph that is still open (a following text line would be a lazy
   continuation line, 5.1 / 5.2) *)
Fixpoint ends_open_para (b : block) : bool :=
  let lastp := fix lastp (l : list block) : bool :=
                 match l with [] => false | [x] => ends_open_para x | _ :: r => lastp r end in
  match b with
  | BPara _ => true
  | BQuote bs => lastp bs
  | BBullet _ _ bs => lastp bs
  | BOrdered _ _ _ bs => lastp bs
  | BItem _ bs => lastp bs
  | BFn _ bs => lastp bs
  | _ => false
  end.

(* 5.3: two adjacent lists of the same type (same bullet character / same delimiter) are one list *)
Definition same_list_type (a b : block) : bool :=
  match a, b with
  | BBullet _ m _, BBullet _ m' _ => beqb m m'
  | BOrdered _ _ d _, BOrdered _ _ d' _ => Bool.eqb d d'
  | _, _ => false
  end.

(* may b directly follow a among the children of one container?  Siblings are separated by one blank
   line, except inside the items of a tight list, where nothing separates them. *)
Definition pair_ok (tight : bool) (a b : block) : bool :=
  negb (same_list_type a b) &&
  (* indented code after a list / footnote definition would be a continuation paragraph of its last
     item (5.2); two indented blocks separated by a blank line are one block (4.4) *)
  match b with
  | BIndent _ => match a with BBullet _ _ _ | BOrdered _ _ _ _ | BIndent _ | BFn _ _ => false | _ => true end
  | _ => true
  end &&
  (negb tight ||
   match b with
   | BPara _ => negb (ends_open_para a)                              (* lazy continuation / same paragraph *)
   | BOrdered _ s _ _ => (s =? 1)%N || negb (ends_open_para a)       (* 5.2: only a list starting at 1 interrupts a paragraph *)
   | BQuote _ => match a with BQuote _ => false | _ => true end      (* consecutive quote lines are one quote *)
   | _ => true
   end).
Fixpoint pairs_ok (tight : bool) (l : list block) : bool :=
  match l with
  | a :: r => match r with b :: _ => pair_ok tight a b | [] => true end && pairs_ok tight r
  | [] => true
  end.
(* blocks that can stand in an item of a tight list (no blank line before them): those that can
   interrupt a paragraph and end by themselves.  Excluded: setext headings, thematic breaks (would be
   setext underlines), indented code (cannot interrupt a paragraph), HTML blocks 6/7 and tables (end
   at a blank line only). *)
Definition tight_kind (b : block) : bool :=
  match b with
  | BPara _ | BAtx _ _ _ | BFence _ _ _ _ | BQuote _ | BBullet _ _ _ | BOrdered _ _ _ _ => true
  | _ => false
  end.

(* first child of a list item: not a thematic break made of * or - (the line would be a thematic break or a
   setext underline itself, 4.1 precedence); a task item begins with a paragraph (GFM 5.3).  Indented code
   first is canonical (5.2 rule 2): the writer puts exactly one space after the marker, then the four
   spaces of the code line, and indents the continuation lines by marker width + 1 — the spelling rule 2
   prescribes (`-     code`, `1.     code`); not in a task item *)
Definition item_first_ok (task : option bool) (bs : list block) : bool :=
  match bs with
  | [] => false                                    (* empty items excluded *)
  | BIndent _ :: _ => match task with None => true | _ => false end
  | BHr c _ _ :: _ => beqb c x5f && match task with None => true | _ => false end
  | b :: _ => match task with Some _ => is_para b | None => true end
  end.

Definition words_ok (ok : byte -> bool) (s : bytes) : bool :=
  (* words over ok separated by single spaces; may be empty *)
  match s with
  | [] => true
  | _ => negb (beqb (hd x20 s) x20) && negb (beqb (last s x20) x20) &&
         forallb (fun b => ok b || beqb b x20) s &&
         (fix nodbl (l : bytes) : bool :=
            match l with a :: r => match r with b :: _ => negb (beqb a x20 && beqb b x20) | [] => true end && nodbl r | [] => true end) s
  end.
Fixpoint drop_spaces (s : bytes) : bytes :=
  match s with b :: r => if beqb b x20 then drop_spaces r else s | [] => [] end.
(* a content line of a fenced block must not look like a closing fence (4.5); conservative: after
   any indentation it does not begin with three fence characters *)
Definition fence_line_ok (c : byte) (l : bytes) : bool :=
  scan printable 0 l && negb (starts_with (drop_spaces l) [c; c; c]).

Definition cell_ok (cx : ictx) (c : list inline) : bool := canon_inls (cx_mode cx true false) x20 c x20.

Definition loose_witness (items : list block) : bool :=
  Nat.leb 2 (List.length items) ||
  existsb (fun it => match it with BItem _ bs => Nat.leb 2 (List.length bs) | _ => false end) items.

(* as_item: Some t = the block is an item of a list of tightness t; top: directly in the document *)
Fixpoint canon_b (cx : ictx) (top : bool) (as_item : option bool) (b : block) {struct b} : bool :=
  match b with
  | BItem task bs =>
    match as_item with
    | None => false
    | Some t =>
      item_first_ok task bs && pairs_ok t bs && (negb t || forallb tight_kind bs) &&
      forallb (canon_b cx false None) bs
    end
  | _ =>
    match as_item with Some _ => false | None =>
    match b with
    | BPara l => nonempty l && canon_inls (cx_mode cx false true) x0a l x0a
    | BAtx lvl closing l =>
      Nat.leb 1 lvl && Nat.leb lvl 6 &&
      match l with [] => Nat.eqb closing 0 | _ => true end &&
      canon_inls (cx_mode cx false false) x20 l (match closing with 0 => x0a | _ => x20 end)
    | BSetext _ l => nonempty l && canon_inls (cx_mode cx false true) x0a l x0a
    | BHr c n _ => (beqb c x2a || beqb c x2d || beqb c x5f) && Nat.leb 3 n
    | BFence tilde len info lines =>
      Nat.leb 3 len && words_ok info_ascii info &&
      forallb (fence_line_ok (if tilde then x7e else x60)) lines
    | BIndent lines =>
      nonempty lines && forallb (fun l => scan printable 0 l && negb (all_spaces l)) lines
    | BQuote bs => nonempty bs && pairs_ok false bs && forallb (canon_b cx false None) bs
    | BBullet t m items =>
      (beqb m x2d || beqb m x2b || beqb m x2a) && nonempty items && (t || loose_witness items) &&
      forallb (canon_b cx false (Some t)) items
    | BOrdered t start _ items =>
      nonempty items && (t || loose_witness items) &&
      (start + N.of_nat (List.length items) <=? 999999999)%N &&      (* 5.2: at most nine digits *)
      forallb (canon_b cx false (Some t)) items
    | BItem _ _ => false
    | BHtml k => Nat.ltb k (List.length html_shapes)
    | BTable al hdr rows =>
      nonempty al && Nat.eqb (List.length hdr) (List.length al) &&
      forallb (fun c => nonempty c && cell_ok cx c) hdr &&
      forallb (fun r => Nat.eqb (List.length r) (List.length al) && forallb (cell_ok cx) r) rows
    | BFn lb bs =>
      top && fn_label_ok lb &&
      match bs with BPara _ :: _ => true | _ => false end &&
      pairs_ok false bs && forallb (canon_b (cx_nofn cx) false None) bs
    end end
  end.

(* ---- footnote references in document order ---- *)
Fixpoint fr_inl (i : inline) : list bytes :=
  match i with
  | IFoot lb => [lb]
  | IEm _ l | IStrong _ l | IDel l | ILink l _ | IImg l _ | IRef _ _ l _ => flat_map fr_inl l
  | _ => []
  end.
Definition fr_inls (l : list inline) : list bytes := flat_map fr_inl l.
Fixpoint fr_block (b : block) : list bytes :=
  match b with
  | BPara l | BAtx _ _ l | BSetext _ l => fr_inls l
  | BQuote bs | BBullet _ _ bs | BOrdered _ _ _ bs | BItem _ bs => flat_map fr_block bs
  | BTable _ hdr rows => flat_map fr_inls hdr ++ flat_map (flat_map fr_inls) rows
  | BFn _ _ => []      (* canonical footnote bodies hold no references; definitions leave the flow *)
  | _ => []
  end.
Definition cnt_i (i : inline) : nat := List.length (fr_inl i).
Definition cnt_l (l : list inline) : nat := List.length (fr_inls l).
Definition cnt_b (b : block) : nat := List.length (fr_block b).

Definition fn_labels (bs : list block) : list bytes :=
  flat_map (fun b => match b with BFn lb _ => [lb] | _ => [] end) bs.
Fixpoint nodup_b (l : list bytes) : bool :=
  match l with [] => true | x :: r => negb (mem_bytes x r) && nodup_b r end.

Definition def_ok (r : refdef) : bool := label_ok (rd_label r) && dest_ok (rd_dest r).

Definition doc_cx (d : doc) : ictx :=
  let fls := fn_labels (body d) in
  mkIctx false false false false true (negb (nonempty fls))
         (map (fun r => fold_label (rd_label r)) (defs d)) fls [].

Definition canonical (d : doc) : bool :=
  let fls := fn_labels (body d) in
  forallb def_ok (defs d) &&
  pairs_ok false (body d) && forallb (canon_b (doc_cx d) true None) (body d) &&
  (* footnote labels pairwise distinct, each referenced at least once (an unreferenced definition is
     dropped by cmark-gfm; no specification says so) *)
  nodup_b fls && forallb (fun l => mem_bytes l (flat_map fr_block (body d))) fls.

(* ====================================================================== reference HTML *)
Record env := mkEnv { e_defs : list refdef; e_refs : list bytes }.

(* 6.3: the first matching definition takes precedence *)
Definition lookup_def (E : env) (lb : bytes) : dest :=
  match find (fun r => bytes_eqb (fold_label (rd_label r)) (fold_label lb)) (e_defs E) with
  | Some r => rd_dest r
  | None => mkDest [] false None
  end.

Fixpoint dedup (seen : list bytes) (l : list bytes) : list bytes :=
  match l with
  | [] => []
  | x :: r => if mem_bytes x seen then dedup seen r else x :: dedup (x :: seen) r
  end.
Fixpoint index_of (x : bytes) (l : list bytes) (i : N) : N :=
  match l with [] => i | y :: r => if bytes_eqb x y then i else index_of x r (i + 1)%N end.
Definition count_b (x : bytes) (l : list bytes) : nat := List.length (filter (bytes_eqb x) l).
(* number of the footnote = rank of its first reference; number of the reference among those to the same note *)
Definition fr_ix (refs : list bytes) (lb : bytes) : N := index_of lb (dedup [] refs) 1%N.
Definition fr_num (refs : list bytes) (k : nat) (lb : bytes) : N := N.of_nat (S (count_b lb (firstn k refs))).

Definition thread {X A} (f : nat -> X -> A) (cnt : X -> nat) : nat -> list X -> list A :=
  fix go (k : nat) (l : list X) {struct l} : list A :=
    match l with [] => [] | x :: r => f k x :: go (k + cnt x) r end.

(* 6.4: the plain string content of the image description *)
Fixpoint alt_inl (i : inline) : bytes :=
  match i with
  | IStr w => w
  | IEsc c => [c]
  | IEnt k => ent_exp k
  | ISp | ISoft | IHard _ => [x20]
  | IEm _ l | IStrong _ l | IDel l | ILink l _ | IImg l _ | IRef _ _ l _ => flat_map alt_inl l
  | ICode t => t
  | IAuto _ u => u
  | IFoot _ => []
  end.

Definition title_of (d : dest) : bytes := match d_title d with None => [] | Some (_, t) => t end.
(* a title attribute is printed when there is a (non-empty) title *)
Definition title_attr (t : bytes) : bytes :=
  match t with [] => [] | _ => B " title=""" ++ escape_spec t ++ [x22] end.
Definition r_title (d : dest) : bytes := title_attr (title_of d).
Definition r_link (d : dest) (body : bytes) : bytes :=
  B "<a href=""" ++ escape_href_spec (d_url d) ++ [x22] ++ r_title d ++ [x3e] ++ body ++ B "</a>".
Definition r_img (d : dest) (alt : bytes) : bytes :=
  B "<img src=""" ++ escape_href_spec (d_url d) ++ B """ alt=""" ++ escape_spec alt ++ [x22] ++ r_title d ++ B " />".
Definition suffix_n (n : N) : bytes := if (1 <? n)%N then [x2d] ++ dec n else [].
(* footnote reference as cmark-gfm prints it *)
Definition r_footref (lb : bytes) (num ix : N) : bytes :=
  B "<sup class=""footnote-ref""><a href=""#fn-" ++ escape_href_spec lb ++ B """ id=""" ++
  escape_href_spec (B "fnref-" ++ lb ++ suffix_n num) ++ B """ data-footnote-ref>" ++ dec ix ++ B "</a></sup>".

Fixpoint r_inl (E : env) (k : nat) (i : inline) {struct i} : bytes :=
  match i with
  | IStr w => escape_spec w
  | IEsc c => escape_spec [c]
  | IEnt j => escape_spec (ent_exp j)
  | ISp => [x20]
  | ISoft => [x0a]
  | IHard _ => B "<br />" ++ [x0a]
  | IEm _ l => B "<em>" ++ List.concat (thread (r_inl E) cnt_i k l) ++ B "</em>"
  | IStrong _ l => B "<strong>" ++ List.concat (thread (r_inl E) cnt_i k l) ++ B "</strong>"
  | IDel l => B "<del>" ++ List.concat (thread (r_inl E) cnt_i k l) ++ B "</del>"
  | ICode t => B "<code>" ++ escape_spec t ++ B "</code>"
  | ILink l d => r_link d (List.concat (thread (r_inl E) cnt_i k l))
  | IImg l d => r_img d (flat_map alt_inl l)
  | IRef img _ l lb =>
    if img then r_img (lookup_def E lb) (flat_map alt_inl l)
    else r_link (lookup_def E lb) (List.concat (thread (r_inl E) cnt_i k l))
  | IAuto email u =>
    B "<a href=""" ++ escape_href_spec ((if email then B "mailto:" else []) ++ u) ++ B """>" ++ escape_spec u ++ B "</a>"
  | IFoot lb => r_footref lb (fr_num (e_refs E) k lb) (fr_ix (e_refs E) lb)
  end.
Definition r_inls (E : env) (k : nat) (l : list inline) : bytes := List.concat (thread (r_inl E) cnt_i k l).

Definition r_align (a : align) : bytes :=
  match a with ANone => [] | ALeft => B " align=""left""" | ARight => B " align=""right""" | ACenter => B " align=""center""" end.
Fixpoint r_cells (E : env) (tag : bytes) (k : nat) (al : list align) (cells : list (list inline)) : bytes :=
  match cells with
  | [] => []
  | c :: r =>
    [x3c] ++ tag ++ r_align (hd ANone al) ++ [x3e] ++ r_inls E k c ++ [x3c; x2f] ++ tag ++ [x3e; x0a] ++
    r_cells E tag (k + cnt_l c) (tl al) r
  end.
Definition r_row (E : env) (tag : bytes) (al : list align) (k : nat) (cells : list (list inline)) : bytes :=
  B "<tr>" ++ [x0a] ++ r_cells E tag k al cells ++ B "</tr>" ++ [x0a].
Definition cnt_row (r : list (list inline)) : nat := List.length (flat_map fr_inls r).

Definition task_input (t : option bool) : bytes :=
  match t with
  | None => []
  | Some false => B "<input type=""checkbox"" disabled="""" /> "
  | Some true => B "<input type=""checkbox"" checked="""" disabled="""" /> "
  end.

(* children of an item of a tight list: paragraphs are bare; a line ending separates a bare
   paragraph (or the opening tag) from a following block (spec examples 5.2 / 5.3) *)
Definition tight_join (f : nat -> block -> bytes) : bool -> nat -> list block -> bytes :=
  fix go (prev_inline : bool) (k : nat) (l : list block) {struct l} : bytes :=
    match l with
    | [] => []
    | x :: r => (if is_para x then [] else if prev_inline then [x0a] else []) ++ f k x ++ go (is_para x) (k + cnt_b x) r
    end.

Definition first_word (s : bytes) : bytes :=
  (fix go (l : bytes) : bytes := match l with [] => [] | b :: r => if beqb b x20 then [] else b :: go r end) s.

(* t: for an item, the tightness of its list; for other blocks, whether paragraphs are bare *)
Fixpoint r_block (E : env) (t : bool) (k : nat) (b : block) {struct b} : bytes :=
  match b with
  | BPara l => if t then r_inls E k l else B "<p>" ++ r_inls E k l ++ B "</p>" ++ [x0a]
  | BAtx lvl _ l => [x3c; x68] ++ dec (N.of_nat lvl) ++ [x3e] ++ r_inls E k l ++ [x3c; x2f; x68] ++ dec (N.of_nat lvl) ++ [x3e; x0a]
  | BSetext lvl2 l =>
    let h := if lvl2 then B "h2" else B "h1" in
    [x3c] ++ h ++ [x3e] ++ r_inls E k l ++ [x3c; x2f] ++ h ++ [x3e; x0a]
  | BHr _ _ _ => B "<hr />" ++ [x0a]
  | BFence _ _ info lines =>
    B "<pre><code" ++ (match info with [] => [] | _ => B " class=""language-" ++ escape_spec (first_word info) ++ [x22] end) ++
    [x3e] ++ escape_spec (unlines lines) ++ B "</code></pre>" ++ [x0a]
  | BIndent lines => B "<pre><code>" ++ escape_spec (unlines lines) ++ B "</code></pre>" ++ [x0a]
  | BQuote bs => B "<blockquote>" ++ [x0a] ++ List.concat (thread (r_block E false) cnt_b k bs) ++ B "</blockquote>" ++ [x0a]
  | BBullet tg _ items => B "<ul>" ++ [x0a] ++ List.concat (thread (r_block E tg) cnt_b k items) ++ B "</ul>" ++ [x0a]
  | BOrdered tg start _ items =>
    (if (start =? 1)%N then B "<ol>" else B "<ol start=""" ++ dec start ++ B """>") ++ [x0a] ++
    List.concat (thread (r_block E tg) cnt_b k items) ++ B "</ol>" ++ [x0a]
  | BItem task bs =>
    B "<li>" ++ task_input task ++
    (if t then tight_join (r_block E true) true k bs
     else (match bs with [] => [] | _ => [x0a] end) ++ List.concat (thread (r_block E false) cnt_b k bs)) ++
    B "</li>" ++ [x0a]
  | BHtml j => unlines (html_lines j)
  | BTable al hdr rows =>
    B "<table>" ++ [x0a] ++ B "<thead>" ++ [x0a] ++ r_row E (B "th") al k hdr ++ B "</thead>" ++ [x0a] ++
    (match rows with
     | [] => []
     | _ => B "<tbody>" ++ [x0a] ++ List.concat (thread (r_row E (B "td") al) cnt_row (k + cnt_row hdr) rows) ++ B "</tbody>" ++ [x0a]
     end) ++ B "</table>" ++ [x0a]
  | BFn _ _ => []
  end.

(* ---- footnote section, as cmark-gfm / comrak print it (no specification) ---- *)
Definition backref1 (lb : bytes) (ix : N) (j : N) : bytes :=
  (if (1 <? j)%N then [x20] else []) ++
  B "<a href=""#fnref-" ++ escape_href_spec lb ++ suffix_n j ++ B """ class=""footnote-backref"" data-footnote-backref data-footnote-backref-idx=""" ++
  dec ix ++ suffix_n j ++ B """ aria-label=""Back to reference " ++ dec ix ++ suffix_n j ++ B """>" ++ [xe2; x86; xa9] ++
  (if (1 <? j)%N then B "<sup class=""footnote-ref"">" ++ dec j ++ B "</sup>" else []) ++ B "</a>".
Fixpoint backrefs (lb : bytes) (ix : N) (total : nat) (j : nat) : bytes :=
  match total with O => [] | S t => backref1 lb ix (N.of_nat j) ++ backrefs lb ix t (S j) end.

Definition find_fn (lb : bytes) (bs : list block) : list block :=
  match find (fun b => match b with BFn l _ => bytes_eqb l lb | _ => false end) bs with
  | Some (BFn _ cs) => cs
  | _ => []
  end.

(* the blocks of a note; the back references go at the end of a final paragraph, else after the blocks *)
Fixpoint r_fn_blocks (E : env) (k : nat) (br : bytes) (bs : list block) : bytes :=
  match bs with
  | [] => br ++ [x0a]
  | [BPara l] => B "<p>" ++ r_inls E k l ++ [x20] ++ br ++ B "</p>" ++ [x0a]
  | b :: r => r_block E false k b ++ r_fn_blocks E (k + cnt_b b) br r
  end.
Definition r_fn_item (E : env) (bodyb : list block) (ix : N) (lb : bytes) : bytes :=
  let n := List.length (e_refs E) in
  B "<li id=""fn-" ++ escape_href_spec lb ++ B """>" ++ [x0a] ++
  r_fn_blocks E n (backrefs lb ix (count_b lb (e_refs E)) 1) (find_fn lb bodyb) ++ B "</li>" ++ [x0a].
Fixpoint r_fn_items (E : env) (bodyb : list block) (ix : N) (order : list bytes) : bytes :=
  match order with [] => [] | lb :: r => r_fn_item E bodyb ix lb ++ r_fn_items E bodyb (ix + 1)%N r end.
Definition r_fn_section (E : env) (bodyb : list block) : bytes :=
  match dedup [] (e_refs E) with
  | [] => []
  | order => B "<section class=""footnotes"" data-footnotes>" ++ [x0a] ++ B "<ol>" ++ [x0a] ++
             r_fn_items E bodyb 1%N order ++ B "</ol>" ++ [x0a] ++ B "</section>" ++ [x0a]
  end.

Definition doc_env (d : doc) : env := mkEnv (defs d) (flat_map fr_block (body d)).
Definition ref_html (d : doc) : bytes :=
  let E := doc_env d in
  List.concat (thread (r_block E false) cnt_b 0 (body d)) ++ r_fn_section E (body d).

(* ====================================================================== intended tree *)
Definition sp0 : sourcepos := mkSp 0 0 0 0.
Definition nd (v : node_value) (ch : list node) : node := Node v sp0 ch.
Fixpoint t_inl (E : env) (k : nat) (i : inline) {struct i} : node :=
  match i with
  | IStr w => nd (Text w) []
  | IEsc c => nd (Text [c]) []
  | IEnt j => nd (Text (ent_exp j)) []
  | ISp => nd (Text [x20]) []
  | ISoft => nd SoftBreak []
  | IHard _ => nd LineBreak []
  | IEm _ l => nd Emph (thread (t_inl E) cnt_i k l)
  | IStrong _ l => nd Strong (thread (t_inl E) cnt_i k l)
  | IDel l => nd Strikethrough (thread (t_inl E) cnt_i k l)
  | ICode t => nd (Code (N.of_nat (code_ticks t)) t) []
  | ILink l d => nd (Link (d_url d) (title_of d)) (thread (t_inl E) cnt_i k l)
  | IImg l d => nd (Image (d_url d) (title_of d)) (thread (t_inl E) cnt_i k l)
  | IRef img _ l lb =>
    let d := lookup_def E lb in
    nd (if img then Image (d_url d) (title_of d) else Link (d_url d) (title_of d)) (thread (t_inl E) cnt_i k l)
  | IAuto email u => nd (Link ((if email then B "mailto:" else []) ++ u) []) [nd (Text u) []]
  | IFoot lb => nd (FootnoteReference lb (fr_num (e_refs E) k lb) (fr_ix (e_refs E) lb)) []
  end.
Definition t_inls (E : env) (k : nat) (l : list inline) : list node := thread (t_inl E) cnt_i k l.

Definition t_cell (E : env) (k : nat) (c : list inline) : node := nd TableCell (t_inls E k c).
Definition t_row (E : env) (header : bool) (k : nat) (cells : list (list inline)) : node :=
  nd (TableRow header) (thread (t_cell E) cnt_l k cells).

Definition has_task (items : list block) : bool :=
  existsb (fun it => match it with BItem (Some _) _ => true | _ => false end) items.

(* li: for an item, the data of its list *)
Fixpoint t_block (E : env) (li : node_list) (k : nat) (b : block) {struct b} : node :=
  let li0 := mkList Bullet 0 0 0 Period 0 false false in
  match b with
  | BPara l => nd Paragraph (t_inls E k l)
  | BAtx lvl _ l => nd (Heading (N.of_nat lvl) false) (t_inls E k l)
  | BSetext lvl2 l => nd (Heading (if lvl2 then 2%N else 1%N) true) (t_inls E k l)
  | BHr _ _ _ => nd ThematicBreak []
  | BFence tilde len info lines =>
    nd (CodeBlock (mkCB true (if tilde then 126%N else 96%N) (N.of_nat len) 0 info (unlines lines))) []
  | BIndent lines => nd (CodeBlock (mkCB false 0 0 0 [] (unlines lines))) []
  | BQuote bs => nd BlockQuote (thread (t_block E li0) cnt_b k bs)
  | BBullet tg m items =>
    let l := mkList Bullet 0 2 1 Period (bN m) tg (has_task items) in
    nd (NList l) (thread (t_block E l) cnt_b k items)
  | BOrdered tg start paren items =>
    let l := mkList Ordered 0 (N.of_nat (List.length (dec start)) + 2) start (if paren then Paren else Period) 0 tg (has_task items) in
    nd (NList l) (thread (t_block E l) cnt_b k items)
  | BItem task bs =>
    nd (match task with None => Item li | Some c => TaskItem (if c then Some [x78] else None) end)
       (thread (t_block E li0) cnt_b k bs)
  | BHtml j => nd (HtmlBlock (html_type j) (unlines (html_lines j))) []
  | BTable al hdr rows =>
    nd (Table (mkTable (N.of_nat (List.length al)) (N.of_nat (List.length rows)) 0 al))
       (t_row E true k hdr :: thread (t_row E false) cnt_row (k + cnt_row hdr) rows)
  | BFn lb bs => nd (FootnoteDefinition lb (N.of_nat (count_b lb (e_refs E)))) (thread (t_block E li0) cnt_b (List.length (e_refs E)) bs)
  end.

Definition li_none : node_list := mkList Bullet 0 0 0 Period 0 false false.
Definition t_fn_defs (E : env) (bodyb : list block) (order : list bytes) : list node :=
  map (fun lb => t_block E li_none 0 (BFn lb (find_fn lb bodyb))) order.
Definition tree_of (d : doc) : node :=
  let E := doc_env d in
  nd Document (thread (t_block E li_none) cnt_b 0 (filter (fun b => negb (is_fn b)) (body d)) ++
               t_fn_defs E (body d) (dedup [] (e_refs E))).

(* the options the specification examples are rendered with: raw HTML passed through, nothing else *)
Definition std_opts : opts :=
  mkOpts false None true false false false false false false 0 true false 45 false false false false false false 0 false false.

(* ====================================================================== tree comparison *)
(* modulo source positions, splitting of adjacent text nodes, and list / code block / table layout
   fields that depend on the spelling only (marker offset, padding, fence offset, cell counts, the
   per-item copy of the list data) *)
Fixpoint merge_text (l : list node) : list node :=
  match l with
  | Node (Text []) _ [] :: r => merge_text r      (* empty text nodes (left by stripped trailing spaces) *)
  | Node (Text a) _ [] :: r =>
    match merge_text r with
    | Node (Text b) _ [] :: r' => Node (Text (a ++ b)) sp0 [] :: r'
    | r' => Node (Text a) sp0 [] :: r'
    end
  | x :: r => x :: merge_text r
  | [] => []
  end.
Definition norm_list (l : node_list) : node_list :=
  mkList (l_type l) 0 0 (l_start l) (match l_type l with Ordered => l_delim l | Bullet => Period end)
         (match l_type l with Bullet => l_bullet l | Ordered => 0%N end) (l_tight l) (l_task l).
Definition norm_value (v : node_value) : node_value :=
  match v with
  | NList l => NList (norm_list l)
  | Item _ => Item li_none
  | CodeBlock cb => CodeBlock (mkCB (cb_fenced cb) (cb_fence_char cb) (cb_fence_length cb) 0 (cb_info cb) (cb_literal cb))
  | Table t => Table (mkTable (t_cols t) 0 0 (t_aligns t))
  | v => v
  end.
Fixpoint norm (n : node) : node :=
  match n with Node v _ ch => Node (norm_value v) sp0 (merge_text (map norm ch)) end.

(* ====================================================================== fragment of the renderer theorem *)
(* last inline of a bare paragraph: something that prints at least one byte and no final line ending *)
Definition solid (x : inline) : bool :=
  match x with
  | IStr w => safe_word w
  | IEsc c => is_apunct c
  | IEnt k => Nat.ltb k (List.length ent_table)
  | ISp | ISoft | IHard _ => false
  | _ => true
  end.
Definition solid_end (l : list inline) : bool := match rev l with x :: _ => solid x | [] => false end.

Definition info_byte (b : byte) : bool := info_ascii b || beqb b x20.
Definition math_info : bytes := Eval compute in B "math".

(* shape needed by the renderer theorem.  as_item: the block is a list item; t: tightness (of its list
   for an item, of the list of the enclosing item otherwise).  Not covered: tables, footnote
   definitions; a fenced block whose info string is exactly math (comrak prints an extra
   data-math-style attribute for it whatever the options: known finding, see the check). *)
Fixpoint wf_b (as_item t : bool) (b : block) : bool :=
  match b with
  | BItem _ bs => as_item && forallb (wf_b false t) bs
  | BPara l => negb as_item && (negb t || solid_end l)
  | BQuote bs => negb as_item && forallb (wf_b false false) bs
  | BBullet tg _ items => negb as_item && forallb (wf_b true tg) items
  | BOrdered tg _ _ items => negb as_item && forallb (wf_b true tg) items
  | BHtml k => negb as_item && Nat.ltb k (List.length html_shapes)
  | BFence _ _ info _ => negb as_item && forallb info_byte info && negb (bytes_eqb info math_info)
  | BTable _ _ _ | BFn _ _ => false
  | _ => negb as_item
  end.


(* the fragment of the renderer theorem: no tables, no footnotes (definitions or references), no
   fenced block with the info string math; bare paragraphs end with a solid inline *)
Definition wf_doc (d : doc) : bool :=
  forallb (wf_b false false) (body d) &&
  match flat_map fr_block (body d) with [] => true | _ => false end.

