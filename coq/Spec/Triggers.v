(* Spec/Triggers.v — C13: the switchable features and, for each, the trigger strings of its syntax.

   Written from the DOCUMENTATION of the options (doc comments of ExtensionOptions / ParseOptions in
   src/parser/mod.rs, the README, the GFM spec sections they link to), not from the parser.
   A document is `free_of F` when none of F's trigger strings occurs in it as a substring; C13 says
   that switching F then changes nothing in the HTML.

   Scope.  Every boolean of ExtensionOptions, the three parse booleans, and the two Option<String>
   extension settings (header_ids with the empty prefix, front_matter_delimiter with three hyphens).
   tagfilter and header_ids act at render time; they are kept because the property speaks about the HTML
   ("each option's effect is confined to the syntax it documents"): tagfilter documents raw HTML (a
   left angle bracket), header_ids documents headings (ATX number sign, setext underlines).
   Not features: shortcodes (cargo feature, not compiled by the harness), the URL rewriters and
   broken_link_callback (closures, not switches), default_info_string (a value, not a switch). *)
From Coq Require Import List Bool Strings.String.
From V Require Import Base.Bytes.
Import ListNotations.
Local Open Scope string_scope.
Local Open Scope list_scope.

Inductive feature :=
| Strikethrough | Tagfilter | Table | Autolink | Tasklist | Superscript | HeaderIds | Footnotes
| DescriptionLists | FrontMatter | MultilineBlockQuotes | Alerts | MathDollars | MathCode
| WikilinksAfterPipe | WikilinksBeforePipe | Underline | Subscript | Spoiler | Greentext
| Smart | RelaxedTasklist | RelaxedAutolinks.

Definition all_features : list feature :=
  [Strikethrough; Tagfilter; Table; Autolink; Tasklist; Superscript; HeaderIds; Footnotes;
   DescriptionLists; FrontMatter; MultilineBlockQuotes; Alerts; MathDollars; MathCode;
   WikilinksAfterPipe; WikilinksBeforePipe; Underline; Subscript; Spoiler; Greentext;
   Smart; RelaxedTasklist; RelaxedAutolinks].

Lemma all_features_complete : forall F, In F all_features.
Proof. destruct F; simpl; tauto. Qed.

(* the key of the option in the harness's option token (tools/docgen.py, harness/src/opts.rs) *)
Definition feature_name (F : feature) : string :=
  match F with
  | Strikethrough => "strikethrough" | Tagfilter => "tagfilter" | Table => "table" | Autolink => "autolink"
  | Tasklist => "tasklist" | Superscript => "superscript" | HeaderIds => "header_ids" | Footnotes => "footnotes"
  | DescriptionLists => "description_lists" | FrontMatter => "front_matter_delimiter"
  | MultilineBlockQuotes => "multiline_block_quotes" | Alerts => "alerts" | MathDollars => "math_dollars"
  | MathCode => "math_code" | WikilinksAfterPipe => "wikilinks_title_after_pipe"
  | WikilinksBeforePipe => "wikilinks_title_before_pipe" | Underline => "underline" | Subscript => "subscript"
  | Spoiler => "spoiler" | Greentext => "greentext" | Smart => "smart"
  | RelaxedTasklist => "relaxed_tasklist_matching" | RelaxedAutolinks => "relaxed_autolinks"
  end.

(* the path of the option below `Options` (struct.field) *)
Definition option_path (F : feature) : string :=
  match F with
  | Smart | RelaxedTasklist | RelaxedAutolinks => "parse." ++ feature_name F
  | _ => "extension." ++ feature_name F
  end.

(* names under which the option is read in the source: the field itself, plus the accessor
   `ExtensionOptions::wikilinks()` that combines the two wikilink switches *)
Definition read_names (F : feature) : list string :=
  match F with
  | WikilinksAfterPipe | WikilinksBeforePipe => [option_path F; "extension.wikilinks"]
  | _ => [option_path F]
  end.

(* ------------------------------------------------------------------ trigger strings, per documentation *)
Definition triggers (F : feature) : list bytes :=
  match F with
  (* GFM strikethrough: text wrapped in one or two tildes *)
  | Strikethrough => [B "~"]
  (* "Enables subscript text using single tildes": H~2~O *)
  | Subscript => [B "~"]
  (* GFM disallowed raw HTML: acts on raw HTML tags only *)
  | Tagfilter => [B "<"]
  (* GFM tables: cells separated by pipes; the delimiter row consists of hyphens (with optional colons and
     pipes).  Leading and trailing pipes are optional in GFM, so a one-column table has no pipe at all:
     the hyphen of the delimiter row is the character no table can do without. *)
  | Table => [B "|"; B "-"]
  (* GFM extended autolinks: www. , a scheme followed by a colon (http:// https:// ftp:// ; any scheme under
     relaxed_autolinks; mailto: and xmpp: ), and e-mail addresses (at sign) *)
  | Autolink => [B ":"; B "www."; B "@"]
  | RelaxedAutolinks => [B ":"; B "www."; B "@"]
  (* GFM task list items: list item starting with a bracketed marker *)
  | Tasklist => [B "["]
  | RelaxedTasklist => [B "["]
  (* e = mc^2^ *)
  | Superscript => [B "^"]
  (* headings: ATX (number sign) or setext underline (equals signs / hyphens) *)
  | HeaderIds => [B "#"; B "="; B "-"]
  (* footnote references and definitions both start with bracket-caret *)
  | Footnotes => [B "[^"]
  (* "Details begins with a colon" *)
  | DescriptionLists => [B ":"]
  (* "begins with the delimiter string at the beginning of the file"; delimiter used by the check: three hyphens *)
  | FrontMatter => [B "---"]
  (* "Place >>> before and after text" *)
  | MultilineBlockQuotes => [B ">>>"]
  (* "> [!note]" *)
  | Alerts => [B "[!"]
  (* dollar syntax *)
  | MathDollars => [B "$"]
  (* inline: dollar-backtick ... backtick-dollar; block: a fenced code block whose info string is `math` *)
  | MathCode => [B "$`"; B "math"]
  (* [[url|label]] / [[label|url]] *)
  | WikilinksAfterPipe => [B "[["]
  | WikilinksBeforePipe => [B "[["]
  (* "underlines using double underscores" *)
  | Underline => [B "__"]
  (* "spoilers using double vertical bars" *)
  | Spoiler => [B "||"]
  (* "Requires at least one space after a > character to generate a blockquote" *)
  | Greentext => [B ">"]
  (* "Punctuation (quotes, full-stops and hyphens) are converted": straight quotes, runs of two or more
     hyphens (en/em dashes), three full stops (ellipsis) *)
  | Smart => [B "'"; B """"; B "--"; B "..."]
  end.

(* ------------------------------------------------------------------ free_of *)
Fixpoint occurs (t d : bytes) {struct d} : bool :=
  starts_with d t || match d with [] => false | _ :: d' => occurs t d' end.

Definition free_of (F : feature) (d : bytes) : bool :=
  forallb (fun t => negb (occurs t d)) (triggers F).

(* the first byte of every trigger string: a document without these bytes is certainly free_of F *)
Definition trigger_heads (F : feature) : list byte :=
  flat_map (fun t => match t with [] => [] | b :: _ => [b] end) (triggers F).

Definition free_of_heads (F : feature) (d : bytes) : bool :=
  forallb (fun b => negb (mem_byte b (trigger_heads F))) d.

(* ------------------------------------------------------------------ option sets *)
Definition feature_eqb (a b : feature) : bool := String.eqb (feature_name a) (feature_name b).

(* an option set as far as C13 is concerned: which features are on (everything else is held fixed) *)
Definition fset := feature -> bool.
Definition fset_with (F : feature) (v : bool) (o : fset) : fset :=
  fun G => if feature_eqb G F then v else o G.

(* The property, stated for an arbitrary Markdown-to-HTML function: the check evaluates it on the compiled
   library (`md html`); there is no Coq model of the whole parser, so it is NOT proved (see Props/C13.v). *)
Definition c13_full_statement (md_html : fset -> bytes -> bytes) : Prop :=
  forall F o d, free_of F d = true ->
    md_html (fset_with F true o) d = md_html (fset_with F false o) d.

(* ------------------------------------------------------------------ entry points of the extracted driver *)
Definition c13_feature_of_name (n : bytes) : option feature :=
  find (fun F => bytes_eqb (B (feature_name F)) n) all_features.

Definition c13_feature_names : list bytes := map (fun F => B (feature_name F)) all_features.

Definition c13_triggers (n : bytes) : option (list bytes) :=
  match c13_feature_of_name n with Some F => Some (triggers F) | None => None end.

Definition c13_free_of (n d : bytes) : option bool :=
  match c13_feature_of_name n with Some F => Some (free_of F d) | None => None end.

Definition c13_free_of_heads (n d : bytes) : option bool :=
  match c13_feature_of_name n with Some F => Some (free_of_heads F d) | None => None end.
