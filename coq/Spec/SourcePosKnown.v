(* Spec/SourcePosKnown.v — the known-finding classes of C11 / C12: one decidable predicate per class,
   over (source lines, failing clause, failing node with its ancestors).  A failure of a clause of
   Spec/SourcePos.v that falls in no class is a violation.  Each class is a genuine defect of the
   unchanged tree (witness in known_findings.json, replayed by the checks on every run).  The exclusions
   the property text itself grants (unreliable kinds; escape, entity, smart punctuation, NUL for the
   verbatim clause) are NOT classes: they are built into the predicates of Spec/SourcePos.v. *)
From Coq Require Import List NArith Bool Strings.String.
From V Require Import Base.Bytes Model.Ast Spec.SourcePos.
Import ListNotations.
Local Open Scope N_scope.
Local Open Scope list_scope.

Definition is_inline_kind (k : kind) : bool :=
  match k with
  | KText | KSoftBreak | KLineBreak | KCode | KHtmlInline | KRaw | KEmph | KStrong | KLink | KImage
  | KStrikethrough | KSuperscript | KFootnoteReference | KMath | KEscaped | KWikiLink | KUnderline
  | KSubscript | KSpoileredText | KEscapedTag => true
  | _ => false
  end.
Definition nkind (n : node) : kind := kind_of (nval n).
Definition is_inline (n : node) : bool := is_inline_kind (nkind n).

(* the nearest block among the node itself and its ancestors *)
Definition nearest_block (f : fail) : option node :=
  find (fun a => negb (is_inline a)) (f_node f :: f_anc f).

Definition blank_line (l : srcline) : bool := forallb (fun b => beqb b x20 || beqb b x09) (ln_body l).

(* rest of line `ln` from 1-based column c *)
Definition line_from (L : list srcline) (ln c : N) : bytes :=
  match line_at L ln with Some l => skipn (N.to_nat (c - 1)) (ln_body l) | None => [] end.

Fixpoint contains (s p : bytes) : bool :=
  starts_with s p || match s with [] => false | _ :: r => contains r p end.

Definition bom : bytes := [xef; xbb; xbf].
Definition src_has_bom (L : list srcline) : bool :=
  match L with l :: _ => starts_with (ln_body l) bom | [] => false end.

Definition is_B (f : fail) := clause_eqb (f_clause f) CBounds.
Definition is_V (f : fail) := clause_eqb (f_clause f) CSlice.
Definition is_N (f : fail) := clause_eqb (f_clause f) CNest.
Definition is_S (f : fail) := clause_eqb (f_clause f) CSibling.
Definition fsp (f : fail) : sourcepos := nsp (f_node f).

(* ---- C11-a / C12-a  end_col_zero: a block that is still open when a blank line (or the end of the
   input) finalizes it gets end = (that line, last_line_length = 0): column 0 of a blank line ---- *)
Definition cls_end_col_zero (L : list srcline) (f : fail) : bool :=
  (is_B f || is_V f) && negb (is_inline (f_node f)) && (ec (fsp f) =? 0) &&
  match line_at L (el (fsp f)) with
  | Some l => blank_line l
  | None => (el (fsp f) =? 0) || (el (fsp f) =? nlines L + 1)
  end.

(* ---- C11-b / C12-b  refdef_before_paragraph (F23): the inlines of a paragraph (or setext heading) whose
   source begins with a link reference definition are positioned as if the definitions were still there.
   Predicate: the nearest block is a Paragraph or Heading whose source, at its start position, begins
   with a left bracket and has a right bracket followed by a colon later on. ---- *)
Definition begins_with_refdef (L : list srcline) (p : node) : bool :=
  match nval p with
  | Paragraph | Heading _ _ =>
    let s := ltrim_ws (line_from L (sl (nsp p)) (sc (nsp p))) in
    ob_is (first_b s) x5b
  | _ => false
  end.
Definition cls_refdef (L : list srcline) (f : fail) : bool :=
  is_inline (f_node f) &&
  match nearest_block f with Some p => begins_with_refdef L p | None => false end.

(* ---- C11-c / C12-c  bom_line1: with a byte-order mark, start columns on line 1 count its three bytes
   and some end columns do not ---- *)
Definition cls_bom (L : list srcline) (f : fail) : bool :=
  src_has_bom L && ((sl (fsp f) =? 1) || (el (fsp f) =? 1)).

(* ---- mbq_unfinalized: when the closing fence of a multiline block quote (or multiline alert) arrives
   only its last child is finalized; deeper blocks that are still open keep the end they were created
   with, (start line, column 0) ---- *)
Definition is_mbq (n : node) : bool :=
  match nval n with MultilineBlockQuote _ _ | Alert _ => true | _ => false end.
Definition cls_mbq (L : list srcline) (f : fail) : bool :=
  negb (is_inline (f_node f)) && (ec (fsp f) =? 0) && (sl (fsp f) =? el (fsp f)) && existsb is_mbq (f_anc f).

(* ---- thematic_break_in_container: handle_thematic_break sets the end column to the number of bytes
   left after the container prefix (line.len() - 1 - offset) instead of the column of the last byte ---- *)
Definition cls_hr (L : list srcline) (f : fail) : bool :=
  match nval (f_node f), f_anc f with
  | ThematicBreak, p :: _ => negb (match nval p with Document => true | _ => false end)
  | _, _ => false
  end.

(* ---- table_empty_cell: a cell without content (adjacent pipes, or added because the row is short) has
   no text of its own; it is reported as an inverted range (start = end + 1, or end column 0) ---- *)
Definition cls_empty_cell (L : list srcline) (f : fail) : bool :=
  match f_node f with
  | Node TableCell sp [] => (sl sp =? el sp) && ((ec sp =? 0) || (ec sp + 1 =? sc sp))
  | _ => false
  end.

(* ---- table_row_indent: every row is positioned from the start column of the TABLE (the header row's
   indentation); a row that is indented differently gets columns shifted by the difference.
   Predicate: the node is, or lies in, a TableRow on whose line the table's start column is not where the
   row's text begins (blank there, or preceded by something other than blank or a quote marker) ---- *)
Definition byte_at (L : list srcline) (ln c : N) : option byte :=
  if c =? 0 then None else
  match line_at L ln with Some l => nth_error (ln_body l) (N.to_nat (c - 1)) | None => None end.
Definition is_row (n : node) : bool := match nval n with TableRow _ => true | _ => false end.
Definition is_table (n : node) : bool := match nval n with Table _ => true | _ => false end.
Definition row_misaligned (L : list srcline) (r t : node) : bool :=
  let c := sc (nsp t) in let ln := sl (nsp r) in
  match byte_at L ln c with
  | None => true
  | Some b => is_ws b ||
    ((1 <? c) && match byte_at L ln (c - 1) with
                 | Some p => negb (is_ws p || beqb p x3e)
                 | None => false
                 end)
  end.
Definition cls_row_indent (L : list srcline) (f : fail) : bool :=
  match find is_row (f_node f :: f_anc f), find is_table (f_anc f) with
  | Some r, Some t => row_misaligned L r t
  | _, _ => false
  end.

(* ---- html_block_end_condition: an HTML block of type 1 to 5 is closed ON the line that meets its end
   condition, but finalize gives it the end of the line before (line_number - 1): the block ends one
   line early, and a one-line block ends before it starts ---- *)
Definition cls_html_end (L : list srcline) (f : fail) : bool :=
  match nval (f_node f) with
  | HtmlBlock ty _ => (1 <=? ty) && (ty <=? 5)
  | _ => false
  end.

(* ---- fenced_code_closed_by_container: a fenced code block that ends because its container ends gets the
   end of the line that closed the container, which is not part of it (finalize: fenced => current line) ---- *)
Definition cls_fence_container (L : list srcline) (f : fail) : bool :=
  match nval (f_node f), f_anc f with
  | CodeBlock cb, p :: _ =>
    cb_fenced cb && is_N f && negb (lex_le (el (fsp f)) (ec (fsp f)) (el (nsp p)) (ec (nsp p)))
  | _, _ => false
  end.

(* ---- empty_text: trailing blanks before a line break are removed from the text; when nothing is left an
   empty Text node stays in the tree with start = end + 1 ---- *)
Definition cls_empty_text (L : list srcline) (f : fail) : bool :=
  match f_node f with
  | Node (Text []) sp _ => (ec sp + 1 =? sc sp)
  | _ => false
  end.

(* ---- multiline_inline_offset: adjust_node_newlines looks up the column offset of the line an inline ends
   on with index (line - the INLINE's start line) instead of (line - the block's start line): a code span,
   raw HTML or math inline that spans lines and does not start on the first line of its block takes the
   offset of an earlier line ---- *)
Definition cls_ml_inline (L : list srcline) (f : fail) : bool :=
  match nval (f_node f) with
  | Code _ _ | HtmlInline _ | Math _ _ _ =>
    (sl (fsp f) <? el (fsp f)) &&
    match nearest_block f with Some b => sl (nsp b) <? sl (fsp f) | None => false end
  | _ => false
  end.

(* ---- description_list: the documentation says the description lists extension still has issues ---- *)
Definition is_dl (n : node) : bool :=
  match nval n with DescriptionList | DescriptionItem _ _ _ | DescriptionTerm | DescriptionDetails => true | _ => false end.
Definition cls_dl (L : list srcline) (f : fail) : bool := existsb is_dl (f_node f :: f_anc f).

Local Open Scope string_scope.
Definition classes : list (string * (list srcline -> fail -> bool)) :=
  [ ("end_col_zero", cls_end_col_zero);
    ("bom_line1", cls_bom);
    ("refdef_before_paragraph", cls_refdef);
    ("mbq_unfinalized", cls_mbq);
    ("thematic_break_in_container", cls_hr);
    ("table_empty_cell", cls_empty_cell);
    ("table_row_indent", cls_row_indent);
    ("html_block_end_condition", cls_html_end);
    ("fenced_code_closed_by_container", cls_fence_container);
    ("empty_text", cls_empty_text);
    ("multiline_inline_offset", cls_ml_inline);
    ("description_list", cls_dl) ].

Definition classify1 (L : list srcline) (f : fail) : option string :=
  match find (fun c => snd c L f) classes with Some c => Some (fst c) | None => None end.

(* A nesting failure is also excused when the PARENT's own position is in a class (its range cannot be
   trusted), a sibling-order failure when the sibling before is. *)
Definition as_bounds (n : node) (anc : list node) : fail := mkFail CBounds [] n anc None.
Definition classify (L : list srcline) (f : fail) : option string :=
  match classify1 L f with
  | Some c => Some c
  | None =>
    match f_clause f, f_anc f, f_prev f with
    | CNest, p :: anc, _ => classify1 L (as_bounds p anc)
    | CSibling, _, Some a => classify1 L (as_bounds a (f_anc f))
    | _, _, _ => None
    end
  end.
