(* Spec/SourcePosKnown.v — the known-finding classes of C11 / C12: one decidable predicate per class,
   over (source lines, failing clause, failing node with its ancestors).  A failure of a clause of
   Spec/SourcePos.v that falls in no class is a violation.  Each class is a genuine defect of the
   unchanged tree (witness in known_findings.json, replayed by the checks on every run).  The exclusions
   the property text itself grants (unreliable kinds; escape, entity, smart punctuation, NUL for the
   verbatim clause) are NOT classes: they are built into the predicates of Spec/SourcePos.v. *)
From Coq Require Import List NArith Bool Strings.String.
From V Require Import Base.Bytes Model.Ast Spec.SourcePos.
Import ListNotations.
Local Open Scope N_scope.
Local Open Scope list_scope.

Definition is_inline_kind (k : kind) : bool :=
  match k with
  | KText | KSoftBreak | KLineBreak | KCode | KHtmlInline | KRaw | KEmph | KStrong | KLink | KImage
  | KStrikethrough | KSuperscript | KFootnoteReference | KMath | KEscaped | KWikiLink | KUnderline
  | KSubscript | KSpoileredText | KEscapedTag => true
  | _ => false
  end.
Definition nkind (n : node) : kind := kind_of (nval n).
Definition is_inline (n : node) : bool := is_inline_kind (nkind n).

(* the nearest block among the node itself and its ancestors *)
Definition nearest_block (f : fail) : option node :=
  find (fun a => negb (is_inline a)) (f_node f :: f_anc f).

Definition blank_line (l : srcline) : bool := forallb (fun b => beqb b x20 || beqb b x09) (ln_body l).

(* rest of line `ln` from 1-based column c *)
Definition line_from (L : list srcline) (ln c : N) : bytes :=
  match line_at L ln with Some l => skipn (N.to_nat (c - 1)) (ln_body l) | None => [] end.

Fixpoint contains (s p : bytes) : bool :=
  starts_with s p || match s with [] => false | _ :: r => contains r p end.

Definition bom : bytes := [xef; xbb; xbf].
Definition src_has_bom (L : list srcline) : bool :=
  match L with l :: _ => starts_with (ln_body l) bom | [] => false end.

Definition is_B (f : fail) := clause_eqb (f_clause f) CBounds.
Definition is_V (f : fail) := clause_eqb (f_clause f) CSlice.
Definition is_N (f : fail) := clause_eqb (f_clause f) CNest.
Definition is_S (f : fail) := clause_eqb (f_clause f) CSibling.
Definition fsp (f : fail) : sourcepos := nsp (f_node f).

(* ---- C11-a / C12-a  end_col_zero: a block that is still open when a blank line (or the end of the
   input) finalizes it gets end = (that line, last_line_length = 0): column 0 of a blank line ---- *)
Definition cls_end_col_zero (L : list srcline) (f : fail) : bool :=
  (is_B f || is_V f) && negb (is_inline (f_node f)) && (ec (fsp f) =? 0) &&
  match line_at L (el (fsp f)) with
  | Some l => blank_line l
  | None => (el (fsp f) =? 0) || (el (fsp f) =? nlines L + 1)
  end.

(* ---- C11-b / C12-b  refdef_before_paragraph (F23): the inlines of a paragraph (or setext heading) whose
   source begins with a link reference definition are positioned as if the definitions were still there.
   Predicate: the nearest block is a Paragraph or Heading whose source, at its start position, begins
   with a left bracket and has a right bracket followed by a colon later on. ---- *)
Definition begins_with_refdef (L : list srcline) (p : node) : bool :=
  match nval p with
  | Paragraph | Heading _ _ =>
    let s := ltrim_ws (line_from L (sl (nsp p)) (sc (nsp p))) in
    ob_is (first_b s) x5b
  | _ => false
  end.
Definition cls_refdef (L : list srcline) (f : fail) : bool :=
  is_inline (f_node f) &&
  match nearest_block f with Some p => begins_with_refdef L p | None => false end.

(* ---- C11-c / C12-c  bom_line1: with a byte-order mark, start columns on line 1 count its three bytes
   and some end columns do not ---- *)
Definition cls_bom (L : list srcline) (f : fail) : bool :=
  src_has_bom L && ((sl (fsp f) =? 1) || (el (fsp f) =? 1)).

Local Open Scope string_scope.
Definition classes : list (string * (list srcline -> fail -> bool)) :=
  [ ("end_col_zero", cls_end_col_zero);
    ("bom_line1", cls_bom);
    ("refdef_before_paragraph", cls_refdef) ].

Definition classify (L : list srcline) (f : fail) : option string :=
  match find (fun c => snd c L f) classes with Some c => Some (fst c) | None => None end.
