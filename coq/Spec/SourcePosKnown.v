(* Spec/SourcePosKnown.v — the known-finding classes of C11 / C12: one decidable predicate per class,
   over (source lines, failing clause, failing node with its ancestors).  A failure of a clause of
   Spec/SourcePos.v that falls in no class is a violation.  Each class is a genuine defect of the
   unchanged tree (witness in known_findings.json, replayed by the checks on every run).  The exclusions
   the property text itself grants (unreliable kinds; escape, entity, smart punctuation, NUL for the
   verbatim clause) are NOT classes: they are built into the predicates of Spec/SourcePos.v. *)
From Coq Require Import List NArith Bool Strings.String.
From V Require Import Base.Bytes Model.Ast Spec.SourcePos.
Import ListNotations.
Local Open Scope N_scope.
Local Open Scope list_scope.

Definition is_inline_kind (k : kind) : bool :=
  match k with
  | KText | KSoftBreak | KLineBreak | KCode | KHtmlInline | KRaw | KEmph | KStrong | KLink | KImage
  | KStrikethrough | KSuperscript | KFootnoteReference | KMath | KEscaped | KWikiLink | KUnderline
  | KSubscript | KSpoileredText | KEscapedTag => true
  | _ => false
  end.
Definition nkind (n : node) : kind := kind_of (nval n).
Definition is_inline (n : node) : bool := is_inline_kind (nkind n).

(* the nearest block among the node itself and its ancestors *)
Definition nearest_block (f : fail) : option node :=
  find (fun a => negb (is_inline a)) (f_node f :: f_anc f).

Definition blank_line (l : srcline) : bool := forallb (fun b => beqb b x20 || beqb b x09) (ln_body l).

(* rest of line `ln` from 1-based column c *)
Definition line_from (L : list srcline) (ln c : N) : bytes :=
  match line_at L ln with Some l => skipn (N.to_nat (c - 1)) (ln_body l) | None => [] end.

Fixpoint contains (s p : bytes) : bool :=
  starts_with s p || match s with [] => false | _ :: r => contains r p end.

Definition bom : bytes := [xef; xbb; xbf].
Definition src_has_bom (L : list srcline) : bool :=
  match L with l :: _ => starts_with (ln_body l) bom | [] => false end.

Definition is_B (f : fail) := clause_eqb (f_clause f) CBounds.
Definition is_V (f : fail) := clause_eqb (f_clause f) CSlice.
Definition is_N (f : fail) := clause_eqb (f_clause f) CNest.
Definition is_S (f : fail) := clause_eqb (f_clause f) CSibling.
Definition fsp (f : fail) : sourcepos := nsp (f_node f).

Definition sp_eqb (a b : sourcepos) : bool :=
  (sl a =? sl b) && (sc a =? sc b) && (el a =? el b) && (ec a =? ec b).

(* ---- C11-a / C12-a  end_col_zero: a block that is still open when a blank line (or the end of the
   input) finalizes it gets end = (that line, last_line_length = 0): column 0 of a blank line ---- *)
Definition cls_end_col_zero (L : list srcline) (f : fail) : bool :=
  (is_B f || is_V f) && negb (is_inline (f_node f)) && (ec (fsp f) =? 0) &&
  match line_at L (el (fsp f)) with
  | Some l => blank_line l
  | None => (el (fsp f) =? 0) || (el (fsp f) =? nlines L + 1)
  end.

(* ---- C11-b / C12-b  refdef_before_paragraph (F23): the inlines of a paragraph (or setext heading) whose
   source begins with a link reference definition are positioned as if the definitions were still there.
   Predicate: the node is an inline whose nearest block is a Paragraph or Heading whose source, read from
   the block's own start position, is a left bracket, a label (no unescaped bracket in it; it may run over
   line ends) and a right bracket followed by a colon.
   Second shape, same root: when such a paragraph is the first block of a task list item, process_tasklist
   copies the (misplaced) column of the text after the task marker into the START COLUMN OF THE PARAGRAPH;
   then the paragraph itself is in the class, and the definition is looked for after the list marker at the
   start of the item. ---- *)
Fixpoint label_then_colon (s : bytes) (esc : bool) : bool :=
  match s with
  | [] => false
  | b :: r =>
    if esc then label_then_colon r false
    else if beqb b x5c then label_then_colon r true
    else if beqb b x5b then false
    else if beqb b x5d then match r with c :: _ => beqb c x3a | [] => false end
    else label_then_colon r false
  end.
Definition starts_with_refdef (s : bytes) : bool :=
  match s with b :: r => beqb b x5b && label_then_colon r false | [] => false end.
(* the source from (ln, c) to the end of line `last` *)
Definition text_from (L : list srcline) (ln c last : N) : bytes :=
  match line_at L ln with
  | Some l => skipn (N.to_nat (c - 1)) (ln_full l) ++ lines_between L (N.to_nat ln) (N.to_nat (last - ln))
  | None => []
  end.
Fixpoint drop_list_marker (s : bytes) : bytes :=
  match s with
  | b :: r => if is_ws b || is_digit b || beqb b x2d || beqb b x2b || beqb b x2a || beqb b x2e || beqb b x29
              then drop_list_marker r else s
  | [] => []
  end.
Definition is_task_item (n : node) : bool := match nval n with TaskItem _ => true | _ => false end.
Definition is_para_or_heading (n : node) : bool := match nval n with Paragraph | Heading _ _ => true | _ => false end.
(* p: the block; anc: its ancestors, nearest first *)
Definition begins_with_refdef (L : list srcline) (p : node) (anc : list node) : bool :=
  is_para_or_heading p &&
  (starts_with_refdef (text_from L (sl (nsp p)) (sc (nsp p)) (el (nsp p))) ||
   match anc with
   | it :: _ => is_task_item it &&
                match nch it with
                | q :: _ => sp_eqb (nsp q) (nsp p) &&
                            starts_with_refdef (drop_list_marker (text_from L (sl (nsp it)) (sc (nsp it)) (el (nsp p))))
                | [] => false
                end
   | [] => false
   end).
(* the nearest block among the node itself and its ancestors, with that block's ancestors *)
Fixpoint nearest_block_in (l : list node) : option (node * list node) :=
  match l with
  | [] => None
  | a :: r => if is_inline a then nearest_block_in r else Some (a, r)
  end.
Definition cls_refdef (L : list srcline) (f : fail) : bool :=
  match nearest_block_in (f_node f :: f_anc f) with
  | Some (p, anc) =>
    if is_inline (f_node f) then begins_with_refdef L p anc
    else (* the paragraph of a task item itself *)
      match anc with it :: _ => is_task_item it && begins_with_refdef L p anc | [] => false end
  | None => false
  end.

(* ---- C11-c / C12-c  bom_line1: with a byte-order mark, start columns on line 1 count its three bytes
   and some end columns do not; a table that starts on line 1 hands its start column to all its rows.
   Predicate: the source has a byte-order mark and the node itself starts or ends on line 1, or lies in a
   table that starts on line 1 ---- *)
Definition cls_bom (L : list srcline) (f : fail) : bool :=
  src_has_bom L &&
  ((sl (fsp f) =? 1) || (el (fsp f) =? 1) ||
   existsb (fun a => match nval a with Table _ => sl (nsp a) =? 1 | _ => false end) (f_anc f)).

(* ---- mbq_unfinalized: when the closing fence of a multiline block quote (or multiline alert) arrives
   only its last child is finalized; deeper blocks that are still open keep the end they were created
   with, (start line, column 0) ---- *)
Definition is_mbq (n : node) : bool :=
  match nval n with MultilineBlockQuote _ _ | Alert _ => true | _ => false end.
Definition is_fndef_n (n : node) : bool := match nval n with FootnoteDefinition _ _ => true | _ => false end.
(* (a footnote definition inside such a quote is moved to the document root afterwards and loses the ancestor) *)
Definition cls_mbq (L : list srcline) (f : fail) : bool :=
  negb (is_inline (f_node f)) && (ec (fsp f) =? 0) && (sl (fsp f) =? el (fsp f)) &&
  existsb (fun a => is_mbq a || is_fndef_n a) (f_node f :: f_anc f).

(* ---- thematic_break_in_container: handle_thematic_break sets the end column to the number of bytes
   left after the container prefix (line.len() - 1 - offset) instead of the column of the last byte ---- *)
Definition cls_hr (L : list srcline) (f : fail) : bool :=
  match nval (f_node f), f_anc f with
  | ThematicBreak, p :: _ => negb (match nval p with Document => true | _ => false end)
  | _, _ => false
  end.

(* ---- table_empty_cell: a cell without content (adjacent pipes, or added because the row is short) has
   no text of its own; it is reported as an inverted range (start = end + 1, or end column 0) ---- *)
Definition cls_empty_cell (L : list srcline) (f : fail) : bool :=
  match f_node f with
  | Node TableCell sp [] => (sl sp =? el sp) && ((ec sp =? 0) || (ec sp + 1 =? sc sp))
  | _ => false
  end.

(* ---- table_row_indent: every row is positioned from the start column of the TABLE (the start of the
   paragraph the table grew out of); a row whose text begins at another column gets columns shifted by
   the difference (body rows indented differently, a header row after paragraph lines, lazy lines).
   Predicate: the node is, or lies in, a body TableRow on whose line the table's start column is not where
   the row's text begins (blank there, or preceded by something other than blanks and quote markers) ---- *)
Definition byte_at (L : list srcline) (ln c : N) : option byte :=
  if c =? 0 then None else
  match line_at L ln with Some l => nth_error (ln_body l) (N.to_nat (c - 1)) | None => None end.
(* table_empty_cell, second shape: a childless cell reported as the single column of a pipe (the cell
   has no text; the position of its delimiter is given instead) *)
Definition cls_empty_cell_pipe (L : list srcline) (f : fail) : bool :=
  match f_node f with
  | Node TableCell sp [] =>
    (sl sp =? el sp) && (sc sp =? ec sp) &&
    match byte_at L (sl sp) (sc sp) with Some b => beqb b x7c | None => false end
  | _ => false
  end.
Definition is_row (n : node) : bool := match nval n with TableRow _ => true | _ => false end.
Definition is_table (n : node) : bool := match nval n with Table _ => true | _ => false end.
Definition is_quote_n (n : node) : bool :=
  match nval n with BlockQuote | MultilineBlockQuote _ _ | Alert _ => true | _ => false end.
Definition is_header_row (n : node) : bool := match nval n with TableRow true => true | _ => false end.
(* bytes that may precede a row on its line: blanks; quote markers when the table is inside a quote; for
   the header row (which may share its line with a list marker) also a list marker followed by a blank *)
Definition marker_char (b : byte) : bool := beqb b x2d || beqb b x2b || beqb b x2a || beqb b x2e || beqb b x29.
(* a digit may precede the header row only as part of an ordered list marker: digits, then . or ), then a blank *)
Fixpoint digits_then_marker (s : bytes) : bool :=
  match s with
  | [] => false
  | b :: r => if is_digit b then digits_then_marker r
              else (beqb b x2e || beqb b x29) && match r with c :: _ => is_ws c | [] => false end
  end.
Fixpoint prefix_ok (in_quote header : bool) (s : bytes) : bool :=
  match s with
  | [] => true
  | b :: r =>
    (is_ws b || (beqb b x3e && (in_quote || header)) || (header && is_digit b && digits_then_marker r) ||
     (header && marker_char b && match r with c :: _ => is_ws c | [] => false end))
    && prefix_ok in_quote header r
  end.
(* after_para: the header row came after other lines of the paragraph (the table follows, among its
   siblings, a paragraph that ends on the line before it).  Such a line may be a lazy continuation line,
   which keeps its leading blanks in the paragraph text: they are then part of the row's text, the first
   cell is reported from the table's start column with their width added.  So on such a line a blank just
   before the table's start column also means the row's text does not begin at that column. *)
Definition is_para_n (n : node) : bool := match nval n with Paragraph => true | _ => false end.
Fixpoint para_then_table (t : node) (l : list node) : bool :=
  match l with
  | a :: ((b :: _) as r) =>
    (is_para_n a && is_table b && sp_eqb (nsp b) (nsp t) && (el (nsp a) + 1 =? sl (nsp t))) || para_then_table t r
  | _ => false
  end.
Definition row_misaligned (L : list srcline) (in_quote after_para : bool) (r t : node) : bool :=
  let c := sc (nsp t) in let ln := sl (nsp r) in
  match line_at L ln with
  | None => true
  | Some l =>
    match nth_error (ln_body l) (N.to_nat (c - 1)) with
    | None => true
    | Some b => is_ws b || (in_quote && beqb b x3e) ||
                negb (prefix_ok in_quote (is_header_row r) (firstn (N.to_nat (c - 1)) (ln_body l))) ||
                (is_header_row r && after_para && (2 <=? c) &&
                 match nth_error (ln_body l) (N.to_nat (c - 2)) with Some b' => is_ws b' | None => false end)
    end
  end.
Definition cls_row_indent (L : list srcline) (f : fail) : bool :=
  match find is_row (f_node f :: f_anc f), find is_table (f_anc f) with
  | Some r, Some t =>
    row_misaligned L (existsb is_quote_n (f_anc f)) (existsb (fun a => para_then_table t (nch a)) (f_anc f)) r t
  | _, _ =>
    (* the Table node itself: judged by its header row *)
    match f_node f with
    | Node (Table _) _ (r :: _) =>
      row_misaligned L (existsb is_quote_n (f_anc f)) (existsb (fun a => para_then_table (f_node f) (nch a)) (f_anc f)) r (f_node f)
    | _ => false
    end
  end.

(* ---- html_block_end_condition: an HTML block of type 1 to 5 is closed ON the line that meets its end
   condition, but finalize gives it the end of the line before (line_number - 1): the block ends one
   line early, and a one-line block ends before it starts (the only shape in which a clause fails: end line
   before start line) ---- *)
Definition cls_html_end (L : list srcline) (f : fail) : bool :=
  match nval (f_node f) with
  | HtmlBlock ty _ => (1 <=? ty) && (ty <=? 5) && is_B f && (el (fsp f) <? sl (fsp f))
  | _ => false
  end.

(* ---- fenced_code_closed_by_container: a fenced code block that ends because its container ends gets the
   end of the line that closed the container, which is not part of it (finalize: fenced => current line) ---- *)
Definition cls_fence_container (L : list srcline) (f : fail) : bool :=
  match nval (f_node f), f_anc f with
  | CodeBlock cb, p :: _ =>
    cb_fenced cb && is_N f && negb (lex_le (el (fsp f)) (ec (fsp f)) (el (nsp p)) (ec (nsp p)))
  | _, _ => false
  end.

(* ---- empty_text: trailing blanks before a line break are removed from the text; when nothing is left an
   empty Text node stays in the tree with start = end + 1 ---- *)
Definition cls_empty_text (L : list srcline) (f : fail) : bool :=
  match f_node f with
  | Node (Text []) sp _ => (ec sp + 1 =? sc sp)
  | _ => false
  end.

(* ---- multiline_inline_offset: adjust_node_newlines looks up the column offset of the line an inline ends
   on with index (line - the INLINE's start line) instead of (line - the block's start line): a code span,
   raw HTML or math inline that spans lines and does not start on the first line of its block takes the
   offset of an earlier line ---- *)
Definition cls_ml_inline (L : list srcline) (f : fail) : bool :=
  match nval (f_node f) with
  | Code _ _ | HtmlInline _ | Math _ _ _ =>
    (sl (fsp f) <? el (fsp f)) &&
    match nearest_block f with Some b => sl (nsp b) <? sl (fsp f) | None => false end
  | _ => false
  end.

(* ---- description_list: the documentation says the description lists extension still has issues; the
   code (parse_desc_list_details) says which: the end of every DescriptionItem and DescriptionDetails but
   the last, and every DescriptionTerm (it gets the start of the details); the paragraph of a term that is
   directly followed by its details line is still open when it is moved into the term and is closed later
   with the end of a later line.  Predicate: the node is one of the four description list kinds, or the
   Paragraph directly inside a DescriptionTerm.  (Nodes below them are not in the class.) ---- *)
Definition is_dl (n : node) : bool :=
  match nval n with DescriptionList | DescriptionItem _ _ _ | DescriptionTerm | DescriptionDetails => true | _ => false end.
Definition cls_dl (L : list srcline) (f : fail) : bool :=
  is_dl (f_node f) ||
  match nval (f_node f), f_anc f with
  | Paragraph, p :: _ => match nval p with DescriptionTerm => true | _ => false end
  | _, _ => false
  end.

(* ---- nul_shift: positions are computed on the buffer in which every NUL byte (1 byte) has been replaced
   by U+FFFD (3 bytes): on a line that contains NUL, columns after it are 2 too large per NUL.
   Predicate: a NUL lies on the node's start line before its start column, or on its end line at or before
   its end column (a node that lies entirely in front of the first NUL of its line is not in the class) ---- *)
Definition line_has (L : list srcline) (ln : N) (p : byte -> bool) : bool :=
  match line_at L ln with Some l => existsb p (ln_body l) | None => false end.
Definition nul_before (L : list srcline) (ln c : N) : bool :=
  match line_at L ln with Some l => existsb (fun b => beqb b x00) (firstn (N.to_nat c) (ln_body l)) | None => false end.
Definition cls_nul (L : list srcline) (f : fail) : bool :=
  nul_before L (sl (fsp f)) (sc (fsp f) - 1) || nul_before L (el (fsp f)) (ec (fsp f)).

(* ---- table_escaped_pipe: the content of a cell is unescaped (backslash pipe -> pipe) BEFORE its inlines are
   parsed, so every inline after an escaped pipe is one column to the left per escaped pipe ---- *)
Definition is_cell_n (n : node) : bool := match nval n with TableCell => true | _ => false end.
Fixpoint followed_by_table (p : node) (l : list node) : bool :=
  match l with
  | a :: ((b :: _) as r) => (sp_eqb (nsp a) (nsp p) && is_table b) || followed_by_table p r
  | _ => false
  end.
Definition has_escaped_pipe (L : list srcline) (ln : N) : bool :=
  match line_at L ln with Some l => contains (ln_body l) [x5c; x7c] | None => false end.
Definition cls_escaped_pipe (L : list srcline) (f : fail) : bool :=
  match find is_cell_n (f_node f :: f_anc f) with
  | Some c => has_escaped_pipe L (sl (nsp c))
  | None =>
    (* the paragraph lines in front of a table are unescaped together with the header row *)
    is_inline (f_node f) && has_escaped_pipe L (sl (fsp f)) &&
    match nearest_block f with
    | Some b => existsb (fun a => followed_by_table b (nch a)) (f_anc f)
    | None => false
    end
  end.

(* ---- link_dest_newline: a line break between the parentheses of an inline link or image (destination,
   title) is not counted: the link ends on its first line at a column beyond that line, and every later
   inline of the block is reported on the wrong line and column.
   Predicate: the nearest block has a Link or Image descendant that lies on one line and ends beyond the
   end of that line ---- *)
Fixpoint descendants (n : node) : list node :=
  match n with
  | Node _ _ ch => (fix go (l : list node) : list node :=
                      match l with [] => [] | c :: r => c :: descendants c ++ go r end) ch
  end.
Definition is_link_or_image (n : node) : bool := match nval n with Link _ _ | Image _ _ => true | _ => false end.
Definition is_wikilink (n : node) : bool := match nval n with WikiLink _ => true | _ => false end.
Definition ends_beyond_line_k (kindp : node -> bool) (L : list srcline) (n : node) : bool :=
  kindp n && (sl (nsp n) =? el (nsp n)) &&
  match line_at L (el (nsp n)) with
  | Some l => blen (ln_full l) <? ec (nsp n)
  | None => false
  end.
Definition ends_beyond_line := ends_beyond_line_k is_link_or_image.
(* ... and the failing node is that link, contains it, or starts at or after its reported end *)
Definition same_node (a b : node) : bool := sp_eqb (nsp a) (nsp b) && kind_eqb (kind_of (nval a)) (kind_of (nval b)).
Definition cls_nl_uncounted (kindp : node -> bool) (L : list srcline) (f : fail) : bool :=
  is_inline (f_node f) &&
  match nearest_block f with
  | Some b =>
    existsb (fun k => ends_beyond_line_k kindp L k &&
                      (same_node k (f_node f) || existsb (same_node k) (descendants (f_node f)) ||
                       lex_le (el (nsp k)) (ec (nsp k)) (sl (fsp f)) (sc (fsp f))))
            (descendants b)
  | None => false
  end.
Definition cls_link_nl := cls_nl_uncounted is_link_or_image.
(* ---- wikilink_newline: the same for a wikilink: handle_wikilink scans to the closing brackets across a
   line break and positions the node with make_inline on the line it started, the line counter and the
   column offset are not moved ---- *)
Definition cls_wikilink_nl := cls_nl_uncounted is_wikilink.

(* ---- footnote_name_newline (F25): a footnote reference (or the text it falls back to) whose name spans a
   line break takes its start column from the first line and its end column from the second ---- *)
(* The line break inside the name is the witness: only Text and HtmlInline pieces of the name are removed,
   so the break stays in the tree right AFTER the reference (or after the Text it falls back to when the
   name has no definition, possibly merged with its neighbours), and the source line of that break ends
   inside a footnote bracket that is still open. *)
Definition is_break (n : node) : bool := match nval n with SoftBreak | LineBreak => true | _ => false end.
(* open = Some d: inside a footnote bracket, with d plain brackets open inside it *)
Fixpoint fn_open_at_end (s : bytes) (open : option nat) : bool :=
  match s with
  | [] => match open with Some _ => true | None => false end
  | b :: r =>
    match open with
    | None => if beqb b x5b && match r with c :: _ => beqb c x5e | [] => false end
              then fn_open_at_end r (Some O) else fn_open_at_end r None
    | Some d => if beqb b x5b then fn_open_at_end r (Some (S d))
                else if beqb b x5d then fn_open_at_end r (match d with O => None | S d' => Some d' end)
                else fn_open_at_end r open
    end
  end.
Definition break_in_open_name (L : list srcline) (b : node) : bool :=
  is_break b &&
  match line_at L (sl (nsp b)) with
  | Some l => fn_open_at_end (firstn (N.to_nat (sc (nsp b) - 1)) (ln_body l)) None
  | None => false
  end.
(* offset, counted from an opening bracket, of the bracket that closes it *)
Fixpoint close_off (s : bytes) (d i : nat) : option nat :=
  match s with
  | [] => None
  | b :: r =>
    if beqb b x5b then close_off r (S d) (S i)
    else if beqb b x5d then match d with O => None | S O => Some i | S d' => close_off r d' (S i) end
    else close_off r d (S i)
  end.
(* the sibling b that fails to come after the reference a is a piece of a's NAME: it starts on a's line at
   or before the bracket that closes a in the source (when the bracket is not closed on that line the name
   spans lines).  A reference whose recorded end lies beyond its own closing bracket, so that a sibling
   written AFTER the bracket overlaps it, is not in this class (seeded change C11-m3). *)
Definition is_fnref (n : node) : bool := match nval n with FootnoteReference _ _ _ => true | _ => false end.
Definition inside_name (L : list srcline) (a b : node) : bool :=
  (sl (nsp a) =? sl (nsp b)) &&
  match line_at L (sl (nsp a)) with
  | Some l =>
    match close_off (skipn (N.to_nat (sc (nsp a) - 1)) (ln_body l)) O O with
    | Some off => sc (nsp b) <=? sc (nsp a) + N.of_nat off
    | None => true
    end
  | None => false
  end.
Fixpoint break_follows (L : list srcline) (n : node) (l : list node) : bool :=
  match l with
  | a :: ((b :: _) as r) =>
    (same_node a n && ((negb (sp_before (nsp a) (nsp b)) && (negb (is_fnref a) || inside_name L a b)) ||
                       existsb (fun k => break_in_open_name L k && (sl (nsp k) =? sl (nsp a))) r)) || break_follows L n r
  | _ => false
  end.
(* Any other piece of the name that is not a Text or HtmlInline (an image, a link, a code span, a nested
   reference) stays behind the reference in the same way: the sibling right after the reference does not
   come after it.  Second shape of the nested reference: another footnote reference inside the name (a footnote bracket opened while
   one is open) is not a Text either; it stays behind the outer reference, and when neither has a definition
   both fall back to Text and are merged in that (wrong) order. *)
Fixpoint fn_nested (s : bytes) (open : bool) : bool :=
  match s with
  | [] => false
  | b :: r =>
    if beqb b x5d then fn_nested r false
    else if beqb b x5b && match r with c :: _ => beqb c x5e | [] => false end then open || fn_nested r true
    else fn_nested r open
  end.
Definition cls_footnote_nl (L : list srcline) (f : fail) : bool :=
  match nval (f_node f) with
  | FootnoteReference _ _ _ => true
  | Text lit => contains lit [x5b; x5e]
  | _ => false
  end &&
  (match f_anc f with p :: _ => break_follows L (f_node f) (nch p) | [] => false end ||
   match line_at L (sl (fsp f)) with Some l => fn_nested (ln_body l) false | None => false end).

(* ---- partial_tab: when a tab after a container marker is only partly consumed by the marker, add_line
   writes the rest of the tab into the content as spaces; they count as source bytes, so the inlines of
   that line are too far right.  Predicate: the node is an inline on a line that has a tab in its
   container prefix (only blanks, quote markers and list marker characters before it) ---- *)
Fixpoint tab_in_prefix (s : bytes) : bool :=
  match s with
  | [] => false
  | b :: r =>
    if beqb b x09 then true
    else if beqb b x20 || beqb b x3e || beqb b x2d || beqb b x2b || beqb b x2a || beqb b x2e || beqb b x29 || is_digit b
    then tab_in_prefix r else false
  end.
(* a tab can be consumed in part only by a container (quote marker, list item indentation) *)
Definition is_container_n (n : node) : bool :=
  match nval n with
  | BlockQuote | MultilineBlockQuote _ _ | Alert _ | Item _ | TaskItem _ | FootnoteDefinition _ _
  | DescriptionItem _ _ _ | DescriptionDetails => true
  | _ => false
  end.
(* The paragraph that try_inserting_table_header_paragraph splits off in front of a table gets its end column from
   its CONTENT (last line offset + bytes of the last preface line), so the spaces of a partly consumed tab count
   there too: the same defect on a block (found by the thorough tier: >>a / >TAB` / f / >>- with tables) *)
Fixpoint next_is_table (n : node) (l : list node) : bool :=
  match l with
  | a :: ((b :: _) as r) => (same_node a n && match nval b with Table _ => true | _ => false end) || next_is_table n r
  | _ => false
  end.
Definition split_off_paragraph (f : fail) : bool :=
  match nval (f_node f), f_anc f with
  | Paragraph, p :: _ => next_is_table (f_node f) (nch p)
  | _, _ => false
  end.
Definition cls_partial_tab (L : list srcline) (f : fail) : bool :=
  (is_inline (f_node f) || split_off_paragraph f) && existsb is_container_n (f_anc f) &&
  (match line_at L (sl (fsp f)) with Some l => tab_in_prefix (ln_body l) | None => false end ||
   match line_at L (el (fsp f)) with Some l => tab_in_prefix (ln_body l) | None => false end).

(* ---- wikilink_trim: the text of a wikilink is trimmed, its position is not moved ---- *)
Definition cls_wikilink (L : list srcline) (f : fail) : bool :=
  match nval (f_node f), f_anc f with
  | Text _, p :: _ => match nval p with WikiLink _ => true | _ => false end
  | _, _ => false
  end.

Local Open Scope string_scope.
Definition classes : list (string * (list srcline -> fail -> bool)) :=
  [ ("html_block_end_condition", cls_html_end);
    ("end_col_zero", cls_end_col_zero);
    ("mbq_unfinalized", cls_mbq);
    ("thematic_break_in_container", cls_hr);
    ("table_empty_cell", fun L f => cls_empty_cell L f || cls_empty_cell_pipe L f);
    ("table_row_indent", cls_row_indent);
    ("table_escaped_pipe", cls_escaped_pipe);
    ("fenced_code_closed_by_container", cls_fence_container);
    ("description_list", cls_dl);
    ("refdef_before_paragraph", cls_refdef);
    ("empty_text", fun L f => is_B f && cls_empty_text L f);
    ("wikilink_trim", fun L f => is_V f && cls_wikilink L f);
    ("multiline_inline_offset", cls_ml_inline);
    ("footnote_name_newline", cls_footnote_nl);
    ("link_dest_newline", cls_link_nl);
    ("wikilink_newline", cls_wikilink_nl);
    ("partial_tab", cls_partial_tab);
    ("nul_shift", cls_nul);
    ("bom_line1", cls_bom) ].

Definition classify1 (L : list srcline) (f : fail) : option string :=
  match find (fun c => snd c L f) classes with Some c => Some (fst c) | None => None end.

(* A nesting failure is also excused when the PARENT's own position is in a class (its range cannot be
   trusted), a sibling-order failure when the sibling before is. *)
Definition as_bounds (n : node) (anc : list node) : fail := mkFail CBounds [] n anc None.
Definition classify (L : list srcline) (f : fail) : option string :=
  match classify1 L f with
  | Some c => Some c
  | None =>
    match f_clause f, f_anc f, f_prev f with
    | CNest, p :: anc, _ => classify1 L (as_bounds p anc)
    | CSibling, _, Some a => classify1 L (as_bounds a (f_anc f))
    | CSlice, _, _ =>
      (* a delimited span is judged against the positions of its first and last child: excused when one of
         those is in a class *)
      match nval (f_node f) with
      | Emph | Strong | Strikethrough =>
        match nch (f_node f), rev (nch (f_node f)) with
        | a :: _, z :: _ =>
          match classify1 L (as_bounds a (f_node f :: f_anc f)) with
          | Some c => Some c
          | None => classify1 L (as_bounds z (f_node f :: f_anc f))
          end
        | _, _ => None
        end
      | _ => None
      end
    | _, _, _ => None
    end
  end.
