(* Proofs/HtmlNest.v — the event stream of Model/Html.v is well nested (C10) and the renderer is
   total on well-shaped trees.

   Raw HTML reaches the event stream only as RawHtml / Cmt / Txt events, which `nest` ignores, so
   the pass-through clause of C10 (safe mode, escape mode, no raw HTML in the input) plays no role at
   event level: the theorems below hold for every option record.  What matters are the tree-shape
   clauses of Spec/Shape.v. *)
From Coq Require Import List Arith NArith Bool Lia Strings.String FinFun.
From Coq Require Strings.Byte.
From V Require Import Base.Bytes Base.Res Model.Ast Model.Tagfilter Model.Html Spec.HtmlSpec Spec.Shape Spec.NestSpec.
From V Require Proofs.TagfilterProofs.
Import ListNotations.
Local Open Scope string_scope.
Local Open Scope list_scope.

(* ------------------------------------------------------------------ nest *)
Lemma bytes_eqb_refl a : bytes_eqb a a = true.
Proof. apply bytes_eqb_eq. reflexivity. Qed.

Lemma nest_app s a b :
  nest s (a ++ b) = match nest s a with Some s' => nest s' b | None => None end.
Proof.
  revert s. induction a as [|e a IH]; intro s; [reflexivity|].
  destruct e; cbn [app nest]; try apply IH.
  destruct s as [|t' s]; [reflexivity|]. destruct (bytes_eqb tag t'); [apply IH | reflexivity].
Qed.

Lemma backref_nest name fnix total : forall k s r,
  nest s (backref_loop name fnix total k ++ r) = nest s r.
Proof.
  induction total as [|t IH]; intros k s r; [reflexivity|].
  cbn [backref_loop]. destruct (1 <? N.of_nat k)%N; cbn [app nest];
    rewrite ?bytes_eqb_refl; cbn [app nest]; rewrite ?bytes_eqb_refl; apply IH.
Qed.

Lemma pfb_nest name total st evs st' w :
  put_footnote_backref name total st = (evs, st', w) ->
  forall s r, nest s (evs ++ r) = nest s r.
Proof.
  unfold put_footnote_backref. destruct (fn_ix st <=? wfn_ix st)%N; intro H; inversion H; subst; intros.
  - reflexivity.
  - apply backref_nest.
Qed.

Lemma pfb_fn_ix name total st evs st' w :
  put_footnote_backref name total st = (evs, st', w) -> fn_ix st' = fn_ix st.
Proof.
  unfold put_footnote_backref. destruct (fn_ix st <=? wfn_ix st)%N; intro H; inversion H; subst; reflexivity.
Qed.

(* what a node leaves on the stack *)
Definition res_of (prev : option node_value) (v : node_value) : list bytes :=
  match v with
  | TableRow false => match prev with Some (TableRow true) => [B "tbody"] | _ => [] end
  | _ => []
  end.

Definition fres (st : hst) (v : node_value) : list bytes :=
  match v with
  | FootnoteDefinition _ _ => if (fn_ix st =? 0)%N then [B "ol"; B "section"] else []
  | _ => []
  end.

(* what the children of a node leave on the stack (under S3) *)
Definition mid (v : node_value) (ch : list node) : list bytes :=
  match v with
  | Table _ => match ch with [] => [] | [_] => [] | _ => [B "tbody"] end
  | _ => []
  end.

Fixpoint lres (prev : option node_value) (l : list node) : list bytes :=
  match l with
  | [] => []
  | x :: r => lres (Some (nval x)) r ++ res_of prev (nval x)
  end.

(* case analysis on the head of `X = _ -> G` *)
Ltac hd :=
  repeat match goal with
  | |- (if ?b then _ else _) = _ -> _ => destruct b eqn:?
  | |- (match ?x with _ => _ end) = _ -> _ => destruct x eqn:?
  | |- bind ?r _ = _ -> _ => destruct r eqn:?; cbn [bind]
  end.

Ltac inv H := inversion H; subst; clear H.

Ltac fin :=
  repeat first
   [ progress cbn [nest app res_of fres mid]
   | rewrite bytes_eqb_refl
   | rewrite backref_nest
   | match goal with
     | H : put_footnote_backref _ _ _ = (?e, _, _) |- context [nest _ (?e ++ _)] =>
       rewrite (pfb_nest _ _ _ _ _ _ H)
     end
   | rewrite nest_app
   | match goal with
     | H : forall s', nest s' ?e = _ |- context [nest _ ?e] => rewrite H
     | |- context [nest _ ((if ?b then _ else _) ++ _)] => destruct b
     | |- context [nest _ (if ?b then _ else _)] => destruct b
     | |- context [nest _ ((match ?b with _ => _ end) ++ _)] => destruct b
     | |- context [nest _ (match ?b with _ => _ end)] => destruct b
     | |- context [match (match ?b with _ => _ end) with _ => _ end] => destruct b
     end ];
  try reflexivity.

Section R.
  Variable slug : bytes -> bytes.
  Variable o : opts.

  (* ---------------------------------------------------------------- render = render_list *)
  Lemma render_unfold c v sp ch st :
    render slug o c (Node v sp ch) st =
    (do r1 <- enter slug o c (Node v sp ch) st;
     let '(e1, st1, m) := r1 in
     do r2 <- (match m with
               | MPlain => Ok ([], st1)
               | MHtml => render_list slug o v (c_parent c) ch 0 None st1
               end);
     let (e2, st2) := r2 in
     do r3 <- exit_ o c (Node v sp ch) st2;
     let (e3, st3) := r3 in
     Ok (e1 ++ e2 ++ e3, st3)).
  Proof.
    cbn [render].
    destruct (enter slug o c (Node v sp ch) st) as [[[e1 st1] m]| |]; cbn [bind]; try reflexivity.
    destruct m; [|reflexivity].
    match goal with |- bind (?F ch 0 None st1) _ = _ =>
      assert (E : forall l i prev s, F l i prev s = render_list slug o v (c_parent c) l i prev s)
    end.
    { induction l as [|x r IH]; intros i prev s; [reflexivity|].
      cbn [render_list]. simpl.
      match goal with |- bind ?X _ = _ => destruct X as [[ex sx]| |] end; cbn [bind]; try reflexivity.
      rewrite IH. reflexivity. }
    rewrite E. reflexivity.
  Qed.

  (* ---------------------------------------------------------------- one node: enter ++ body ++ exit *)
  Lemma node_nest c v sp ch st st1 m e1 e2 st2 e3 st3 s :
    enter slug o c (Node v sp ch) st = Ok (e1, st1, m) ->
    exit_ o c (Node v sp ch) st2 = Ok (e3, st3) ->
    (forall s', nest s' e2 = Some (mid v ch ++ s')) ->
    nest s (e1 ++ e2 ++ e3) = Some (res_of (c_prev c) v ++ fres st v ++ s).
  Proof.
    intros He Hx Hm. revert He Hx.
    destruct v; unfold enter, exit_; cbv beta iota zeta; hd;
      try discriminate; intro He; inv He; hd; try discriminate; intro Hx; inv Hx; fin.
  Qed.

  (* ---------------------------------------------------------------- the footnote counter *)
  Lemma enter_fn_ix c v sp ch st e1 st1 m :
    enter slug o c (Node v sp ch) st = Ok (e1, st1, m) ->
    fn_ix st1 = if is_fndef v then (fn_ix st + 1)%N else fn_ix st.
  Proof.
    destruct v; unfold enter; cbv beta iota zeta; hd; try discriminate; intro He; inv He; reflexivity.
  Qed.

  Lemma exit_fn_ix c v sp ch st2 e3 st3 :
    exit_ o c (Node v sp ch) st2 = Ok (e3, st3) -> fn_ix st3 = fn_ix st2.
  Proof.
    destruct v; unfold exit_; cbv beta iota zeta; hd; try discriminate; intro He; inv He;
      try reflexivity;
      match goal with H : put_footnote_backref _ _ _ = _ |- _ => apply (pfb_fn_ix _ _ _ _ _ _ H) end.
  Qed.

  Lemma enter_plain c v sp ch st e1 st1 :
    enter slug o c (Node v sp ch) st = Ok (e1, st1, MPlain) -> mid v ch = [].
  Proof.
    destruct v; unfold enter; cbv beta iota zeta; hd; try discriminate; intro He; inv He; reflexivity.
  Qed.

  (* ---------------------------------------------------------------- residues of a child list under S3 *)
  Lemma res_of_not_row prev v : is_row_v v = false -> res_of prev v = [].
  Proof. destruct v; try reflexivity. discriminate. Qed.

  Lemma s3_child_row v pv x :
    s3_go (Some v) pv x = true -> is_row_v (nval x) = true -> is_table_v v = true.
  Proof.
    destruct x as [vx spx chx]. cbn [s3_go nval]. intros H R.
    destruct vx; try discriminate R. destruct v; try reflexivity; discriminate H.
  Qed.

  Lemma lres_nontable v pv : is_table_v v = false -> forall l prev,
    forallb (s3_go (Some v) pv) l = true -> lres prev l = [].
  Proof.
    intros Hv. induction l as [|x r IH]; intros prev H; [reflexivity|].
    cbn [forallb] in H. apply andb_true_iff in H. destruct H as [Hx Hr].
    cbn [lres]. rewrite (IH _ Hr). cbn [app]. apply res_of_not_row.
    destruct (is_row_v (nval x)) eqn:R; [|reflexivity].
    rewrite (s3_child_row _ _ _ Hx R) in Hv. discriminate.
  Qed.

  Lemma lres_rows_false : forall l h,
    forallb (is_row_of false) l = true -> lres (Some (TableRow h)) l = if h then match l with [] => [] | _ => [B "tbody"] end else [].
  Proof.
    induction l as [|x r IH]; intros h H; [destruct h; reflexivity|].
    cbn [forallb] in H. apply andb_true_iff in H. destruct H as [Hx Hr].
    cbn [lres]. unfold is_row_of in Hx. destruct (nval x) eqn:Ex; try discriminate Hx.
    destruct header; [discriminate Hx|].
    rewrite (IH false Hr). destruct h; reflexivity.
  Qed.

  Lemma lres_table t ch : table_children_ok ch = true -> lres None ch = mid (Table t) ch.
  Proof.
    destruct ch as [|x r]; [discriminate|]. cbn [table_children_ok]. intro H.
    apply andb_true_iff in H. destruct H as [Hx Hr].
    cbn [lres]. unfold is_row_of in Hx. destruct (nval x) eqn:Ex; try discriminate Hx.
    destruct header; [|discriminate Hx].
    rewrite (lres_rows_false _ true Hr). destruct r; reflexivity.
  Qed.

  Lemma lres_mid pv gv v sp ch :
    s3_go pv gv (Node v sp ch) = true -> lres None ch = mid v ch.
  Proof.
    cbn [s3_go]. intro H. apply andb_true_iff in H. destruct H as [Hk Hc].
    destruct (is_table_v v) eqn:T.
    - destruct v; try discriminate T. apply lres_table. exact Hk.
    - rewrite (lres_nontable _ _ T _ _ Hc). destruct v; try reflexivity. discriminate T.
  Qed.

  Lemma fres_nil st v : (0 < fn_ix st)%N \/ is_fndef v = false -> fres st v = [].
  Proof.
    intros [H|H]; destruct v; try reflexivity; try discriminate H.
    cbn [fres]. destruct (fn_ix st =? 0)%N eqn:E; [apply N.eqb_eq in E; lia | reflexivity].
  Qed.

  (* ---------------------------------------------------------------- the invariant *)
  Definition npre (st : hst) (n : node) : Prop :=
    (0 < fn_ix st)%N \/ nofn n = true \/ is_fndef (nval n) = true.

  Definition P (n : node) : Prop := forall c st evs st' s,
    s3_go (c_parent c) (c_gparent c) n = true ->
    npre st n ->
    render slug o c n st = Ok (evs, st') ->
    nest s evs = Some (res_of (c_prev c) (nval n) ++ fres st (nval n) ++ s) /\
    (fn_ix st <= fn_ix st')%N /\
    (nofn n = true -> fn_ix st' = fn_ix st) /\
    (is_fndef (nval n) = true -> fn_ix st < fn_ix st')%N.

  Lemma nofn_not_fndef n : nofn n = true -> is_fndef (nval n) = false.
  Proof. destruct n as [v sp ch]. cbn [nofn nval]. intro H. apply andb_true_iff in H. destruct H as [H _]. apply negb_true_iff in H. exact H. Qed.

  Lemma list_nest v pv : forall l, Forall P l -> forall i prev st evs st' s,
    forallb (s3_go (Some v) pv) l = true ->
    ((0 < fn_ix st)%N \/ forallb nofn l = true) ->
    render_list slug o v pv l i prev st = Ok (evs, st') ->
    nest s evs = Some (lres prev l ++ s) /\ (fn_ix st <= fn_ix st')%N /\
    (forallb nofn l = true -> fn_ix st' = fn_ix st).
  Proof.
    induction 1 as [|x r Hx Hr IH]; intros i prev st evs st' s H3 Hf Hl.
    - cbn [render_list] in Hl. inv Hl. cbn [nest lres app]. split; [reflexivity|split; [lia|reflexivity]].
    - cbn [render_list] in Hl. cbn [forallb] in H3. apply andb_true_iff in H3. destruct H3 as [H3x H3r].
      match type of Hl with bind ?X _ = _ => destruct X as [[ex sx]| |] eqn:Hrx end; cbn [bind] in Hl; try discriminate.
      match type of Hl with bind ?X _ = _ => destruct X as [[er sr]| |] eqn:Hrr end; cbn [bind] in Hl; try discriminate.
      inv Hl.
      assert (Hpx : npre st x).
      { destruct Hf as [Hf|Hf]; [left; exact Hf|]. right; left. cbn [forallb] in Hf. apply andb_true_iff in Hf. apply Hf. }
      match type of Hrx with render _ _ ?c _ _ = _ => destruct (Hx c st ex sx s H3x Hpx Hrx) as [N1 [M1 [K1 _]]] end. cbn [c_prev] in N1.
      assert (Hf' : (0 < fn_ix sx)%N \/ forallb nofn r = true).
      { destruct Hf as [Hf|Hf]; [left; lia|]. right. cbn [forallb] in Hf. apply andb_true_iff in Hf. apply Hf. }
      destruct (IH (S i) (Some (nval x)) sx er st' (res_of prev (nval x) ++ s) H3r Hf' Hrr) as [N2 [M2 K2]].
      assert (F : fres st (nval x) = []).
      { apply fres_nil. destruct Hf as [Hf|Hf]; [left; exact Hf|]. right. apply nofn_not_fndef.
        cbn [forallb] in Hf. apply andb_true_iff in Hf. apply Hf. }
      rewrite F in N1. cbn [app] in N1.
      split; [|split].
      + rewrite nest_app, N1, N2. cbn [lres]. rewrite app_assoc. reflexivity.
      + lia.
      + intro Hn. cbn [forallb] in Hn. apply andb_true_iff in Hn. destruct Hn as [Hn1 Hn2].
        rewrite (K2 Hn2). apply K1. exact Hn1.
  Qed.

  Lemma render_P : forall n, P n.
  Proof.
    apply node_ind2. intros v sp ch IH c st evs st' s H3 Hpre Hr.
    rewrite render_unfold in Hr.
    destruct (enter slug o c (Node v sp ch) st) as [[[e1 st1] m]| |] eqn:He; cbn [bind] in Hr; try discriminate.
    pose proof (enter_fn_ix _ _ _ _ _ _ _ _ He) as F1.
    pose proof (lres_mid _ _ _ _ _ H3) as Hmid.
    assert (H3c : forallb (s3_go (Some v) (c_parent c)) ch = true).
    { cbn [s3_go] in H3. apply andb_true_iff in H3. apply H3. }
    assert (Hf : (0 < fn_ix st1)%N \/ forallb nofn ch = true).
    { destruct Hpre as [Hp|[Hp|Hp]].
      - left. rewrite F1. destruct (is_fndef v); lia.
      - right. cbn [nofn] in Hp. apply andb_true_iff in Hp. apply Hp.
      - left. cbn [nval] in Hp. rewrite F1, Hp. lia. }
    assert (Hch : exists e2 st2 e3,
               (forall s', nest s' e2 = Some (mid v ch ++ s')) /\ (fn_ix st1 <= fn_ix st2)%N /\
               (forallb nofn ch = true -> fn_ix st2 = fn_ix st1) /\
               exit_ o c (Node v sp ch) st2 = Ok (e3, st') /\ evs = e1 ++ e2 ++ e3).
    { destruct m.
      - destruct (render_list slug o v (c_parent c) ch 0 None st1) as [[e2 st2]| |] eqn:Hl; cbn [bind] in Hr; try discriminate.
        destruct (exit_ o c (Node v sp ch) st2) as [[e3 st3]| |] eqn:Hx; cbn [bind] in Hr; try discriminate.
        inv Hr. exists e2, st2, e3.
        split; [|split; [|split; [|split; first [reflexivity|eassumption]]]].
        + intro s'. rewrite <- Hmid. exact (proj1 (list_nest _ _ _ IH _ _ _ _ _ s' H3c Hf Hl)).
        + exact (proj1 (proj2 (list_nest _ _ _ IH _ _ _ _ _ [] H3c Hf Hl))).
        + exact (proj2 (proj2 (list_nest _ _ _ IH _ _ _ _ _ [] H3c Hf Hl))).
      - cbn [bind] in Hr.
        destruct (exit_ o c (Node v sp ch) st1) as [[e3 st3]| |] eqn:Hx; cbn [bind] in Hr; try discriminate.
        inv Hr. exists [], st1, e3.
        split; [|split; [|split; [|split; first [reflexivity|eassumption]]]].
        + intro s'. rewrite (enter_plain _ _ _ _ _ _ _ He). reflexivity.
        + lia.
        + reflexivity. }
    destruct Hch as [e2 [st2 [e3 [Hm [M [K [Hx ->]]]]]]].
    pose proof (exit_fn_ix _ _ _ _ _ _ _ Hx) as F3.
    cbn [nval]. split; [|split; [|split]].
    - eapply node_nest; eassumption.
    - rewrite F3. destruct (is_fndef v); lia.
    - intro Hn. cbn [nofn] in Hn. apply andb_true_iff in Hn. destruct Hn as [Hn1 Hn2].
      apply negb_true_iff in Hn1. rewrite Hn1 in F1. rewrite F3, (K Hn2). exact F1.
    - intro Hd. rewrite Hd in F1. lia.
  Qed.

  (* ---------------------------------------------------------------- the root *)
  Definition fn_open (st : hst) : list bytes :=
    if (0 <? fn_ix st)%N then [B "ol"; B "section"] else [].

  Lemma root_list v pv : is_table_v v = false -> forall l i prev st evs st' s,
    forallb (s3_go (Some v) pv) l = true ->
    s6w_list l = true ->
    fn_ix st = 0%N ->
    render_list slug o v pv l i prev st = Ok (evs, st') ->
    nest s evs = Some (fn_open st' ++ s).
  Proof.
    intros Hv. induction l as [|x r IH]; intros i prev st evs st' s H3 H6 H0 Hl.
    - cbn [render_list] in Hl. inv Hl. unfold fn_open. rewrite H0. reflexivity.
    - cbn [render_list] in Hl. cbn [forallb] in H3. apply andb_true_iff in H3. destruct H3 as [H3x H3r].
      match type of Hl with bind ?X _ = _ => destruct X as [[ex sx]| |] eqn:Hrx end; cbn [bind] in Hl; try discriminate.
      match type of Hl with bind ?X _ = _ => destruct X as [[er sr]| |] eqn:Hrr end; cbn [bind] in Hl; try discriminate.
      inv Hl. cbn [s6w_list] in H6.
      assert (R : res_of prev (nval x) = []).
      { apply res_of_not_row. destruct (is_row_v (nval x)) eqn:R; [|reflexivity].
        rewrite (s3_child_row _ _ _ H3x R) in Hv. discriminate. }
      destruct (is_fndef (nval x)) eqn:D.
      + assert (Hpx : npre st x) by (right; right; exact D).
        match type of Hrx with render _ _ ?c _ _ = _ => destruct (render_P x c st ex sx s H3x Hpx Hrx) as [N1 [_ [_ L1]]] end. cbn [c_prev] in N1.
        specialize (L1 D).
        assert (Hf : (0 < fn_ix sx)%N \/ forallb nofn r = true) by (left; lia).
        assert (IHr : Forall P r) by (apply Forall_forall; intros; apply render_P).
        destruct (list_nest _ _ _ IHr _ _ _ _ _ (fres st (nval x) ++ s) H3r Hf Hrr) as [N2 [M2 _]].
        rewrite R in N1. cbn [app] in N1.
        rewrite nest_app, N1, N2. rewrite (lres_nontable _ _ Hv _ _ H3r). cbn [app].
        unfold fn_open. replace (0 <? fn_ix st')%N with true by (symmetry; apply N.ltb_lt; lia).
        destruct (nval x); try discriminate D. cbn [fres]. rewrite H0. reflexivity.
      + apply andb_true_iff in H6. destruct H6 as [H6x H6r].
        assert (Hpx : npre st x) by (right; left; exact H6x).
        match type of Hrx with render _ _ ?c _ _ = _ => destruct (render_P x c st ex sx s H3x Hpx Hrx) as [N1 [_ [K1 _]]] end. cbn [c_prev] in N1.
        rewrite R in N1. rewrite (fres_nil st (nval x) (or_intror D)) in N1. cbn [app] in N1.
        rewrite nest_app, N1. eapply IH; [exact H3r | exact H6r | rewrite (K1 H6x); exact H0 | exact Hrr].
  Qed.

  Lemma s6_s6w t : s6 t = true -> s6w t = true.
  Proof.
    unfold s6, s6w. intro H. apply andb_true_iff in H. destruct H as [_ H].
    induction (nch t) as [|x r IH]; [reflexivity|].
    cbn [s6_list s6w_list] in *. destruct (is_fndef (nval x)); [reflexivity|].
    apply andb_true_iff in H. destruct H as [H1 H2]. rewrite H1, (IH H2). reflexivity.
  Qed.

  Theorem nested_weak t evs :
    s2 t = true -> s3 t = true -> s6w t = true ->
    events slug o t = Ok evs -> well_nested evs = true.
  Proof.
    destruct t as [v sp ch]. unfold s2, s3, s6w, events. cbn [nval nch]. intros H2 H3 H6.
    destruct v; try discriminate H2. clear H2.
    rewrite render_unfold. unfold enter, exit_. cbv beta iota zeta. cbn [bind root_ctx c_parent].
    destruct (render_list slug o Document None ch 0 None _) as [[e2 st2]| |] eqn:Hl; cbn [bind]; try discriminate.
    intro H. inv H. cbn [app]. rewrite app_nil_r.
    cbn [s3_go] in H3. cbn [andb] in H3.
    unfold well_nested. rewrite nest_app.
    rewrite (root_list Document None eq_refl _ _ _ (mkHst 0 0 []) _ _ [] H3 H6 eq_refl Hl).
    unfold fn_open, finish. destruct (0 <? fn_ix st2)%N; cbn [app nest]; rewrite ?bytes_eqb_refl; cbn [nest]; rewrite ?bytes_eqb_refl; reflexivity.
  Qed.

  Theorem nested t evs :
    s2 t = true -> s3 t = true -> s6 t = true ->
    events slug o t = Ok evs -> well_nested evs = true.
  Proof. intros H2 H3 H6. apply nested_weak; auto using s6_s6w. Qed.
End R.

(* ------------------------------------------------------------------ dec is injective *)
Definition dval (l : bytes) : N := fold_left (fun a b => (10 * a + (bN b - 48))%N) l 0%N.

Lemma dec_aux_app f : forall n acc, dec_aux f n acc = dec_aux f n [] ++ acc.
Proof.
  induction f as [|f IH]; intros n acc; [reflexivity|].
  cbn [dec_aux]. destruct (n <? 10)%N; [reflexivity|].
  rewrite IH, (IH _ [_]), <- app_assoc. reflexivity.
Qed.

Lemma bN_digit m : (m < 10)%N -> (bN (byte_of_N (48 + m)) - 48 = m)%N.
Proof.
  intro H. unfold bN, byte_of_N.
  destruct (Byte.of_N (48 + m)) as [b|] eqn:E.
  - apply Byte.to_of_N in E. rewrite E. lia.
  - apply Byte.of_N_None_iff in E. lia.
Qed.

Lemma dval_dec_aux f : forall n, (n < 2 ^ N.of_nat f)%N -> dval (dec_aux f n []) = n.
Proof.
  induction f as [|f IH]; intros n H.
  - cbn in H. assert (n = 0%N) by lia. subst. reflexivity.
  - cbn [dec_aux]. destruct (n <? 10)%N eqn:L.
    + apply N.ltb_lt in L. unfold dval. cbn [fold_left]. rewrite N.mod_small by exact L.
      rewrite bN_digit by exact L. lia.
    + apply N.ltb_ge in L. rewrite dec_aux_app. unfold dval. rewrite fold_left_app. cbn [fold_left].
      fold (dval (dec_aux f (n / 10) [])). rewrite IH.
      * rewrite bN_digit by (apply N.mod_lt; lia). pose proof (N.div_mod n 10). lia.
      * rewrite Nnat.Nat2N.inj_succ, N.pow_succ_r' in H.
        apply N.div_lt_upper_bound; lia.
Qed.

Lemma dval_dec n : dval (dec n) = n.
Proof.
  unfold dec. apply dval_dec_aux.
  rewrite Nnat.Nat2N.inj_succ, Nnat.N2Nat.id.
  destruct (N.eq_dec n 0) as [->|Hn]; [reflexivity|].
  apply N.log2_lt_pow2; lia.
Qed.

Lemma dec_inj a b : dec a = dec b -> a = b.
Proof. intro H. rewrite <- (dval_dec a), <- (dval_dec b), H. reflexivity. Qed.

(* ------------------------------------------------------------------ h_uniq_loop has enough fuel *)
Definition cand (id : bytes) (k : N) : bytes := if (k =? 0)%N then id else id ++ [x2d] ++ dec k.

Lemma cand_inj id j k : cand id j = cand id k -> j = k.
Proof.
  unfold cand. destruct (j =? 0)%N eqn:J, (k =? 0)%N eqn:K; intro H.
  - apply N.eqb_eq in J, K. congruence.
  - apply (f_equal (@List.length _)) in H. rewrite app_length in H. cbn in H. lia.
  - apply (f_equal (@List.length _)) in H. rewrite app_length in H. cbn in H. lia.
  - apply app_inv_head in H. inversion H. apply dec_inj. assumption.
Qed.

Lemma uniq_loop_cases iss id : forall f k,
  (exists a, h_uniq_loop f iss id k = Ok a) \/
  (forall j, j < f -> In (cand id (k + N.of_nat j)) iss).
Proof.
  induction f as [|f IH]; intro k; [right; intros; lia|].
  cbn [h_uniq_loop]. fold (cand id k).
  destruct (existsb (bytes_eqb (cand id k)) iss) eqn:E.
  - destruct (IH (k + 1)%N) as [H|H]; [left; exact H|right].
    intros [|j] Hj.
    + rewrite N.add_0_r. apply existsb_exists in E. destruct E as [x [Hx Ex]].
      apply bytes_eqb_eq in Ex. subst. exact Hx.
    + replace (k + N.of_nat (S j))%N with (k + 1 + N.of_nat j)%N by lia. apply H. lia.
  - left. eexists. reflexivity.
Qed.

Lemma uniq_loop_total iss id : exists a, h_uniq_loop (S (List.length iss)) iss id 0%N = Ok a.
Proof.
  destruct (uniq_loop_cases iss id (S (List.length iss)) 0%N) as [H|H]; [exact H|exfalso].
  set (l := map (fun j => cand id (N.of_nat j)) (seq 0 (S (List.length iss)))).
  assert (ND : NoDup l).
  { apply Injective_map_NoDup; [|apply seq_NoDup].
    intros a b E. apply cand_inj in E. lia. }
  assert (I : incl l iss).
  { intros x Hx. apply in_map_iff in Hx. destruct Hx as [j [<- Hj]]. apply in_seq in Hj.
    apply (H j). lia. }
  pose proof (NoDup_incl_length ND I) as L. unfold l in L. rewrite map_length, seq_length in L. lia.
Qed.

(* ------------------------------------------------------------------ tagfilter never fails *)
Lemma tagfilter_total l : exists b, tagfilter l = Ok b.
Proof. exact (TagfilterProofs.tagfilter_total l). Qed.

Lemma tagfilter_block_total s : exists b, tagfilter_block s = Ok b.
Proof. exact (TagfilterProofs.tagfilter_block_total s). Qed.

(* ------------------------------------------------------------------ totality *)
Ltac tot :=
  repeat match goal with
  | |- exists r, (if ?b then _ else _) = Ok r => destruct b
  | |- exists r, (match ?x with _ => _ end) = Ok r => destruct x
  end; try (eexists; reflexivity).

Section T.
  Variable slug : bytes -> bytes.
  Variable o : opts.

  (* what a context must provide: a paragraph has a parent; a cell has an alignment entry *)
  Definition tpre (c : ctx) (v : node_value) : Prop :=
    (v = Paragraph -> c_parent c <> None) /\
    (v = TableCell -> forall t, c_gparent c = Some (Table t) -> c_index c < List.length (t_aligns t)).

  Lemma enter_total c v sp ch st :
    s3_go (c_parent c) (c_gparent c) (Node v sp ch) = true -> tpre c v ->
    exists r, enter slug o c (Node v sp ch) st = Ok r.
  Proof.
    intros H3 [_ Hc]. cbn [s3_go] in H3. apply andb_true_iff in H3. destruct H3 as [Hk _].
    destruct v; unfold enter; cbv beta iota zeta.
    all: try (tot; fail).
    - (* HtmlBlock *)
      destruct (o_escape o); [eexists; reflexivity|].
      destruct (negb (o_unsafe o)); [eexists; reflexivity|].
      destruct (o_tagfilter o); [|eexists; reflexivity].
      destruct (tagfilter_block_total lit) as [f ->]. cbn [bind]. eexists; reflexivity.
    - (* Heading *)
      destruct (o_header_ids o); [|eexists; reflexivity].
      unfold h_anchorize.
      destruct (uniq_loop_total (issued st) (slug (collect_text (Node (Heading level setext) sp ch)))) as [a ->].
      cbn [bind]. eexists; reflexivity.
    - (* TableCell *)
      specialize (Hc eq_refl).
      destruct (c_parent c) as [pvv|]; [|discriminate Hk].
      destruct pvv; try discriminate Hk.
      destruct (c_gparent c) as [gvv|]; [|discriminate Hk].
      destruct gvv; try discriminate Hk.
      specialize (Hc _ eq_refl).
      destruct (nth_error (t_aligns t) (c_index c)) eqn:E; [eexists; reflexivity|].
      apply nth_error_None in E. lia.
    - (* HtmlInline *)
      destruct (o_escape o); [eexists; reflexivity|].
      destruct (negb (o_unsafe o)); [eexists; reflexivity|].
      destruct (o_tagfilter o); [|eexists; reflexivity].
      destruct (tagfilter_total lit) as [f ->]. cbn [bind]. destruct f; eexists; reflexivity.
  Qed.

  Lemma exit_total c v sp ch st :
    s3_go (c_parent c) (c_gparent c) (Node v sp ch) = true -> tpre c v ->
    exists r, exit_ o c (Node v sp ch) st = Ok r.
  Proof.
    intros H3 [Hp _]. cbn [s3_go] in H3. apply andb_true_iff in H3. destruct H3 as [Hk _].
    destruct v; unfold exit_; cbv beta iota zeta.
    all: try (tot; fail).
    - (* Paragraph *)
      specialize (Hp eq_refl). destruct (c_parent c) as [pvv|]; [|congruence]. tot.
    - (* Table *)
      destruct ch as [|x [|y r]]; [discriminate Hk| |]; eexists; reflexivity.
    - (* TableCell *)
      destruct (c_parent c) as [pvv|]; [|discriminate Hk].
      destruct pvv; try discriminate Hk.
      destruct (c_gparent c) as [gvv|]; [|discriminate Hk].
      destruct gvv; try discriminate Hk.
      eexists; reflexivity.
  Qed.

  Definition Q (n : node) : Prop := forall c st,
    s3_go (c_parent c) (c_gparent c) n = true -> tpre c (nval n) ->
    exists r, render slug o c n st = Ok r.

  Lemma s3_child_cell v pv x :
    s3_go (Some v) pv x = true -> nval x = TableCell -> is_row_v v = true.
  Proof.
    destruct x as [vx spx chx]. cbn [s3_go nval]. intros H ->.
    destruct v; try reflexivity; discriminate H.
  Qed.

  Lemma list_total v pv : forall l, Forall Q l -> forall i prev st,
    forallb (s3_go (Some v) pv) l = true ->
    (forall t, is_row_v v = true -> pv = Some (Table t) -> i + List.length l <= List.length (t_aligns t)) ->
    exists r, render_list slug o v pv l i prev st = Ok r.
  Proof.
    induction 1 as [|x r Hx Hr IH]; intros i prev st H3 Hb; [eexists; reflexivity|].
    cbn [render_list]. cbn [forallb] in H3. apply andb_true_iff in H3. destruct H3 as [H3x H3r].
    match goal with |- context [render slug o ?c x st] =>
      destruct (Hx c st H3x) as [[ex sx] ->] end.
    { split; cbn [c_parent c_gparent c_index].
      - discriminate.
      - intros E t Ep. pose proof (Hb t (s3_child_cell _ _ _ H3x E) Ep) as L. cbn [List.length] in L. lia. }
    cbn [bind].
    destruct (IH (S i) (Some (nval x)) sx H3r) as [[er sr] ->].
    { intros t R Ep. pose proof (Hb t R Ep) as L. cbn [List.length] in L. lia. }
    cbn [bind]. eexists; reflexivity.
  Qed.

  Lemma render_Q : forall n, Q n.
  Proof.
    apply node_ind2. intros v sp ch IH c st H3 Hpre. cbn [nval] in Hpre.
    rewrite render_unfold.
    destruct (enter_total c v sp ch st H3 Hpre) as [[[e1 st1] m] ->]. cbn [bind].
    assert (H3c : forallb (s3_go (Some v) (c_parent c)) ch = true).
    { cbn [s3_go] in H3. apply andb_true_iff in H3. apply H3. }
    assert (Hb : forall t, is_row_v v = true -> c_parent c = Some (Table t) ->
                 0 + List.length ch <= List.length (t_aligns t)).
    { intros t R Ep. cbn [s3_go] in H3. apply andb_true_iff in H3. destruct H3 as [Hk _].
      destruct v; try discriminate R. rewrite Ep in Hk. apply andb_true_iff in Hk. destruct Hk as [_ Hk].
      apply Nat.eqb_eq in Hk. cbn [plus]. rewrite Hk. apply le_n. }
    destruct m.
    - destruct (list_total v (c_parent c) ch IH 0 None st1 H3c Hb) as [[e2 st2] ->]. cbn [bind].
      destruct (exit_total c v sp ch st2 H3 Hpre) as [[e3 st3] ->]. cbn [bind]. eexists; reflexivity.
    - cbn [bind].
      destruct (exit_total c v sp ch st1 H3 Hpre) as [[e3 st3] ->]. cbn [bind]. eexists; reflexivity.
  Qed.

  (* the root may be anything but a Paragraph (and, by S3, not a TableRow or TableCell) *)
  Theorem total_gen t :
    nval t <> Paragraph -> s3 t = true -> exists evs, events slug o t = Ok evs.
  Proof.
    intros Hp H3. unfold events.
    destruct (render_Q t root_ctx (mkHst 0 0 []) H3) as [[e st] ->].
    - split; [intro E; contradiction | intros E t0 G; discriminate G].
    - cbn [bind]. eexists; reflexivity.
  Qed.

  Theorem total t :
    s2 t = true -> s3 t = true -> exists evs, events slug o t = Ok evs.
  Proof.
    intros H2 H3. apply total_gen; [|exact H3].
    unfold s2 in H2. intro E. rewrite E in H2. discriminate.
  Qed.

  Theorem total_bytes t :
    s2 t = true -> s3 t = true -> exists b, html slug o t = Ok b.
  Proof.
    intros H2 H3. unfold html. destruct (total t H2 H3) as [e ->]. cbn [bind]. eexists; reflexivity.
  Qed.
End T.

(* ------------------------------------------------------------------ the footnote section opens once *)
Lemma count_open_app t a b : count_open t (a ++ b) = count_open t a + count_open t b.
Proof. induction a as [|e a IH]; [reflexivity|]. destruct e; cbn [app count_open]; rewrite IH; lia. Qed.
Lemma count_close_app t a b : count_close t (a ++ b) = count_close t a + count_close t b.
Proof. induction a as [|e a IH]; [reflexivity|]. destruct e; cbn [app count_close]; rewrite IH; lia. Qed.

Ltac closed_tags :=
  repeat match goal with
  | |- context [bytes_eqb (B ?a) (B ?b)] =>
    let v := eval vm_compute in (bytes_eqb (B a) (B b)) in change (bytes_eqb (B a) (B b)) with v
  end.

Lemma backref_count t name fnix total :
  bytes_eqb t (B "a") = false -> bytes_eqb t (B "sup") = false -> forall k,
  count_open t (backref_loop name fnix total k) = 0 /\
  count_close t (backref_loop name fnix total k) = 0.
Proof.
  intros Ha Hs. induction total as [|n IH]; intro k; [split; reflexivity|].
  cbn [backref_loop]. destruct (IH (S k)) as [A C].
  destruct (1 <? N.of_nat k)%N; cbn [app count_open count_close]; rewrite ?Ha, ?Hs; cbn [Nat.add]; auto.
Qed.

Lemma pfb_count t name total st evs st' w :
  bytes_eqb t (B "a") = false -> bytes_eqb t (B "sup") = false ->
  put_footnote_backref name total st = (evs, st', w) ->
  count_open t evs = 0 /\ count_close t evs = 0.
Proof.
  intros Ha Hs. unfold put_footnote_backref. destruct (fn_ix st <=? wfn_ix st)%N; intro H; inv H.
  - split; reflexivity.
  - apply backref_count; assumption.
Qed.

Ltac cnt :=
  repeat first
   [ progress cbn [count_open count_close app Nat.add]
   | rewrite count_open_app
   | rewrite count_close_app
   | progress closed_tags
   | match goal with
     | H : put_footnote_backref _ _ _ = (?e, _, _) |- context [count_open ?t ?e] =>
       rewrite (proj1 (pfb_count t _ _ _ _ _ _ eq_refl eq_refl H))
     | H : put_footnote_backref _ _ _ = (?e, _, _) |- context [count_close ?t ?e] =>
       rewrite (proj2 (pfb_count t _ _ _ _ _ _ eq_refl eq_refl H))
     | H : count_open ?t ?e = _ |- context [count_open ?t ?e] => rewrite H
     | H : count_close ?t ?e = _ |- context [count_close ?t ?e] => rewrite H
     | |- context [bytes_eqb _ (if ?b then _ else _)] => destruct b
     | |- context [count_open _ (if ?b then _ else _)] => destruct b
     | |- context [count_close _ (if ?b then _ else _)] => destruct b
     | |- context [count_open _ (match ?b with _ => _ end)] => destruct b
     | |- context [count_close _ (match ?b with _ => _ end)] => destruct b
     | |- context [match (match ?b with _ => _ end) with _ => _ end] => destruct b
     end ];
  try reflexivity.

Section S.
  Variable slug : bytes -> bytes.
  Variable o : opts.

  Lemma enter_count c v sp ch st e1 st1 m :
    enter slug o c (Node v sp ch) st = Ok (e1, st1, m) ->
    count_open (B "section") e1 = (if is_fndef v && (fn_ix st =? 0)%N then 1 else 0) /\
    count_close (B "section") e1 = 0.
  Proof.
    destruct v; unfold enter; cbv beta iota zeta; hd; try discriminate; intro He; inv He;
      cbn [is_fndef andb]; split; cnt.
  Qed.

  Lemma exit_count c v sp ch st2 e3 st3 :
    exit_ o c (Node v sp ch) st2 = Ok (e3, st3) ->
    count_open (B "section") e3 = 0 /\ count_close (B "section") e3 = 0.
  Proof.
    destruct v; unfold exit_; cbv beta iota zeta; hd; try discriminate; intro He; inv He; split; cnt.
  Qed.

  (* 1 when the section is opened between the two states *)
  Definition opened (a b : hst) : nat :=
    if (fn_ix a =? 0)%N && negb (fn_ix b =? 0)%N then 1 else 0.

  Lemma opened_trans a b c :
    (fn_ix a <= fn_ix b)%N -> (fn_ix b <= fn_ix c)%N -> opened a b + opened b c = opened a c.
  Proof.
    unfold opened. intros H1 H2.
    destruct (N.eqb_spec (fn_ix a) 0), (N.eqb_spec (fn_ix b) 0), (N.eqb_spec (fn_ix c) 0);
      cbn [andb negb Nat.add]; try reflexivity; lia.
  Qed.

  Lemma opened_same a b : fn_ix b = fn_ix a -> opened a b = 0.
  Proof. unfold opened. intros ->. destruct (fn_ix a =? 0)%N; reflexivity. Qed.

  Definition CI (n : node) : Prop := forall c st evs st',
    render slug o c n st = Ok (evs, st') ->
    count_open (B "section") evs = opened st st' /\ count_close (B "section") evs = 0 /\
    (fn_ix st <= fn_ix st')%N.

  Lemma list_count v pv : forall l, Forall CI l -> forall i prev st evs st',
    render_list slug o v pv l i prev st = Ok (evs, st') ->
    count_open (B "section") evs = opened st st' /\ count_close (B "section") evs = 0 /\
    (fn_ix st <= fn_ix st')%N.
  Proof.
    induction 1 as [|x r Hx Hr IH]; intros i prev st evs st' Hl.
    - cbn [render_list] in Hl. inv Hl. rewrite opened_same by reflexivity. repeat split. lia.
    - cbn [render_list] in Hl.
      match type of Hl with bind ?X _ = _ => destruct X as [[ex sx]| |] eqn:Hrx end; cbn [bind] in Hl; try discriminate.
      match type of Hl with bind ?X _ = _ => destruct X as [[er sr]| |] eqn:Hrr end; cbn [bind] in Hl; try discriminate.
      inv Hl. destruct (Hx _ _ _ _ Hrx) as [A1 [C1 M1]]. destruct (IH _ _ _ _ _ Hrr) as [A2 [C2 M2]].
      rewrite count_open_app, count_close_app, A1, A2, C1, C2, opened_trans by assumption.
      repeat split. lia.
  Qed.

  Lemma render_CI : forall n, CI n.
  Proof.
    apply node_ind2. intros v sp ch IH c st evs st' Hr.
    rewrite render_unfold in Hr.
    destruct (enter slug o c (Node v sp ch) st) as [[[e1 st1] m]| |] eqn:He; cbn [bind] in Hr; try discriminate.
    pose proof (enter_fn_ix _ _ _ _ _ _ _ _ _ _ He) as F1.
    destruct (enter_count _ _ _ _ _ _ _ _ He) as [A1 C1].
    assert (M1 : (fn_ix st <= fn_ix st1)%N) by (rewrite F1; destruct (is_fndef v); lia).
    assert (A1' : count_open (B "section") e1 = opened st st1).
    { rewrite A1. unfold opened. rewrite F1. destruct (is_fndef v); cbn [andb].
      - destruct (N.eqb_spec (fn_ix st) 0) as [E|E]; [|reflexivity]. rewrite E. reflexivity.
      - destruct (fn_ix st =? 0)%N; reflexivity. }
    assert (Hch : exists e2 st2 e3,
               count_open (B "section") e2 = opened st1 st2 /\ count_close (B "section") e2 = 0 /\
               (fn_ix st1 <= fn_ix st2)%N /\
               exit_ o c (Node v sp ch) st2 = Ok (e3, st') /\ evs = e1 ++ e2 ++ e3).
    { destruct m.
      - destruct (render_list slug o v (c_parent c) ch 0 None st1) as [[e2 st2]| |] eqn:Hl; cbn [bind] in Hr; try discriminate.
        destruct (exit_ o c (Node v sp ch) st2) as [[e3 st3]| |] eqn:Hx; cbn [bind] in Hr; try discriminate.
        inv Hr. exists e2, st2, e3. destruct (list_count _ _ _ IH _ _ _ _ _ Hl) as [A [C M]].
        repeat split; assumption.
      - cbn [bind] in Hr.
        destruct (exit_ o c (Node v sp ch) st1) as [[e3 st3]| |] eqn:Hx; cbn [bind] in Hr; try discriminate.
        inv Hr. exists [], st1, e3. rewrite opened_same by reflexivity. repeat split; try assumption. lia. }
    destruct Hch as [e2 [st2 [e3 [A2 [C2 [M2 [Hx ->]]]]]]].
    pose proof (exit_fn_ix _ _ _ _ _ _ _ _ Hx) as F3.
    destruct (exit_count _ _ _ _ _ _ _ Hx) as [A3 C3].
    rewrite !count_open_app, !count_close_app, A1', A2, A3, C1, C2, C3, Nat.add_0_r.
    rewrite opened_trans by assumption.
    split; [|split; [reflexivity|lia]].
    unfold opened. rewrite F3. reflexivity.
  Qed.

  Theorem section_once t evs :
    events slug o t = Ok evs ->
    count_open (B "section") evs = count_close (B "section") evs /\
    count_open (B "section") evs <= 1.
  Proof.
    unfold events.
    destruct (render slug o root_ctx t (mkHst 0 0 [])) as [[e st]| |] eqn:Hr; cbn [bind]; try discriminate.
    intro H. inv H. destruct (render_CI t _ _ _ _ Hr) as [A [C M]].
    rewrite count_open_app, count_close_app, A, C.
    unfold opened, finish. cbn [fn_ix N.eqb andb].
    destruct (N.eqb_spec (fn_ix st) 0) as [E|E].
    - rewrite E. cbn. split; [reflexivity|lia].
    - replace (0 <? fn_ix st)%N with true by (symmetry; apply N.ltb_lt; lia).
      cbn [negb count_open count_close Nat.add]. closed_tags. cbn [Nat.add]. split; [reflexivity|lia].
  Qed.
End S.

(* ------------------------------------------------------------------ table sections *)
Definition tsum (e : list ev) : nat :=
  count_open (B "thead") e + count_close (B "thead") e +
  count_open (B "tbody") e + count_close (B "tbody") e +
  count_open (B "table") e + count_close (B "table") e.

Lemma tsum_app a b : tsum (a ++ b) = tsum a + tsum b.
Proof. unfold tsum. rewrite !count_open_app, !count_close_app. lia. Qed.

Definition b2n (b : bool) : nat := if b then 1 else 0.
Definition is_hdr (prev : option node_value) : bool :=
  match prev with Some (TableRow true) => true | _ => false end.
Definition is_nil {A} (l : list A) : bool := match l with [] => true | _ => false end.

Section TS.
  Variable slug : bytes -> bytes.
  Variable o : opts.

  Lemma enter_tsum c v sp ch st e1 st1 m :
    is_table_v v = false -> is_row_v v = false ->
    enter slug o c (Node v sp ch) st = Ok (e1, st1, m) -> tsum e1 = 0.
  Proof.
    intros T R. destruct v; try discriminate T; try discriminate R; clear T R;
      unfold enter; cbv beta iota zeta; hd; try discriminate; intro He; inv He; unfold tsum; cnt.
  Qed.

  Lemma exit_tsum c v sp ch st2 e3 st3 :
    is_table_v v = false -> is_row_v v = false ->
    exit_ o c (Node v sp ch) st2 = Ok (e3, st3) -> tsum e3 = 0.
  Proof.
    intros T R. destruct v; try discriminate T; try discriminate R; clear T R;
      unfold exit_; cbv beta iota zeta; hd; try discriminate; intro He; inv He; unfold tsum; cnt.
  Qed.

  Definition Z (n : node) : Prop := forall c st evs st',
    s3_go (c_parent c) (c_gparent c) n = true -> no_table n = true -> is_row_v (nval n) = false ->
    render slug o c n st = Ok (evs, st') -> tsum evs = 0.

  Lemma list_Z v pv : is_table_v v = false -> forall l, Forall Z l -> forall i prev st evs st',
    forallb (s3_go (Some v) pv) l = true -> forallb no_table l = true ->
    render_list slug o v pv l i prev st = Ok (evs, st') -> tsum evs = 0.
  Proof.
    intros Hv. induction 1 as [|x r Hx Hr IH]; intros i prev st evs st' H3 Hn Hl.
    - cbn [render_list] in Hl. inv Hl. reflexivity.
    - cbn [render_list] in Hl. cbn [forallb] in H3, Hn.
      apply andb_true_iff in H3. destruct H3 as [H3x H3r]. apply andb_true_iff in Hn. destruct Hn as [Hnx Hnr].
      match type of Hl with bind ?X _ = _ => destruct X as [[ex sx]| |] eqn:Hrx end; cbn [bind] in Hl; try discriminate.
      match type of Hl with bind ?X _ = _ => destruct X as [[er sr]| |] eqn:Hrr end; cbn [bind] in Hl; try discriminate.
      inv Hl. rewrite tsum_app.
      assert (R : is_row_v (nval x) = false).
      { destruct (is_row_v (nval x)) eqn:R; [|reflexivity].
        rewrite (s3_child_row _ _ _ H3x R) in Hv. discriminate. }
      match type of Hrx with render _ _ ?c _ _ = _ => rewrite (Hx c _ _ _ H3x Hnx R Hrx) end.
      rewrite (IH _ _ _ _ _ H3r Hnr Hrr). reflexivity.
  Qed.

  Lemma render_Z : forall n, Z n.
  Proof.
    apply node_ind2. intros v sp ch IH c st evs st' H3 Hn R Hr. cbn [nval] in R.
    cbn [no_table] in Hn. apply andb_true_iff in Hn. destruct Hn as [T Hn]. apply negb_true_iff in T.
    assert (H3c : forallb (s3_go (Some v) (c_parent c)) ch = true).
    { cbn [s3_go] in H3. apply andb_true_iff in H3. apply H3. }
    rewrite render_unfold in Hr.
    destruct (enter slug o c (Node v sp ch) st) as [[[e1 st1] m]| |] eqn:He; cbn [bind] in Hr; try discriminate.
    pose proof (enter_tsum _ _ _ _ _ _ _ _ T R He) as Z1.
    destruct m.
    - destruct (render_list slug o v (c_parent c) ch 0 None st1) as [[e2 st2]| |] eqn:Hl; cbn [bind] in Hr; try discriminate.
      destruct (exit_ o c (Node v sp ch) st2) as [[e3 st3]| |] eqn:Hx; cbn [bind] in Hr; try discriminate.
      inv Hr. rewrite !tsum_app, Z1, (list_Z _ _ T _ IH _ _ _ _ _ H3c Hn Hl), (exit_tsum _ _ _ _ _ _ _ T R Hx). reflexivity.
    - cbn [bind] in Hr.
      destruct (exit_ o c (Node v sp ch) st1) as [[e3 st3]| |] eqn:Hx; cbn [bind] in Hr; try discriminate.
      inv Hr. rewrite !tsum_app, Z1, (exit_tsum _ _ _ _ _ _ _ T R Hx). reflexivity.
  Qed.

  Definition counts6 (e : list ev) (a b c d f g : nat) : Prop :=
    count_open (B "thead") e = a /\ count_close (B "thead") e = b /\
    count_open (B "tbody") e = c /\ count_close (B "tbody") e = d /\
    count_open (B "table") e = f /\ count_close (B "table") e = g.

  Lemma tsum0 e : tsum e = 0 -> counts6 e 0 0 0 0 0 0.
  Proof. unfold tsum, counts6. lia. Qed.

  Lemma counts6_app e1 e2 a b c d f g a' b' c' d' f' g' :
    counts6 e1 a b c d f g -> counts6 e2 a' b' c' d' f' g' ->
    counts6 (e1 ++ e2) (a + a') (b + b') (c + c') (d + d') (f + f') (g + g').
  Proof.
    unfold counts6. intros [A [B0 [C [D [F G]]]]] [A' [B' [C' [D' [F' G']]]]].
    rewrite !count_open_app, !count_close_app. lia.
  Qed.

  Lemma row_counts t pv h spx chx c st ex sx :
    c_parent c = Some (Table t) -> c_gparent c = pv ->
    s3_go (Some (Table t)) pv (Node (TableRow h) spx chx) = true -> forallb no_table chx = true ->
    render slug o c (Node (TableRow h) spx chx) st = Ok (ex, sx) ->
    counts6 ex (b2n h) (b2n h) (b2n (negb h && is_hdr (c_prev c))) 0 0 0.
  Proof.
    intros Ep Eg H3 Hn Hr. rewrite render_unfold in Hr. rewrite Ep in Hr.
    unfold enter in Hr. cbv beta iota zeta in Hr. cbn [bind] in Hr.
    destruct (render_list slug o (TableRow h) (Some (Table t)) chx 0 None st) as [[e2 st2]| |] eqn:Hl; cbn [bind] in Hr; try discriminate.
    unfold exit_ in Hr. cbv beta iota zeta in Hr. cbn [bind] in Hr. inv Hr.
    assert (H3c : forallb (s3_go (Some (TableRow h)) (Some (Table t))) chx = true).
    { cbn [s3_go] in H3. apply andb_true_iff in H3. apply H3. }
    assert (IH : Forall Z chx) by (apply Forall_forall; intros; apply render_Z).
    pose proof (tsum0 _ (list_Z (TableRow h) _ eq_refl _ IH _ _ _ _ _ H3c Hn Hl)) as [A [B0 [C [D [F G]]]]].
    unfold counts6.
    destruct h; cbn [negb andb b2n]; [repeat split; cnt|].
    destruct (c_prev c) as [pvv|]; [destruct pvv; try (repeat split; cnt; fail)|repeat split; cnt].
  Qed.

  Lemma rows_counts t pv : forall l i prev st evs st',
    forallb (s3_go (Some (Table t)) pv) l = true -> forallb (is_row_of false) l = true ->
    forallb no_table l = true ->
    render_list slug o (Table t) pv l i prev st = Ok (evs, st') ->
    counts6 evs 0 0 (b2n (is_hdr prev && negb (is_nil l))) 0 0 0.
  Proof.
    induction l as [|x r IH]; intros i prev st evs st' H3 Hf Hn Hl.
    - cbn [render_list] in Hl. inv Hl. rewrite andb_false_r. repeat split.
    - cbn [render_list] in Hl. cbn [forallb] in H3, Hf, Hn.
      apply andb_true_iff in H3. destruct H3 as [H3x H3r]. apply andb_true_iff in Hn. destruct Hn as [Hnx Hnr].
      apply andb_true_iff in Hf. destruct Hf as [Hfx Hfr].
      match type of Hl with bind ?X _ = _ => destruct X as [[ex sx]| |] eqn:Hrx end; cbn [bind] in Hl; try discriminate.
      match type of Hl with bind ?X _ = _ => destruct X as [[er sr]| |] eqn:Hrr end; cbn [bind] in Hl; try discriminate.
      inv Hl. destruct x as [vx spx chx]. unfold is_row_of in Hfx. cbn [nval] in Hfx, Hrr.
      destruct vx; try discriminate Hfx. destruct header; [discriminate Hfx|].
      cbn [no_table is_table_v negb andb] in Hnx.
      match type of Hrx with render _ _ ?cc _ _ = _ => pose proof (row_counts _ _ _ _ _ cc _ _ _ eq_refl eq_refl H3x Hnx Hrx) as C1 end. cbn [c_prev negb andb b2n] in C1.
      pose proof (IH _ _ _ _ _ H3r Hfr Hnr Hrr) as C2. cbn [is_hdr andb b2n] in C2.
      pose proof (counts6_app _ _ _ _ _ _ _ _ _ _ _ _ _ _ C1 C2) as C.
      cbn [is_nil negb]. rewrite andb_true_r. rewrite !Nat.add_0_r in C. exact C.
  Qed.

  (* a table that satisfies S3 and has no table nested in its cells: one table element, one head
     section, and one body section exactly when there is a second row *)
  Theorem table_sections c t sp ch st evs st' :
    s3_go (c_parent c) (c_gparent c) (Node (Table t) sp ch) = true ->
    forallb no_table ch = true ->
    render slug o c (Node (Table t) sp ch) st = Ok (evs, st') ->
    let body := if (2 <=? List.length ch)%nat then 1 else 0 in
    counts6 evs 1 1 body body 1 1.
  Proof.
    intros H3 Hn Hr. cbn [s3_go] in H3. apply andb_true_iff in H3. destruct H3 as [Hk H3c].
    destruct ch as [|x rs]; [discriminate Hk|]. cbn [table_children_ok] in Hk.
    apply andb_true_iff in Hk. destruct Hk as [Hx0 Hrs].
    rewrite render_unfold in Hr. unfold enter in Hr. cbv beta iota zeta in Hr. cbn [bind] in Hr.
    destruct (render_list slug o (Table t) (c_parent c) (x :: rs) 0 None st) as [[e2 st2]| |] eqn:Hl; cbn [bind] in Hr; try discriminate.
    cbn [render_list] in Hl.
    match type of Hl with bind ?X _ = _ => destruct X as [[ex sx]| |] eqn:Hrx end; cbn [bind] in Hl; try discriminate.
    match type of Hl with bind ?X _ = _ => destruct X as [[er sr]| |] eqn:Hrr end; cbn [bind] in Hl; try discriminate.
    inv Hl. cbn [forallb] in H3c, Hn.
    apply andb_true_iff in H3c. destruct H3c as [H3x H3r]. apply andb_true_iff in Hn. destruct Hn as [Hnx Hnr].
    destruct x as [vx spx chx]. unfold is_row_of in Hx0. cbn [nval] in Hx0, Hrr.
    destruct vx; try discriminate Hx0. destruct header; [|discriminate Hx0].
    cbn [no_table is_table_v negb andb] in Hnx.
    match type of Hrx with render _ _ ?cc _ _ = _ => pose proof (row_counts _ _ _ _ _ cc _ _ _ eq_refl eq_refl H3x Hnx Hrx) as C1 end. cbn [c_prev negb andb b2n] in C1.
    pose proof (rows_counts _ _ _ _ _ _ _ _ H3r Hrs Hnr Hrr) as C2. cbn [is_hdr andb] in C2.
    pose proof (counts6_app _ _ _ _ _ _ _ _ _ _ _ _ _ _ C1 C2) as [A [B0 [C [D [F G]]]]].
    unfold exit_ in Hr. cbv beta iota zeta in Hr.
    destruct rs as [|y rs]; cbn [bind] in Hr; inv Hr; cbn [List.length Nat.leb is_nil negb b2n Nat.add] in *;
      unfold counts6; repeat split; cnt; rewrite ?count_open_app, ?count_close_app in *; lia.
  Qed.
End TS.

(* ------------------------------------------------------------------ witnesses: each clause is needed *)
Definition o_plain : opts :=
  mkOpts false None true false false false false false false 0 false false 0 false false false
         false false false 0 false false.
(* tagfilter, header ids, relaxed autolinks, sourcepos, escaped char spans, gfm quirks,
   figure with caption, tasklist classes *)
Definition o_rich : opts :=
  mkOpts true (Some (B "user-content-")) true false false true false false false 0 false false 0
         true true true false true true 0 false false.
Definition nd (v : node_value) (ch : list node) : node := Node v (mkSp 1 1 1 1) ch.
Definition txt (s : string) : node := nd (Text (B s)) [].
Definition para (ch : list node) : node := nd Paragraph ch.
Definition cell (s : string) : node := nd TableCell [txt s].
Definition slug_id (b : bytes) : bytes := b.
Definition tbl1 : node_table := mkTable 1 2 2 [ANone].

(* S6: a footnote definition inside a block quote *)
Definition w_fn_in_quote : node :=
  nd Document [nd BlockQuote [nd (FootnoteDefinition (B "a") 1) [para [txt "x"]]]].
(* S3: the second row is a header row too; a row outside a table *)
Definition w_two_headers : node :=
  nd Document [nd (Table tbl1) [nd (TableRow true) [cell "a"]; nd (TableRow true) [cell "b"]]].
Definition w_row_outside : node :=
  nd Document [nd (TableRow true) []; nd (TableRow false) []].
(* S3 / S2, totality *)
Definition w_cell_at_root : node := nd Document [cell "a"].
Definition w_empty_table : node := nd Document [nd (Table tbl1) []].
Definition w_wide_row : node := nd Document [nd (Table tbl1) [nd (TableRow true) [cell "a"; cell "b"]]].
Definition w_para_root : node := para [txt "a"].
(* S6 is stronger than needed: a definition inside a definition is still balanced *)
Definition w_fn_in_fn : node :=
  nd Document [nd (FootnoteDefinition (B "a") 1) [para [txt "x"]; nd (FootnoteDefinition (B "b") 1) [para [txt "y"]]]].

Definition unbalanced (t : node) : Prop :=
  exists evs, events slug_id o_plain t = Ok evs /\ well_nested evs = false.
Definition panics (t : node) : Prop :=
  exists site, events slug_id o_plain t = Panic site.

Lemma s6_needed : s2 w_fn_in_quote = true /\ s3 w_fn_in_quote = true /\ s6 w_fn_in_quote = false /\
                  unbalanced w_fn_in_quote.
Proof. repeat split; try (vm_compute; reflexivity). eexists; split; vm_compute; reflexivity. Qed.

Lemma s3_header_needed : s2 w_two_headers = true /\ s6 w_two_headers = true /\ s3 w_two_headers = false /\
                         unbalanced w_two_headers.
Proof. repeat split; try (vm_compute; reflexivity). eexists; split; vm_compute; reflexivity. Qed.

Lemma s3_row_parent_needed : s2 w_row_outside = true /\ s6 w_row_outside = true /\ s3 w_row_outside = false /\
                             unbalanced w_row_outside.
Proof. repeat split; try (vm_compute; reflexivity). eexists; split; vm_compute; reflexivity. Qed.

Lemma s3_cell_parent_needed : s2 w_cell_at_root = true /\ s3 w_cell_at_root = false /\ panics w_cell_at_root.
Proof. repeat split; try (vm_compute; reflexivity). eexists; vm_compute; reflexivity. Qed.

Lemma s3_nonempty_needed : s2 w_empty_table = true /\ s3 w_empty_table = false /\ panics w_empty_table.
Proof. repeat split; try (vm_compute; reflexivity). eexists; vm_compute; reflexivity. Qed.

Lemma s3_width_needed : s2 w_wide_row = true /\ s3 w_wide_row = false /\ panics w_wide_row.
Proof. repeat split; try (vm_compute; reflexivity). eexists; vm_compute; reflexivity. Qed.

Lemma s2_needed : s3 w_para_root = true /\ s2 w_para_root = false /\ panics w_para_root.
Proof. repeat split; try (vm_compute; reflexivity). eexists; vm_compute; reflexivity. Qed.

Lemma s6_not_necessary :
  s6 w_fn_in_fn = false /\ s6w w_fn_in_fn = true /\
  exists evs, events slug_id o_plain w_fn_in_fn = Ok evs /\ well_nested evs = true.
Proof. repeat split; try (vm_compute; reflexivity). eexists; split; vm_compute; reflexivity. Qed.

(* ------------------------------------------------------------------ non-vacuity *)
Definition tbl3 : node_table := mkTable 2 3 6 [ALeft; ANone].
Definition lst (tight : bool) : node_list := mkList Bullet 0 2 1 Period 45 tight false.
Definition ex_tree : node :=
  nd Document
    [ nd (Heading 1 false) [txt "T"];
      nd (Heading 2 false) [txt "T"];
      nd (Table tbl3)
        [ nd (TableRow true) [cell "h1"; cell "h2"];
          nd (TableRow false) [cell "a"; cell "b"];
          nd (TableRow false) [cell "c"; cell "d"] ];
      nd (NList (lst true))
        [ nd (Item (lst true)) [para [txt "t"; nd Strong [nd Strong [txt "s"]]]] ];
      nd (NList (lst false))
        [ nd (Item (lst false)) [para [txt "u"; nd (FootnoteReference (B "a") 1 1) []]];
          nd (Item (lst false)) [para [nd (Image (B "i.png") (B "cap")) [txt "alt"]]] ];
      para [nd (Link (B "http://x/") (B "")) [nd (Link (B "http://y/") (B "")) [txt "l"]];
            nd (FootnoteReference (B "b") 1 2) []; nd (HtmlInline (B "<b>")) []];
      nd (HtmlBlock 6 (B "<div>")) [];
      nd (FootnoteDefinition (B "a") 1) [para [txt "fa"]];
      nd (FootnoteDefinition (B "b") 1) [para [txt "fb"]; nd BlockQuote [para [txt "q"]]] ].
