(* Proofs/HtmlNest.v — the event stream of Model/Html.v is well nested (C10) and the renderer is
   total on well-shaped trees.

   Raw HTML reaches the event stream only as RawHtml / Cmt / Txt events, which `nest` ignores, so
   the pass-through clause of C10 (safe mode, escape mode, no raw HTML in the input) plays no role at
   event level: the theorems below hold for every option record.  What matters are the tree-shape
   clauses of Spec/Shape.v. *)
From Coq Require Import List NArith Bool Lia Strings.String FinFun.
From Coq Require Strings.Byte.
From V Require Import Base.Bytes Base.Res Model.Ast Model.Tagfilter0 Model.Html Spec.HtmlSpec Spec.Shape.
Import ListNotations.
Local Open Scope string_scope.
Local Open Scope list_scope.

(* ------------------------------------------------------------------ nest *)
Lemma bytes_eqb_refl a : bytes_eqb a a = true.
Proof. apply bytes_eqb_eq. reflexivity. Qed.

Lemma nest_app s a b :
  nest s (a ++ b) = match nest s a with Some s' => nest s' b | None => None end.
Proof.
  revert s. induction a as [|e a IH]; intro s; [reflexivity|].
  destruct e; cbn [app nest]; try apply IH.
  destruct s as [|t' s]; [reflexivity|]. destruct (bytes_eqb tag t'); [apply IH | reflexivity].
Qed.

Lemma backref_nest name fnix total : forall k s r,
  nest s (backref_loop name fnix total k ++ r) = nest s r.
Proof.
  induction total as [|t IH]; intros k s r; [reflexivity|].
  cbn [backref_loop]. destruct (1 <? N.of_nat k)%N; cbn [app nest];
    rewrite ?bytes_eqb_refl; cbn [app nest]; rewrite ?bytes_eqb_refl; apply IH.
Qed.

Lemma pfb_nest name total st evs st' w :
  put_footnote_backref name total st = (evs, st', w) ->
  forall s r, nest s (evs ++ r) = nest s r.
Proof.
  unfold put_footnote_backref. destruct (fn_ix st <=? wfn_ix st)%N; intro H; inversion H; subst; intros.
  - reflexivity.
  - apply backref_nest.
Qed.

Lemma pfb_fn_ix name total st evs st' w :
  put_footnote_backref name total st = (evs, st', w) -> fn_ix st' = fn_ix st.
Proof.
  unfold put_footnote_backref. destruct (fn_ix st <=? wfn_ix st)%N; intro H; inversion H; subst; reflexivity.
Qed.

(* what a node leaves on the stack *)
Definition res_of (prev : option node_value) (v : node_value) : list bytes :=
  match v with
  | TableRow false => match prev with Some (TableRow true) => [B "tbody"] | _ => [] end
  | _ => []
  end.

Definition fres (st : hst) (v : node_value) : list bytes :=
  match v with
  | FootnoteDefinition _ _ => if (fn_ix st =? 0)%N then [B "ol"; B "section"] else []
  | _ => []
  end.

(* what the children of a node leave on the stack (under S3) *)
Definition mid (v : node_value) (ch : list node) : list bytes :=
  match v with
  | Table _ => match ch with [] => [] | [_] => [] | _ => [B "tbody"] end
  | _ => []
  end.

Fixpoint lres (prev : option node_value) (l : list node) : list bytes :=
  match l with
  | [] => []
  | x :: r => lres (Some (nval x)) r ++ res_of prev (nval x)
  end.

(* case analysis on the head of `X = _ -> G` *)
Ltac hd :=
  repeat match goal with
  | |- (if ?b then _ else _) = _ -> _ => destruct b eqn:?
  | |- (match ?x with _ => _ end) = _ -> _ => destruct x eqn:?
  | |- bind ?r _ = _ -> _ => destruct r eqn:?; cbn [bind]
  end.

Ltac inv H := inversion H; subst; clear H.

Ltac fin :=
  repeat first
   [ progress cbn [nest app res_of fres mid]
   | rewrite bytes_eqb_refl
   | rewrite backref_nest
   | match goal with
     | H : put_footnote_backref _ _ _ = (?e, _, _) |- context [nest _ (?e ++ _)] =>
       rewrite (pfb_nest _ _ _ _ _ _ H)
     end
   | rewrite nest_app
   | match goal with
     | H : forall s', nest s' ?e = _ |- context [nest _ ?e] => rewrite H
     | |- context [nest _ ((if ?b then _ else _) ++ _)] => destruct b
     | |- context [nest _ (if ?b then _ else _)] => destruct b
     | |- context [nest _ ((match ?b with _ => _ end) ++ _)] => destruct b
     | |- context [nest _ (match ?b with _ => _ end)] => destruct b
     | |- context [match (match ?b with _ => _ end) with _ => _ end] => destruct b
     end ];
  try reflexivity.

Section R.
  Variable slug : bytes -> bytes.
  Variable o : opts.

  (* ---------------------------------------------------------------- render = render_list *)
  Lemma render_unfold c v sp ch st :
    render slug o c (Node v sp ch) st =
    (do r1 <- enter slug o c (Node v sp ch) st;
     let '(e1, st1, m) := r1 in
     do r2 <- (match m with
               | MPlain => Ok ([], st1)
               | MHtml => render_list slug o v (c_parent c) ch 0 None st1
               end);
     let (e2, st2) := r2 in
     do r3 <- exit_ o c (Node v sp ch) st2;
     let (e3, st3) := r3 in
     Ok (e1 ++ e2 ++ e3, st3)).
  Proof.
    cbn [render].
    destruct (enter slug o c (Node v sp ch) st) as [[[e1 st1] m]| |]; cbn [bind]; try reflexivity.
    destruct m; [|reflexivity].
    match goal with |- bind (?F ch 0 None st1) _ = _ =>
      assert (E : forall l i prev s, F l i prev s = render_list slug o v (c_parent c) l i prev s)
    end.
    { induction l as [|x r IH]; intros i prev s; [reflexivity|].
      cbn [render_list]. simpl.
      match goal with |- bind ?X _ = _ => destruct X as [[ex sx]| |] end; cbn [bind]; try reflexivity.
      rewrite IH. reflexivity. }
    rewrite E. reflexivity.
  Qed.

  (* ---------------------------------------------------------------- one node: enter ++ body ++ exit *)
  Lemma node_nest c v sp ch st st1 m e1 e2 st2 e3 st3 s :
    enter slug o c (Node v sp ch) st = Ok (e1, st1, m) ->
    exit_ o c (Node v sp ch) st2 = Ok (e3, st3) ->
    (forall s', nest s' e2 = Some (mid v ch ++ s')) ->
    nest s (e1 ++ e2 ++ e3) = Some (res_of (c_prev c) v ++ fres st v ++ s).
  Proof.
    intros He Hx Hm. revert He Hx.
    destruct v; unfold enter, exit_; cbv beta iota zeta; hd;
      try discriminate; intro He; inv He; hd; try discriminate; intro Hx; inv Hx; fin.
  Qed.

  (* ---------------------------------------------------------------- the footnote counter *)
  Lemma enter_fn_ix c v sp ch st e1 st1 m :
    enter slug o c (Node v sp ch) st = Ok (e1, st1, m) ->
    fn_ix st1 = if is_fndef v then (fn_ix st + 1)%N else fn_ix st.
  Proof.
    destruct v; unfold enter; cbv beta iota zeta; hd; try discriminate; intro He; inv He; reflexivity.
  Qed.

  Lemma exit_fn_ix c v sp ch st2 e3 st3 :
    exit_ o c (Node v sp ch) st2 = Ok (e3, st3) -> fn_ix st3 = fn_ix st2.
  Proof.
    destruct v; unfold exit_; cbv beta iota zeta; hd; try discriminate; intro He; inv He;
      try reflexivity;
      match goal with H : put_footnote_backref _ _ _ = _ |- _ => apply (pfb_fn_ix _ _ _ _ _ _ H) end.
  Qed.

  Lemma enter_plain c v sp ch st e1 st1 :
    enter slug o c (Node v sp ch) st = Ok (e1, st1, MPlain) -> mid v ch = [].
  Proof.
    destruct v; unfold enter; cbv beta iota zeta; hd; try discriminate; intro He; inv He; reflexivity.
  Qed.

  (* ---------------------------------------------------------------- residues of a child list under S3 *)
  Lemma res_of_not_row prev v : is_row_v v = false -> res_of prev v = [].
  Proof. destruct v; try reflexivity. discriminate. Qed.

  Lemma s3_child_row v pv x :
    s3_go (Some v) pv x = true -> is_row_v (nval x) = true -> is_table_v v = true.
  Proof.
    destruct x as [vx spx chx]. cbn [s3_go nval]. intros H R.
    destruct vx; try discriminate R. destruct v; try reflexivity; discriminate H.
  Qed.

  Lemma lres_nontable v pv : is_table_v v = false -> forall l prev,
    forallb (s3_go (Some v) pv) l = true -> lres prev l = [].
  Proof.
    intros Hv. induction l as [|x r IH]; intros prev H; [reflexivity|].
    cbn [forallb] in H. apply andb_true_iff in H. destruct H as [Hx Hr].
    cbn [lres]. rewrite (IH _ Hr). cbn [app]. apply res_of_not_row.
    destruct (is_row_v (nval x)) eqn:R; [|reflexivity].
    rewrite (s3_child_row _ _ _ Hx R) in Hv. discriminate.
  Qed.

  Lemma lres_rows_false : forall l h,
    forallb (is_row_of false) l = true -> lres (Some (TableRow h)) l = if h then match l with [] => [] | _ => [B "tbody"] end else [].
  Proof.
    induction l as [|x r IH]; intros h H; [destruct h; reflexivity|].
    cbn [forallb] in H. apply andb_true_iff in H. destruct H as [Hx Hr].
    cbn [lres]. unfold is_row_of in Hx. destruct (nval x) eqn:Ex; try discriminate Hx.
    destruct header; [discriminate Hx|].
    rewrite (IH false Hr). destruct h; reflexivity.
  Qed.

  Lemma lres_table t ch : table_children_ok ch = true -> lres None ch = mid (Table t) ch.
  Proof.
    destruct ch as [|x r]; [discriminate|]. cbn [table_children_ok]. intro H.
    apply andb_true_iff in H. destruct H as [Hx Hr].
    cbn [lres]. unfold is_row_of in Hx. destruct (nval x) eqn:Ex; try discriminate Hx.
    destruct header; [|discriminate Hx].
    rewrite (lres_rows_false _ true Hr). destruct r; reflexivity.
  Qed.

  Lemma lres_mid pv gv v sp ch :
    s3_go pv gv (Node v sp ch) = true -> lres None ch = mid v ch.
  Proof.
    cbn [s3_go]. intro H. apply andb_true_iff in H. destruct H as [Hk Hc].
    destruct (is_table_v v) eqn:T.
    - destruct v; try discriminate T. apply lres_table. exact Hk.
    - rewrite (lres_nontable _ _ T _ _ Hc). destruct v; try reflexivity. discriminate T.
  Qed.

  Lemma fres_nil st v : (0 < fn_ix st)%N \/ is_fndef v = false -> fres st v = [].
  Proof.
    intros [H|H]; destruct v; try reflexivity; try discriminate H.
    cbn [fres]. destruct (fn_ix st =? 0)%N eqn:E; [apply N.eqb_eq in E; lia | reflexivity].
  Qed.

  (* ---------------------------------------------------------------- the invariant *)
  Definition npre (st : hst) (n : node) : Prop :=
    (0 < fn_ix st)%N \/ nofn n = true \/ is_fndef (nval n) = true.

  Definition P (n : node) : Prop := forall c st evs st' s,
    s3_go (c_parent c) (c_gparent c) n = true ->
    npre st n ->
    render slug o c n st = Ok (evs, st') ->
    nest s evs = Some (res_of (c_prev c) (nval n) ++ fres st (nval n) ++ s) /\
    (fn_ix st <= fn_ix st')%N /\
    (nofn n = true -> fn_ix st' = fn_ix st) /\
    (is_fndef (nval n) = true -> fn_ix st < fn_ix st')%N.

  Lemma nofn_not_fndef n : nofn n = true -> is_fndef (nval n) = false.
  Proof. destruct n as [v sp ch]. cbn [nofn nval]. intro H. apply andb_true_iff in H. destruct H as [H _]. apply negb_true_iff in H. exact H. Qed.

  Lemma list_nest v pv : forall l, Forall P l -> forall i prev st evs st' s,
    forallb (s3_go (Some v) pv) l = true ->
    ((0 < fn_ix st)%N \/ forallb nofn l = true) ->
    render_list slug o v pv l i prev st = Ok (evs, st') ->
    nest s evs = Some (lres prev l ++ s) /\ (fn_ix st <= fn_ix st')%N /\
    (forallb nofn l = true -> fn_ix st' = fn_ix st).
  Proof.
    induction 1 as [|x r Hx Hr IH]; intros i prev st evs st' s H3 Hf Hl.
    - cbn [render_list] in Hl. inv Hl. cbn [nest lres app]. split; [reflexivity|split; [lia|reflexivity]].
    - cbn [render_list] in Hl. cbn [forallb] in H3. apply andb_true_iff in H3. destruct H3 as [H3x H3r].
      match type of Hl with bind ?X _ = _ => destruct X as [[ex sx]| |] eqn:Hrx end; cbn [bind] in Hl; try discriminate.
      match type of Hl with bind ?X _ = _ => destruct X as [[er sr]| |] eqn:Hrr end; cbn [bind] in Hl; try discriminate.
      inv Hl.
      assert (Hpx : npre st x).
      { destruct Hf as [Hf|Hf]; [left; exact Hf|]. right; left. cbn [forallb] in Hf. apply andb_true_iff in Hf. apply Hf. }
      match type of Hrx with render _ _ ?c _ _ = _ => destruct (Hx c st ex sx s H3x Hpx Hrx) as [N1 [M1 [K1 _]]] end. cbn [c_prev] in N1.
      assert (Hf' : (0 < fn_ix sx)%N \/ forallb nofn r = true).
      { destruct Hf as [Hf|Hf]; [left; lia|]. right. cbn [forallb] in Hf. apply andb_true_iff in Hf. apply Hf. }
      destruct (IH (S i) (Some (nval x)) sx er st' (res_of prev (nval x) ++ s) H3r Hf' Hrr) as [N2 [M2 K2]].
      assert (F : fres st (nval x) = []).
      { apply fres_nil. destruct Hf as [Hf|Hf]; [left; exact Hf|]. right. apply nofn_not_fndef.
        cbn [forallb] in Hf. apply andb_true_iff in Hf. apply Hf. }
      rewrite F in N1. cbn [app] in N1.
      split; [|split].
      + rewrite nest_app, N1, N2. cbn [lres]. rewrite app_assoc. reflexivity.
      + lia.
      + intro Hn. cbn [forallb] in Hn. apply andb_true_iff in Hn. destruct Hn as [Hn1 Hn2].
        rewrite (K2 Hn2). apply K1. exact Hn1.
  Qed.

  Lemma render_P : forall n, P n.
  Proof.
    apply node_ind2. intros v sp ch IH c st evs st' s H3 Hpre Hr.
    rewrite render_unfold in Hr.
    destruct (enter slug o c (Node v sp ch) st) as [[[e1 st1] m]| |] eqn:He; cbn [bind] in Hr; try discriminate.
    pose proof (enter_fn_ix _ _ _ _ _ _ _ _ He) as F1.
    pose proof (lres_mid _ _ _ _ _ H3) as Hmid.
    assert (H3c : forallb (s3_go (Some v) (c_parent c)) ch = true).
    { cbn [s3_go] in H3. apply andb_true_iff in H3. apply H3. }
    assert (Hf : (0 < fn_ix st1)%N \/ forallb nofn ch = true).
    { destruct Hpre as [Hp|[Hp|Hp]].
      - left. rewrite F1. destruct (is_fndef v); lia.
      - right. cbn [nofn] in Hp. apply andb_true_iff in Hp. apply Hp.
      - left. cbn [nval] in Hp. rewrite F1, Hp. lia. }
    assert (Hch : exists e2 st2 e3,
               (forall s', nest s' e2 = Some (mid v ch ++ s')) /\ (fn_ix st1 <= fn_ix st2)%N /\
               (forallb nofn ch = true -> fn_ix st2 = fn_ix st1) /\
               exit_ o c (Node v sp ch) st2 = Ok (e3, st') /\ evs = e1 ++ e2 ++ e3).
    { destruct m.
      - destruct (render_list slug o v (c_parent c) ch 0 None st1) as [[e2 st2]| |] eqn:Hl; cbn [bind] in Hr; try discriminate.
        destruct (exit_ o c (Node v sp ch) st2) as [[e3 st3]| |] eqn:Hx; cbn [bind] in Hr; try discriminate.
        inv Hr. exists e2, st2, e3.
        split; [|split; [|split; [|split; first [reflexivity|eassumption]]]].
        + intro s'. rewrite <- Hmid. exact (proj1 (list_nest _ _ _ IH _ _ _ _ _ s' H3c Hf Hl)).
        + exact (proj1 (proj2 (list_nest _ _ _ IH _ _ _ _ _ [] H3c Hf Hl))).
        + exact (proj2 (proj2 (list_nest _ _ _ IH _ _ _ _ _ [] H3c Hf Hl))).
      - cbn [bind] in Hr.
        destruct (exit_ o c (Node v sp ch) st1) as [[e3 st3]| |] eqn:Hx; cbn [bind] in Hr; try discriminate.
        inv Hr. exists [], st1, e3.
        split; [|split; [|split; [|split; first [reflexivity|eassumption]]]].
        + intro s'. rewrite (enter_plain _ _ _ _ _ _ _ He). reflexivity.
        + lia.
        + reflexivity. }
    destruct Hch as [e2 [st2 [e3 [Hm [M [K [Hx ->]]]]]]].
    pose proof (exit_fn_ix _ _ _ _ _ _ _ Hx) as F3.
    cbn [nval]. split; [|split; [|split]].
    - eapply node_nest; eassumption.
    - rewrite F3. destruct (is_fndef v); lia.
    - intro Hn. cbn [nofn] in Hn. apply andb_true_iff in Hn. destruct Hn as [Hn1 Hn2].
      apply negb_true_iff in Hn1. rewrite Hn1 in F1. rewrite F3, (K Hn2). exact F1.
    - intro Hd. rewrite Hd in F1. lia.
  Qed.

  (* ---------------------------------------------------------------- the root *)
  Definition fn_open (st : hst) : list bytes :=
    if (0 <? fn_ix st)%N then [B "ol"; B "section"] else [].

  Lemma root_list v pv : is_table_v v = false -> forall l i prev st evs st' s,
    forallb (s3_go (Some v) pv) l = true ->
    s6w_list l = true ->
    fn_ix st = 0%N ->
    render_list slug o v pv l i prev st = Ok (evs, st') ->
    nest s evs = Some (fn_open st' ++ s).
  Proof.
    intros Hv. induction l as [|x r IH]; intros i prev st evs st' s H3 H6 H0 Hl.
    - cbn [render_list] in Hl. inv Hl. unfold fn_open. rewrite H0. reflexivity.
    - cbn [render_list] in Hl. cbn [forallb] in H3. apply andb_true_iff in H3. destruct H3 as [H3x H3r].
      match type of Hl with bind ?X _ = _ => destruct X as [[ex sx]| |] eqn:Hrx end; cbn [bind] in Hl; try discriminate.
      match type of Hl with bind ?X _ = _ => destruct X as [[er sr]| |] eqn:Hrr end; cbn [bind] in Hl; try discriminate.
      inv Hl. cbn [s6w_list] in H6.
      assert (R : res_of prev (nval x) = []).
      { apply res_of_not_row. destruct (is_row_v (nval x)) eqn:R; [|reflexivity].
        rewrite (s3_child_row _ _ _ H3x R) in Hv. discriminate. }
      destruct (is_fndef (nval x)) eqn:D.
      + assert (Hpx : npre st x) by (right; right; exact D).
        match type of Hrx with render _ _ ?c _ _ = _ => destruct (render_P x c st ex sx s H3x Hpx Hrx) as [N1 [_ [_ L1]]] end. cbn [c_prev] in N1.
        specialize (L1 D).
        assert (Hf : (0 < fn_ix sx)%N \/ forallb nofn r = true) by (left; lia).
        assert (IHr : Forall P r) by (apply Forall_forall; intros; apply render_P).
        destruct (list_nest _ _ _ IHr _ _ _ _ _ (fres st (nval x) ++ s) H3r Hf Hrr) as [N2 [M2 _]].
        rewrite R in N1. cbn [app] in N1.
        rewrite nest_app, N1, N2. rewrite (lres_nontable _ _ Hv _ _ H3r). cbn [app].
        unfold fn_open. replace (0 <? fn_ix st')%N with true by (symmetry; apply N.ltb_lt; lia).
        destruct (nval x); try discriminate D. cbn [fres]. rewrite H0. reflexivity.
      + apply andb_true_iff in H6. destruct H6 as [H6x H6r].
        assert (Hpx : npre st x) by (right; left; exact H6x).
        match type of Hrx with render _ _ ?c _ _ = _ => destruct (render_P x c st ex sx s H3x Hpx Hrx) as [N1 [_ [K1 _]]] end. cbn [c_prev] in N1.
        rewrite R in N1. rewrite (fres_nil st (nval x) (or_intror D)) in N1. cbn [app] in N1.
        rewrite nest_app, N1. eapply IH; [exact H3r | exact H6r | rewrite (K1 H6x); exact H0 | exact Hrr].
  Qed.

  Lemma s6_s6w t : s6 t = true -> s6w t = true.
  Proof.
    unfold s6, s6w. intro H. apply andb_true_iff in H. destruct H as [_ H].
    induction (nch t) as [|x r IH]; [reflexivity|].
    cbn [s6_list s6w_list] in *. destruct (is_fndef (nval x)); [reflexivity|].
    apply andb_true_iff in H. destruct H as [H1 H2]. rewrite H1, (IH H2). reflexivity.
  Qed.

  Theorem nested_weak t evs :
    s2 t = true -> s3 t = true -> s6w t = true ->
    events slug o t = Ok evs -> well_nested evs = true.
  Proof.
    destruct t as [v sp ch]. unfold s2, s3, s6w, events. cbn [nval nch]. intros H2 H3 H6.
    destruct v; try discriminate H2. clear H2.
    rewrite render_unfold. unfold enter, exit_. cbv beta iota zeta. cbn [bind root_ctx c_parent].
    destruct (render_list slug o Document None ch 0 None _) as [[e2 st2]| |] eqn:Hl; cbn [bind]; try discriminate.
    intro H. inv H. cbn [app]. rewrite app_nil_r.
    cbn [s3_go] in H3. cbn [andb] in H3.
    unfold well_nested. rewrite nest_app.
    rewrite (root_list Document None eq_refl _ _ _ (mkHst 0 0 []) _ _ [] H3 H6 eq_refl Hl).
    unfold fn_open, finish. destruct (0 <? fn_ix st2)%N; cbn [app nest]; rewrite ?bytes_eqb_refl; cbn [nest]; rewrite ?bytes_eqb_refl; reflexivity.
  Qed.

  Theorem nested t evs :
    s2 t = true -> s3 t = true -> s6 t = true ->
    events slug o t = Ok evs -> well_nested evs = true.
  Proof. intros H2 H3 H6. apply nested_weak; auto using s6_s6w. Qed.
End R.
