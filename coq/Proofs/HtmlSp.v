(* Proofs/HtmlSp.v — C18, HTML half: turning the sourcepos option on only adds SpAttr attributes to
   the events of Model/Html.v; nothing else (tags, other attributes and their order, text, renderer
   state, panics) changes.  Then the byte level: serialising the erased events is serialising the
   events while skipping the bytes of every SpAttr, and the Cr decisions are unaffected. *)
From Coq Require Import List NArith Bool Strings.String.
From V Require Import Base.Bytes Base.Res Model.Ast Model.Tagfilter Model.Html Spec.HtmlSpec Proofs.HtmlNest.
Import ListNotations.
Local Open Scope list_scope.

Definition set_sp (b : bool) (o : opts) : opts :=
  mkOpts (o_tagfilter o) (o_header_ids o) (o_footnotes o) (o_wikilinks_after o) (o_wikilinks_before o)
         (o_relaxed_autolinks o) (o_hardbreaks o) (o_github_pre_lang o) (o_full_info_string o)
         (o_width o) (o_unsafe o) (o_escape o) (o_list_style o) b (o_escaped_char_spans o)
         (o_gfm_quirks o) (o_prefer_fenced o) (o_figure_with_caption o) (o_tasklist_classes o)
         (o_ol_width o) (o_ignore_empty_links o) (o_experimental_minimize o).

Lemma set_sp_id o : set_sp (o_sourcepos o) o = o.
Proof. destruct o; reflexivity. Qed.

Definition erase3 (r : res (list ev * hst * mode)) : res (list ev * hst * mode) :=
  match r with
  | Ok (e, s, m) => Ok (map erase_sp e, s, m)
  | Panic x => Panic x
  | OutOfFuel => OutOfFuel
  end.

Definition erase2 (r : res (list ev * hst)) : res (list ev * hst) :=
  match r with
  | Ok (e, s) => Ok (map erase_sp e, s)
  | Panic x => Panic x
  | OutOfFuel => OutOfFuel
  end.

Lemma backref_no_sp name fnix total k :
  map erase_sp (backref_loop name fnix total k) = backref_loop name fnix total k.
Proof.
  revert k. induction total as [|t IH]; intro k; [reflexivity|].
  cbn [backref_loop]. rewrite !map_app. rewrite IH.
  destruct (1 <? N.of_nat k)%N; reflexivity.
Qed.

Lemma put_backref_no_sp name total st e s w :
  put_footnote_backref name total st = (e, s, w) -> map erase_sp e = e.
Proof.
  unfold put_footnote_backref. destruct (fn_ix st <=? wfn_ix st)%N; intro H; inversion H; subst.
  - reflexivity.
  - apply backref_no_sp.
Qed.

(* every option projection, for cbn *)
Ltac proj :=
  cbn [set_sp o_sourcepos o_tagfilter o_header_ids o_footnotes o_wikilinks_after o_wikilinks_before
       o_relaxed_autolinks o_hardbreaks o_github_pre_lang o_full_info_string o_width o_unsafe o_escape
       o_list_style o_escaped_char_spans o_gfm_quirks o_prefer_fenced o_figure_with_caption
       o_tasklist_classes o_ol_width o_ignore_empty_links o_experimental_minimize].

(* the last step of every case: the start.line > 0 test of render_sourcepos, then compute *)
Ltac fin sp := destruct (0 <? sl sp)%N; reflexivity.

(* one case split on the scrutinee of the outermost-found `if` *)
Ltac split_if := match goal with |- context [if ?b then _ else _] => destruct b end.

Lemma enter_erase slug o c n st :
  enter slug (set_sp false o) c n st = erase3 (enter slug (set_sp true o) c n st).
Proof.
  destruct n as [v sp ch].
  destruct o as [tf hid fnn wa wb ra hb gpl fis w us es ls spo ecs gq pf fwc tlc ow iel em].
  destruct v; unfold enter, sp_attr, sp_attr_nocheck; proj; cbv beta zeta.
  - (* Document *) reflexivity.
  - (* FrontMatter *) reflexivity.
  - (* BlockQuote *) fin sp.
  - (* NList: the class attribute, the list type, the start attribute *)
    destruct (l_task l && tlc); (destruct (l_type l); [|destruct (l_start l =? 1)%N]); fin sp.
  - (* Item *) fin sp.
  - (* DescriptionList *) fin sp.
  - (* DescriptionItem *) reflexivity.
  - (* DescriptionTerm *) fin sp.
  - (* DescriptionDetails *) fin sp.
  - (* CodeBlock: math or not, github_pre_lang, info empty or not, full_info_string, meta empty or not *)
    destruct (bytes_eqb (cb_info cb) _).
    + destruct gpl; reflexivity.
    + destruct (split_info (cb_info cb)) as [lang rest].
      destruct (cb_info cb) as [|i0 info]; cbn [negb andb].
      * reflexivity.
      * destruct gpl; cbn [negb andb]; destruct fis; cbn [negb andb]; try reflexivity;
          destruct (trim_ws rest); reflexivity.
  - (* HtmlBlock *)
    destruct es; [reflexivity|]. destruct us; cbn [negb]; [|reflexivity].
    destruct tf; [|reflexivity]. destruct (tagfilter_block lit); reflexivity.
  - (* Paragraph: tight or not *)
    split_if; [reflexivity|fin sp].
  - (* Heading: header_ids *)
    destruct hid as [prefix|]; [|fin sp].
    destruct (h_anchorize slug (issued st) _) as [[iss' id]| |]; cbn [bind]; try reflexivity. fin sp.
  - (* ThematicBreak *) fin sp.
  - (* FootnoteDefinition: first definition opens the section *)
    destruct (fn_ix st =? 0)%N; fin sp.
  - (* Table *) fin sp.
  - (* TableRow *)
    destruct header; [fin sp|].
    destruct (c_prev c) as [pv|]; [|fin sp].
    destruct pv; try (fin sp). destruct header; fin sp.
  - (* TableCell *)
    destruct (c_parent c) as [pv|]; [|reflexivity].
    destruct pv; try reflexivity.
    destruct (c_gparent c) as [gv|]; [|reflexivity].
    destruct gv; try reflexivity.
    destruct (nth_error (t_aligns t) (c_index c)) as [al|]; [|reflexivity].
    destruct al; destruct header; fin sp.
  - (* Text *) reflexivity.
  - (* TaskItem *) destruct tlc; destruct symbol; fin sp.
  - (* SoftBreak *) destruct hb; [fin sp|reflexivity].
  - (* LineBreak *) fin sp.
  - (* Code *) fin sp.
  - (* HtmlInline *)
    destruct es; [reflexivity|]. destruct us; cbn [negb]; [|reflexivity].
    destruct tf; [|reflexivity]. destruct (tagfilter lit) as [[|]| |]; reflexivity.
  - (* Raw *) reflexivity.
  - (* Emph *) fin sp.
  - (* Strong *) split_if; [fin sp|reflexivity].
  - (* Strikethrough *) fin sp.
  - (* Superscript *) fin sp.
  - (* Link *) split_if; [|reflexivity]. destruct title; fin sp.
  - (* Image *) reflexivity.
  - (* FootnoteReference *) fin sp.
  - (* Math *) reflexivity.
  - (* MultilineBlockQuote *) fin sp.
  - (* Escaped *) destruct ecs; [fin sp|reflexivity].
  - (* WikiLink *) fin sp.
  - (* Underline *) fin sp.
  - (* Subscript *) fin sp.
  - (* SpoileredText *) fin sp.
  - (* EscapedTag *) reflexivity.
  - (* Alert *) destruct (a_title a); fin sp.
Qed.

Lemma exit_erase o c n st :
  exit_ (set_sp false o) c n st = erase2 (exit_ (set_sp true o) c n st).
Proof.
  destruct n as [v sp ch].
  destruct o as [tf hid fnn wa wb ra hb gpl fis w us es ls spo ecs gq pf fwc tlc ow iel em].
  destruct v; unfold exit_, sp_attr; proj; cbv beta zeta; try reflexivity.
  - (* NList *) destruct (l_type l); reflexivity.
  - (* Paragraph: tight; the parent; last paragraph of a footnote definition gets the backrefs *)
    split_if; [reflexivity|].
    destruct (c_parent c) as [pv|]; [|reflexivity].
    destruct pv; try reflexivity.
    destruct (c_has_next c); [reflexivity|].
    destruct (put_footnote_backref name total_references st) as [[evs st'] wr] eqn:E.
    cbn [erase2]. rewrite !map_app, (put_backref_no_sp _ _ _ _ _ _ E). reflexivity.
  - (* FootnoteDefinition *)
    destruct (put_footnote_backref name total_references st) as [[evs st'] wr] eqn:E.
    cbn [erase2]. rewrite !map_app, (put_backref_no_sp _ _ _ _ _ _ E). destruct wr; reflexivity.
  - (* Table *) destruct ch as [|x [|y r]]; reflexivity.
  - (* TableRow *) destruct header; reflexivity.
  - (* TableCell *)
    destruct (c_parent c) as [pv|]; [|reflexivity].
    destruct pv; try reflexivity.
    destruct (c_gparent c) as [gv|]; [|reflexivity].
    destruct gv; reflexivity.
  - (* Strong *) split_if; reflexivity.
  - (* Link *) split_if; reflexivity.
  - (* Image: the only exit clause that writes the attribute *)
    destruct fwc; destruct title; fin sp.
  - (* Escaped *) destruct ecs; reflexivity.
Qed.

(* ---------------------------------------------------------------- the traversal *)
Section Trav.
  Variable slug : bytes -> bytes.
  Variable o : opts.

  Definition sp_commutes (n : node) : Prop :=
    forall c st, render slug (set_sp false o) c n st = erase2 (render slug (set_sp true o) c n st).

  Lemma list_erase v pv : forall l, Forall sp_commutes l -> forall i prev s,
    render_list slug (set_sp false o) v pv l i prev s =
    erase2 (render_list slug (set_sp true o) v pv l i prev s).
  Proof.
    induction l as [|x r IH]; intros HF i prev s; [reflexivity|].
    inversion HF as [|? ? Hx Hr]; subst.
    cbn [render_list]. rewrite Hx.
    destruct (render slug (set_sp true o) _ x s) as [[ex sx]| |]; cbn [erase2 bind]; try reflexivity.
    rewrite (IH Hr).
    destruct (render_list slug (set_sp true o) v pv r (S i) (Some (nval x)) sx) as [[er sr]| |];
      cbn [erase2 bind]; try reflexivity.
    rewrite map_app. reflexivity.
  Qed.

  Lemma render_erase : forall n, sp_commutes n.
  Proof.
    apply node_ind2. intros v sp ch IH c st.
    rewrite !render_unfold. rewrite enter_erase.
    destruct (enter slug (set_sp true o) c (Node v sp ch) st) as [[[e1 st1] m]| |];
      cbn [erase3 bind erase2]; try reflexivity.
    destruct m.
    - rewrite (list_erase v (c_parent c) ch IH).
      destruct (render_list slug (set_sp true o) v (c_parent c) ch 0 None st1) as [[e2 st2]| |];
        cbn [erase2 bind]; try reflexivity.
      rewrite exit_erase.
      destruct (exit_ (set_sp true o) c (Node v sp ch) st2) as [[e3 st3]| |]; cbn [erase2 bind]; try reflexivity.
      rewrite !map_app. reflexivity.
    - cbn [bind]. rewrite exit_erase.
      destruct (exit_ (set_sp true o) c (Node v sp ch) st1) as [[e3 st3]| |]; cbn [erase2 bind]; try reflexivity.
      rewrite !map_app. reflexivity.
  Qed.

  (* the renderer state (footnote counters, issued anchors) evolves identically *)
  Lemma html_sp_state c n st :
    res_map snd (render slug (set_sp false o) c n st) = res_map snd (render slug (set_sp true o) c n st).
  Proof.
    rewrite render_erase. destruct (render slug (set_sp true o) c n st) as [[e s]| |]; reflexivity.
  Qed.

  Lemma finish_no_sp st : map erase_sp (finish st) = finish st.
  Proof. unfold finish. destruct (0 <? fn_ix st)%N; reflexivity. Qed.

  Theorem html_sp_events t :
    events slug (set_sp false o) t = res_map (map erase_sp) (events slug (set_sp true o) t).
  Proof.
    unfold events. rewrite render_erase.
    destruct (render slug (set_sp true o) root_ctx t _) as [[e s]| |]; cbn [erase2 bind res_map]; try reflexivity.
    rewrite map_app, finish_no_sp. reflexivity.
  Qed.

  Theorem html_sp_bytes t :
    html slug (set_sp false o) t = res_map (fun e => ser (map erase_sp e)) (events slug (set_sp true o) t).
  Proof.
    unfold html. rewrite html_sp_events.
    destruct (events slug (set_sp true o) t); reflexivity.
  Qed.
End Trav.

(* ---------------------------------------------------------------- bytes *)
(* serialisation that skips the bytes of every SpAttr; the Cr decisions (Context::cr looks at the
   last byte written) are taken from the FULL chunk, i.e. exactly as in the run with the option on *)
Definition ser_attr_nosp (a : attr) : bytes :=
  match a with SpAttr _ => [] | _ => ser_attr a end.

Definition ser_ev_nosp (e : ev) : bytes :=
  match e with
  | Open t a => [x3c] ++ t ++ flat_map ser_attr_nosp a ++ [x3e]
  | Void t a => [x3c] ++ t ++ flat_map ser_attr_nosp a ++ [x20; x2f; x3e]
  | _ => ser_ev e
  end.

Fixpoint ser_chunks_nosp (last_lf : bool) (evs : list ev) : list bytes :=
  match evs with
  | [] => []
  | Cr :: r => if last_lf then ser_chunks_nosp last_lf r else [x0a] :: ser_chunks_nosp true r
  | e :: r => ser_ev_nosp e :: ser_chunks_nosp (ends_lf last_lf (ser_ev e)) r
  end.

Definition ser_nosp (evs : list ev) : bytes := List.concat (ser_chunks_nosp true evs).

Lemma attrs_nosp a : flat_map ser_attr (filter not_sp a) = flat_map ser_attr_nosp a.
Proof.
  induction a as [|x r IH]; [reflexivity|].
  destruct x; cbn [filter not_sp flat_map ser_attr_nosp]; rewrite IH; reflexivity.
Qed.

Lemma ser_ev_erase e : ser_ev (erase_sp e) = ser_ev_nosp e.
Proof. destruct e; cbn [erase_sp ser_ev ser_ev_nosp]; rewrite ?attrs_nosp; reflexivity. Qed.

Lemma ends_lf_snoc p l b : ends_lf p (l ++ [b]) = beqb b x0a.
Proof.
  unfold ends_lf. rewrite last_last. destruct (l ++ [b]) eqn:E; [|reflexivity].
  destruct l; discriminate E.
Qed.

(* an SpAttr never ends a chunk: a tag chunk ends with GT whatever its attributes are *)
Lemma ends_lf_erase p e : ends_lf p (ser_ev (erase_sp e)) = ends_lf p (ser_ev e).
Proof.
  destruct e; try reflexivity; cbn [erase_sp ser_ev].
  - change ([x3c] ++ tag ++ flat_map ser_attr (filter not_sp a) ++ [x3e])
      with (x3c :: tag ++ flat_map ser_attr (filter not_sp a) ++ [x3e]).
    change ([x3c] ++ tag ++ flat_map ser_attr a ++ [x3e]) with (x3c :: tag ++ flat_map ser_attr a ++ [x3e]).
    rewrite !app_comm_cons, !app_assoc, !ends_lf_snoc. reflexivity.
  - change [x20; x2f; x3e] with ([x20; x2f] ++ [x3e]).
    change ([x3c] ++ tag ++ flat_map ser_attr (filter not_sp a) ++ [x20; x2f] ++ [x3e])
      with (x3c :: tag ++ flat_map ser_attr (filter not_sp a) ++ [x20; x2f] ++ [x3e]).
    change ([x3c] ++ tag ++ flat_map ser_attr a ++ [x20; x2f] ++ [x3e])
      with (x3c :: tag ++ flat_map ser_attr a ++ [x20; x2f] ++ [x3e]).
    rewrite !app_comm_cons, !app_assoc, !ends_lf_snoc. reflexivity.
Qed.

Lemma ser_chunks_erase : forall evs p, ser_chunks p (map erase_sp evs) = ser_chunks_nosp p evs.
Proof.
  induction evs as [|e r IH]; intro p; [reflexivity|].
  destruct e; cbn [map erase_sp ser_chunks ser_chunks_nosp];
    try (rewrite IH; reflexivity).
  - rewrite <- (ends_lf_erase p (Open tag a)). cbn [erase_sp]. rewrite IH.
    rewrite <- ser_ev_erase. reflexivity.
  - rewrite <- (ends_lf_erase p (Void tag a)). cbn [erase_sp]. rewrite IH.
    rewrite <- ser_ev_erase. reflexivity.
  - destruct p; rewrite IH; reflexivity.
Qed.

Theorem ser_erase evs : ser (map erase_sp evs) = ser_nosp evs.
Proof. unfold ser, ser_nosp. rewrite ser_chunks_erase. reflexivity. Qed.

(* the same as a deletion of marked byte segments: `segs` cuts `ser evs` into segments, the ones
   flagged true being exactly the serialised SpAttr attributes; deleting the flagged segments gives
   the serialisation of the erased events *)
Definition attr_seg (a : attr) : bool * bytes :=
  (match a with SpAttr _ => true | _ => false end, ser_attr a).

Definition ev_segs (e : ev) : list (bool * bytes) :=
  match e with
  | Open t a => (false, [x3c] ++ t) :: map attr_seg a ++ [(false, [x3e])]
  | Void t a => (false, [x3c] ++ t) :: map attr_seg a ++ [(false, [x20; x2f; x3e])]
  | _ => [(false, ser_ev e)]
  end.

Fixpoint segs (last_lf : bool) (evs : list ev) : list (bool * bytes) :=
  match evs with
  | [] => []
  | Cr :: r => if last_lf then segs last_lf r else (false, [x0a]) :: segs true r
  | e :: r => ev_segs e ++ segs (ends_lf last_lf (ser_ev e)) r
  end.

Definition seg_bytes (l : list (bool * bytes)) : bytes := flat_map snd l.
Definition unflagged (l : list (bool * bytes)) : list (bool * bytes) := filter (fun s => negb (fst s)) l.

Lemma sb_cons s l : seg_bytes (s :: l) = snd s ++ seg_bytes l.
Proof. reflexivity. Qed.
Lemma sb_app a b : seg_bytes (a ++ b) = seg_bytes a ++ seg_bytes b.
Proof. apply flat_map_app. Qed.
Lemma uf_app a b : unflagged (a ++ b) = unflagged a ++ unflagged b.
Proof. apply filter_app. Qed.
Lemma uf_false b l : unflagged ((false, b) :: l) = (false, b) :: unflagged l.
Proof. reflexivity. Qed.
Lemma uf_true b l : unflagged ((true, b) :: l) = unflagged l.
Proof. reflexivity. Qed.

Lemma attr_segs_all a : seg_bytes (map attr_seg a) = flat_map ser_attr a.
Proof.
  induction a as [|x r IH]; [reflexivity|].
  cbn [map flat_map]. rewrite sb_cons, IH. reflexivity.
Qed.

Lemma attr_segs_keep a : seg_bytes (unflagged (map attr_seg a)) = flat_map ser_attr_nosp a.
Proof.
  induction a as [|x r IH]; [reflexivity|].
  destruct x; cbn [map flat_map ser_attr_nosp]; unfold attr_seg at 1; rewrite ?uf_false, ?uf_true, ?sb_cons, IH; reflexivity.
Qed.

Lemma ev_segs_all e : seg_bytes (ev_segs e) = ser_ev e.
Proof.
  destruct e; cbn [ev_segs ser_ev]; rewrite ?sb_cons, ?sb_app, ?attr_segs_all, ?sb_cons; cbn [snd seg_bytes flat_map];
    rewrite <- ?app_assoc, ?app_nil_r; reflexivity.
Qed.

Lemma ev_segs_keep e : seg_bytes (unflagged (ev_segs e)) = ser_ev_nosp e.
Proof.
  destruct e; cbn [ev_segs ser_ev_nosp ser_ev]; rewrite ?uf_false, ?uf_app, ?uf_false, ?sb_cons, ?sb_app, ?attr_segs_keep, ?sb_cons;
    cbn [snd seg_bytes unflagged filter flat_map];
    rewrite <- ?app_assoc, ?app_nil_r; reflexivity.
Qed.

Lemma segs_all : forall evs p, seg_bytes (segs p evs) = List.concat (ser_chunks p evs).
Proof.
  induction evs as [|e r IH]; intro p; [reflexivity|].
  destruct e; cbn [segs ser_chunks]; try (destruct p); cbn [concat];
    rewrite ?sb_app, ?sb_cons, ?IH, ?ev_segs_all; reflexivity.
Qed.

Lemma segs_keep : forall evs p, seg_bytes (unflagged (segs p evs)) = List.concat (ser_chunks_nosp p evs).
Proof.
  induction evs as [|e r IH]; intro p; [reflexivity|].
  destruct e; cbn [segs ser_chunks_nosp]; try (destruct p); cbn [concat];
    rewrite ?uf_app, ?uf_false, ?sb_app, ?sb_cons, ?IH, ?ev_segs_keep; reflexivity.
Qed.

Definition flagged_is_sp (s : bool * bytes) : Prop :=
  fst s = true -> exists sp, snd s = ser_attr (SpAttr sp).

Lemma segs_flagged : forall evs p, Forall flagged_is_sp (segs p evs).
Proof.
  assert (HA : forall a, Forall flagged_is_sp (map attr_seg a)).
  { induction a as [|x r IH]; constructor; [|exact IH].
    destruct x; intro H; try discriminate H. eexists; reflexivity. }
  assert (HF : forall b, flagged_is_sp (false, b)) by (intros b H; discriminate H).
  assert (HE : forall e, Forall flagged_is_sp (ev_segs e)).
  { destruct e; cbn [ev_segs];
      try (constructor; [apply HF|constructor]);
      (constructor; [apply HF | apply Forall_app; split; [apply HA | constructor; [apply HF | constructor]]]). }
  induction evs as [|e r IH]; intro p; [constructor|].
  destruct e; cbn [segs];
    try (apply Forall_app; split; [apply HE | apply IH]).
  destruct p; [apply IH | constructor; [apply HF | apply IH]].
Qed.

(* the byte-level statement: the output with the option off is the output with the option on with
   the flagged segments deleted, every flagged segment is one serialised data-sourcepos attribute *)
Theorem html_sp_deletion slug o t evs :
  events slug (set_sp true o) t = Ok evs ->
  html slug (set_sp true o) t = Ok (seg_bytes (segs true evs)) /\
  html slug (set_sp false o) t = Ok (seg_bytes (unflagged (segs true evs))) /\
  Forall flagged_is_sp (segs true evs).
Proof.
  intro H. split; [|split].
  - unfold html. rewrite H. cbn [bind]. rewrite segs_all. reflexivity.
  - rewrite html_sp_bytes, H. cbn [res_map]. rewrite ser_erase, segs_keep. reflexivity.
  - apply segs_flagged.
Qed.

(* failures are the same with the option on and off *)
Theorem html_sp_fail slug o t :
  is_ok (html slug (set_sp false o) t) = is_ok (html slug (set_sp true o) t).
Proof.
  unfold html. rewrite html_sp_events.
  destruct (events slug (set_sp true o) t); reflexivity.
Qed.
