(* Proofs/HtmlSp.v — C18, HTML half: turning the sourcepos option on only adds SpAttr attributes to
   the events of Model/Html.v; nothing else (tags, other attributes and their order, text, renderer
   state, panics) changes.  Then the byte level: serialising the erased events is serialising the
   events while skipping the bytes of every SpAttr, and the Cr decisions are unaffected. *)
From Coq Require Import List NArith Bool Strings.String.
From V Require Import Base.Bytes Base.Res Model.Ast Model.Tagfilter0 Model.Html Spec.HtmlSpec Proofs.HtmlNest.
Import ListNotations.
Local Open Scope list_scope.

Definition set_sp (b : bool) (o : opts) : opts :=
  mkOpts (o_tagfilter o) (o_header_ids o) (o_footnotes o) (o_wikilinks_after o) (o_wikilinks_before o)
         (o_relaxed_autolinks o) (o_hardbreaks o) (o_github_pre_lang o) (o_full_info_string o)
         (o_width o) (o_unsafe o) (o_escape o) (o_list_style o) b (o_escaped_char_spans o)
         (o_gfm_quirks o) (o_prefer_fenced o) (o_figure_with_caption o) (o_tasklist_classes o)
         (o_ol_width o) (o_ignore_empty_links o) (o_experimental_minimize o).

Lemma set_sp_id o : set_sp (o_sourcepos o) o = o.
Proof. destruct o; reflexivity. Qed.

Definition erase3 (r : res (list ev * hst * mode)) : res (list ev * hst * mode) :=
  match r with
  | Ok (e, s, m) => Ok (map erase_sp e, s, m)
  | Panic x => Panic x
  | OutOfFuel => OutOfFuel
  end.

Definition erase2 (r : res (list ev * hst)) : res (list ev * hst) :=
  match r with
  | Ok (e, s) => Ok (map erase_sp e, s)
  | Panic x => Panic x
  | OutOfFuel => OutOfFuel
  end.

Lemma backref_no_sp name fnix total k :
  map erase_sp (backref_loop name fnix total k) = backref_loop name fnix total k.
Proof.
  revert k. induction total as [|t IH]; intro k; [reflexivity|].
  cbn [backref_loop]. rewrite !map_app. rewrite IH.
  destruct (1 <? N.of_nat k)%N; reflexivity.
Qed.

Lemma put_backref_no_sp name total st e s w :
  put_footnote_backref name total st = (e, s, w) -> map erase_sp e = e.
Proof.
  unfold put_footnote_backref. destruct (fn_ix st <=? wfn_ix st)%N; intro H; inversion H; subst.
  - reflexivity.
  - apply backref_no_sp.
Qed.

(* every option projection, for cbn *)
Ltac proj :=
  cbn [set_sp o_sourcepos o_tagfilter o_header_ids o_footnotes o_wikilinks_after o_wikilinks_before
       o_relaxed_autolinks o_hardbreaks o_github_pre_lang o_full_info_string o_width o_unsafe o_escape
       o_list_style o_escaped_char_spans o_gfm_quirks o_prefer_fenced o_figure_with_caption
       o_tasklist_classes o_ol_width o_ignore_empty_links o_experimental_minimize].

(* the last step of every case: the start.line > 0 test of render_sourcepos, then compute *)
Ltac fin sp := destruct (0 <? sl sp)%N; reflexivity.

(* one case split on the scrutinee of the outermost-found `if` *)
Ltac split_if := match goal with |- context [if ?b then _ else _] => destruct b end.

Lemma enter_erase slug o c n st :
  enter slug (set_sp false o) c n st = erase3 (enter slug (set_sp true o) c n st).
Proof.
  destruct n as [v sp ch].
  destruct o as [tf hid fnn wa wb ra hb gpl fis w us es ls spo ecs gq pf fwc tlc ow iel em].
  destruct v; unfold enter, sp_attr, sp_attr_nocheck; proj; cbv beta zeta.
  - (* Document *) reflexivity.
  - (* FrontMatter *) reflexivity.
  - (* BlockQuote *) fin sp.
  - (* NList: the class attribute, the list type, the start attribute *)
    destruct (l_task l && tlc); (destruct (l_type l); [|destruct (l_start l =? 1)%N]); fin sp.
  - (* Item *) fin sp.
  - (* DescriptionList *) fin sp.
  - (* DescriptionItem *) reflexivity.
  - (* DescriptionTerm *) fin sp.
  - (* DescriptionDetails *) fin sp.
  - (* CodeBlock: math or not, github_pre_lang, info empty or not, full_info_string, meta empty or not *)
    destruct (bytes_eqb (cb_info cb) _).
    + destruct gpl; reflexivity.
    + destruct (split_info (cb_info cb)) as [lang rest].
      destruct (cb_info cb) as [|i0 info]; cbn [negb andb].
      * reflexivity.
      * destruct gpl; cbn [negb andb]; destruct fis; cbn [negb andb]; try reflexivity;
          destruct (trim_ws rest); reflexivity.
  - (* HtmlBlock *)
    destruct es; [reflexivity|]. destruct us; cbn [negb]; [|reflexivity].
    destruct tf; [|reflexivity]. destruct (tagfilter_block lit); reflexivity.
  - (* Paragraph: tight or not *)
    split_if; [reflexivity|fin sp].
  - (* Heading: header_ids *)
    destruct hid as [prefix|]; [|fin sp].
    destruct (h_anchorize slug (issued st) _) as [[iss' id]| |]; cbn [bind]; try reflexivity. fin sp.
  - (* ThematicBreak *) fin sp.
  - (* FootnoteDefinition: first definition opens the section *)
    destruct (fn_ix st =? 0)%N; fin sp.
  - (* Table *) fin sp.
  - (* TableRow *)
    destruct header; [fin sp|].
    destruct (c_prev c) as [pv|]; [|fin sp].
    destruct pv; try (fin sp). destruct header; fin sp.
  - (* TableCell *)
    destruct (c_parent c) as [pv|]; [|reflexivity].
    destruct pv; try reflexivity.
    destruct (c_gparent c) as [gv|]; [|reflexivity].
    destruct gv; try reflexivity.
    destruct (nth_error (t_aligns t) (c_index c)) as [al|]; [|reflexivity].
    destruct al; destruct header; fin sp.
  - (* Text *) reflexivity.
  - (* TaskItem *) destruct tlc; destruct symbol; fin sp.
  - (* SoftBreak *) destruct hb; [fin sp|reflexivity].
  - (* LineBreak *) fin sp.
  - (* Code *) fin sp.
  - (* HtmlInline *)
    destruct es; [reflexivity|]. destruct us; cbn [negb]; [|reflexivity].
    destruct tf; [|reflexivity]. destruct (tagfilter lit) as [[|]| |]; reflexivity.
  - (* Raw *) reflexivity.
  - (* Emph *) fin sp.
  - (* Strong *) split_if; [fin sp|reflexivity].
  - (* Strikethrough *) fin sp.
  - (* Superscript *) fin sp.
  - (* Link *) split_if; [|reflexivity]. destruct title; fin sp.
  - (* Image *) reflexivity.
  - (* FootnoteReference *) fin sp.
  - (* Math *) reflexivity.
  - (* MultilineBlockQuote *) fin sp.
  - (* Escaped *) destruct ecs; [fin sp|reflexivity].
  - (* WikiLink *) fin sp.
  - (* Underline *) fin sp.
  - (* Subscript *) fin sp.
  - (* SpoileredText *) fin sp.
  - (* EscapedTag *) reflexivity.
  - (* Alert *) destruct (a_title a); fin sp.
Qed.

Lemma exit_erase o c n st :
  exit_ (set_sp false o) c n st = erase2 (exit_ (set_sp true o) c n st).
Proof.
  destruct n as [v sp ch].
  destruct o as [tf hid fnn wa wb ra hb gpl fis w us es ls spo ecs gq pf fwc tlc ow iel em].
  destruct v; unfold exit_, sp_attr; proj; cbv beta zeta; try reflexivity.
  - (* NList *) destruct (l_type l); reflexivity.
  - (* Paragraph: tight; the parent; last paragraph of a footnote definition gets the backrefs *)
    split_if; [reflexivity|].
    destruct (c_parent c) as [pv|]; [|reflexivity].
    destruct pv; try reflexivity.
    destruct (c_has_next c); [reflexivity|].
    destruct (put_footnote_backref name total_references st) as [[evs st'] wr] eqn:E.
    cbn [erase2]. rewrite !map_app, (put_backref_no_sp _ _ _ _ _ _ E). reflexivity.
  - (* FootnoteDefinition *)
    destruct (put_footnote_backref name total_references st) as [[evs st'] wr] eqn:E.
    cbn [erase2]. rewrite !map_app, (put_backref_no_sp _ _ _ _ _ _ E). destruct wr; reflexivity.
  - (* Table *) destruct ch as [|x [|y r]]; reflexivity.
  - (* TableRow *) destruct header; reflexivity.
  - (* TableCell *)
    destruct (c_parent c) as [pv|]; [|reflexivity].
    destruct pv; try reflexivity.
    destruct (c_gparent c) as [gv|]; [|reflexivity].
    destruct gv; reflexivity.
  - (* Strong *) split_if; reflexivity.
  - (* Link *) split_if; reflexivity.
  - (* Image: the only exit clause that writes the attribute *)
    destruct fwc; destruct title; fin sp.
  - (* Escaped *) destruct ecs; reflexivity.
Qed.

(* ---------------------------------------------------------------- the traversal *)
Section Trav.
  Variable slug : bytes -> bytes.
  Variable o : opts.

  Definition sp_commutes (n : node) : Prop :=
    forall c st, render slug (set_sp false o) c n st = erase2 (render slug (set_sp true o) c n st).

  Lemma list_erase v pv : forall l, Forall sp_commutes l -> forall i prev s,
    render_list slug (set_sp false o) v pv l i prev s =
    erase2 (render_list slug (set_sp true o) v pv l i prev s).
  Proof.
    induction l as [|x r IH]; intros HF i prev s; [reflexivity|].
    inversion HF as [|? ? Hx Hr]; subst.
    cbn [render_list]. rewrite Hx.
    destruct (render slug (set_sp true o) _ x s) as [[ex sx]| |]; cbn [erase2 bind]; try reflexivity.
    rewrite (IH Hr).
    destruct (render_list slug (set_sp true o) v pv r (S i) (Some (nval x)) sx) as [[er sr]| |];
      cbn [erase2 bind]; try reflexivity.
    rewrite map_app. reflexivity.
  Qed.

  Lemma render_erase : forall n, sp_commutes n.
  Proof.
    apply node_ind2. intros v sp ch IH c st.
    rewrite !render_unfold. rewrite enter_erase.
    destruct (enter slug (set_sp true o) c (Node v sp ch) st) as [[[e1 st1] m]| |];
      cbn [erase3 bind erase2]; try reflexivity.
    destruct m.
    - rewrite (list_erase v (c_parent c) ch IH).
      destruct (render_list slug (set_sp true o) v (c_parent c) ch 0 None st1) as [[e2 st2]| |];
        cbn [erase2 bind]; try reflexivity.
      rewrite exit_erase.
      destruct (exit_ (set_sp true o) c (Node v sp ch) st2) as [[e3 st3]| |]; cbn [erase2 bind]; try reflexivity.
      rewrite !map_app. reflexivity.
    - cbn [bind]. rewrite exit_erase.
      destruct (exit_ (set_sp true o) c (Node v sp ch) st1) as [[e3 st3]| |]; cbn [erase2 bind]; try reflexivity.
      rewrite !map_app. reflexivity.
  Qed.

  (* the renderer state (footnote counters, issued anchors) evolves identically *)
  Lemma html_sp_state c n st :
    res_map snd (render slug (set_sp false o) c n st) = res_map snd (render slug (set_sp true o) c n st).
  Proof.
    rewrite render_erase. destruct (render slug (set_sp true o) c n st) as [[e s]| |]; reflexivity.
  Qed.

  Lemma finish_no_sp st : map erase_sp (finish st) = finish st.
  Proof. unfold finish. destruct (0 <? fn_ix st)%N; reflexivity. Qed.

  Theorem html_sp_events t :
    events slug (set_sp false o) t = res_map (map erase_sp) (events slug (set_sp true o) t).
  Proof.
    unfold events. rewrite render_erase.
    destruct (render slug (set_sp true o) root_ctx t _) as [[e s]| |]; cbn [erase2 bind res_map]; try reflexivity.
    rewrite map_app, finish_no_sp. reflexivity.
  Qed.

  Theorem html_sp_bytes t :
    html slug (set_sp false o) t = res_map (fun e => ser (map erase_sp e)) (events slug (set_sp true o) t).
  Proof.
    unfold html. rewrite html_sp_events.
    destruct (events slug (set_sp true o) t); reflexivity.
  Qed.
End Trav.
