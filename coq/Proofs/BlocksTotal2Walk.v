(* Proofs/BlocksTotal2Walk.v — totality of the block phase, step 1 (tree side), the walk: presence carried through
   check_open_blocks, open_new_blocks, add_text_to_container, process_line, finalize_document and the front matter
   prologue, on top of Proofs/BlocksTotal2Tree.v.  Statement at the end: with the table and description-list
   extensions off, parse_blocks never fails at a tree-lookup site (tree_sites), for every input. *)
From Coq Require Import List NArith Arith Bool Lia Strings.String.
From V Require Import Base.Bytes Base.Res Gen.Nodes Model.Ast Model.Strings Model.Feed Model.FrontMatter Model.RefDef
  Model.Scan Model.Blocks Spec.Shape Spec.Valid Proofs.BlocksProofs Proofs.BlocksCursor Proofs.BlocksTight
  Proofs.ParserShapeBlocks Proofs.ParserShapeTree Proofs.ParserShapeTabPrim Proofs.ParserShapeTables
  Proofs.BlocksTotal Proofs.BlocksTotal2Safe Proofs.BlocksTotal2Root Proofs.BlocksTotal2Tree.
Import ListNotations.
Local Open Scope string_scope.
Local Open Scope list_scope.

Lemma safe_ok {A} (Q : A -> Prop) (r : res A) a : safe Q r -> r = Ok a -> Q a.
Proof. intros S ->. exact S. Qed.

Lemma sbind {A B} (r : res A) (k : A -> res B) (Q : B -> Prop) :
  nb r -> (forall a, r = Ok a -> safe Q (k a)) -> safe Q (bind r k).
Proof. intros H K. eapply safe_bind; [exact H | intros a E _; now apply K]. Qed.

Lemma kid_ne o st p pn c : W o st -> get st p = Ok pn -> In c (bkids pn) -> bid c <> p.
Proof.
  intros V G C E. pose proof (get_sub _ _ _ G) as A.
  assert (Hc : In c (bsub (ps_root st))) by (eapply bsub_kid_of; eassumption).
  pose proof (get_unique _ _ _ V Hc) as Gc. rewrite E, G in Gc. inversion Gc; subst c.
  apply in_split in C. destruct C as [l1 [l2 C]].
  assert (I : ids pn = bid pn :: fids (bkids pn)) by (destruct pn; reflexivity).
  pose proof (f_equal (cnt p) I) as Q. rewrite C in Q. rewrite cnt_cons, fids_app, fids_cons, !cnt_app, E, one_same in Q. lia.
Qed.

Lemma last_opt_in' {A} (l : list A) x : last_opt l = Some x -> In x l.
Proof. apply last_opt_in. Qed.

(* finalize of a node that is present and is not the root returns its parent, present and no paragraph *)
Lemma finalize_unwrap_spec site o st id : W o st -> has st id -> id <> root_id ->
  safe (fun r => W o (snd r) /\ has (snd r) (fst r) /\ ispara (snd r) (fst r) = false /\ fst r <> id
                 /\ lose id st (snd r) /\ (ispara st id = false -> same st (snd r)))
       (unwrap_parent site (finalize o st id)).
Proof.
  intros V H N. unfold unwrap_parent. apply sbind; [now apply finalize_nb|]. intros [po st'] F. cbn [fst snd].
  destruct (finalize_post _ _ _ _ _ F V) as [V' (E & L & Sm)].
  destruct (parent_some_st _ _ _ V H N) as [p P]. rewrite P in E. subst po. cbn [safe fst snd].
  destruct (finalize_keeps_parent _ _ _ _ _ F V) as (A & B & C). auto 10.
Qed.

(* ================================================================== check_open_blocks *)
Lemma pbq_eqtree o st line b st' : parse_block_quote_prefix o st line = Ok (b, st') -> eqtree st st'.
Proof.
  unfold parse_block_quote_prefix. intro H. mon H; try apply eqtree_refl.
  eapply eqtree_trans; [eapply adv_eqtree; eassumption | eapply skip_one_space_eqtree; eassumption].
Qed.
Lemma pfn_eqtree st line b st' : parse_footnote_definition_block_prefix st line = Ok (b, st') -> eqtree st st'.
Proof. unfold parse_footnote_definition_block_prefix. intro H. mon H; try apply eqtree_refl. eapply adv_eqtree; eassumption. Qed.
Lemma pip_eqtree st line c mo pad b st' : parse_item_prefix st line c mo pad = Ok (b, st') -> eqtree st st'.
Proof. unfold parse_item_prefix. intro H. mon H; try apply eqtree_refl; eapply adv_eqtree; eassumption. Qed.

Lemma nb_pbq o st line : nb (parse_block_quote_prefix o st line).
Proof. unfold parse_block_quote_prefix. nbgo. Qed.
Lemma nb_pfn st line : nb (parse_footnote_definition_block_prefix st line).
Proof. unfold parse_footnote_definition_block_prefix. nbgo. Qed.
Lemma nb_pip st line c mo pad : nb (parse_item_prefix st line c mo pad).
Proof. unfold parse_item_prefix. nbgo. Qed.
#[export] Hint Resolve nb_pbq nb_pfn nb_pip : nb.

(* the result of one container: go on with the same tree, or stop with a present current node *)
Definition CK (o : bopts) (st : pstate) (cid : nat) (r : bool * bool * pstate) : Prop :=
  let '(matched, cont, st') := r in
  if cont then eqtree st st' else (matched = false /\ W o st' /\ has st' (ps_current st') /\ has st' cid).

Lemma pcbp_spec o st line cid cb : W o st -> has st cid -> cid <> root_id -> ispara st cid = false ->
  safe (CK o st cid) (parse_code_block_prefix o st line cid cb).
Proof.
  intros V H N NP. unfold parse_code_block_prefix.
  destruct (negb (cb_fenced cb)).
  { destruct (Nat.leb code_indent (indent st)).
    - apply sbind; [auto with nb|]. intros s1 E. cbn. eapply adv_eqtree; exact E.
    - destruct (blank st); [|cbn; apply eqtree_refl].
      apply sbind; [auto with nb|]. intros k _. apply sbind; [auto with nb|]. intros s1 E. cbn. eapply adv_eqtree; exact E. }
  apply sbind; [nbgo|]. intros matched _.
  destruct (N.leb (cb_fence_length cb) (N.of_nat matched)).
  - apply sbind; [auto with nb|]. intros s1 E. pose proof (adv_eqtree _ _ _ _ _ E) as T.
    pose proof (W_eqtree _ _ _ T V) as V1. pose proof (has_eqtree _ _ _ T H) as H1.
    pose proof (finalize_unwrap_spec "mod.rs:parse_code_block_prefix:finalize_borrowed(container, ast).unwrap()" o s1 cid V1 H1 N) as S.
    apply sbind; [eapply safe_nb; exact S|]. intros [p s2] E2. pose proof (safe_ok _ _ _ S E2) as (A & B & _ & _ & _ & Sm).
    cbn [fst snd] in *. cbn. split; [reflexivity|]. split; [exact A|]. split; [exact B|].
    apply (same_has _ _ _ (Sm (eq_trans (sm_para _ _ (eqtree_same _ _ T) cid) NP))). exact H1.
  - apply sbind; [auto with nb|]. intros s1 E. cbn. eapply skip_fence_offset_eqtree; exact E.
Qed.

Lemma pmbq_tail o st s2 cid : W o s2 -> has s2 cid -> cid <> root_id -> ispara s2 cid = false ->
  safe (CK o st cid)
    (do r <- unwrap_parent "mod.rs:parse_multiline_block_quote_prefix:finalize_borrowed(container, ast).unwrap()"
               (finalize o s2 cid);
     Ok (false, false, st_current (snd r) (fst r))).
Proof.
  intros V2 H2 N NP.
  pose proof (finalize_unwrap_spec "mod.rs:parse_multiline_block_quote_prefix:finalize_borrowed(container, ast).unwrap()" o s2 cid V2 H2 N) as S.
  apply sbind; [eapply safe_nb; exact S|]. intros [p s3] E3. pose proof (safe_ok _ _ _ S E3) as (A & B & _ & _ & _ & Sm).
  cbn [fst snd] in *. cbn. split; [reflexivity|]. split; [exact A|]. split; [exact B|].
  apply (same_has _ _ _ (Sm NP)). exact H2.
Qed.

Lemma pmbq_spec o st line cid fl fo : W o st -> has st cid -> cid <> root_id -> ispara st cid = false ->
  safe (CK o st cid) (parse_multiline_block_quote_prefix o st line cid fl fo).
Proof.
  intros V H N NP. unfold parse_multiline_block_quote_prefix.
  apply sbind; [nbgo|]. intros matched _.
  destruct (N.leb fl (N.of_nat matched)).
  - apply sbind; [auto with nb|]. intros s1 E. pose proof (adv_eqtree _ _ _ _ _ E) as T.
    pose proof (W_eqtree _ _ _ T V) as V1. pose proof (has_eqtree _ _ _ T H) as H1.
    assert (NP1 : ispara s1 cid = false) by (rewrite (sm_para _ _ (eqtree_same _ _ T)); exact NP).
    unfold last_child_is_open, last_child. destruct (has_get _ _ H1) as [cn G]. rewrite G. cbn [bind].
    destruct (last_opt (bkids cn)) as [c|] eqn:L; [destruct (bi_open (binf c)) eqn:O|]; cbn [bind];
      try (apply pmbq_tail; assumption).
    apply last_opt_in in L.
    pose proof (kid_has _ _ _ _ G L) as Hc. pose proof (kid_not_root _ _ _ _ _ V1 G L) as Nr. rewrite (W_R0 _ _ V1) in Nr.
    pose proof (kid_ne _ _ _ _ _ V1 G L) as Ne.
    pose proof (finalize_unwrap_spec "mod.rs:parse_multiline_block_quote_prefix:finalize_borrowed(child, child_ast).unwrap()" o s1 (bid c) V1 Hc Nr) as S.
    match goal with |- safe _ (bind (bind ?r ?k1) ?k2) => destruct r as [[p s2]| |] eqn:E2; cbn [bind safe] in S |- * end;
      [|exact S | exact I].
    destruct S as (A & _ & _ & _ & L2 & _). cbn [fst snd] in *.
    apply pmbq_tail; [exact A | | exact N |].
    + apply has_cnt. rewrite (ls_cnt _ _ _ L2); [now apply has_cnt | congruence].
    + rewrite (ls_para _ _ _ L2); [exact NP1 | congruence].
  - apply sbind; [auto with nb|]. intros s1 E. cbn. eapply skip_fence_offset_eqtree; exact E.
Qed.

Lemma CK_lift o st cid (r : res (bool * pstate)) :
  nb r -> (forall b s, r = Ok (b, s) -> eqtree st s) ->
  safe (CK o st cid) (do x <- r; Ok (fst x, true, snd x)).
Proof. intros N E. apply sbind; [exact N|]. intros [b s] Eq. cbn. eapply E; exact Eq. Qed.

Lemma check_container_spec o st line c : W o st -> get st (bid c) = Ok c -> bid c <> root_id ->
  safe (CK o st (bid c)) (check_container o st line c).
Proof.
  intros V G N. pose proof (get_has _ _ _ G) as H. pose proof (ispara_get _ _ _ G) as IP. unfold is_paragraph in IP.
  unfold check_container.
  destruct (bval c); try (cbn; apply eqtree_refl);
    try (apply CK_lift; [auto with nb | intros b s E; first [eapply pbq_eqtree; exact E | eapply pip_eqtree; exact E | eapply pfn_eqtree; exact E]]).
  - now apply pcbp_spec.
  - apply sbind; [auto with nb|]. intros b _. cbn. apply eqtree_refl.
  - apply sbind; [auto with nb|]. intros rest _. apply sbind; [auto with nb|]. intros m _. cbn. apply eqtree_refl.
  - now apply pmbq_spec.
  - match goal with |- context [a_multiline ?a] => destruct (a_multiline a) end; [now apply pmbq_spec|].
    apply CK_lift; [auto with nb | intros b s E; eapply pbq_eqtree; exact E].
Qed.

(* (all_matched, container, should_continue, state) *)
Definition COB (o : bopts) (st : pstate) (r : bool * nat * bool * pstate) : Prop :=
  let '(am, c, cont, st') := r in
  if cont then eqtree st st' /\ has st' c /\ (am = false -> c <> root_id)
  else W o st' /\ has st' (ps_current st') /\ has st' c /\ c <> root_id.

Lemma cobi_spec o line : forall fuel st container, W o st -> has st container ->
  safe (COB o st) (check_open_blocks_inner fuel o st line container).
Proof.
  induction fuel as [|f IH]; intros st container V H; cbn [check_open_blocks_inner]; [exact I|].
  unfold last_child_is_open, last_child. destruct (has_get _ _ H) as [cn G]. rewrite G. cbn [bind].
  destruct (last_opt (bkids cn)) as [c|] eqn:L; [destruct (bi_open (binf c)) eqn:O|]; cbn [bind];
    try (cbn; split; [apply eqtree_refl | split; [exact H | discriminate]]).
  apply last_opt_in in L.
  pose proof (kid_has _ _ _ _ G L) as Hc. pose proof (kid_not_root _ _ _ _ _ V G L) as Nr. rewrite (W_R0 _ _ V) in Nr.
  apply sbind; [auto with nb|]. intros s1 E1. pose proof (ffn_eqtree _ _ _ E1) as T1.
  pose proof (W_eqtree _ _ _ T1 V) as V1. pose proof (has_eqtree _ _ _ T1 Hc) as H1.
  apply sbind; [auto with nb|]. intros c1 G1. destruct (find_node_sub _ _ _ (get_find _ _ _ G1)) as [B1 _].
  assert (S : safe (CK o s1 (bid c1)) (check_container o s1 line c1)) by (apply check_container_spec; rewrite ?B1; assumption).
  apply sbind; [eapply safe_nb; exact S|]. intros [[matched cont] s2] E2. pose proof (safe_ok _ _ _ S E2) as K. cbn in K.
  destruct matched.
  - destruct cont; [|destruct K as [K _]; discriminate K].
    pose proof (eqtree_trans _ _ _ T1 K) as T2.
    pose proof (IH s2 (bid c) (W_eqtree _ _ _ T2 V) (has_eqtree _ _ _ T2 Hc)) as S2.
    eapply safe_weaken; [exact S2|]. intros [[[am c'] cont'] s3] _ R. cbn in R |- *.
    destruct cont'; [|exact R]. destruct R as (R1 & R2 & R3). split; [eapply eqtree_trans; eassumption | auto].
  - cbn. destruct cont.
    + pose proof (eqtree_trans _ _ _ T1 K) as T2. split; [exact T2|]. split; [eapply has_eqtree; eassumption | intros _; exact Nr].
    + destruct K as (_ & K1 & K2 & K3). rewrite B1 in K3. auto.
Qed.

Definition COBR (o : bopts) (st : pstate) (r : option (nat * bool) * pstate) : Prop :=
  match r with
  | (Some (c, am), st') => eqtree st st' /\ has st' c
  | (None, st') => W o st' /\ has st' (ps_current st')
  end.

Lemma check_open_blocks_spec o st line : W o st -> safe (COBR o st) (check_open_blocks o st line).
Proof.
  intro V. unfold check_open_blocks.
  pose proof (cobi_spec o line (S (ps_next st)) st root_id V (has_root _ _ V)) as S.
  apply sbind; [eapply safe_nb; exact S|]. intros [[[am c] cont] s1] E. pose proof (safe_ok _ _ _ S E) as K. cbn in K.
  destruct cont.
  - destruct K as (T & Hc & Nr). pose proof (W_eqtree _ _ _ T V) as V1.
    destruct am; cbn [bind].
    + cbn. auto.
    + destruct (parent_some_st _ _ _ V1 Hc (Nr eq_refl)) as [p P]. rewrite P. cbn. split; [exact T | eapply parent_has; exact P].
  - destruct K as (V1 & Hcur & Hc & Nr). destruct am; cbn [bind]; [cbn; auto|].
    (* should_continue = false: the result is None, but the parent is taken first *)
    destruct (parent_some_st _ _ _ V1 Hc Nr) as [p P]. rewrite P. cbn. auto.
Qed.

(* ================================================================== open_new_blocks: the invariant of the handlers *)
(* lmc = the last matched container, cur0 = self.current (not moved by open_new_blocks) *)
Definition J (o : bopts) (lmc cur0 : nat) (st : pstate) (c : nat) : Prop :=
  W o st /\ has st c /\ (ispara st c = true -> c = lmc) /\ ps_current st = cur0 /\ (cur0 = lmc \/ has st cur0).

Lemma J_eqtree o lmc cur0 st st' c : eqtree st st' -> J o lmc cur0 st c -> J o lmc cur0 st' c.
Proof.
  intros T (V & H & P & C & K). pose proof (eqtree_same _ _ T) as S. destruct T as (T1 & T2 & T3).
  split; [eapply W_eqtree; [|exact V]; repeat split; assumption|].
  split; [apply (same_has _ _ _ S); exact H|]. split; [rewrite (sm_para _ _ S); exact P|].
  split; [congruence|]. destruct K as [K|K]; [now left | right; apply (same_has _ _ _ S); exact K].
Qed.

Lemma J_same o lmc cur0 st st' c : same st st' -> W o st' -> J o lmc cur0 st c -> J o lmc cur0 st' c.
Proof.
  intros S V' (V & H & P & C & K).
  split; [exact V'|]. split; [apply (same_has _ _ _ S); exact H|]. split; [rewrite (sm_para _ _ S); exact P|].
  split; [rewrite (sm_cur _ _ S); exact C|]. destruct K as [K|K]; [now left | right; apply (same_has _ _ _ S); exact K].
Qed.

Lemma J_grow o lmc cur0 st c v col post id st' :
  add_child_gen o st c v col post [] = Ok (id, st') -> J o lmc cur0 st c -> W o st' ->
  (forall i, bi_id (post i) = bi_id i) -> (forall i l k, is_pv (bi_val (post (new_info i v l k))) = false) ->
  J o lmc cur0 st' id.
Proof.
  intros A (V & H & P & C & K) V' Hp Hv.
  destruct (add_child_gen_post _ _ _ _ _ _ _ _ A V V' H Hp) as [(G1 & G2 & G3 & _) IP].
  split; [exact V'|]. split; [exact G1|]. split; [rewrite IP, Hv; discriminate|]. split; [congruence|].
  destruct K as [K|K]; [now left|]. destruct (G3 _ K) as [[E Pc]|Hx]; [left; rewrite E; now apply P | now right].
Qed.

Lemma add_child_W o st c v col id st' :
  add_child o st c v col = Ok (id, st') -> W o st -> bvok o v = true -> vrowcell v = false -> vplain v = true -> W o st'.
Proof.
  intros A (T & S & R) B1 B2 B3. split; [eapply add_child_TI; eassumption|].
  split; [eapply add_child_valid; eassumption | eapply add_child_R0; eassumption].
Qed.

Definition HJ (o : bopts) (lmc cur0 : nat) (r : bool * nat * pstate) : Prop := J o lmc cur0 (snd r) (snd (fst r)).

(* the binds of a handler *)
Lemma sb_pure {A B} (r : res A) (K : A -> res B) (Q : B -> Prop) : nb r -> (forall a, safe Q (K a)) -> safe Q (bind r K).
Proof. intros H HK. apply sbind; [exact H | intros a _; apply HK]. Qed.

Lemma sb_assoc {A B C} (r : res A) (f : A -> res B) (K : B -> res C) (Q : C -> Prop) :
  safe Q (bind r (fun a => bind (f a) K)) -> safe Q (bind (bind r f) K).
Proof. destruct r; exact (fun H => H). Qed.

Lemma sb_eq {B} o lmc cur0 st c (r : res pstate) (K : pstate -> res B) (Q : B -> Prop) :
  J o lmc cur0 st c -> nb r -> (forall s1, r = Ok s1 -> eqtree st s1) ->
  (forall s1, J o lmc cur0 s1 c -> safe Q (K s1)) -> safe Q (bind r K).
Proof. intros Jc N T HK. apply sbind; [exact N|]. intros s1 E. apply HK. eapply J_eqtree; [eapply T; exact E | exact Jc]. Qed.

Lemma sb_get {B} st x (K : bnode -> res B) (Q : B -> Prop) :
  has st x -> (forall n, get st x = Ok n -> safe Q (K n)) -> safe Q (bind (get st x) K).
Proof. intros H HK. apply sbind; [now apply nb_get | exact HK]. Qed.

Lemma sb_add_child {B} o lmc cur0 st c v col (K : nat * pstate -> res B) (Q : B -> Prop) :
  J o lmc cur0 st c -> bvok o v = true -> vrowcell v = false -> vplain v = true -> is_pv v = false ->
  (forall id s1, J o lmc cur0 s1 id -> safe Q (K (id, s1))) -> safe Q (bind (add_child o st c v col) K).
Proof.
  intros Jc B1 B2 B3 B4 HK. pose proof Jc as (V & H & _).
  apply sbind; [unfold add_child; now apply add_child_gen_nb|]. intros [id s1] E. apply HK.
  pose proof (add_child_W _ _ _ _ _ _ _ E V B1 B2 B3) as V1.
  unfold add_child in E. eapply J_grow; [exact E | exact Jc | exact V1 | reflexivity | intros; exact B4].
Qed.

Lemma modify_info_set_W o st id g st' :
  modify_info st id g = Ok st' -> (forall i, bi_id (g i) = bi_id i /\ bi_val (g i) = bi_val i) -> W o st -> W o st'.
Proof.
  intros M Hg (T & S & R). split; [eapply modify_info_set_TI; [exact M | intro i; destruct (Hg i); auto | exact T]|].
  split; [eapply modify_info_set_valid; [exact M | intro i; destruct (Hg i) as [_ ->]; reflexivity | exact S]|].
  eapply modify_info_set_R0; [exact M | intro i; apply Hg | exact R].
Qed.

Lemma sb_mi {B} o lmc cur0 st c x g (K : pstate -> res B) (Q : B -> Prop) :
  J o lmc cur0 st c -> has st x -> (forall i, bi_id (g i) = bi_id i /\ bi_val (g i) = bi_val i) ->
  (forall s1, J o lmc cur0 s1 c -> safe Q (K s1)) -> safe Q (bind (modify_info st x g) K).
Proof.
  intros Jc H Hg HK. apply sbind; [now apply nb_modify_info|]. intros s1 E. apply HK.
  eapply J_same; [eapply modify_info_set_same; eassumption | eapply modify_info_set_W; [exact E | exact Hg | apply Jc] | exact Jc].
Qed.

Lemma J_has o lmc cur0 st c : J o lmc cur0 st c -> has st c.
Proof. intros (_ & H & _). exact H. Qed.

Ltac hstep :=
  match goal with
  | |- safe _ (Ok _) => cbn [safe fst snd HJ]; eassumption
  | |- safe _ (not_handled _ _) => unfold not_handled
  | |- safe _ (Panic _) => vm_compute; reflexivity
  | |- safe _ (bind (Ok _) _) => cbn [bind]
  | |- safe _ (bind (bind _ _) _) => apply sb_assoc
  | |- safe _ (bind (adv _ _ _ _) _) =>
      eapply sb_eq; [eassumption | auto with nb | intros ? ?; eapply adv_eqtree; eassumption | intros ? ?]
  | |- safe _ (bind (skip_one_space _ _ _) _) =>
      eapply sb_eq; [eassumption | auto with nb | intros ? ?; eapply skip_one_space_eqtree; eassumption | intros ? ?]
  | |- safe _ (bind (list_spaces_loop _ _ _ _) _) =>
      eapply sb_eq; [eassumption | auto with nb | intros ? ?; eapply list_spaces_loop_eqtree; eassumption | intros ? ?]
  | |- safe _ (bind (add_child _ _ _ _ _) _) =>
      eapply sb_add_child; [eassumption | try reflexivity | reflexivity | reflexivity | reflexivity
                           | intros ? ? ?; cbn beta iota; cbn [fst snd] ]
  | |- safe _ (bind (get _ _) _) => eapply sb_get; [eapply J_has; eassumption | intros ? ?]
  | |- safe _ (bind (modify_info _ _ _) _) =>
      eapply sb_mi; [eassumption | eapply J_has; eassumption | intro; split; reflexivity | intros ? ?]
  | |- safe _ (bind (if ?b then _ else _) _) => first [ apply sb_pure; [solve [nbgo] | intros] | destruct b eqn:? ]
  | |- safe _ (bind (match ?x with _ => _ end) _) => first [ apply sb_pure; [solve [nbgo] | intros] | destruct x eqn:? ]
  | |- safe _ (bind _ _) => apply sb_pure; [solve [nbgo] | intros]
  | |- safe _ (if ?b then _ else _) => destruct b eqn:?
  | |- safe _ (match ?x with _ => _ end) => destruct x eqn:?
  | |- safe _ (let (_, _) := ?x in _) => destruct x eqn:?
  end.
Ltac hgo := repeat hstep.

Section Handlers.
Variables (o : bopts) (lmc cur0 : nat).
Notation Jx := (J o lmc cur0).
Notation HJx := (HJ o lmc cur0).

Lemma handle_alert_spec st c line ind : Jx st c -> safe HJx (handle_alert o st c line ind).
Proof. intro Jc. unfold handle_alert. hgo. Qed.

Lemma handle_mbq_spec st c line ind : Jx st c -> safe HJx (handle_multiline_blockquote o st c line ind).
Proof. intro Jc. unfold handle_multiline_blockquote, rest_at_fns. hgo. Qed.

Lemma handle_blockquote_spec st c line ind : Jx st c -> safe HJx (handle_blockquote o st c line ind).
Proof. intro Jc. unfold handle_blockquote. hgo. Qed.

Lemma handle_code_fence_spec st c line ind : Jx st c -> safe HJx (handle_code_fence o st c line ind).
Proof. intro Jc. unfold handle_code_fence, rest_at_fns. hgo. Qed.

Lemma handle_html_block_spec st c line ind : Jx st c -> safe HJx (handle_html_block o st c line ind).
Proof. intro Jc. unfold handle_html_block, rest_at_fns. hgo. Qed.

Lemma handle_code_block_spec st c line ind ml : Jx st c -> safe HJx (handle_code_block o st c line ind ml).
Proof. intro Jc. unfold handle_code_block. hgo. Qed.

Lemma handle_thematic_break_spec st c line ind am : Jx st c -> safe HJx (handle_thematic_break o st c line ind am).
Proof.
  intro Jc. unfold handle_thematic_break. hgo.
Qed.

Lemma handle_footnote_spec st c line ind d : Jx st c -> safe HJx (handle_footnote o st c line ind d).
Proof.
  intro Jc. unfold handle_footnote, rest_at_fns.
  destruct (ind || negb (bo_footnotes o) || negb (Nat.ltb d max_list_depth)) eqn:E; [hgo|].
  assert (F : bo_footnotes o = true).
  { destruct (bo_footnotes o); [reflexivity|]. destruct ind; cbn in E; discriminate E. }
  hgo. cbn [bvok]. exact F.
Qed.

Lemma handle_description_list_spec st c line ind :
  bo_description_lists o = false -> Jx st c -> safe HJx (handle_description_list o st c line ind).
Proof. intros D Jc. unfold handle_description_list. rewrite D. cbn [negb]. rewrite orb_true_r. hgo. Qed.

Lemma handle_list_spec st c line ind d : Jx st c -> safe HJx (handle_list o st c line ind d).
Proof.
  intro Jc. unfold handle_list.
  repeat (match goal with |- safe _ (bind (if _ then _ else Ok (_ , _)) _) => fail 1 | |- _ => hstep end).
  match goal with |- safe _ (bind (if ?b then _ else _) _) => destruct b eqn:? end.
  - cbv zeta. apply sb_assoc.
    match goal with HJ1 : J _ _ _ ?s c |- context [adv (st_cur ?s ?cc) _ _ _] =>
      pose proof (J_eqtree o lmc cur0 s (st_cur s cc) c (conj eq_refl (conj eq_refl eq_refl)) HJ1) end.
    match goal with |- safe _ (bind (if ?b then _ else _) _) => destruct b eqn:? end; hgo.
  - hgo.
Qed.

Lemma handle_atx_spec st c line ind : Jx st c -> safe HJx (handle_atx_heading o st c line ind).
Proof.
  intro Jc. unfold handle_atx_heading, rest_at_fns.
  destruct ind; [hgo|]. apply sbind; [auto with nb|]. intros rest _.
  destruct (scan_atx_heading_start rest) as [matched|] eqn:Sc; [|hgo].
  hstep. hstep.
  destruct (position_hash rest) as [p|] eqn:Ph; [|hgo].
  apply sbind; [auto with nb|]. intros level Ch.
  destruct (Nat.ltb 255 level); [hgo|].
  pose proof (atx_level_bounds _ _ _ _ Sc Ph Ch) as Lv.
  match goal with Js : J _ _ _ ?s1 c |- safe _ (bind (add_child_gen _ ?s1 _ _ _ _ _) _) => pose proof Js as (V1 & Hc1 & _); rename Js into J1 end.
  apply sbind; [now apply add_child_gen_nb|]. intros [id s2] A. cbn [fst snd safe HJ].
  assert (V2 : W o s2).
  { destruct V1 as (T1 & S1 & R1). split; [|split].
    - eapply add_child_gen_TI; [exact A | exact T1 | | reflexivity | reflexivity | reflexivity].
      intros id0 l0 c0. cbn [set_ioff set_val new_info bi_val bi_id bvok vrowcell map kshape forallb].
      repeat split. apply andb_true_iff. split; apply N.leb_le; lia.
    - eapply add_child_gen_valid; [exact A | exact S1 | intros; reflexivity | apply kids_ok_nil].
    - eapply add_child_gen_R0; eassumption. }
  eapply J_grow; [exact A | exact J1 | exact V2 | reflexivity | intros; reflexivity].
Qed.

Lemma J_setext_core st c m' f s1 : Jx st c -> c = lmc -> modify_info (st_refmap st m') c f = Ok s1 ->
  (forall i, bi_id (f i) = bi_id i) -> forall s2, eqtree s1 s2 -> W o s2 -> Jx s2 c.
Proof.
  intros (V & Hc & Pc & Cc & Kc) El M Hf s2 (T1 & T2 & T3) V2.
  destruct (modify_info_same_cnt _ _ _ _ M Hf) as [Cn Nx]. cbn [ps_root ps_next st_refmap] in Cn, Nx.
  assert (Cu : ps_current s1 = ps_current st).
  { unfold modify_info, modify in M. destruct (upd c (on_info f) (ps_root (st_refmap st m'))); [|discriminate M]. now inversion M. }
  assert (Hh : forall x, has st x -> has s2 x).
  { intros x Hx. apply has_cnt. rewrite T1, Cn. now apply has_cnt. }
  split; [exact V2|]. split; [now apply Hh|]. split; [intros _; exact El|]. split; [congruence|].
  destruct Kc as [Kc|Kc]; [now left | right; now apply Hh].
Qed.

Lemma handle_setext_nb st c line ind : has st c -> nb (handle_setext_heading o st c line ind).
Proof. intro H. unfold handle_setext_heading, rest_at_fns. unfold not_handled. nbgo. Qed.

Lemma handle_setext_post st c line ind b c' st' :
  handle_setext_heading o st c line ind = Ok (b, c', st') -> Jx st c -> Jx st' c'.
Proof.
  intros H Jc. pose proof Jc as (V & _ & Pc & _).
  assert (V' : W o st') by (Wgo V).
  unfold handle_setext_heading, rest_at_fns in H. mon H; try exact Jc;
  match goal with G : get st ?cc = Ok ?a, P : negb (is_paragraph ?a) = false |- _ =>
    assert (El : cc = lmc) by (apply Pc; rewrite (ispara_get _ _ _ G); destruct (is_paragraph a); [reflexivity | discriminate P]) end;
  match goal with M : modify_info (st_refmap st _) _ _ = Ok ?s1 |- _ =>
    eapply (J_setext_core _ _ _ _ _ Jc El M);
      [ intro; repeat match goal with |- context [if ?bb then _ else _] => destruct bb end; reflexivity
      | first [ eapply adv_eqtree; eassumption | apply eqtree_refl ] | exact V' ] end.
Qed.

Lemma handle_setext_spec st c line ind : Jx st c -> safe HJx (handle_setext_heading o st c line ind).
Proof.
  intro Jc. apply nb_safe; [apply handle_setext_nb; eapply J_has; exact Jc|].
  intros [[b c'] st'] E. cbn [HJ fst snd]. eapply handle_setext_post; eassumption.
Qed.
End Handlers.

(* ================================================================== open_new_blocks *)
Lemma or_else_spec o lmc cur0 (r : hres) (k : nat -> pstate -> hres) :
  safe (HJ o lmc cur0) r -> (forall c s, J o lmc cur0 s c -> safe (HJ o lmc cur0) (k c s)) ->
  safe (HJ o lmc cur0) (or_else_h r k).
Proof.
  intros S K. unfold or_else_h. destruct r as [[[h c] s]| |]; cbn [bind safe] in *; [|exact S | exact I].
  destruct h; [exact S|]. apply K. exact S.
Qed.

Lemma open_new_blocks_step_spec o lmc cur0 st c line am ml d :
  bo_table o = false -> bo_description_lists o = false -> J o lmc cur0 st c ->
  safe (HJ o lmc cur0) (open_new_blocks_step o st c line am ml d).
Proof.
  intros Tb Dl Jc. unfold open_new_blocks_step.
  eapply sb_eq; [exact Jc | auto with nb | intros s1 E; eapply ffn_eqtree; exact E |]. intros s0 J0.
  match goal with |- safe _ (bind ?r _) =>
    assert (S : safe (HJ o lmc cur0) r) end.
  { apply or_else_spec; [now apply handle_alert_spec|]. intros c1 s1 J1.
    apply or_else_spec; [now apply handle_mbq_spec|]. clear c1 s1 J1. intros c1 s1 J1.
    apply or_else_spec; [now apply handle_blockquote_spec|]. clear c1 s1 J1. intros c1 s1 J1.
    apply or_else_spec; [now apply handle_atx_spec|]. clear c1 s1 J1. intros c1 s1 J1.
    apply or_else_spec; [now apply handle_code_fence_spec|]. clear c1 s1 J1. intros c1 s1 J1.
    apply or_else_spec; [now apply handle_html_block_spec|]. clear c1 s1 J1. intros c1 s1 J1.
    apply or_else_spec; [now apply handle_setext_spec|]. clear c1 s1 J1. intros c1 s1 J1.
    apply or_else_spec; [now apply handle_thematic_break_spec|]. clear c1 s1 J1. intros c1 s1 J1.
    apply or_else_spec; [now apply handle_footnote_spec|]. clear c1 s1 J1. intros c1 s1 J1.
    apply or_else_spec; [now apply handle_description_list_spec|]. clear c1 s1 J1. intros c1 s1 J1.
    apply or_else_spec; [now apply handle_list_spec|]. clear c1 s1 J1. intros c1 s1 J1.
    now apply handle_code_block_spec. }
  apply sbind; [eapply safe_nb; exact S|]. intros [[handled c1] s1] E. pose proof (safe_ok _ _ _ S E) as J1.
  cbn [HJ fst snd] in J1. rewrite Tb, andb_false_r.
  destruct handled; cbn [bind negb].
  - eapply sb_get; [eapply J_has; exact J1|]. intros n G. destruct (accepts_lines (bkind n)); cbn [safe HJ fst snd]; exact J1.
  - cbn [safe HJ fst snd]. exact J1.
Qed.

Lemma open_new_blocks_loop_spec o lmc cur0 line am : bo_table o = false -> bo_description_lists o = false ->
  forall fuel st c ml d, J o lmc cur0 st c ->
  safe (fun r => J o lmc cur0 (snd r) (fst r)) (open_new_blocks_loop fuel o st c line am ml d).
Proof.
  intros Tb Dl. induction fuel as [|f IH]; intros st c ml d Jc; cbn [open_new_blocks_loop]; [exact I|].
  eapply sb_get; [eapply J_has; exact Jc|]. intros n G.
  destruct (is_code_or_html n); [cbn; exact Jc|].
  pose proof (open_new_blocks_step_spec o lmc cur0 st c line am ml (S d) Tb Dl Jc) as S.
  apply sbind; [eapply safe_nb; exact S|]. intros [[go c1] s1] E. pose proof (safe_ok _ _ _ S E) as J1.
  cbn [HJ fst snd] in J1. destruct go; [now apply IH | cbn; exact J1].
Qed.

Lemma open_new_blocks_spec o st c line am : bo_table o = false -> bo_description_lists o = false ->
  W o st -> has st c -> has st (ps_current st) ->
  safe (fun r => J o c (ps_current st) (snd r) (fst r)) (open_new_blocks o st c line am).
Proof.
  intros Tb Dl V Hc Hcur. unfold open_new_blocks.
  eapply sb_get; [exact Hcur|]. intros n G. apply open_new_blocks_loop_spec; [exact Tb | exact Dl|].
  split; [exact V|]. split; [exact Hc|]. split; [reflexivity|]. split; [reflexivity | now right].
Qed.

(* ================================================================== add_text_to_container *)
Lemma add_line_nb st id line : has st id -> nb (add_line st id line).
Proof. intro H. unfold add_line. nbgo. Qed.

Lemma add_line_post o st id line st' : add_line st id line = Ok st' -> W o st -> W o st' /\ same st st'.
Proof.
  intros H V. split; [Wgo V|]. unfold add_line in H.
  mstep H. rename E into G. mon H; monall;
  match goal with M : modify_info st id (fun _ => ?j) = Ok ?s1 |- same st (st_cur ?s1 _) =>
    assert (S : same st s1) by (eapply (mi_const_same st id a j s1 G M); reflexivity);
    destruct S as [S1 S2 S3 S4]; split; [exact S1 | exact S2 | exact S3 | exact S4] end.
Qed.

Lemma add_line_spec o st id line : W o st -> has st id -> safe (fun s' => W o s' /\ same st s') (add_line st id line).
Proof. intros V H. apply nb_safe; [now apply add_line_nb|]. intros s' E. eapply add_line_post; eassumption. Qed.

Lemma clear_llb_up_spec o : forall fuel st id, W o st ->
  safe (fun s' => W o s' /\ same st s') (clear_llb_up fuel st id).
Proof.
  induction fuel as [|f IH]; intros st id V; cbn [clear_llb_up]; [exact I|].
  destruct (parent_of id (ps_root st)) as [p|] eqn:P; [|cbn; split; [exact V | apply same_refl]].
  pose proof (parent_has _ _ _ P) as Hp.
  apply sbind; [now apply nb_modify_info|]. intros s1 M.
  assert (Hg : forall i, bi_id (set_llb false i) = bi_id i /\ bi_val (set_llb false i) = bi_val i) by (intro; split; reflexivity).
  pose proof (modify_info_set_W _ _ _ _ _ M Hg V) as V1. pose proof (modify_info_set_same _ _ _ _ M Hg) as S1.
  eapply safe_weaken; [apply IH; exact V1|]. intros s' _ [V' S']. split; [exact V' | eapply same_trans; eassumption].
Qed.

Lemma finalize_up_to_spec o target site : (bad site = false \/ target = root_id) ->
  forall fuel st, W o st -> (ps_current st = target \/ has st (ps_current st)) ->
  safe (fun s' => W o s' /\ ps_current s' = target /\
                  (forall x, has st x -> (x = ps_current st /\ ispara st x = true /\ x <> target) \/ has s' x))
       (finalize_up_to fuel o st target site).
Proof.
  intro Hs. induction fuel as [|f IH]; intros st V Hc; cbn [finalize_up_to]; [exact I|].
  destruct (Nat.eqb (ps_current st) target) eqn:Eq.
  { apply Nat.eqb_eq in Eq. cbn. split; [exact V|]. split; [exact Eq | intros; now right]. }
  apply Nat.eqb_neq in Eq. destruct Hc as [Hc|Hc]; [contradiction|].
  unfold unwrap_parent. destruct (finalize o st (ps_current st)) as [[po s1]| |] eqn:F; cbn [bind fst snd].
  2:{ pose proof (finalize_nb o st _ Hc) as N. rewrite F in N. exact N. }
  2:{ exact I. }
  destruct (finalize_post _ _ _ _ _ F V) as [V1 (Ep & L & Sm)].
  destruct po as [p|]; cbn [bind fst snd].
  2:{ destruct Hs as [Hs|Hs]; [exact Hs|]. exfalso. subst target.
      destruct (parent_some_st _ _ _ V Hc Eq) as [p P]. congruence. }
  destruct (finalize_keeps_parent _ _ _ _ _ F V) as (Hp & Pp & Np).
  assert (S : safe (fun s' => W o s' /\ ps_current s' = target /\
                    (forall x, has (st_current s1 p) x -> (x = p /\ ispara (st_current s1 p) x = true /\ x <> target) \/ has s' x))
                   (finalize_up_to f o (st_current s1 p) target site)).
  { apply IH; [exact V1 | right; exact Hp]. }
  eapply safe_weaken; [exact S|]. intros s' _ (V' & C' & K'). split; [exact V'|]. split; [exact C'|].
  intros x Hx. destruct (Nat.eq_dec x (ps_current st)) as [->|Nx].
  - destruct (ispara st (ps_current st)) eqn:Pc; [left; auto|]. right.
    assert (H1 : has (st_current s1 p) (ps_current st)) by (apply (same_has _ _ _ (Sm eq_refl)); exact Hx).
    destruct (K' _ H1) as [(E1 & E2 & _)|K2]; [|exact K2]. subst p. change (ispara s1 (ps_current st) = true) in E2. congruence.
  - right. assert (H1 : has (st_current s1 p) x) by (apply has_cnt; change (1 <= cnt x (ids (ps_root s1))); rewrite (ls_cnt _ _ _ L x Nx); now apply has_cnt).
    destruct (K' _ H1) as [(E1 & E2 & _)|K2]; [|exact K2]. subst p. change (ispara s1 x = true) in E2. congruence.
Qed.

Lemma not_root_of_value o st c n : W o st -> get st c = Ok n -> bval n <> Document -> c <> root_id.
Proof.
  intros V G B E. subst c. destruct V as ((( D & _) & _) & _ & R). unfold R0 in R. unfold get in G.
  rewrite <- R in G. rewrite find_root_id in G. inversion G; subst. contradiction.
Qed.

Definition ATC (o : bopts) (r : nat * pstate) : Prop := W o (snd r) /\ has (snd r) (fst r).

Lemma atc_add_line o st c line : W o st -> has st c ->
  safe (ATC o) (do st1 <- add_line st c line; Ok (c, st1)).
Proof.
  intros V H. pose proof (add_line_spec o st c line V H) as S.
  apply sbind; [eapply safe_nb; exact S|]. intros s1 E. destruct (safe_ok _ _ _ S E) as [V1 S1].
  split; [exact V1 | apply (same_has _ _ _ S1); exact H].
Qed.

Lemma atc_ok o s c : W o s -> has s c -> safe (ATC o) (Ok (c, s)).
Proof. intros V H. split; assumption. Qed.

Ltac atc_other V2 Hc2 :=
  let line1 := fresh "line1" in let count := fresh "count" in
  let sa := fresh "sa" in let Ea := fresh "Ea" in let Ta := fresh "Ta" in
  let sb := fresh "sb" in let Eb := fresh "Eb" in let Tb := fresh "Tb" in
  let pp := fresh "pp" in let Aa := fresh "Aa" in let Va := fresh "Va" in let Ga := fresh "Ga" in
  match goal with |- safe _ (if blank ?s then _ else _) => destruct (blank s) end;
  [ apply atc_ok; [exact V2 | exact Hc2] | ];
  match goal with |- safe _ (if ?b then _ else _) => destruct b end;
  [ apply sbind; [nbgo|]; intros line1 _; apply sbind; [auto with nb|]; intros count _;
    match goal with |- safe _ (if ?b then _ else _) => destruct b end; [|apply atc_ok; [exact V2 | exact Hc2]];
    apply sbind; [auto with nb|]; intros sa Ea;
    pose proof (adv_eqtree _ _ _ _ _ Ea) as Ta;
    apply atc_add_line; [eapply W_eqtree; eassumption | eapply has_eqtree; eassumption]
  | apply sbind; [unfold add_child; now apply add_child_gen_nb|]; intros [pp sa] Aa;
    pose proof (add_child_W _ _ _ _ _ _ _ Aa V2 eq_refl eq_refl eq_refl) as Va;
    unfold add_child in Aa;
    destruct (add_child_gen_post _ _ _ _ _ _ _ _ Aa V2 Va Hc2 (fun i => eq_refl)) as [(Ga & _) _];
    apply sbind; [auto with nb|]; intros count _;
    apply sbind; [auto with nb|]; intros sb Eb;
    pose proof (adv_eqtree _ _ _ _ _ Eb) as Tb;
    apply atc_add_line; [eapply W_eqtree; eassumption | eapply has_eqtree; eassumption] ].

Lemma add_text_to_container_spec o lmc cur0 st c line : J o lmc cur0 st c ->
  safe (fun s' => W o s' /\ has s' (ps_current s')) (add_text_to_container o st c lmc line).
Proof.
  intro Jc. unfold add_text_to_container.
  eapply sb_eq; [exact Jc | auto with nb | intros s1 E; eapply ffn_eqtree; exact E |]. intros s0 J0.
  eapply sb_get; [eapply J_has; exact J0|]. intros cn G.
  (* last_line_blank of the last child *)
  assert (S1 : forall K, (forall s1, J o lmc cur0 s1 c -> blank s1 = blank s0 -> ps_line_number s1 = ps_line_number s0 ->
                                     safe (fun s' => W o s' /\ has s' (ps_current s')) (K s1)) ->
               safe (fun s' => W o s' /\ has s' (ps_current s'))
                 (bind (if blank s0 then match last_opt (bkids cn) with
                                        | Some lc => modify_info s0 (bid lc) (set_llb true)
                                        | None => Ok s0 end else Ok s0) K)).
  { intros K HK. destruct (blank s0) eqn:Bl; [|cbn [bind]; now apply HK].
    destruct (last_opt (bkids cn)) as [lc|] eqn:L; [|cbn [bind]; now apply HK].
    apply last_opt_in in L. pose proof (kid_has _ _ _ _ G L) as Hl.
    apply sbind; [now apply nb_modify_info|]. intros s1 M.
    assert (Hg : forall i, bi_id (set_llb true i) = bi_id i /\ bi_val (set_llb true i) = bi_val i) by (intro; split; reflexivity).
    apply HK.
    - eapply J_same; [eapply modify_info_set_same; eassumption | eapply modify_info_set_W; [exact M | exact Hg | apply J0] | exact J0].
    - unfold modify_info, modify in M. destruct (upd _ _ _); [|discriminate M]. now inversion M.
    - unfold modify_info, modify in M. destruct (upd _ _ _); [|discriminate M]. now inversion M. }
  apply S1. clear S1. intros s1 J1 _ _.
  eapply sb_mi; [exact J1 | eapply J_has; exact J1 | intro; split; reflexivity |]. intros s2 J2.
  pose proof J2 as (V2 & Hc2 & Pc2 & Cc2 & Kc2).
  pose proof (clear_llb_up_spec o (S (ps_next s2)) s2 c V2) as S3.
  apply sbind; [eapply safe_nb; exact S3|]. intros s3 E3. destruct (safe_ok _ _ _ S3 E3) as [V3 Sm3].
  pose proof (J_same _ _ _ _ _ _ Sm3 V3 J2) as J3. clear S3.
  pose proof J3 as (_ & Hc3 & Pc3 & Cc3 & Kc3).
  (* lazy continuation *)
  match goal with |- safe _ (bind ?r _) =>
    assert (N : nb r /\ forall lz, r = Ok lz -> lz = true -> ps_current s3 <> lmc /\ has s3 (ps_current s3)) end.
  { match goal with |- nb (if ?cond then _ else _) /\ _ => destruct cond eqn:Cd end.
    - assert (Ne : ps_current s3 <> lmc).
      { apply andb_true_iff in Cd. destruct Cd as [Cd _]. apply andb_true_iff in Cd. destruct Cd as [Cd _].
        apply andb_true_iff in Cd. destruct Cd as [Cd _]. apply negb_true_iff in Cd. now apply Nat.eqb_neq in Cd. }
      assert (Hcur : has s3 (ps_current s3)) by (destruct Kc3 as [K|K]; [congruence | now rewrite Cc3]).
      split; [apply nb_bind; [now apply nb_get | intros; exact I] | auto].
    - split; [exact I | intros lz E; inversion E; discriminate]. }
  apply sbind; [exact (proj1 N)|]. intros lz El. pose proof (proj2 N lz El) as Lz. clear N El.
  destruct lz.
  { destruct (Lz eq_refl) as [Ne Hcur].
    pose proof (add_line_spec o s3 _ line V3 Hcur) as S. eapply safe_weaken; [exact S|].
    intros s' _ [V' Sm']. split; [exact V'|]. rewrite (sm_cur _ _ Sm'). apply (same_has _ _ _ Sm'). exact Hcur. }
  clear Lz.
  assert (Pre : ps_current s3 = lmc \/ has s3 (ps_current s3)) by (rewrite Cc3; exact Kc3).
  pose proof (finalize_up_to_spec o lmc "mod.rs:add_text_to_container:self.finalize(self.current).unwrap()"
                (or_introl eq_refl) (S (ps_next s3)) s3 V3 Pre) as S4.
  apply sbind; [eapply safe_nb; exact S4|]. intros s4 E4. destruct (safe_ok _ _ _ S4 E4) as (V4 & C4 & K4). clear S4.
  assert (Hc4 : has s4 c).
  { destruct (K4 _ Hc3) as [(Q1 & Q2 & Q3)|H4]; [|exact H4]. exfalso. apply Q3. now apply Pc3. }
  eapply sb_get; [exact Hc4|]. intros cn4 G4.
  match goal with |- safe _ (bind ?r _) => assert (SR : safe (ATC o) r) end.
  { destruct (bval cn4) eqn:Bv; try (atc_other V4 Hc4).
    - now apply atc_add_line.
    - pose proof (add_line_spec o s4 c line V4 Hc4) as S.
      apply sbind; [eapply safe_nb; exact S|]. intros s5 E5. destruct (safe_ok _ _ _ S E5) as [V5 Sm5].
      pose proof (proj2 (same_has _ _ c Sm5) Hc4) as Hc5.
      apply sbind; [auto with nb|]. intros rest _.
      destruct (html_end_condition _ rest); [|apply atc_ok; [exact V5 | exact Hc5]].
      assert (Nr : c <> root_id) by (eapply not_root_of_value; [exact V4 | exact G4 | rewrite Bv; discriminate]).
      pose proof (finalize_unwrap_spec "mod.rs:add_text_to_container:self.finalize(container).unwrap()" o s5 c V5 Hc5 Nr) as S6.
      eapply safe_weaken; [exact S6|]. intros [p s6] _ (A & B & _). split; [exact A | exact B]. }
  apply sbind; [eapply safe_nb; exact SR|]. intros [c5 s5] E5. destruct (safe_ok _ _ _ SR E5) as [V5 H5].
  cbn [fst snd] in *. split; [exact V5 | exact H5].
Qed.

(* ================================================================== process_line and the rest *)
Definition LI (o : bopts) (st : pstate) : Prop := W o st /\ has st (ps_current st).

Lemma LI_eqtree o a b : eqtree a b -> LI o a -> LI o b.
Proof.
  intros T [V H]. split; [eapply W_eqtree; eassumption|]. destruct T as (T1 & T2 & T3). unfold has in *. now rewrite T1, T3.
Qed.

Lemma process_line_spec o st line0 : bo_table o = false -> bo_description_lists o = false -> LI o st ->
  safe (LI o) (process_line o st line0).
Proof.
  intros Tb Dl L0. unfold process_line. cbv zeta.
  match goal with |- safe _ (bind (check_open_blocks o ?sa ?line) _) =>
    assert (La : LI o sa) by (eapply LI_eqtree; [|exact L0]; repeat split); set (s_a := sa) in *; set (ln := line) in * end.
  destruct La as [Va Ha].
  pose proof (check_open_blocks_spec o s_a ln Va) as S.
  apply sbind; [eapply safe_nb; exact S|]. intros [r s1] E. pose proof (safe_ok _ _ _ S E) as K. clear S.
  assert (S2 : safe (LI o)
     (match (r, s1) with
      | (Some (last_matched_container, all_matched), st1) =>
        let current := ps_current st1 in
        do r2 <- open_new_blocks o st1 last_matched_container ln all_matched;
        let '(container, st2) := r2 in
        if Nat.eqb current (ps_current st2) then add_text_to_container o st2 container last_matched_container ln
        else Ok st2
      | (None, st1) => Ok st1
      end)).
  { destruct r as [[lmc am]|]; cbn in K.
    - destruct K as [T Hl]. pose proof (W_eqtree _ _ _ T Va) as V1.
      assert (H1 : has s1 (ps_current s1)) by (destruct T as (T1 & T2 & T3); unfold has in *; now rewrite T1, T3).
      cbv zeta. pose proof (open_new_blocks_spec o s1 lmc ln am Tb Dl V1 Hl H1) as S.
      apply sbind; [eapply safe_nb; exact S|]. intros [c s2] E2. pose proof (safe_ok _ _ _ S E2) as J2. cbn [fst snd] in J2.
      destruct (Nat.eqb (ps_current s1) (ps_current s2)) eqn:Eq.
      + eapply safe_weaken; [eapply add_text_to_container_spec; exact J2|]. intros s' _ R. exact R.
      + exfalso. destruct J2 as (_ & _ & _ & C & _). rewrite C, Nat.eqb_refl in Eq. discriminate Eq.
    - exact K. }
  apply sbind; [eapply safe_nb; exact S2|]. intros s3 E3. pose proof (safe_ok _ _ _ S2 E3) as L3.
  cbn [safe]. eapply LI_eqtree; [|exact L3]. repeat split.
Qed.

Lemma process_lines_spec o : bo_table o = false -> bo_description_lists o = false ->
  forall ls st, LI o st -> safe (LI o) (process_lines o st ls).
Proof.
  intros Tb Dl. induction ls as [|l r IH]; intros st L0; cbn [process_lines]; [exact L0|].
  pose proof (process_line_spec o st l Tb Dl L0) as S.
  apply sbind; [eapply safe_nb; exact S|]. intros s1 E. apply IH. exact (safe_ok _ _ _ S E).
Qed.

Lemma finalize_document_nb o st : LI o st -> nb (finalize_document o st).
Proof.
  intros [V H]. unfold finalize_document.
  pose proof (finalize_up_to_spec o root_id "mod.rs:finalize_document:self.finalize(self.current).unwrap()"
                (or_intror eq_refl) (S (ps_next st)) st V (or_intror H)) as S.
  apply nb_bind_eq; [eapply safe_nb; exact S|]. intros s1 E. destruct (safe_ok _ _ _ S E) as (V1 & _).
  apply nb_bind; [apply finalize_nb; now apply (has_root o) | intros; exact I].
Qed.

Lemma run_lines_nb o st ls : bo_table o = false -> bo_description_lists o = false -> LI o st -> nb (run_lines o st ls).
Proof.
  intros Tb Dl L0. unfold run_lines. pose proof (process_lines_spec o Tb Dl ls st L0) as S.
  apply nb_bind_eq; [eapply safe_nb; exact S|]. intros s1 E. apply finalize_document_nb. exact (safe_ok _ _ _ S E).
Qed.

Lemma ispara_root o st : W o st -> ispara st root_id = false.
Proof.
  intros (((D & _) & _) & _ & R). unfold ispara, R0 in *. rewrite <- R, find_root_id. unfold is_paragraph. now rewrite D.
Qed.

Lemma front_matter_prologue_spec o st s : LI o st ->
  safe (fun r => LI o (fst r)) (front_matter_prologue o st s).
Proof.
  intros [V H]. unfold front_matter_prologue.
  destruct (bo_front_matter_delimiter o) as [d|]; [|split; assumption].
  apply sbind; [auto with nb|]. intros sp _. destruct sp as [[fm rest]|]; [|split; assumption].
  apply sbind; [auto with nb|]. intros stripped _.
  apply sbind; [unfold add_child; apply add_child_gen_nb; [exact V | now apply (has_root o)]|]. intros [node s1] A.
  pose proof (add_child_W _ _ _ _ _ _ _ A V eq_refl eq_refl eq_refl) as V1. unfold add_child in A.
  destruct (add_child_gen_post _ _ _ _ _ _ _ _ A V V1 (has_root _ _ V) (fun i => eq_refl)) as [(G1 & G2 & G3 & G4) IP].
  cbn [bi_val new_info is_pv] in IP.
  assert (Nr : node <> root_id) by (intro E; exact (G4 _ (has_root _ _ V) (eq_sym E))).
  assert (Hc1 : has s1 (ps_current st)).
  { destruct (G3 _ H) as [[_ P]|K]; [|exact K]. rewrite (ispara_root _ _ V) in P. discriminate P. }
  pose proof (finalize_unwrap_spec "mod.rs:feed:self.finalize(node).unwrap()" o s1 node V1 G1 Nr) as S.
  apply sbind; [eapply safe_nb; exact S|]. intros [p s2] E2. destruct (safe_ok _ _ _ S E2) as (V2 & _ & _ & _ & _ & Sm).
  cbn [fst snd] in *. specialize (Sm IP).
  apply sbind; [apply nb_modify_info; apply (same_has _ _ _ Sm); exact G1|]. intros s3 M.
  assert (Hg : forall i, bi_id (set_end (1 + count_line_endings stripped) (List.length d) (set_start 1 1 i)) = bi_id i /\
                         bi_val (set_end (1 + count_line_endings stripped) (List.length d) (set_start 1 1 i)) = bi_val i)
    by (intro; split; reflexivity).
  pose proof (modify_info_set_W _ _ _ _ _ M Hg V2) as V3. pose proof (modify_info_set_same _ _ _ _ M Hg) as Sm3.
  cbn [safe fst]. split; [exact V3|].
  change (has s3 (ps_current s3)). rewrite (sm_cur _ _ Sm3), (sm_cur _ _ Sm), G2.
  apply (same_has _ _ _ Sm3). apply (same_has _ _ _ Sm). exact Hc1.
Qed.

Lemma LI_init o : LI o init_state.
Proof. split; [apply W_init | now left]. Qed.

Theorem parse_blocks_nb o x : bo_table o = false -> bo_description_lists o = false -> nb (parse_blocks o x).
Proof.
  intros Tb Dl. unfold parse_blocks.
  pose proof (front_matter_prologue_spec o init_state x (LI_init o)) as S.
  apply nb_bind_eq; [eapply safe_nb; exact S|]. intros [st rest] E. pose proof (safe_ok _ _ _ S E) as L0. cbn [fst] in L0.
  destruct (feed_lines rest) as [lines total].
  apply nb_bind; [now apply run_lines_nb | intros; exact I].
Qed.

Lemma bad_in s : In s tree_sites -> bad s = true.
Proof.
  intro H. unfold bad. apply existsb_exists. exists s. split; [exact H | apply String.eqb_refl].
Qed.

(* with the table and description-list extensions off: no tree-lookup Panic site is reachable, for every input *)
Theorem parse_blocks_no_tree_panic o x s :
  bo_table o = false -> bo_description_lists o = false -> In s tree_sites -> parse_blocks o x <> Panic s.
Proof.
  intros Tb Dl Hs E. pose proof (parse_blocks_nb o x Tb Dl) as N. rewrite E in N. unfold nb, safe in N.
  rewrite (bad_in _ Hs) in N. discriminate N.
Qed.
