(* Proofs/BlocksTotal2Walk.v — totality of the block phase, step 1 (tree side), the walk: presence carried through
   check_open_blocks, open_new_blocks, add_text_to_container, process_line, finalize_document and the front matter
   prologue, on top of Proofs/BlocksTotal2Tree.v.  Statement at the end: with the table and description-list
   extensions off, parse_blocks never fails at a tree-lookup site (tree_sites), for every input. *)
From Coq Require Import List NArith Arith Bool Lia Strings.String.
From V Require Import Base.Bytes Base.Res Gen.Nodes Model.Ast Model.Strings Model.Feed Model.FrontMatter Model.RefDef
  Model.Scan Model.Blocks Spec.Shape Spec.Valid Proofs.BlocksProofs Proofs.BlocksCursor Proofs.BlocksTight
  Proofs.ParserShapeBlocks Proofs.ParserShapeTree Proofs.ParserShapeTabPrim Proofs.ParserShapeTables
  Proofs.BlocksTotal Proofs.BlocksTotal2Safe Proofs.BlocksTotal2Root Proofs.BlocksTotal2Tree.
Import ListNotations.
Local Open Scope string_scope.
Local Open Scope list_scope.

Lemma safe_ok {A} (Q : A -> Prop) (r : res A) a : safe Q r -> r = Ok a -> Q a.
Proof. intros S ->. exact S. Qed.

Lemma sbind {A B} (r : res A) (k : A -> res B) (Q : B -> Prop) :
  nb r -> (forall a, r = Ok a -> safe Q (k a)) -> safe Q (bind r k).
Proof. intros H K. eapply safe_bind; [exact H | intros a E _; now apply K]. Qed.

Lemma kid_ne o st p pn c : W o st -> get st p = Ok pn -> In c (bkids pn) -> bid c <> p.
Proof.
  intros V G C E. pose proof (get_sub _ _ _ G) as A.
  assert (Hc : In c (bsub (ps_root st))) by (eapply bsub_kid_of; eassumption).
  pose proof (get_unique _ _ _ V Hc) as Gc. rewrite E, G in Gc. inversion Gc; subst c.
  apply in_split in C. destruct C as [l1 [l2 C]].
  assert (I : ids pn = bid pn :: fids (bkids pn)) by (destruct pn; reflexivity).
  pose proof (f_equal (cnt p) I) as Q. rewrite C in Q. rewrite cnt_cons, fids_app, fids_cons, !cnt_app, E, one_same in Q. lia.
Qed.

Lemma last_opt_in' {A} (l : list A) x : last_opt l = Some x -> In x l.
Proof. apply last_opt_in. Qed.

(* finalize of a node that is present and is not the root returns its parent, present and no paragraph *)
Lemma finalize_unwrap_spec site o st id : W o st -> has st id -> id <> root_id ->
  safe (fun r => W o (snd r) /\ has (snd r) (fst r) /\ ispara (snd r) (fst r) = false /\ fst r <> id
                 /\ lose id st (snd r) /\ (ispara st id = false -> same st (snd r)))
       (unwrap_parent site (finalize o st id)).
Proof.
  intros V H N. unfold unwrap_parent. apply sbind; [now apply finalize_nb|]. intros [po st'] F. cbn [fst snd].
  destruct (finalize_post _ _ _ _ _ F V) as [V' (E & L & Sm)].
  destruct (parent_some_st _ _ _ V H N) as [p P]. rewrite P in E. subst po. cbn [safe fst snd].
  destruct (finalize_keeps_parent _ _ _ _ _ F V) as (A & B & C). auto 10.
Qed.

(* ================================================================== check_open_blocks *)
Lemma pbq_eqtree o st line b st' : parse_block_quote_prefix o st line = Ok (b, st') -> eqtree st st'.
Proof.
  unfold parse_block_quote_prefix. intro H. mon H; try apply eqtree_refl.
  eapply eqtree_trans; [eapply adv_eqtree; eassumption | eapply skip_one_space_eqtree; eassumption].
Qed.
Lemma pfn_eqtree st line b st' : parse_footnote_definition_block_prefix st line = Ok (b, st') -> eqtree st st'.
Proof. unfold parse_footnote_definition_block_prefix. intro H. mon H; try apply eqtree_refl. eapply adv_eqtree; eassumption. Qed.
Lemma pip_eqtree st line c mo pad b st' : parse_item_prefix st line c mo pad = Ok (b, st') -> eqtree st st'.
Proof. unfold parse_item_prefix. intro H. mon H; try apply eqtree_refl; eapply adv_eqtree; eassumption. Qed.

Lemma nb_pbq o st line : nb (parse_block_quote_prefix o st line).
Proof. unfold parse_block_quote_prefix. nbgo. Qed.
Lemma nb_pfn st line : nb (parse_footnote_definition_block_prefix st line).
Proof. unfold parse_footnote_definition_block_prefix. nbgo. Qed.
Lemma nb_pip st line c mo pad : nb (parse_item_prefix st line c mo pad).
Proof. unfold parse_item_prefix. nbgo. Qed.
#[export] Hint Resolve nb_pbq nb_pfn nb_pip : nb.

(* the result of one container: go on with the same tree, or stop with a present current node *)
Definition CK (o : bopts) (st : pstate) (cid : nat) (r : bool * bool * pstate) : Prop :=
  let '(matched, cont, st') := r in
  if cont then eqtree st st' else (matched = false /\ W o st' /\ has st' (ps_current st') /\ has st' cid).

Lemma pcbp_spec o st line cid cb : W o st -> has st cid -> cid <> root_id -> ispara st cid = false ->
  safe (CK o st cid) (parse_code_block_prefix o st line cid cb).
Proof.
  intros V H N NP. unfold parse_code_block_prefix.
  destruct (negb (cb_fenced cb)).
  { destruct (Nat.leb code_indent (indent st)).
    - apply sbind; [auto with nb|]. intros s1 E. cbn. eapply adv_eqtree; exact E.
    - destruct (blank st); [|cbn; apply eqtree_refl].
      apply sbind; [auto with nb|]. intros k _. apply sbind; [auto with nb|]. intros s1 E. cbn. eapply adv_eqtree; exact E. }
  apply sbind; [nbgo|]. intros matched _.
  destruct (N.leb (cb_fence_length cb) (N.of_nat matched)).
  - apply sbind; [auto with nb|]. intros s1 E. pose proof (adv_eqtree _ _ _ _ _ E) as T.
    pose proof (W_eqtree _ _ _ T V) as V1. pose proof (has_eqtree _ _ _ T H) as H1.
    pose proof (finalize_unwrap_spec "mod.rs:parse_code_block_prefix:finalize_borrowed(container, ast).unwrap()" o s1 cid V1 H1 N) as S.
    apply sbind; [eapply safe_nb; exact S|]. intros [p s2] E2. pose proof (safe_ok _ _ _ S E2) as (A & B & _ & _ & _ & Sm).
    cbn [fst snd] in *. cbn. split; [reflexivity|]. split; [exact A|]. split; [exact B|].
    apply (same_has _ _ _ (Sm (eq_trans (sm_para _ _ (eqtree_same _ _ T) cid) NP))). exact H1.
  - apply sbind; [auto with nb|]. intros s1 E. cbn. eapply skip_fence_offset_eqtree; exact E.
Qed.

Lemma pmbq_tail o st s2 cid : W o s2 -> has s2 cid -> cid <> root_id -> ispara s2 cid = false ->
  safe (CK o st cid)
    (do r <- unwrap_parent "mod.rs:parse_multiline_block_quote_prefix:finalize_borrowed(container, ast).unwrap()"
               (finalize o s2 cid);
     Ok (false, false, st_current (snd r) (fst r))).
Proof.
  intros V2 H2 N NP.
  pose proof (finalize_unwrap_spec "mod.rs:parse_multiline_block_quote_prefix:finalize_borrowed(container, ast).unwrap()" o s2 cid V2 H2 N) as S.
  apply sbind; [eapply safe_nb; exact S|]. intros [p s3] E3. pose proof (safe_ok _ _ _ S E3) as (A & B & _ & _ & _ & Sm).
  cbn [fst snd] in *. cbn. split; [reflexivity|]. split; [exact A|]. split; [exact B|].
  apply (same_has _ _ _ (Sm NP)). exact H2.
Qed.

Lemma pmbq_spec o st line cid fl fo : W o st -> has st cid -> cid <> root_id -> ispara st cid = false ->
  safe (CK o st cid) (parse_multiline_block_quote_prefix o st line cid fl fo).
Proof.
  intros V H N NP. unfold parse_multiline_block_quote_prefix.
  apply sbind; [nbgo|]. intros matched _.
  destruct (N.leb fl (N.of_nat matched)).
  - apply sbind; [auto with nb|]. intros s1 E. pose proof (adv_eqtree _ _ _ _ _ E) as T.
    pose proof (W_eqtree _ _ _ T V) as V1. pose proof (has_eqtree _ _ _ T H) as H1.
    assert (NP1 : ispara s1 cid = false) by (rewrite (sm_para _ _ (eqtree_same _ _ T)); exact NP).
    unfold last_child_is_open, last_child. destruct (has_get _ _ H1) as [cn G]. rewrite G. cbn [bind].
    destruct (last_opt (bkids cn)) as [c|] eqn:L; [destruct (bi_open (binf c)) eqn:O|]; cbn [bind];
      try (apply pmbq_tail; assumption).
    apply last_opt_in in L.
    pose proof (kid_has _ _ _ _ G L) as Hc. pose proof (kid_not_root _ _ _ _ _ V1 G L) as Nr. rewrite (W_R0 _ _ V1) in Nr.
    pose proof (kid_ne _ _ _ _ _ V1 G L) as Ne.
    pose proof (finalize_unwrap_spec "mod.rs:parse_multiline_block_quote_prefix:finalize_borrowed(child, child_ast).unwrap()" o s1 (bid c) V1 Hc Nr) as S.
    match goal with |- safe _ (bind (bind ?r ?k1) ?k2) => destruct r as [[p s2]| |] eqn:E2; cbn [bind safe] in S |- * end;
      [|exact S | exact I].
    destruct S as (A & _ & _ & _ & L2 & _). cbn [fst snd] in *.
    apply pmbq_tail; [exact A | | exact N |].
    + apply has_cnt. rewrite (ls_cnt _ _ _ L2); [now apply has_cnt | congruence].
    + rewrite (ls_para _ _ _ L2); [exact NP1 | congruence].
  - apply sbind; [auto with nb|]. intros s1 E. cbn. eapply skip_fence_offset_eqtree; exact E.
Qed.

Lemma CK_lift o st cid (r : res (bool * pstate)) :
  nb r -> (forall b s, r = Ok (b, s) -> eqtree st s) ->
  safe (CK o st cid) (do x <- r; Ok (fst x, true, snd x)).
Proof. intros N E. apply sbind; [exact N|]. intros [b s] Eq. cbn. eapply E; exact Eq. Qed.

Lemma check_container_spec o st line c : W o st -> get st (bid c) = Ok c -> bid c <> root_id ->
  safe (CK o st (bid c)) (check_container o st line c).
Proof.
  intros V G N. pose proof (get_has _ _ _ G) as H. pose proof (ispara_get _ _ _ G) as IP. unfold is_paragraph in IP.
  unfold check_container.
  destruct (bval c); try (cbn; apply eqtree_refl);
    try (apply CK_lift; [auto with nb | intros b s E; first [eapply pbq_eqtree; exact E | eapply pip_eqtree; exact E | eapply pfn_eqtree; exact E]]).
  - now apply pcbp_spec.
  - apply sbind; [auto with nb|]. intros b _. cbn. apply eqtree_refl.
  - apply sbind; [auto with nb|]. intros rest _. apply sbind; [auto with nb|]. intros m _. cbn. apply eqtree_refl.
  - now apply pmbq_spec.
  - match goal with |- context [a_multiline ?a] => destruct (a_multiline a) end; [now apply pmbq_spec|].
    apply CK_lift; [auto with nb | intros b s E; eapply pbq_eqtree; exact E].
Qed.

(* (all_matched, container, should_continue, state) *)
Definition COB (o : bopts) (st : pstate) (r : bool * nat * bool * pstate) : Prop :=
  let '(am, c, cont, st') := r in
  if cont then eqtree st st' /\ has st' c /\ (am = false -> c <> root_id)
  else W o st' /\ has st' (ps_current st') /\ has st' c /\ c <> root_id.

Lemma cobi_spec o line : forall fuel st container, W o st -> has st container ->
  safe (COB o st) (check_open_blocks_inner fuel o st line container).
Proof.
  induction fuel as [|f IH]; intros st container V H; cbn [check_open_blocks_inner]; [exact I|].
  unfold last_child_is_open, last_child. destruct (has_get _ _ H) as [cn G]. rewrite G. cbn [bind].
  destruct (last_opt (bkids cn)) as [c|] eqn:L; [destruct (bi_open (binf c)) eqn:O|]; cbn [bind];
    try (cbn; split; [apply eqtree_refl | split; [exact H | discriminate]]).
  apply last_opt_in in L.
  pose proof (kid_has _ _ _ _ G L) as Hc. pose proof (kid_not_root _ _ _ _ _ V G L) as Nr. rewrite (W_R0 _ _ V) in Nr.
  apply sbind; [auto with nb|]. intros s1 E1. pose proof (ffn_eqtree _ _ _ E1) as T1.
  pose proof (W_eqtree _ _ _ T1 V) as V1. pose proof (has_eqtree _ _ _ T1 Hc) as H1.
  apply sbind; [auto with nb|]. intros c1 G1. destruct (find_node_sub _ _ _ (get_find _ _ _ G1)) as [B1 _].
  assert (S : safe (CK o s1 (bid c1)) (check_container o s1 line c1)) by (apply check_container_spec; rewrite ?B1; assumption).
  apply sbind; [eapply safe_nb; exact S|]. intros [[matched cont] s2] E2. pose proof (safe_ok _ _ _ S E2) as K. cbn in K.
  destruct matched.
  - destruct cont; [|destruct K as [K _]; discriminate K].
    pose proof (eqtree_trans _ _ _ T1 K) as T2.
    pose proof (IH s2 (bid c) (W_eqtree _ _ _ T2 V) (has_eqtree _ _ _ T2 Hc)) as S2.
    eapply safe_weaken; [exact S2|]. intros [[[am c'] cont'] s3] _ R. cbn in R |- *.
    destruct cont'; [|exact R]. destruct R as (R1 & R2 & R3). split; [eapply eqtree_trans; eassumption | auto].
  - cbn. destruct cont.
    + pose proof (eqtree_trans _ _ _ T1 K) as T2. split; [exact T2|]. split; [eapply has_eqtree; eassumption | intros _; exact Nr].
    + destruct K as (_ & K1 & K2 & K3). rewrite B1 in K3. auto.
Qed.

Definition COBR (o : bopts) (st : pstate) (r : option (nat * bool) * pstate) : Prop :=
  match r with
  | (Some (c, am), st') => eqtree st st' /\ has st' c
  | (None, st') => W o st' /\ has st' (ps_current st')
  end.

Lemma check_open_blocks_spec o st line : W o st -> safe (COBR o st) (check_open_blocks o st line).
Proof.
  intro V. unfold check_open_blocks.
  pose proof (cobi_spec o line (S (ps_next st)) st root_id V (has_root _ _ V)) as S.
  apply sbind; [eapply safe_nb; exact S|]. intros [[[am c] cont] s1] E. pose proof (safe_ok _ _ _ S E) as K. cbn in K.
  destruct cont.
  - destruct K as (T & Hc & Nr). pose proof (W_eqtree _ _ _ T V) as V1.
    destruct am; cbn [bind].
    + cbn. auto.
    + destruct (parent_some_st _ _ _ V1 Hc (Nr eq_refl)) as [p P]. rewrite P. cbn. split; [exact T | eapply parent_has; exact P].
  - destruct K as (V1 & Hcur & Hc & Nr). destruct am; cbn [bind]; [cbn; auto|].
    (* should_continue = false: the result is None, but the parent is taken first *)
    destruct (parent_some_st _ _ _ V1 Hc Nr) as [p P]. rewrite P. cbn. auto.
Qed.
