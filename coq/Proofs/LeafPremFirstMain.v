(* Proofs/LeafPremFirstMain.v — C01, the premises of the inline phase, part 12: the block phase establishes ALL premises
   of the inline phase: the inline phase of parse_document_model is total after every block phase that answers Ok —
   every input, every option set. *)
From Coq Require Import List NArith Arith Bool Lia Strings.String.
From V Require Import Base.Bytes Base.Res Gen.StrLeafGen Model.Ast Model.Strings Spec.EscapeSpec Model.RefDef Model.Blocks Model.Inlines Model.Parse
  Proofs.BlocksProofs Proofs.BlocksPos Proofs.InlinesTotal2 Proofs.LeafPremBytes Proofs.LeafPremBlank Proofs.LeafPremFirst
  Proofs.LeafPremMain Proofs.LeafPremCells.
From V Require Proofs.InlinesTotal4Leaves.
Import ListNotations.
Local Open Scope list_scope.

Theorem parse_blocks_first_line o x r p i :
  parse_blocks o x = Ok r -> In (p, i) (bleaves [] (br_root r)) -> bi_val i <> TableCell ->
  rtrim_slice (bi_content i) = [] \/ first_line_not_blank (rtrim_slice (bi_content i)) = true.
Proof.
  intros H Hin.
  apply (bleaves_P (fun j => bi_val j <> TableCell ->
           rtrim_slice (bi_content j) = [] \/ first_line_not_blank (rtrim_slice (bi_content j)) = true) (br_root r) [] p i); [|exact Hin].
  eapply all_info_mono; [|exact (parse_blocks_nonblank _ _ _ H)].
  intros j Bj Cj Nt. unfold Bn in Bj.
  assert (L : leafph (bi_val j) = true) by (destruct (bi_val j); try discriminate Cj; try reflexivity; now elim Nt).
  destruct (Bj L) as [_ A]. destruct (ALS_first _ A) as [E|E].
  - left. now rewrite E.
  - destruct (not_blank_first_line _ E); [now right | now left].
Qed.

(* all four clauses, for every leaf *)
Theorem parse_blocks_leaf_ok o x r p i :
  parse_blocks o x = Ok r -> In (p, i) (bleaves [] (br_root r)) ->
  let c := rtrim_slice (bi_content i) in
  c = [] \/ (has_nul c = false /\ utf8_valid c = true /\ first_line_not_blank c = true /\ line_endings c < List.length (bi_lo i)).
Proof.
  intros H Hin. cbv zeta.
  destruct (parse_blocks_leaf_clauses _ _ _ _ _ H Hin) as [E|(A & B & C)]; [now left|].
  assert (F : rtrim_slice (bi_content i) = [] \/ first_line_not_blank (rtrim_slice (bi_content i)) = true).
  { destruct (bi_val i) eqn:Ev; try (eapply parse_blocks_first_line; [exact H | exact Hin | rewrite Ev; discriminate]).
    right. eapply parse_blocks_cell_first_line; eassumption. }
  destruct F as [E|F]; [now left | right; auto].
Qed.

Theorem inline_phase_total_after_blocks o u x r :
  parse_blocks (bopts_of o u) x = Ok r ->
  exists t, inline_phase o u (br_root r) (br_refmap r) (br_max_ref_size r) = Ok t.
Proof.
  intro H. apply Proofs.InlinesTotal4Leaves.inline_phase_total. intros p i Hin. exact (parse_blocks_leaf_ok _ _ _ _ _ H Hin).
Qed.

Theorem parse_document_after_blocks o u x r :
  parse_blocks (bopts_of o u) x = Ok r ->
  exists t1, inline_phase o u (br_root r) (br_refmap r) (br_max_ref_size r) = Ok t1 /\
             parse_document_model o u x = post_phase o (footnote_phase o u t1).
Proof.
  intro H. destruct (inline_phase_total_after_blocks _ _ _ _ H) as [t E]. exists t. split; [exact E|].
  unfold parse_document_model, after_blocks. rewrite H. cbn [bind]. rewrite E. reflexivity.
Qed.
