(* Proofs/BlocksTotal5Adv.v — totality of the block phase, fifth round, step 1, part 3: what a handler of
   open_new_blocks does to the offset WHEN IT ANSWERS Ok (no Panic site is excluded here: sg with every site allowed).

     handled      the offset moved forward by at least one byte (alert, multiline block quote, block quote, ATX heading,
                  code fence, thematic break, footnote definition, description item, list marker: lower bounds of the
                  scanners in Proofs/BlocksTotal4Scan.v), or it did not move back and the container handed on STOPS the
                  loop of open_new_blocks: it accepts lines (setext heading, indented code) or is a code / html block
                  (the html opener, which consumes nothing)
     not handled  offset, first_nonspace and blank are the ones the handler was given

   Premise: the freshly scanned cursor F1 of the cursor walk (Proofs/BlocksTotal4Walk.v) on a line that ends with LF,
   and for the three handlers that STOP the tree invariant W with the container present. *)
From Coq Require Import List NArith Arith Bool Lia Strings.String.
From V Require Import Base.Bytes Base.Res Gen.Nodes Gen.BlocksConst Model.Ast Model.Strings Model.Entity Model.LinkUrl Model.ListMarker
  Model.Feed Model.FrontMatter Model.RefDef Model.Scan Model.Blocks Spec.EscapeSpec
  Proofs.StrLeafProofs Proofs.StrLeafEntity Proofs.BlocksProofs Proofs.BlocksCursor Proofs.BlocksTight Proofs.BlocksTotal
  Spec.Shape Spec.Valid Proofs.ParserShapeBlocks Proofs.ParserShapeTree Proofs.ParserShapeTabPrim Proofs.ParserShapeTables
  Proofs.BlocksTotal2Safe Proofs.BlocksTotal2Root Proofs.BlocksTotal2Tree Proofs.BlocksTotal2Walk Proofs.BlocksTotal3Cur Proofs.BlocksTotal4Safe
  Proofs.BlocksTotal4Cur Proofs.BlocksTotal4Frame Proofs.BlocksTotal4Walk Proofs.BlocksTotal4Atx.
From V Require Proofs.BlocksTotal4Scan Proofs.BlocksTotal4Marker Proofs.BlocksTotal4Open.
Import ListNotations.
Local Open Scope string_scope.
Local Open Scope list_scope.

(* ================================================================== answer-Ok facts of the helpers *)
Lemma sub_ok site a b n : sub site a b = Ok n -> n = a - b /\ b <= a.
Proof. unfold sub. destruct (Nat.ltb a b) eqn:E; [discriminate|]. intro H. inversion H. apply Nat.ltb_ge in E. auto. Qed.
Lemma idx_ok site l i b : idx site l i = Ok b -> nth_error l i = Some b.
Proof. unfold idx. destruct (nth_error l i); [|discriminate]. intro H. now inversion H. Qed.
Lemma slice_from_ok site (l : bytes) i s : Blocks.slice_from site l i = Ok s -> s = skipn i l /\ i <= List.length l.
Proof. unfold Blocks.slice_from. destruct (Nat.ltb _ i) eqn:E; [discriminate|]. intro H. inversion H. apply Nat.ltb_ge in E. auto. Qed.

Lemma advance_loop_mono line cols : forall fuel off col pct count off' col' pct',
  advance_loop fuel line off col pct count cols = Ok (off', col', pct') -> off <= off'.
Proof.
  induction fuel as [|f IH]; intros off col pct count off' col' pct' H; destruct count as [|n]; cbn [advance_loop] in H;
    try (inversion H; subst; lia); try discriminate H.
  destruct (idx _ line off) as [b| |]; cbn [bind] in H; try discriminate H.
  destruct (beqb b x09); [destruct cols|]; apply IH in H; try lia.
  destruct (Nat.ltb (S n) _); lia.
Qed.

Lemma advance_loop_bytes line : forall fuel off col pct count off' col' pct',
  advance_loop fuel line off col pct count false = Ok (off', col', pct') -> off' = off + count.
Proof.
  induction fuel as [|f IH]; intros off col pct count off' col' pct' H; destruct count as [|n]; cbn [advance_loop] in H;
    try (inversion H; subst; lia); try discriminate H.
  destruct (idx _ line off) as [b| |]; cbn [bind] in H; try discriminate H.
  destruct (beqb b x09); apply IH in H; lia.
Qed.

(* what every cursor operation keeps *)
Definition KF (s s' : pstate) : Prop :=
  c_fns (ps_cur s') = c_fns (ps_cur s) /\ c_blank (ps_cur s') = c_blank (ps_cur s) /\ ps_curline_len s' = ps_curline_len s
  /\ c_indent (ps_cur s') = c_indent (ps_cur s).

Lemma adv_ok st line k cols s1 : adv st line k cols = Ok s1 ->
  c_offset (ps_cur st) <= c_offset (ps_cur s1) /\ KF st s1 /\ (cols = false -> c_offset (ps_cur s1) = c_offset (ps_cur st) + k).
Proof.
  unfold adv, advance_offset. intro H.
  destruct (advance_loop k line _ _ _ k cols) as [[[a b] d]| |] eqn:E; cbn [bind] in H; try discriminate H.
  inversion H; subst. cbn [ps_cur st_cur cur_set_oc c_offset c_fns c_blank c_indent ps_curline_len]. unfold KF.
  cbn [ps_cur st_cur cur_set_oc c_offset c_fns c_blank c_indent ps_curline_len].
  split; [eapply advance_loop_mono; exact E|]. split; [repeat split|]. intros ->. eapply advance_loop_bytes; exact E.
Qed.

Lemma KC_KF st s' : KC (ps_cur st) (ps_curline_len st) s' -> c_offset (ps_cur s') = c_offset (ps_cur st) /\ KF st s'.
Proof. intros [A B]. unfold KF. rewrite A, B. repeat split. Qed.

Lemma add_child_gen_cur o st p v col post kids a : add_child_gen o st p v col post kids = Ok a ->
  c_offset (ps_cur (snd a)) = c_offset (ps_cur st) /\ KF st (snd a).
Proof. destruct a as [id s]. intro H. apply KC_KF. eapply add_child_gen_KC; [exact H | apply KC_self]. Qed.
Lemma add_child_cur o st p v col a : add_child o st p v col = Ok a ->
  c_offset (ps_cur (snd a)) = c_offset (ps_cur st) /\ KF st (snd a).
Proof. apply add_child_gen_cur. Qed.
Lemma modify_info_cur st x f s : modify_info st x f = Ok s -> c_offset (ps_cur s) = c_offset (ps_cur st) /\ KF st s.
Proof. intro H. apply KC_KF. eapply modify_info_KC; [exact H | apply KC_self]. Qed.
Lemma pdld_cur o st c m r : parse_desc_list_details o st c m = Ok r ->
  c_offset (ps_cur (snd r)) = c_offset (ps_cur st) /\ KF st (snd r).
Proof. destruct r as [[b c'] s]. intro H. apply KC_KF. eapply parse_desc_list_details_KC; [exact H | apply KC_self]. Qed.
Lemma try_inserting_cur st c po s : try_inserting_table_header_paragraph st c po = Ok s ->
  c_offset (ps_cur s) = c_offset (ps_cur st) /\ KF st s.
Proof. intro H. apply KC_KF. eapply try_inserting_KC; [exact H | apply KC_self]. Qed.

Lemma skip_one_space_ok st line site s1 : skip_one_space st line site = Ok s1 ->
  c_offset (ps_cur st) <= c_offset (ps_cur s1) /\ KF st s1.
Proof.
  unfold skip_one_space. intro H. mon H.
  - apply adv_ok in H. tauto.
  - split; [lia | repeat split].
Qed.

Lemma KF_trans a b c : KF a b -> KF b c -> KF a c.
Proof. unfold KF. intros (A1 & A2 & A3 & A4) (B1 & B2 & B3 & B4). repeat split; congruence. Qed.
Lemma KF_refl a : KF a a. Proof. repeat split. Qed.

Lemma list_spaces_loop_ok line sc : forall fuel st s2, list_spaces_loop fuel st line sc = Ok s2 ->
  c_offset (ps_cur st) <= c_offset (ps_cur s2) /\ KF st s2.
Proof.
  induction fuel as [|f IH]; intros st s2 H; cbn [list_spaces_loop] in H; [discriminate H|]. mon H; try (split; [lia | apply KF_refl]).
  match goal with X : adv _ _ _ _ = Ok _ |- _ => apply adv_ok in X; destruct X as (A & B & _) end.
  apply IH in H. destruct H as [C D]. split; [lia | eapply KF_trans; eassumption].
Qed.

(* the title loop of handle_alert stops ON a ']' *)
Lemma alert_title_loop_at line : forall fuel pos fl p fl', alert_title_loop fuel line pos fl = Ok (p, fl') ->
  nth_error line p = Some x5d /\ pos <= p.
Proof.
  induction fuel as [|f IH]; intros pos fl p fl' H; cbn [alert_title_loop] in H; [discriminate H|].
  destruct (idx _ line pos) as [b| |] eqn:E; cbn [bind] in H; try discriminate H. apply idx_ok in E.
  destruct (beqb b x5d) eqn:B.
  - inversion H; subst. apply beqb_eq in B. subst b. split; [exact E | lia].
  - apply IH in H. destruct H as [A C]. split; [exact A | lia].
Qed.

(* ================================================================== the handlers *)
Definition STOP (c : nat) (s : pstate) : Prop :=
  forall n, get s c = Ok n -> accepts_lines (bkind n) = true \/ is_code_or_html n = true.

Definition NH (s0 s : pstate) : Prop :=
  c_offset (ps_cur s) = c_offset (ps_cur s0) /\ c_fns (ps_cur s) = c_fns (ps_cur s0) /\ c_blank (ps_cur s) = c_blank (ps_cur s0).

Definition ADV (s0 : pstate) (r : bool * nat * pstate) : Prop :=
  let '(h, c, s) := r in
  if h then c_offset (ps_cur s0) < c_offset (ps_cur s) \/ (c_offset (ps_cur s0) <= c_offset (ps_cur s) /\ STOP c s)
  else NH s0 s.

Lemma NH_refl s : NH s s. Proof. repeat split. Qed.
Lemma ADV_trans s0 s r : NH s0 s -> ADV s r -> ADV s0 r.
Proof.
  intros (A & B & C) H. destruct r as [[h c] s']. unfold ADV in *. destruct h.
  - rewrite <- A. exact H.
  - destruct H as (A' & B' & C'). repeat split; congruence.
Qed.

Ltac nh := cbn [ADV]; first [apply NH_refl | repeat split; reflexivity].

Ltac fwd := repeat match goal with
  | H : sub _ _ _ = Ok _ |- _ => apply sub_ok in H; destruct H as [-> ?]
  | H : idx _ _ _ = Ok _ |- _ => apply idx_ok in H
  | H : rest_at_fns _ _ _ = Ok _ |- _ => unfold rest_at_fns in H
  | H : Blocks.slice_from _ _ _ = Ok _ |- _ => apply slice_from_ok in H; destruct H as [-> ?]
  | H : adv _ _ _ false = Ok _ |- _ => apply adv_ok in H; destruct H as (? & (? & ? & ? & ?) & H); specialize (H eq_refl)
  | H : adv _ _ _ true = Ok _ |- _ => apply adv_ok in H; destruct H as (? & (? & ? & ? & ?) & _)
  | H : skip_one_space _ _ _ = Ok _ |- _ => apply skip_one_space_ok in H; destruct H as (? & (? & ? & ? & ?))
  | H : list_spaces_loop _ _ _ _ = Ok _ |- _ => apply list_spaces_loop_ok in H; destruct H as (? & (? & ? & ? & ?))
  | H : add_child _ _ _ _ _ = Ok _ |- _ => apply add_child_cur in H; destruct H as (? & (? & ? & ? & ?))
  | H : add_child_gen _ _ _ _ _ _ _ = Ok _ |- _ => apply add_child_gen_cur in H; destruct H as (? & (? & ? & ? & ?))
  | H : modify_info _ _ _ = Ok _ |- _ => apply modify_info_cur in H; destruct H as (? & (? & ? & ? & ?))
  | H : parse_desc_list_details _ _ _ _ = Ok _ |- _ => apply pdld_cur in H; destruct H as (? & (? & ? & ? & ?))
  end.

Section Adv.
Variables (o : bopts) (line : bytes).
Hypothesis LN : lf_terminated line.

Ltac f1start F :=
  destruct (F1_in _ _ LN F) as (Le & Lt & b0 & Hb0 & Sp0); pose proof F as [(Fr & B & Ind & Bl & Len) Lo].

Lemma handle_alert_adv st c ind r : F1 line st -> handle_alert o st c line ind = Ok r -> ADV st r.
Proof.
  intros F H. f1start F. unfold handle_alert, not_handled, fns, offset in H.
  mon H; try nh.
  match goal with A : alert_title_loop _ _ _ _ = Ok _ |- _ => apply alert_title_loop_at in A; destruct A as [A1 A2] end.
  fwd. cbn [ADV fst snd]. left.
  assert (n <> c_fns (ps_cur st)).
  { intros ->. match goal with X : nth_error line (c_fns (ps_cur st)) = Some ?bb, Y : negb (beqb ?bb x3e) = false |- _ =>
      apply negb_false_iff, beqb_eq in Y; subst bb; congruence end. }
  assert (n < List.length line) by (apply nth_error_Some; congruence).
  lia.
Qed.

Lemma before_lf line0 k m (scan : bytes -> option nat) :
  (forall s m, scan s = Some m -> m <= List.length s) -> k <= List.length line0 -> scan (skipn k line0) = Some m -> k + m <= List.length line0.
Proof. intros H Hk Sc. apply H in Sc. rewrite skipn_length in Sc. lia. Qed.

Lemma handle_mbq_adv st c ind r : F1 line st -> handle_multiline_blockquote o st c line ind = Ok r -> ADV st r.
Proof.
  intros F H. f1start F. unfold handle_multiline_blockquote, not_handled, fns, offset in H.
  mon H; try nh. fwd.
  match goal with Sc : scan_open_multiline_block_quote_fence _ = Some _ |- _ => apply BlocksTotal4Scan.scan_open_mbq_fence_ge in Sc end.
  cbn [ADV fst snd]. left. lia.
Qed.

Lemma handle_blockquote_adv st c ind r : F1 line st -> handle_blockquote o st c line ind = Ok r -> ADV st r.
Proof.
  intros F H. f1start F. unfold handle_blockquote, not_handled, fns, offset in H.
  mon H; try nh. fwd. cbn [ADV fst snd]. left. lia.
Qed.

Lemma handle_atx_adv st c ind r : F1 line st -> handle_atx_heading o st c line ind = Ok r -> ADV st r.
Proof.
  intros F H. f1start F. unfold handle_atx_heading, not_handled, fns, offset in H.
  mon H; try nh. fwd.
  match goal with Sc : scan_atx_heading_start _ = Some _ |- _ => apply BlocksTotal4Scan.scan_atx_heading_start_ge in Sc end.
  cbn [ADV fst snd]. left. lia.
Qed.

Lemma handle_code_fence_adv st c ind r : F1 line st -> handle_code_fence o st c line ind = Ok r -> ADV st r.
Proof.
  intros F H. f1start F. unfold handle_code_fence, not_handled, fns, offset in H.
  mon H; try nh. fwd.
  match goal with Sc : scan_open_code_fence _ = Some _ |- _ => apply BlocksTotal4Scan.scan_open_code_fence_ge in Sc end.
  cbn [ADV fst snd]. left. lia.
Qed.

Lemma handle_thematic_break_adv st c ind am r : F1 line st -> handle_thematic_break o st c line ind am = Ok r -> ADV st r.
Proof.
  intros F H. f1start F. unfold handle_thematic_break, not_handled, fns, offset in H.
  repeat match type of H with
         | (let (_, _) := _ in _) = _ => fail 1
         | _ => mstep H
         end; try nh.
  destruct (scan_thematic_break_inner line (c_fns (ps_cur st))) as [off found] eqn:Sc.
  mstep H; [mon H; cbn [ADV]; repeat split; reflexivity|]. match goal with X : negb found = false |- _ => apply negb_false_iff in X; subst found end.
  apply BlocksTotal4Scan.scan_thematic_break_inner_true_len in Sc.
  mon H.
  fwd. cbn [ADV fst snd]. left. lia.
Qed.

Lemma handle_footnote_adv st c ind d r : F1 line st -> handle_footnote o st c line ind d = Ok r -> ADV st r.
Proof.
  intros F H. f1start F. unfold handle_footnote, not_handled, fns, offset in H.
  mon H; try nh. fwd.
  match goal with Sc : scan_footnote_definition _ = Some _ |- _ => apply BlocksTotal4Scan.scan_footnote_definition_ge in Sc end.
  cbn [ADV fst snd]. left. lia.
Qed.

Lemma handle_description_list_adv st c ind r : F1 line st -> handle_description_list o st c line ind = Ok r -> ADV st r.
Proof.
  intros F H. f1start F. unfold handle_description_list, not_handled, fns, offset in H.
  mon H; try nh.
  - fwd. cbn [ADV fst snd] in *. repeat split; congruence.
  - fwd.
    match goal with Sc : scan_description_item_start _ = Some _ |- _ => apply BlocksTotal4Scan.scan_description_item_start_ge in Sc end.
    cbn [ADV fst snd] in *. left. lia.
Qed.

Lemma handle_list_adv st c ind d r : F1 line st -> handle_list o st c line ind d = Ok r -> ADV st r.
Proof.
  intros F H. f1start F. unfold handle_list, not_handled, fns, offset in H. cbv zeta in H.
  mon H; try nh.
  match goal with M : parse_list_marker _ _ _ = Ok _ |- _ => apply BlocksTotal4Marker.parse_list_marker_inside in M; destruct M as [M1 M2] end.
  repeat match goal with X : (if ?bb then _ else _) = Ok _ |- _ => destruct bb; monall end;
    fwd; cbn [ps_cur st_cur cur_set_oc c_offset ADV fst snd] in *; left; lia.
Qed.

(* ---- the three handlers after which the loop stops *)
Lemma handle_html_block_adv st c ind r : W o st -> has st c -> F1 line st -> handle_html_block o st c line ind = Ok r -> ADV st r.
Proof.
  intros V Hc F H. f1start F. unfold handle_html_block, not_handled, fns, offset in H.
  mon H; try nh.
  match goal with A : add_child o st c _ _ = Ok ?a |- _ => destruct a as [id s1]; rename A into EA end.
  cbn [ADV fst snd]. right.
  assert (V1 : W o s1) by (Wgo V).
  unfold add_child in EA.
  destruct (add_child_gen_get _ _ _ _ _ _ _ _ EA V V1 Hc (fun i => eq_refl)) as [l G].
  apply add_child_gen_cur in EA. cbn [snd] in EA. split; [lia|].
  intros n' Gn. rewrite G in Gn. inversion Gn; subst n'. right. reflexivity.
Qed.

Lemma handle_code_block_adv st c ind ml r : W o st -> has st c -> F1 line st -> handle_code_block o st c line ind ml = Ok r -> ADV st r.
Proof.
  intros V Hc F H. f1start F. unfold handle_code_block, not_handled in H.
  mon H; try nh.
  match goal with A0 : adv st line _ true = Ok ?s0, A : add_child o ?s0 c _ _ = Ok ?a |- _ =>
    destruct a as [id s1]; rename A into EA; rename A0 into EV; rename s0 into sv end.
  cbn [ADV fst snd]. right.
  pose proof (W_eqtree _ _ _ (adv_eqtree _ _ _ _ _ EV) V) as V0.
  pose proof (has_eqtree _ _ _ (adv_eqtree _ _ _ _ _ EV) Hc) as Hc0.
  assert (V1 : W o s1) by (Wgo V0).
  unfold add_child in EA.
  destruct (add_child_gen_get _ _ _ _ _ _ _ _ EA V0 V1 Hc0 (fun i => eq_refl)) as [l G].
  fwd. cbn [snd] in *. split; [lia|].
  intros n' Gn. rewrite G in Gn. inversion Gn; subst n'. left. reflexivity.
Qed.

Lemma get_eqtree a b x : eqtree a b -> get b x = get a x.
Proof. intros (A & _). unfold get. now rewrite A. Qed.

Lemma setext_stop st c a m' f s1 : get st c = Ok a -> is_paragraph a = true ->
  modify_info (st_refmap st m') c f = Ok s1 -> (forall i, bi_id (f i) = bi_id i) ->
  (forall i, bi_val i = Paragraph -> accepts_lines (kind_of (bi_val (f i))) = true) -> STOP c s1.
Proof.
  intros G P M Hid Hv n Gn. left. destruct (modify_info_get _ _ f _ Hid M _ Gn) as (l0 & G0 & ->).
  change (get st c = Ok l0) in G0. rewrite G in G0. inversion G0; subst l0.
  destruct a as [i ch]. unfold bkind, bval. cbn [on_info binf]. apply Hv.
  unfold is_paragraph, bval in P. cbn [binf] in P. destruct (bi_val i); try discriminate P. reflexivity.
Qed.

Lemma handle_setext_adv st c ind r : F1 line st -> handle_setext_heading o st c line ind = Ok r -> ADV st r.
Proof.
  intros F H. f1start F. unfold handle_setext_heading, not_handled in H.
  mon H; try nh;
  match goal with G : get st c = Ok ?a, P : negb (is_paragraph ?a) = false, M : modify_info _ c ?ff = Ok ?s1 |- _ =>
    apply negb_false_iff in P;
    assert (St : STOP c s1) by (eapply setext_stop; [exact G | exact P | exact M | intro; reflexivity | intros i Hi; cbn [set_val set_content bi_val]; rewrite ?Hi; reflexivity])
  end.
  - match goal with A : adv ?s1 line _ false = Ok ?s3 |- _ => assert (T : eqtree s1 s3) by (eapply adv_eqtree; exact A) end.
    fwd. cbn [ADV fst snd ps_cur st_refmap] in *. right. split; [lia|].
    intros n' Gn. rewrite (get_eqtree _ _ _ T) in Gn. now apply St.
  - fwd. cbn [ADV fst snd ps_cur st_refmap] in *. right. split; [lia | exact St].
Qed.

(* ---- table.rs *)
Definition TADV (s0 : pstate) (c : nat) (r : table_result * pstate) : Prop :=
  match fst r with
  | TNone => True
  | TSame _ => snd r = s0 /\ exists cn, get s0 c = Ok cn /\ is_paragraph cn = true
  | TNew _ => c_offset (ps_cur s0) < c_offset (ps_cur (snd r))
  end.

Lemma try_opening_header_adv st c cn r : F1 line st -> get st c = Ok cn -> is_paragraph cn = true ->
  try_opening_header o st c line = Ok r -> TADV st c r.
Proof.
  intros F G P H. f1start F. unfold try_opening_header, fns, offset in H.
  mon H; try (unfold TADV; cbn [fst snd]; split; [reflexivity | inversion G; subst; eauto]).
  unfold TADV. cbn [fst snd ps_cur st_root].
  match goal with Sc : scan_table_start _ = Some _ |- _ =>
    pose proof (BlocksTotal4Scan.scan_table_start_ge _ _ Sc); apply scan_table_start_le in Sc end.
  fwd. rewrite skipn_length in *.
  match goal with X : (if ?bb then _ else _) = Ok ?s3 |- _ =>
    assert (KK : c_offset (ps_cur s3) = c_offset (ps_cur st))
      by (destruct bb; [apply try_inserting_cur in X; tauto | inversion X; reflexivity]) end.
  cbn [ps_cur st_next] in *. lia.
Qed.

Lemma try_opening_row_adv st c t r : F1 line st ->
  c_blank (ps_cur st) = match nth_error line (c_fns (ps_cur st)) with Some b => is_line_end_char b | None => false end ->
  try_opening_row o st c t line = Ok r -> match fst r with TNone => True | TSame _ => False | TNew _ => c_offset (ps_cur st) < c_offset (ps_cur (snd r)) end.
Proof.
  intros F Bk H. f1start F. unfold try_opening_row, fns, offset, blank in H.
  mon H; cbn [fst snd]; try exact I.
  rewrite Hb0 in Bk. assert (NLE : is_line_end_char b0 = false) by congruence.
  assert (NL : S (c_fns (ps_cur st)) < List.length line).
  { eapply not_last; [exact LN | exact Hb0 | intros ->; discriminate NLE]. }
  match goal with M : modify _ _ _ = Ok _ |- _ => pose proof (modify_KC _ _ _ _ _ _ M (KC_st_next _ _ _ _ (KC_self st))) as [K1 K2] end.
  fwd. rewrite K1 in *. lia.
Qed.
End Adv.
