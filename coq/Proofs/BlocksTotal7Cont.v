(* Proofs/BlocksTotal7Cont.v — totality of the block phase, seventh round: STORED CONTENT is valid UTF-8, along the Ok
   path of every function of the block phase, for EVERY input byte string (no premise on the input, none on the
   cursor).  Same scheme as Proofs/BlocksTotal6Val.v.  For every node of the tree (Un):

     the content of a Paragraph is valid UTF-8               (add_line appends bytes checked by str::from_utf8 and ASCII
                                                              spaces; resolve_reference_link_definitions keeps a suffix
                                                              cut at a checked char boundary; the table header paragraph
                                                              is checked by String::from_utf8)
     the content and the literal of a fenced CodeBlock are valid UTF-8
                                                             (add_line; finalize cuts the literal after a line end) *)
From Coq Require Import List NArith Arith Bool Lia Strings.String.
From V Require Import Base.Bytes Base.Res Gen.StrLeafGen Gen.FeedConst Gen.Nodes Gen.BlocksConst Model.Ast Model.Strings
  Model.AutolinkLeaf Model.Scan Spec.EscapeSpec Model.Feed Model.FrontMatter Model.RefDef Model.Blocks Spec.LineEndings Proofs.FeedProofs Proofs.StrLeafProofs
  Proofs.BlocksProofs Proofs.BlocksPos Proofs.BlocksTotal Proofs.BlocksTotal6Val.
Import ListNotations.
Local Open Scope string_scope.
Local Open Scope list_scope.

(* ================================================================== UTF-8: a checked char boundary of a valid string *)
Lemma noncont_state_all : forall b, (is_cont_byte b || forallb (fun st => match ustep st b with
    | Some _ => match st with U0 => true | _ => false end | None => true end) [U0; U1; U2; U2e0; U2ed; U3; U3f0; U3f4]) = true.
Proof. apply forall_bytes. vm_compute. reflexivity. Qed.

Lemma noncont_state st b st' : is_cont_byte b = false -> ustep st b = Some st' -> st = U0.
Proof.
  intros Hb H. pose proof (noncont_state_all b) as G. rewrite Hb in G. cbn [orb] in G. rewrite forallb_forall in G.
  assert (I : In st [U0; U1; U2; U2e0; U2ed; U3; U3f0; U3f4]) by (destruct st; simpl; tauto).
  specialize (G st I). rewrite H in G. destruct st; try discriminate G. reflexivity.
Qed.

(* &s[k..] of a valid string at a position `is_char_boundary` accepts is valid *)
Lemma boundary_suffix c k : utf8_valid c = true -> is_char_boundary c k = true -> utf8_valid (skipn k c) = true.
Proof.
  intros V B. destruct k as [|k]; [exact V|]. unfold is_char_boundary in B.
  destruct (nth_error c (S k)) as [b|] eqn:N.
  - pose proof (nth_error_split_at _ _ _ N) as E. assert (V' := V). rewrite E in V'.
    unfold utf8_valid in V'. apply utf8_run_ustate in V'. rewrite ustate_app in V'.
    destruct (ustate U0 (firstn (S k) c)) as [st|] eqn:S0; [|discriminate V']. cbn [ustate] in V'.
    destruct (ustep st b) as [st1|] eqn:Eb; [|discriminate V'].
    assert (st = U0) by (eapply noncont_state; [|exact Eb]; now destruct (is_cont_byte b)). subst st.
    apply (utf8_suffix (firstn (S k) c)); [now rewrite firstn_skipn | exact S0].
  - apply nth_error_None in N. rewrite skipn_all2 by lia. reflexivity.
Qed.

Lemma utf8_repeat_space n : utf8_valid (repeat_bytes n x20) = true.
Proof. induction n as [|n IH]; [reflexivity|]. cbn [repeat_bytes]. change (x20 :: repeat_bytes n x20) with ([x20] ++ repeat_bytes n x20). now apply utf8_app. Qed.

Ltac dis1 := let X := fresh "X" in intro X; discriminate X.
Ltac dis2 := let X := fresh "X" in let c := fresh "cb" in intros c X; discriminate X.

(* ================================================================== the per-node invariant *)
Definition cb_ok (v : node_value) : bool :=
  match v with CodeBlock cb => utf8_valid (cb_literal cb) | _ => true end.

Definition Un (i : binfo) : Prop :=
  (bi_val i = Paragraph -> utf8_valid (bi_content i) = true) /\
  (forall cb, bi_val i = CodeBlock cb -> cb_fenced cb = true ->
     utf8_valid (bi_content i) = true /\ utf8_valid (cb_literal cb) = true).


Inductive UI (st : pstate) : Prop := UI_intro : all_info Un (ps_root st) -> UI st.
Lemma UI_all st : UI st -> all_info Un (ps_root st). Proof. now intros [H]. Qed.

Lemma UI_st_next st n : UI st -> UI (st_next st n). Proof. intros [H]. constructor. exact H. Qed.
Lemma UI_st_current st n : UI st -> UI (st_current st n). Proof. intros [H]. constructor. exact H. Qed.
Lemma UI_st_refmap st m : UI st -> UI (st_refmap st m). Proof. intros [H]. constructor. exact H. Qed.
Lemma UI_st_cur st c : UI st -> UI (st_cur st c). Proof. intros [H]. constructor. exact H. Qed.
Lemma UI_st_curline st a b : UI st -> UI (st_curline st a b). Proof. intros [H]. constructor. exact H. Qed.
Lemma UI_st_last_line_length st n : UI st -> UI (st_last_line_length st n). Proof. intros [H]. constructor. exact H. Qed.
Lemma UI_st_line_number st n : UI st -> UI (st_line_number st n). Proof. intros [H]. constructor. exact H. Qed.

Lemma get_allu st id n : UI st -> get st id = Ok n -> all_info Un n.
Proof. intros [A] G. apply get_find in G. exact (find_node_all _ _ _ _ A G). Qed.
Lemma get_un st id n : UI st -> get st id = Ok n -> Un (binf n).
Proof. intros P G. apply all_info_binf. eapply get_allu; eassumption. Qed.

Lemma modify_ui st id f st' :
  UI st -> modify st id f = Ok st' ->
  (forall n, find_node id (ps_root st) = Some n -> all_info Un n -> all_info Un (f n)) -> UI st'.
Proof.
  unfold modify. intros [A] M Hf. destruct (upd id f (ps_root st)) as [r|] eqn:U; [|discriminate].
  inversion M; subst. constructor. cbn. exact (upd_all _ _ _ _ _ A U Hf).
Qed.

Lemma modify_info_ui st id f st' :
  modify_info st id f = Ok st' -> (forall i, Un i -> Un (f i)) -> UI st -> UI st'.
Proof.
  intros M Hf P. eapply modify_ui; [exact P | exact M |].
  intros n _ An. destruct n as [i ch]. cbn [on_info]. apply all_info_node in An. apply all_info_node.
  split; [apply Hf; apply An | apply An].
Qed.

Lemma modify_info_const_ui st id n i' st' :
  modify_info st id (fun _ => i') = Ok st' -> get st id = Ok n -> (Un (binf n) -> Un i') -> UI st -> UI st'.
Proof.
  intros M G Hf P. eapply modify_ui; [exact P | exact M |].
  intros m Fm Am. apply get_find in G. rewrite G in Fm. inversion Fm; subst m.
  destruct n as [i ch]. cbn [on_info binf] in *. apply all_info_node in Am. apply all_info_node.
  split; [apply Hf; apply Am | apply Am].
Qed.

(* modify_info with a function of the info found under the identifier *)
Lemma modify_info_get_ui st id n f st' :
  modify_info st id f = Ok st' -> get st id = Ok n -> (Un (binf n) -> Un (f (binf n))) -> UI st -> UI st'.
Proof.
  intros M G Hf P. eapply modify_ui; [exact P | exact M |].
  intros m Fm Am. apply get_find in G. rewrite G in Fm. inversion Fm; subst m.
  destruct n as [i ch]. cbn [on_info binf] in *. apply all_info_node in Am. apply all_info_node.
  split; [apply Hf; apply Am | apply Am].
Qed.

Lemma edit_root_ui st id g r :
  edit_kids id g (ps_root st) = Some r -> UI st ->
  (forall pk pre c post, Forall (all_info Un) (pre ++ c :: post) -> Forall (all_info Un) (g pk pre c post)) ->
  UI (st_root st r).
Proof. intros E [A] Hg. constructor. cbn. eapply edit_kids_all; eassumption. Qed.

Lemma bdetach_ui st id st' : bdetach st id = Ok st' -> UI st -> UI st'.
Proof.
  unfold bdetach. intros D P.
  destruct (edit_kids id (fun _ pre _ post => pre ++ post) (ps_root st)) as [r|] eqn:E.
  - inversion D; subst. eapply edit_root_ui; [exact E | exact P |].
    intros pk pre c post K. apply Forall_app in K. destruct K as [K1 K2]. inversion K2; subst.
    apply Forall_app. split; assumption.
  - now inversion D; subst.
Qed.

Lemma append_child_ui st pid c st' : append_child st pid c = Ok st' -> all_info Un c -> UI st -> UI st'.
Proof.
  intros A Ac P. eapply modify_ui; [exact P | exact A |].
  intros n _ An. destruct n as [i ch]. apply all_info_node in An. apply all_info_node. split; [apply An|].
  apply Forall_app. split; [apply An|]. constructor; [exact Ac | constructor].
Qed.

(* setters that touch neither the value, the content nor line_offsets *)
Ltac un_side :=
  let i := fresh "i" in let H := fresh "H" in
  intros i H; destruct i; unfold Un in *; cbn in *; try exact H.

Create HintDb ui.
#[export] Hint Resolve UI_st_next UI_st_current UI_st_refmap UI_st_cur UI_st_curline UI_st_last_line_length UI_st_line_number
  bdetach_ui modify_info_ui : ui.
#[export] Hint Extern 1 (forall i : binfo, Un i -> Un _) => un_side : ui.

Ltac uigo H := mon H; monall; repeat match goal with p : (_ * _)%type |- _ => destruct p end; cbn [fst snd] in *; eauto 20 with ui.

Lemma adv_ui st line n b st' : adv st line n b = Ok st' -> UI st -> UI st'.
Proof. unfold adv. intros H P. mon H. now apply UI_st_cur. Qed.
Lemma ffn_ui st line st' : ffn st line = Ok st' -> UI st -> UI st'.
Proof. unfold ffn. intros H P. mon H. now apply UI_st_cur. Qed.
#[export] Hint Resolve adv_ui ffn_ui : ui.

(* ================================================================== finalize *)
Lemma retighten_ui st p st' : retighten st p = Ok st' -> UI st -> UI st'.
Proof.
  unfold retighten. intros H P. destruct p as [item|]; [|inversion H; subst; exact P].
  destruct (parent_of item (ps_root st)) as [lid|]; [|inversion H; subst; exact P].
  destruct (get st lid) as [l| |] eqn:G; cbn [bind] in H; try discriminate H.
  destruct (bi_open (binf l)); [inversion H; subst; exact P|].
  destruct (bval l) eqn:Bv; try (inversion H; subst; exact P).
  eapply modify_info_get_ui; [exact H | exact G | | exact P].
  intros _. unfold Un. cbn. split; [dis1 | dis2].
Qed.
#[export] Hint Resolve retighten_ui : ui.

Lemma resolve_refdefs_valid fold m c c' hc m' : resolve_refdefs fold m c = Ok (c', hc, m') -> utf8_valid c = true -> utf8_valid c' = true.
Proof.
  unfold resolve_refdefs. intros H V. mstep H. destruct a as [seeked m1]. mstep H. mstep H.
  destruct (Nat.eqb seeked 0); [inversion E0; subst; exact V|].
  destruct (is_char_boundary c seeked) eqn:B; [inversion E0; subst; now apply boundary_suffix | discriminate E0].
Qed.

Lemma idx_ok site l i b : idx site l i = Ok b -> nth_error l i = Some b.
Proof. unfold idx. destruct (nth_error l i); intro H; now inversion H. Qed.

(* the literal of a fenced code block: the content after the line end (CR, LF or CRLF) of its first line *)
Lemma fenced_literal_valid content pos b1 b2 :
  utf8_valid content = true -> nth_error content pos = Some b1 -> is_line_end_char b1 = true ->
  nth_error content (if beqb b1 x0d then S pos else pos) = Some b2 ->
  utf8_valid (skipn (if beqb b2 x0a then S (if beqb b1 x0d then S pos else pos) else (if beqb b1 x0d then S pos else pos)) content) = true.
Proof.
  intros V N1 L1 N2. apply skipn_utf8; [exact V|]. pose proof (line_end_ascii _ L1) as A1. unfold at_boundary.
  destruct (beqb b1 x0d); destruct (beqb b2 x0a) eqn:B2; try (apply beqb_eq in B2; subst b2).
  - right. right. right. exists (S pos), x0a. repeat split; [exact N2].
  - right. right. right. exists pos, b1. repeat split; assumption.
  - right. right. right. exists pos, x0a. repeat split; [exact N2].
  - right. right. left. exists b1. split; assumption.
Qed.

Lemma finalize_ui o st id p st' : finalize o st id = Ok (p, st') -> UI st -> UI st'.
Proof.
  intros F P. unfold finalize in F.
  mstep F. pose proof (get_un _ _ _ P E) as Qa.
  mstep F; [discriminate F|]. mstep F. clear E1.
  destruct (bi_val (binf a)) eqn:Ev;
  try solve [ mon F;
  try match goal with R : resolve_refdefs _ _ _ = Ok _ |- _ => pose proof (resolve_refdefs_valid _ _ _ _ _ _ R (proj1 Qa Ev)) as Vc end;
  repeat first [ match goal with |- UI (st_refmap _ _) => apply UI_st_refmap end
               | (eapply retighten_ui; [eassumption|])
               | (eapply bdetach_ui; [eassumption|])
               | (eapply modify_info_const_ui; [eassumption | exact E | | exact P]; intros _) ];
  destruct a as [ia cha]; destruct ia; unfold Un in *; cbn in *; subst; cbn in *;
  (split; [first [dis1 | intros _; exact Vc] | dis2]) ].
  (* CodeBlock *)
  match type of F with bind ?r _ = _ => destruct r as [[info literal]| |] eqn:L; cbn [bind] in F; try discriminate F end.
  mon F. eapply modify_info_const_ui; [eassumption | exact E | | exact P]. intros _.
  unfold Un. cbn. split; [dis1|]. intros cb0 Hc Hf. inversion Hc; subst cb0. cbn in Hf |- *.
  destruct Qa as [_ Qb]. destruct (Qb _ Ev Hf) as [V1 V2]. split; [exact V2|].
  rewrite Hf in L. cbn [negb] in L. cbv zeta in L.
  destruct (negb (Nat.ltb _ _)) eqn:Lt; [discriminate L|]. apply negb_false_iff, Nat.ltb_lt in Lt.
  destruct (first_line_end_nth _ Lt) as [b [Nb Lb]].
  mon L.
  repeat match goal with I : idx _ _ _ = Ok _ |- _ => apply idx_ok in I end.
  match goal with I1 : nth_error _ (first_line_end _) = Some ?b1, I2 : nth_error _ (if beqb ?b1 _ then _ else _) = Some ?b2 |- _ =>
    apply (fenced_literal_valid _ _ b1 b2 V1 I1); [|exact I2]; rewrite Nb in I1; inversion I1; subst; exact Lb end.
Qed.
#[export] Hint Resolve finalize_ui : ui.


Lemma unwrap_parent_fin_ui site o st id p st' : unwrap_parent site (finalize o st id) = Ok (p, st') -> UI st -> UI st'.
Proof.
  unfold unwrap_parent. intros H P.
  destruct (finalize o st id) as [[op s1]| |] eqn:E; cbn [bind fst snd] in H; try discriminate H.
  destruct op; inversion H; subst. eapply finalize_ui; eassumption.
Qed.
#[export] Hint Resolve unwrap_parent_fin_ui : ui.

(* ================================================================== add_child *)
Lemma add_child_loop_ui o k : forall fuel st parent p' st',
  add_child_loop fuel o st parent k = Ok (p', st') -> UI st -> UI st'.
Proof.
  induction fuel as [|f IH]; intros st parent p' st' H P; [discriminate|].
  cbn [add_child_loop] in H.
  destruct (get st parent) as [pn| |] eqn:G; cbn [bind] in H; try discriminate H.
  destruct (can_contain (bkind pn) k).
  - inversion H; subst. exact P.
  - match type of H with bind ?r _ = _ => destruct r as [[q s1]| |] eqn:U; cbn [bind fst snd] in H; try discriminate H end.
    eapply IH; [exact H|]. eapply unwrap_parent_fin_ui; eassumption.
Qed.

Lemma Un_new id v l c : cb_ok v = true -> Un (new_info id v l c).
Proof. intro H. unfold Un. cbn. split; [reflexivity|]. intros cb Ev _. subst v. split; [reflexivity | exact H]. Qed.


Lemma add_child_gen_ui o st parent v col post kids id st' :
  add_child_gen o st parent v col post kids = Ok (id, st') ->
  (forall i, bi_val i = v -> Un i -> Un (post i)) -> cb_ok v = true -> Forall (all_info Un) kids ->
  UI st -> UI st'.
Proof.
  unfold add_child_gen. intros H Hp Hv Hk P.
  match type of H with bind ?r _ = _ => destruct r as [[p' s1]| |] eqn:E; cbn [bind] in H; try discriminate H end.
  pose proof (add_child_loop_ui _ _ _ _ _ _ _ E P) as P1.
  mon H. eapply append_child_ui; [eassumption | | apply UI_st_next; exact P1].
  apply all_info_node. split; [|exact Hk]. apply Hp; [reflexivity|]. now apply Un_new.
Qed.

Lemma add_child_ui o st parent v col id st' : add_child o st parent v col = Ok (id, st') -> cb_ok v = true -> UI st -> UI st'.
Proof.
  unfold add_child. intros H Hv P. eapply add_child_gen_ui; [exact H | auto | exact Hv | constructor | exact P].
Qed.
#[export] Hint Resolve add_child_ui : ui.
#[export] Hint Extern 1 (cb_ok _ = true) => reflexivity : ui.

(* ================================================================== check_open_blocks *)
Lemma skip_one_space_ui st line site st' : skip_one_space st line site = Ok st' -> UI st -> UI st'.
Proof. unfold skip_one_space. intros H P. uigo H. Qed.
#[export] Hint Resolve skip_one_space_ui : ui.
Lemma parse_block_quote_prefix_ui o st line b st' : parse_block_quote_prefix o st line = Ok (b, st') -> UI st -> UI st'.
Proof. unfold parse_block_quote_prefix. intros H P. uigo H. Qed.
#[export] Hint Resolve parse_block_quote_prefix_ui : ui.
Lemma parse_footnote_prefix_ui st line b st' : parse_footnote_definition_block_prefix st line = Ok (b, st') -> UI st -> UI st'.
Proof. unfold parse_footnote_definition_block_prefix. intros H P. uigo H. Qed.
#[export] Hint Resolve parse_footnote_prefix_ui : ui.
Lemma parse_item_prefix_ui st line c mo pad b st' : parse_item_prefix st line c mo pad = Ok (b, st') -> UI st -> UI st'.
Proof. unfold parse_item_prefix. intros H P. uigo H. Qed.
#[export] Hint Resolve parse_item_prefix_ui : ui.
Lemma skip_fence_offset_ui line site : forall i st st', skip_fence_offset i st line site = Ok st' -> UI st -> UI st'.
Proof. induction i as [|j IH]; intros st st' H P; cbn [skip_fence_offset] in H; uigo H. Qed.
#[export] Hint Resolve skip_fence_offset_ui : ui.
Lemma parse_code_block_prefix_ui o st line c cb a b st' : parse_code_block_prefix o st line c cb = Ok (a, b, st') -> UI st -> UI st'.
Proof. unfold parse_code_block_prefix. intros H P. uigo H. Qed.
#[export] Hint Resolve parse_code_block_prefix_ui : ui.
Lemma parse_mbq_prefix_ui o st line c fl fo a b st' : parse_multiline_block_quote_prefix o st line c fl fo = Ok (a, b, st') -> UI st -> UI st'.
Proof. unfold parse_multiline_block_quote_prefix. intros H P. uigo H. Qed.
#[export] Hint Resolve parse_mbq_prefix_ui : ui.
Lemma check_container_ui o st line c a b st' : check_container o st line c = Ok (a, b, st') -> UI st -> UI st'.
Proof. unfold check_container. intros H P. destruct (bval c); uigo H. Qed.
#[export] Hint Resolve check_container_ui : ui.
Lemma check_open_blocks_inner_ui o line : forall fuel st container a c b st',
  check_open_blocks_inner fuel o st line container = Ok (a, c, b, st') -> UI st -> UI st'.
Proof. induction fuel as [|f IH]; intros st container a c b st' H P; cbn [check_open_blocks_inner] in H; uigo H. Qed.
#[export] Hint Resolve check_open_blocks_inner_ui : ui.
Lemma check_open_blocks_ui o st line r st' : check_open_blocks o st line = Ok (r, st') -> UI st -> UI st'.
Proof. unfold check_open_blocks. intros H P. uigo H. Qed.
#[export] Hint Resolve check_open_blocks_ui : ui.

(* ================================================================== tables *)
Definition plain_val (v : node_value) : bool := match v with CodeBlock _ | Paragraph => false | _ => true end.
Lemma Un_trivial i : plain_val (bi_val i) = true -> Un i.
Proof. unfold Un. destruct (bi_val i); try discriminate; intros _; (split; [dis1 | dis2]). Qed.

Lemma try_inserting_ui st c po st' :
  try_inserting_table_header_paragraph st c po = Ok st' ->
  (forall cn, get st c = Ok cn -> is_paragraph cn = true) -> UI st -> UI st'.
Proof.
  unfold try_inserting_table_header_paragraph. intros H _ P.
  destruct (get st c) as [cn| |] eqn:G; cbn [bind] in H; try discriminate H.
  mstep H; [discriminate H|]. cbv zeta in H. rewrite trim_ok in H. cbn [bind] in H.
  mon H; monall; try exact P.
  match goal with M : modify_info _ _ _ = Ok ?s |- _ => assert (P1 : UI s) end.
  { eapply modify_info_ui; [eassumption | | apply UI_st_next; exact P]. un_side. }
  eapply edit_root_ui; [eassumption | exact P1 |].
  intros pk pre x post K. cbv beta. destruct (can_contain pk KParagraph); [|exact K].
  apply Forall_app in K. destruct K as [K1 K2]. apply Forall_app. split; [exact K1|].
  cbn [app]. constructor; [|exact K2]. apply all_info_node. split; [|constructor].
  unfold Un. cbn. split; [|dis2]. intros _.
  match goal with U : Blocks.from_utf8 _ _ = Ok _ |- _ => unfold Blocks.from_utf8 in U; match type of U with (if ?bb then _ else _) = _ => destruct bb eqn:Vb; [|discriminate U] end; inversion U; subst end.
  exact Vb.
Qed.


Lemma header_cells_un : forall cells id ln sl sc po l, header_cells cells id ln sl sc po = Ok l -> Forall (all_info Un) l.
Proof.
  induction cells as [|c r IH]; intros id ln sl sc po l H; cbn [header_cells] in H.
  - inversion H. constructor.
  - mon H. constructor; [|eapply IH; eassumption].
    apply all_info_node. split; [|constructor]. apply Un_trivial. reflexivity.
Qed.

Lemma try_opening_header_ui o st c line r st' :
  try_opening_header o st c line = Ok (r, st') ->
  (forall cn, get st c = Ok cn -> is_paragraph cn = true) -> UI st -> UI st'.
Proof.
  unfold try_opening_header. intros H Hc P.
  destruct (get st c) as [cn0| |] eqn:G0; cbn [bind] in H; try discriminate H.
  pose proof (Hc _ eq_refl) as Hp. clear Hc.
  mon H; monall; try exact P;
  match goal with
  | I : try_inserting_table_header_paragraph _ _ _ = Ok ?s |- _ =>
    assert (P1 : UI s)
      by (eapply try_inserting_ui; [exact I | intros cn' G'; rewrite G0 in G'; inversion G'; subst; exact Hp | exact P])
  | _ => pose proof P as P1
  end;
  (eapply edit_root_ui; [eassumption | eauto 10 with ui |]);
  intros pk pre x post K; cbv beta; (destruct (is_paragraph x); [|exact K]);
  apply Forall_app in K; destruct K as [K1 K2]; inversion K2; subst;
  apply Forall_app; (split; [exact K1|]); cbn [app]; (constructor; [|assumption]);
  apply all_info_node; (split; [apply Un_trivial; reflexivity|]);
  (constructor; [|constructor]); apply all_info_node;
  (split; [apply Un_trivial; reflexivity|]);
  eapply header_cells_un; eassumption.
Qed.

Lemma row_cells_un : forall n cells id ln sc lc l lc', row_cells n cells id ln sc lc = Ok (l, lc') -> Forall (all_info Un) l.
Proof.
  induction n as [|m IH]; intros cells id ln sc lc l lc' H; cbn [row_cells] in H.
  - destruct cells; inversion H; subst; constructor.
  - destruct cells as [|c r]; [inversion H; subst; constructor|].
    mon H. repeat match goal with p : (_ * _)%type |- _ => destruct p end. cbn [fst snd] in *.
    constructor; [|eapply IH; eassumption]. apply all_info_node. split; [|constructor]. apply Un_trivial. reflexivity.
Qed.

Lemma filler_cells_un : forall n id ln lc, Forall (all_info Un) (filler_cells n id ln lc).
Proof.
  induction n as [|m IH]; intros id ln lc; cbn [filler_cells]; constructor; [|apply IH].
  apply all_info_node. split; [|constructor]. apply Un_trivial. reflexivity.
Qed.

Lemma try_opening_row_ui o st c t line r st' : try_opening_row o st c t line = Ok (r, st') -> UI st -> UI st'.
Proof.
  unfold try_opening_row. intros H P.
  mon H; monall; try exact P.
  match goal with M : modify _ _ _ = Ok ?s |- _ => assert (UI s) end.
  { eapply modify_ui; [apply UI_st_next; exact P | eassumption |].
    intros nn Fn An. destruct nn as [i ch]. apply all_info_node in An. destruct An as [Ai Ak].
    apply all_info_node. split; [apply Un_trivial; reflexivity|].
    apply Forall_app. split; [exact Ak|]. constructor; [|constructor].
    apply all_info_node. split; [apply Un_trivial; reflexivity|].
    apply Forall_app. split; [eapply row_cells_un; eassumption | apply filler_cells_un]. }
  eauto 10 with ui.
Qed.

Lemma try_opening_block_ui o st c line r st' : try_opening_block o st c line = Ok (r, st') -> UI st -> UI st'.
Proof.
  unfold try_opening_block. intros H P.
  destruct (get st c) as [cn| |] eqn:G; cbn [bind] in H; try discriminate H.
  destruct (bval cn) eqn:Bv; try (inversion H; subst; exact P).
  - eapply try_opening_header_ui; [exact H | | exact P].
    intros cn' G'. rewrite G in G'. inversion G'; subst. unfold is_paragraph. now rewrite Bv.
  - eapply try_opening_row_ui; [exact H | exact P].
Qed.

(* ================================================================== description lists *)
Lemma reopen_ui : forall fuel st id st', reopen_ast_nodes fuel st id = Ok st' -> UI st -> UI st'.
Proof. induction fuel as [|f IH]; intros st id st' H P; cbn [reopen_ast_nodes] in H; uigo H. Qed.
#[export] Hint Resolve reopen_ui : ui.

Lemma parse_desc_list_details_ui o st c m b c' st' : parse_desc_list_details o st c m = Ok (b, c', st') -> UI st -> UI st'.
Proof.
  unfold parse_desc_list_details. intros H P.
  destruct (get st c) as [cn| |] eqn:G; cbn [bind] in H; try discriminate H.
  match type of H with bind ?r _ = _ => destruct r as [[[[tight c1] lc]|]| |] eqn:R; cbn [bind] in H; try discriminate H end;
    [|inversion H; subst; exact P].
  assert (Alc : all_info Un lc).
  { pose proof (get_allu _ _ _ P G) as Ac.
    destruct (last_opt (bkids cn)) eqn:Lk.
    - inversion R; subst. eapply last_kid_all; eassumption.
    - mon R. eapply last_kid_all; [eapply get_allu; [exact P | eassumption] | eassumption]. }
  clear R.
  destruct (bval lc) eqn:Bl; try (inversion H; subst; exact P).
  - (* DescriptionItem *) uigo H.
  - (* Paragraph *)
    mon H; monall; repeat match goal with p : (_ * _)%type |- _ => destruct p end; cbn [fst snd] in *;
    match goal with A : add_child_gen _ ?s _ DescriptionTerm _ _ _ = Ok (_, ?s') |- _ =>
      assert (UI s -> UI s') by
        (intro; eapply add_child_gen_ui; [exact A | auto | reflexivity | constructor; [exact Alc | constructor] | assumption])
    end; eauto 20 with ui.
Qed.

(* ================================================================== the handlers of open_new_blocks *)
Section handlers.
Variables (o : bopts) (line : bytes).

Lemma handle_alert_ui st c ind b c' st' : handle_alert o st c line ind = Ok (b, c', st') -> UI st -> UI st'.
Proof. unfold handle_alert. intros H P. uigo H. Qed.
Lemma handle_mbq_ui st c ind b c' st' : handle_multiline_blockquote o st c line ind = Ok (b, c', st') -> UI st -> UI st'.
Proof. unfold handle_multiline_blockquote, rest_at_fns. intros H P. uigo H. Qed.
Lemma handle_blockquote_ui st c ind b c' st' : handle_blockquote o st c line ind = Ok (b, c', st') -> UI st -> UI st'.
Proof. unfold handle_blockquote. intros H P. uigo H. Qed.
Lemma handle_atx_ui st c ind b c' st' : handle_atx_heading o st c line ind = Ok (b, c', st') -> UI st -> UI st'.
Proof.
  unfold handle_atx_heading, rest_at_fns. intros H P. mon H; monall; repeat match goal with p : (_ * _)%type |- _ => destruct p end; cbn [fst snd] in *; eauto with ui.
  eapply add_child_gen_ui; [eassumption | | reflexivity | constructor | eauto with ui].
  intros i Ev Hi. apply Un_trivial. destruct i; reflexivity.
Qed.
Lemma handle_code_fence_ui st c ind b c' st' : handle_code_fence o st c line ind = Ok (b, c', st') -> UI st -> UI st'.
Proof. unfold handle_code_fence, rest_at_fns. intros H P. uigo H. Qed.
Lemma handle_html_block_ui st c ind b c' st' : handle_html_block o st c line ind = Ok (b, c', st') -> UI st -> UI st'.
Proof. unfold handle_html_block, rest_at_fns. intros H P. uigo H. Qed.

Lemma handle_footnote_ui st c ind d b c' st' : handle_footnote o st c line ind d = Ok (b, c', st') -> UI st -> UI st'.
Proof. unfold handle_footnote, rest_at_fns. intros H P. uigo H. Qed.
Lemma list_spaces_loop_ui sc : forall fuel st st', list_spaces_loop fuel st line sc = Ok st' -> UI st -> UI st'.
Proof. induction fuel as [|f IH]; intros st st' H P; cbn [list_spaces_loop] in H; uigo H. Qed.
Hint Resolve list_spaces_loop_ui : ui.
Lemma handle_list_ui st c ind d b c' st' : handle_list o st c line ind d = Ok (b, c', st') -> UI st -> UI st'.
Proof. unfold handle_list. intros H P. uigo H. Qed.
Lemma handle_code_block_ui st c ind ml b c' st' : handle_code_block o st c line ind ml = Ok (b, c', st') -> UI st -> UI st'.
Proof. unfold handle_code_block. intros H P. uigo H. Qed.

Lemma handle_setext_ui st c ind b c' st' : handle_setext_heading o st c line ind = Ok (b, c', st') -> UI st -> UI st'.
Proof.
  unfold handle_setext_heading, rest_at_fns. intros H P.
  mstep H; [inversion H; subst; exact P|].
  destruct (get st c) as [cn| |] eqn:G; cbn [bind] in H; try discriminate H.
  destruct (is_paragraph cn) eqn:Pa; cbn [negb] in H; [|inversion H; subst; exact P].
  apply is_paragraph_val in Pa. pose proof (get_un _ _ _ P G) as Qc.
  mon H; monall; repeat match goal with p : (_ * _)%type |- _ => destruct p end; cbn [fst snd] in *; eauto 10 with ui;
  match goal with R : resolve_refdefs _ _ _ = Ok _ |- _ => pose proof (resolve_refdefs_valid _ _ _ _ _ _ R (proj1 Qc Pa)) as Vc end;
  match goal with M1 : modify_info (st_refmap st _) _ _ = Ok ?s1 |- _ => assert (P1 : UI s1) end;
  try (eapply modify_info_get_ui; [eassumption | exact G | | apply UI_st_refmap; exact P]; intros _;
       destruct cn as [i ch]; destruct i; unfold bval, Un in *; cbn in *; subst; cbn in *;
       (split; [first [dis1 | intros _; exact Vc] | dis2]));
  eauto 10 with ui.
Qed.

Lemma handle_thematic_break_ui st c ind am b c' st' : handle_thematic_break o st c line ind am = Ok (b, c', st') -> UI st -> UI st'.
Proof. unfold handle_thematic_break. intros H P. uigo H. Qed.

Lemma handle_description_list_ui st c ind b c' st' : handle_description_list o st c line ind = Ok (b, c', st') -> UI st -> UI st'.
Proof.
  unfold handle_description_list, rest_at_fns. intros H P.
  mon H; monall; repeat match goal with p : (_ * _)%type |- _ => destruct p end; cbn [fst snd] in *; try exact P;
  match goal with D : parse_desc_list_details _ _ _ _ = Ok (_, _, ?s) |- _ =>
    assert (UI s) by (eapply parse_desc_list_details_ui; eassumption) end; eauto with ui.
Qed.

Hint Resolve handle_alert_ui handle_mbq_ui handle_blockquote_ui handle_atx_ui handle_code_fence_ui
  handle_html_block_ui handle_setext_ui handle_thematic_break_ui handle_footnote_ui
  handle_description_list_ui handle_list_ui handle_code_block_ui : ui.

Lemma or_else_h_ui (r : hres) k b c st st' :
  or_else_h r k = Ok (b, c, st') -> UI st ->
  (forall b1 c1 s1, r = Ok (b1, c1, s1) -> UI st -> UI s1) ->
  (forall c1 s1 b2 c2 s2, k c1 s1 = Ok (b2, c2, s2) -> UI s1 -> UI s2) ->
  UI st'.
Proof.
  unfold or_else_h. intros H P Hr Hk.
  destruct r as [[[b1 c1] s1]| |]; cbn [bind] in H; try discriminate H.
  destruct b1.
  - inversion H; subst. eapply Hr; [reflexivity | exact P].
  - eapply Hk; [exact H|]. eapply Hr; [reflexivity | exact P].
Qed.

Ltac chain_u :=
  match goal with
  | R : or_else_h _ _ = Ok _ |- UI _ =>
    eapply (or_else_h_ui _ _ _ _ _ _ R); clear R;
    [ eassumption | intros ? ? ? ? ?; eauto with ui | intros ? ? ? ? ? R ?; cbv beta in R; chain_u ]
  | |- UI _ => eauto with ui
  end.

(* the state after the chain of handlers *)
Lemma handlers_chain_ui st ind am ml d c hd c1 s1 :
  or_else_h (handle_alert o st c line ind) (fun container st =>
          or_else_h (handle_multiline_blockquote o st container line ind) (fun container st =>
          or_else_h (handle_blockquote o st container line ind) (fun container st =>
          or_else_h (handle_atx_heading o st container line ind) (fun container st =>
          or_else_h (handle_code_fence o st container line ind) (fun container st =>
          or_else_h (handle_html_block o st container line ind) (fun container st =>
          or_else_h (handle_setext_heading o st container line ind) (fun container st =>
          or_else_h (handle_thematic_break o st container line ind am) (fun container st =>
          or_else_h (handle_footnote o st container line ind d) (fun container st =>
          or_else_h (handle_description_list o st container line ind) (fun container st =>
          or_else_h (handle_list o st container line ind d) (fun container st =>
          handle_code_block o st container line ind ml))))))))))) = Ok (hd, c1, s1) -> UI st -> UI s1.
Proof. intros R P. chain_u. Qed.

Lemma open_new_blocks_step_ui st c am ml d g c' st' :
  open_new_blocks_step o st c line am ml d = Ok (g, c', st') -> UI st -> UI st'.
Proof.
  unfold open_new_blocks_step. intros H P.
  destruct (ffn st line) as [s0| |] eqn:F0; cbn [bind] in H; try discriminate H.
  assert (P0 : UI s0) by eauto with ui.
  match type of H with bind ?r _ = _ => destruct r as [[[hd c1] s1]| |] eqn:R; cbn [bind] in H; try discriminate H end.
  assert (P1 : UI s1) by (eapply handlers_chain_ui; eassumption).
  clear R.
  destruct hd.
  - uigo H.
  - destruct (negb (Nat.leb code_indent (indent s0)) && bo_table o) eqn:Tb.
    + destruct (try_opening_block o s1 c1 line) as [[tr s2]| |] eqn:TO; cbn [bind] in H; try discriminate H.
      assert (P2 : UI s2) by (eapply try_opening_block_ui; eassumption).
      destruct tr; uigo H.
    + uigo H.
Qed.
Hint Resolve open_new_blocks_step_ui : ui.

Lemma open_new_blocks_loop_ui am : forall fuel st c ml d c' st',
  open_new_blocks_loop fuel o st c line am ml d = Ok (c', st') -> UI st -> UI st'.
Proof. induction fuel as [|f IH]; intros st c ml d c' st' H P; cbn [open_new_blocks_loop] in H; uigo H. Qed.
Hint Resolve open_new_blocks_loop_ui : ui.

Lemma open_new_blocks_ui st c am c' st' : open_new_blocks o st c line am = Ok (c', st') -> UI st -> UI st'.
Proof. unfold open_new_blocks. intros H P. uigo H. Qed.

Lemma clear_llb_up_ui : forall fuel st id st', clear_llb_up fuel st id = Ok st' -> UI st -> UI st'.
Proof. induction fuel as [|f IH]; intros st id st' H P; cbn [clear_llb_up] in H; uigo H. Qed.

Lemma finalize_up_to_ui target site : forall fuel st st', finalize_up_to fuel o st target site = Ok st' -> UI st -> UI st'.
Proof. induction fuel as [|f IH]; intros st st' H P; cbn [finalize_up_to] in H; uigo H. Qed.

(* add_line with any LOK line (chop_trailing_hashtags hands it a prefix of the line) *)
Lemma Un_add_line i pad s off : Un i -> utf8_valid pad = true -> utf8_valid s = true ->
  Un (set_lo (bi_lo i ++ [off]) (set_content ((bi_content i ++ pad) ++ s) i)).
Proof.
  destruct i as [f1 f2 f3 f4 f5 f6 f7 f8 f9 f10 f11 f12]. unfold Un. cbn [bi_val bi_content bi_lo set_lo set_content]. intros [A B] P1 S1. split.
  - intro Ev. repeat apply utf8_app; auto.
  - intros cb Ev Hf. destruct (B cb Ev Hf) as [B1 B2]. split; [repeat apply utf8_app; auto | exact B2].
Qed.
Lemma Un_add_pad i pad : Un i -> utf8_valid pad = true -> Un (set_content (bi_content i ++ pad) i).
Proof.
  destruct i as [f1 f2 f3 f4 f5 f6 f7 f8 f9 f10 f11 f12]. unfold Un. cbn [bi_val bi_content bi_lo set_lo set_content]. intros [A B] P1. split.
  - intro Ev. apply utf8_app; auto.
  - intros cb Ev Hf. destruct (B cb Ev Hf) as [B1 B2]. split; [apply utf8_app; auto | exact B2].
Qed.

Lemma from_utf8_valid site b a : Blocks.from_utf8 site b = Ok a -> utf8_valid a = true.
Proof. unfold Blocks.from_utf8. destruct (EscapeSpec.utf8_valid b) eqn:V; intro H; inversion H; subst. exact V. Qed.

(* add_line with ANY line: the bytes it appends are checked by str::from_utf8 *)
Lemma add_line_ui_gen l st id st' : add_line st id l = Ok st' -> UI st -> UI st'.
Proof.
  unfold add_line. intros H P.
  destruct (get st id) as [n| |] eqn:G; cbn [bind] in H; try discriminate H.
  pose proof (get_un _ _ _ P G) as Qc.
  destruct (negb (bi_open (binf n))); [discriminate H|]. cbv zeta in H.
  destruct (c_pct (ps_cur st)); cbv iota beta in H;
  (mstep H; mon E; try match goal with U : Blocks.from_utf8 _ _ = Ok _ |- _ => apply from_utf8_valid in U end; mon H; apply UI_st_cur;
   (eapply modify_info_const_ui; [eassumption | exact G | | exact P]); intros _;
   first [ apply Un_add_line; [exact Qc | first [apply utf8_repeat_space | reflexivity] | assumption]
         | apply Un_add_pad; [exact Qc | first [apply utf8_repeat_space | reflexivity]] ]).
Qed.

End handlers.

(* ================================================================== add_text_to_container, process_line, parse_blocks *)
Section text.
Variables (o : bopts) (line : bytes).

Lemma add_line_ui st id st' : add_line st id line = Ok st' -> UI st -> UI st'.
Proof. apply add_line_ui_gen. Qed.
Hint Resolve add_line_ui clear_llb_up_ui finalize_up_to_ui : ui.

Lemma add_text_to_container_ui st c lm st' : add_text_to_container o st c lm line = Ok st' -> UI st -> UI st'.
Proof.
  unfold add_text_to_container. intros H P.
  destruct (ffn st line) as [s0| |] eqn:E0; cbn [bind] in H; try discriminate H. assert (P0 : UI s0) by eauto with ui.
  destruct (get s0 c) as [cn| |] eqn:G0; cbn [bind] in H; try discriminate H.
  match type of H with bind ?r _ = _ => destruct r as [s1| |] eqn:E1; cbn [bind] in H; try discriminate H end.
  assert (P1 : UI s1) by (mon E1; eauto with ui).
  match type of H with bind ?r _ = _ => destruct r as [s2| |] eqn:E2; cbn [bind] in H; try discriminate H end.
  assert (P2 : UI s2) by eauto with ui.
  match type of H with bind ?r _ = _ => destruct r as [s3| |] eqn:E3; cbn [bind] in H; try discriminate H end.
  assert (P3 : UI s3) by eauto with ui.
  match type of H with bind ?r _ = _ => destruct r as [lz| |] eqn:E4; cbn [bind] in H; try discriminate H end.
  destruct lz; [eauto with ui|].
  match type of H with bind ?r _ = _ => destruct r as [s4| |] eqn:E5; cbn [bind] in H; try discriminate H end.
  assert (P4 : UI s4) by eauto with ui.
  destruct (get s4 c) as [c4| |] eqn:G4; cbn [bind] in H; try discriminate H.
  match type of H with bind ?r _ = _ => destruct r as [[rc rs]| |] eqn:E6; cbn [bind fst snd] in H; try discriminate H end.
  inversion H; subst. apply UI_st_current. clear H E1 E2 E3 E4 E5.
  destruct (bval c4); mon E6; repeat match goal with p : (_ * _)%type |- _ => destruct p end; cbn [fst snd] in *;
  try match goal with E2 : (if negb _ then chop_trailing_hashtags line else Ok line) = Ok _ |- _ => mon E2 end;
  repeat match goal with E2 : Ok _ = Ok _ |- _ => inversion E2; subst; clear E2 end;
  first [ solve [eauto 10 with ui]
        | (eapply add_line_ui_gen; [eassumption | eauto with ui]) ].
Qed.
End text.

Lemma process_line_ui o st line0 st' : process_line o st line0 = Ok st' -> UI st -> UI st'.
Proof.
  unfold process_line. intros H P.
  match type of H with context [check_open_blocks o ?s ?l] => assert (P0 : UI s) by (apply UI_st_line_number, UI_st_cur, UI_st_curline; exact P) end.
  mon H; monall; repeat match goal with p : (_ * _)%type |- _ => destruct p end; cbn [fst snd] in *;
  apply UI_st_curline; apply UI_st_last_line_length;
  repeat match goal with
         | C : check_open_blocks _ _ _ = Ok (_, ?s) |- _ =>
           assert (UI s) by (eapply check_open_blocks_ui; eassumption); clear C
         | C : open_new_blocks _ _ _ _ _ = Ok (_, ?s) |- _ =>
           assert (UI s) by (eapply open_new_blocks_ui; eassumption); clear C
         | C : add_text_to_container _ _ _ _ _ = Ok ?s |- _ =>
           assert (UI s) by (eapply add_text_to_container_ui; eassumption); clear C
         end; assumption.
Qed.

Lemma process_lines_ui o : forall ls st st', process_lines o st ls = Ok st' -> UI st -> UI st'.
Proof.
  induction ls as [|l r IH]; intros st st' H P; cbn [process_lines] in H.
  - now inversion H; subst.
  - destruct (process_line o st l) as [s1| |] eqn:E; cbn [bind] in H; try discriminate H.
    eapply IH; [exact H|]. eapply process_line_ui; eassumption.
Qed.

Lemma UI_init : UI init_state.
Proof. constructor. cbn [ps_root init_state all_info]. split; [|exact I]. apply Un_trivial. reflexivity. Qed.

Lemma front_matter_prologue_ui o x st rest : front_matter_prologue o init_state x = Ok (st, rest) -> UI st.
Proof.
  unfold front_matter_prologue. intro H.
  destruct (bo_front_matter_delimiter o) as [d|]; [|inversion H; subst; apply UI_init].
  mon H; monall; repeat match goal with p : (_ * _)%type |- _ => destruct p end; cbn [fst snd] in *; try apply UI_init.
  apply UI_st_line_number.
  eapply modify_info_ui; [eassumption | un_side |].
  eapply unwrap_parent_fin_ui; [eassumption|]. eapply add_child_ui; [eassumption | reflexivity | apply UI_init].
Qed.

Lemma finalize_document_ui o st st' : finalize_document o st = Ok st' -> UI st -> UI st'.
Proof.
  unfold finalize_document. intros H P. mon H; monall. repeat match goal with p : (_ * _)%type |- _ => destruct p end. cbn [fst snd] in *.
  eapply finalize_ui; [eassumption|]. eapply finalize_up_to_ui; eassumption.
Qed.

(* the stored-value invariant holds of the tree the block phase answers: every input, every option set *)
Theorem parse_blocks_cont o x r : parse_blocks o x = Ok r -> all_info Un (br_root r).
Proof.
  unfold parse_blocks. intro H.
  destruct (front_matter_prologue o init_state x) as [[st rest]| |] eqn:E; cbn [bind] in H; try discriminate H.
  pose proof (front_matter_prologue_ui _ _ _ _ E) as P.
  destruct (feed_lines rest) as [ls total].
  unfold run_lines in H.
  destruct (process_lines o st ls) as [s1| |] eqn:R; cbn [bind] in H; try discriminate H.
  destruct (finalize_document o s1) as [s2| |] eqn:F; cbn [bind] in H; try discriminate H.
  inversion H; subst. cbn [br_root]. apply UI_all.
  eapply finalize_document_ui; [exact F|]. eapply process_lines_ui; eassumption.
Qed.