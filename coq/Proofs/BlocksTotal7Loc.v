(* Proofs/BlocksTotal7Loc.v — totality of the block phase, seventh round: two from_utf8 unwraps that are LOCAL to one
   handler once the line is known to be valid UTF-8.

     mod.rs:handle_alert:String::from_utf8(tmp).unwrap()      the title line[p+1..] of an alert
     mod.rs:handle_footnote:str::from_utf8(c).unwrap()        the name of a footnote definition

   al7l = but loc_sites.  The walk is the one of Proofs/BlocksTotal5Only.v with the new allowed set; it needs no
   invariant on the state: the only premise is that the line handed to the handlers is valid UTF-8, and this is true of
   every line process_line sees when the input is valid UTF-8 (lines_lf_utf8 of Proofs/BlocksTotal.v, applied to the
   `rest` the front matter prologue answers: a suffix of the input from a character boundary, split_rest_valid).
     handle_alert: alert_title_loop answers the position p of a ']' (alert_title_loop_at), so p + 1 is a boundary
       (at_boundary, 4th disjunct; skipn_utf8); unescape_html, trim and unescape keep validity (title_chain_valid: the
       argument of finalize_total for the info string of a code block).
     handle_footnote: the consumed part of a footnote_definition match is b1 b2 s2 ']' t with b2 ASCII ('^') and no ']'
       in s2 (scan_footnote_shape, by inversion of the one rule of Gen/ScannersRe.v); so the take_while cuts
       line[fns+2 .. fns+matched] exactly at that ']' and answers s2, which lies between two ASCII bytes of a valid
       string (mid_valid). *)
From Coq Require Import List NArith Arith Bool Lia Strings.String.
From V Require Import Base.Bytes Base.Res Base.Regex Base.Re2c Gen.ScannersRe Gen.Nodes Gen.BlocksConst Gen.FeedConst Model.Ast Model.Strings Model.Entity Model.LinkUrl Model.ListMarker
  Model.Feed Model.FrontMatter Model.RefDef Model.Scan Model.Blocks Spec.EscapeSpec Spec.StrLeafSpec
  Proofs.RegexProofs Proofs.ScanProofs
  Proofs.StrLeafProofs Proofs.StrLeafEntity Proofs.StrLeafParse Proofs.FeedProofs Proofs.BlocksProofs Proofs.BlocksCursor Proofs.BlocksTotal
  Proofs.BlocksTotal2Safe Proofs.BlocksTotal3Cur Proofs.BlocksTotal4Safe Proofs.BlocksTotal4Frame.
From V Require Proofs.BlocksTotal4Row Proofs.BlocksTotal4Scan Proofs.BlocksTotal4Fuel Proofs.FrontMatterProofs Proofs.BlocksTotal7Fm.
Import ListNotations.
Local Open Scope string_scope.
Local Open Scope list_scope.

(* ================================================================== A. the title of an alert *)
Lemma alert_title_loop_at line : forall fuel pos fl p fl',
  alert_title_loop fuel line pos fl = Ok (p, fl') -> nth_error line p = Some x5d.
Proof.
  induction fuel as [|f IH]; intros pos fl p fl' H; cbn [alert_title_loop] in H; [discriminate H|].
  unfold idx in H. destruct (nth_error line pos) as [b|] eqn:E; cbn [bind] in H; [|discriminate H].
  destruct (beqb b x5d) eqn:B.
  - apply beqb_eq in B. subst b. inversion H; subst. exact E.
  - eapply IH. exact H.
Qed.

Lemma title_chain_valid t0 t1 : utf8_valid t0 = true -> unescape_html t0 = Ok t1 ->
  utf8_valid (unescape_spec (trim_slice t1)) = true.
Proof.
  intros V H. pose proof (unescape_html_utf8 _ _ H V) as V1.
  apply (unescape_spec_valid (List.length (trim_slice t1)) _ U0 (le_n _)). apply trim_slice_valid. exact V1.
Qed.

Lemma alert_title_valid line p : utf8_valid line = true -> nth_error line p = Some x5d -> utf8_valid (skipn (S p) line) = true.
Proof.
  intros V N. apply skipn_utf8; [exact V|]. right; right; right. exists p, x5d. split; [reflexivity|]. split; [exact N | reflexivity].
Qed.

(* ================================================================== B. the name of a footnote definition *)
Lemma mid_valid P b s c R : ustate U0 (P ++ b :: s ++ c :: R) = Some U0 -> is_ascii b = true -> is_ascii c = true ->
  ustate U0 s = Some U0.
Proof.
  intros H Hb Hc. destruct (ustate_before_ascii _ _ _ H Hb) as [_ S1].
  replace (P ++ b :: s ++ c :: R) with ((P ++ [b]) ++ s ++ c :: R) in H by (rewrite <- app_assoc; reflexivity).
  rewrite ustate_app, S1 in H. destruct (ustate_before_ascii _ _ _ H Hc) as [S2 _]. exact S2.
Qed.

Lemma take_while_stop (p : byte -> bool) : forall s c t, (forall x, In x s -> p x = true) -> p c = false ->
  take_while p (s ++ c :: t) = s.
Proof.
  induction s as [|x s IH]; intros c t Hs Hc; cbn [app take_while].
  - now rewrite Hc.
  - rewrite (Hs x (or_introl eq_refl)). f_equal. apply IH; [|exact Hc]. intros y Hy. apply Hs. now right.
Qed.

Lemma cs_ascii_5b : forall b, implb (cs_mem [(91, 91)%N] b) (is_ascii b) = true.
Proof. apply forall_bytes. vm_compute. reflexivity. Qed.
Lemma cs_ascii_5e : forall b, implb (cs_mem [(94, 94)%N] b) (is_ascii b) = true.
Proof. apply forall_bytes. vm_compute. reflexivity. Qed.
Lemma cs_is_5d : forall b, implb (cs_mem [(93, 93)%N] b) (beqb b x5d) = true.
Proof. apply forall_bytes. vm_compute. reflexivity. Qed.

Lemma scan_footnote_shape s m : scan_footnote_definition s = Some m ->
  exists b1 b2 s2 t, firstn m s = b1 :: b2 :: s2 ++ x5d :: t /\ is_ascii b1 = true /\ is_ascii b2 = true /\ ~ In x5d s2.
Proof.
  unfold scan_footnote_definition. change pad_footnote_definition with 0. change default_footnote_definition with ActNone.
  intro H. assert (Hc : forallb is_cursor_rule rules_footnote_definition = true) by (vm_compute; reflexivity).
  destruct (BlocksTotal4Scan.run_rules_cursor_head _ _ _ Hc H) as (_ & x & Hin & M).
  destruct Hin as [<-|[]]. cbn [BlocksTotal4Scan.rule_head CatL] in M.
  apply matches_Cat in M. destruct M as (s1 & r1 & E1 & M1 & M).
  apply matches_Cat in M. destruct M as (s2 & r2 & E2 & M2 & M).
  apply matches_Cat in M. destruct M as (s3 & s4 & E3 & M3 & _).
  change (lit_ci [x5b; x5e]) with (Cat (Chr [(91, 91)%N]) (Chr [(94, 94)%N])) in M1.
  change (lit_ci [x5d; x3a]) with (Cat (Chr [(93, 93)%N]) (Chr [(58, 58)%N])) in M3.
  apply matches_Cat in M1. destruct M1 as (a1 & a2 & Ea & Ma1 & Ma2).
  apply matches_Chr in Ma1. destruct Ma1 as (b1 & -> & Hb1). apply matches_Chr in Ma2. destruct Ma2 as (b2 & -> & Hb2).
  apply matches_Cat in M3. destruct M3 as (c1 & c2 & Ec & Mc1 & Mc2).
  apply matches_Chr in Mc1. destruct Mc1 as (b3 & -> & Hb3). apply matches_Chr in Mc2. destruct Mc2 as (b4 & -> & _).
  pose proof (cs_ascii_5b b1) as A1. rewrite Hb1 in A1. pose proof (cs_ascii_5e b2) as A2. rewrite Hb2 in A2.
  pose proof (cs_is_5d b3) as A3. rewrite Hb3 in A3. cbn [implb] in A1, A2, A3. apply beqb_eq in A3. subst b3.
  exists b1, b2, s2, (b4 :: s4). subst. split; [rewrite E1; reflexivity|]. split; [exact A1|]. split; [exact A2|].
  eapply BlocksTotal4Scan.matches_avoids; [exact M2 | vm_compute; reflexivity].
Qed.

Lemma skipn_add {A} : forall k j (l : list A), skipn (k + j) l = skipn j (skipn k l).
Proof. induction k as [|k IH]; intros j l; [reflexivity|]. destruct l as [|x l]; cbn [Nat.add skipn]; [now destruct j | apply IH]. Qed.

Lemma footnote_name_valid line k m : utf8_valid line = true -> scan_footnote_definition (skipn k line) = Some m -> 2 <= m ->
  utf8_valid (take_while (fun e => negb (beqb e x5d)) (firstn (m - 2) (skipn (k + 2) line))) = true.
Proof.
  intros V H Hm. destruct (scan_footnote_shape _ _ H) as (b1 & b2 & s2 & t & E & A1 & A2 & Hn).
  assert (E0 : firstn (m - 2) (skipn (k + 2) line) = s2 ++ x5d :: t).
  { rewrite skipn_add, firstn_skipn_comm.
    replace (2 + (m - 2)) with m by lia. rewrite E. reflexivity. }
  rewrite E0, take_while_stop.
  - apply utf8_run_ustate.
    assert (EL : line = (firstn k line ++ [b1]) ++ b2 :: s2 ++ x5d :: t ++ skipn m (skipn k line)).
    { rewrite <- (firstn_skipn k line) at 1. rewrite <- app_assoc. f_equal. rewrite <- (firstn_skipn m (skipn k line)) at 1. rewrite E.
      cbn [app]. rewrite <- app_assoc. reflexivity. }
    unfold utf8_valid in V. apply utf8_run_ustate in V. rewrite EL in V.
    exact (mid_valid _ _ _ _ _ V A2 eq_refl).
  - intros x Hx. destruct (beqb x x5d) eqn:B; [|reflexivity]. apply beqb_eq in B. subst. contradiction.
  - reflexivity.
Qed.

(* ================================================================== C. the lines handed to process_line *)
Lemma split_rest_valid s d fm rest : utf8_valid s = true -> split_off_front_matter s d = Ok (Some (fm, rest)) -> utf8_valid rest = true.
Proof.
  intro V0. pose proof (FrontMatterProofs.trim_valid _ V0) as V. unfold split_off_front_matter.
  set (t := trim_start_match s fm_bom) in *.
  assert (B0 : BlocksTotal7Fm.BP t 0) by (split; [lia | now left]).
  destruct (fm_line_at t 0) as [l0| |] eqn:E0; cbn [bind]; try discriminate.
  pose proof (sg_ok _ _ _ _ _ (BlocksTotal7Fm.sg7f_fm_line_at t 0 V B0) E0) as H0. cbn beta in H0.
  destruct (_ || _); [discriminate|].
  destruct (find_closing_line _ t d (snd l0)) as [[e|]| |] eqn:E1; cbn [bind]; try discriminate.
  pose proof (sg_ok _ _ _ _ _ (BlocksTotal7Fm.sg7f_find_closing_line _ t d _ V H0) E1) as He. cbn beta iota in He.
  destruct (fm_line_at t e) as [l1| |] eqn:E2; cbn [bind]; try discriminate.
  pose proof (sg_ok _ _ _ _ _ (BlocksTotal7Fm.sg7f_fm_line_at t e V He) E2) as H1. cbn beta in H1. cbv zeta.
  set (e' := match fst l1 with [] => snd l1 | _ :: _ => e end).
  assert (He' : BlocksTotal7Fm.BP t e') by (subst e'; destruct (fst l1); assumption).
  unfold slice_to, FrontMatter.slice_from. rewrite (BlocksTotal7Fm.boundary_valid t e' V He'). cbn [bind].
  intro H. inversion H; subst. apply skipn_utf8; [exact V | apply He'].
Qed.

Lemma prologue_rest_valid o st x st' rest : utf8_valid x = true -> front_matter_prologue o st x = Ok (st', rest) -> utf8_valid rest = true.
Proof.
  intros V. unfold front_matter_prologue. destruct (bo_front_matter_delimiter o) as [d|]; [|intro H; inversion H; subst; exact V].
  destruct (split_off_front_matter x d) as [[[fm r]|]| |] eqn:S; cbn [bind]; try discriminate; [|intro H; inversion H; subst; exact V].
  pose proof (split_rest_valid _ _ _ _ V S) as Vr.
  destruct (remove_trailing_blank_lines fm) as [stripped| |]; cbn [bind]; try discriminate.
  destruct (add_child _ _ _ _ _) as [[node st1]| |]; cbn [bind]; try discriminate.
  destruct (unwrap_parent _ _) as [r0| |]; cbn [bind]; try discriminate.
  destruct (modify_info _ _ _) as [st2| |]; cbn [bind]; try discriminate.
  intro H. inversion H; subst. exact Vr.
Qed.

Lemma lines_valid x : utf8_valid x = true -> Forall (fun l => utf8_valid (norm_line l) = true) (fst (feed_lines x)).
Proof.
  intro V. pose proof (lines_lf_utf8 x V) as F. unfold lines in F. eapply Forall_impl; [|exact F]. intros l [_ [H _]]. exact H.
Qed.

(* ================================================================== D. the walk *)
Definition loc_sites : list string :=
  [ "mod.rs:handle_alert:String::from_utf8(tmp).unwrap()";
    "mod.rs:handle_footnote:str::from_utf8(c).unwrap()" ].

Definition al7l : string -> bool := but loc_sites.
Notation ng7l := (ng al7l true).

Ltac allowed := vm_compute; reflexivity.

Create HintDb ng7l.

Ltac ngstep :=
  match goal with
  | |- ng _ _ (bind ?r _) => apply ng_bind; [ try solve [auto with ng7l] | intros ]
  | |- ng _ _ (Ok _) => exact I
  | |- ng _ _ OutOfFuel => reflexivity
  | |- ng _ _ (Panic _) => first [assumption | allowed]
  | |- ng _ _ no_node => allowed
  | |- ng _ _ (not_handled _ _) => exact I
  | |- ng _ _ (res_map _ _) => apply ng_res_map
  | |- ng _ _ (if ?b then _ else _) => destruct b
  | |- ng _ _ (match ?x with _ => _ end) => destruct x
  | |- ng _ _ (let (_, _) := ?x in _) => destruct x
  end.
Ltac nggo := repeat ngstep; auto with ng7l.

Lemma ng7l_idx site l i : al7l site = true -> ng7l (idx site l i).
Proof. intro H. apply ng_idx. now right. Qed.
Lemma ng7l_sub site a b : al7l site = true -> ng7l (sub site a b).
Proof. intro H. apply ng_sub. now right. Qed.
Lemma ng7l_slice_from site l i : al7l site = true -> ng7l (Blocks.slice_from site l i).
Proof. intro H. apply ng_slice_from. now right. Qed.
Lemma ng7l_from_utf8 site b : al7l site = true -> ng7l (from_utf8 site b).
Proof. intro H. apply ng_from_utf8. now right. Qed.
#[export] Hint Extern 1 (ng _ _ (idx _ _ _)) => (apply ng7l_idx; first [assumption | allowed]) : ng7l.
#[export] Hint Extern 1 (ng _ _ (sub _ _ _)) => (apply ng7l_sub; first [assumption | allowed]) : ng7l.
#[export] Hint Extern 1 (ng _ _ (Blocks.slice_from _ _ _)) => (apply ng7l_slice_from; first [assumption | allowed]) : ng7l.
#[export] Hint Extern 1 (ng _ _ (from_utf8 _ _)) => (apply ng7l_from_utf8; first [assumption | allowed]) : ng7l.

(* ---- leaf functions: total for all arguments *)
Lemma ng7l_trim s : ng7l (Strings.trim s). Proof. rewrite trim_ok. exact I. Qed.
Lemma ng7l_rtrim s : ng7l (Strings.rtrim s). Proof. rewrite rtrim_ok. exact I. Qed.
Lemma ng7l_unescape s : ng7l (Strings.unescape s). Proof. rewrite unescape_is_spec. exact I. Qed.
Lemma ng7l_unescape_html s : ng7l (unescape_html s). Proof. apply ng_ex. apply unescape_html_total. Qed.
Lemma ng7l_manual_scan_link_url s : ng7l (manual_scan_link_url s).
Proof. apply ng_ex. destruct (manual_scan_link_url_total s) as [r [E _]]. exists r. exact E. Qed.
Lemma ng7l_row s sp : ng7l (row s sp). Proof. apply ng_ex. apply BlocksTotal4Row.row_total. Qed.
Lemma ng7l_table_matches s sp : ng7l (table_matches s sp). Proof. apply ng_ex. apply BlocksTotal4Row.table_matches_total. Qed.
#[export] Hint Resolve ng7l_trim ng7l_rtrim ng7l_unescape ng7l_unescape_html ng7l_manual_scan_link_url ng7l_row ng7l_table_matches : ng7l.

(* ---- leaf functions with sites of their own *)
Lemma ng7l_remove_trailing_blank_lines s : ng7l (remove_trailing_blank_lines s).
Proof. unfold remove_trailing_blank_lines. nggo. Qed.
Lemma ng7l_chop_trailing_hashtags s : ng7l (chop_trailing_hashtags s).
Proof. unfold chop_trailing_hashtags. nggo. Qed.
Lemma ng7l_clean_url s : ng7l (clean_url s). Proof. unfold clean_url. nggo. Qed.
(* clean_title panics on a title of length 1 only (Props/StrLeaf.v); its one caller hands it a scan_link_title match *)
Lemma ng7l_clean_title s : List.length s <> 1 -> ng7l (clean_title s).
Proof. intro H. apply ng_ex. now apply clean_title_total. Qed.
#[export] Hint Resolve ng7l_remove_trailing_blank_lines ng7l_chop_trailing_hashtags ng7l_clean_url : ng7l.
Lemma scan_link_title_ge s m : scan_link_title s = Some m -> 2 <= m.
Proof. BlocksTotal4Scan.scan_ge. Qed.
Lemma scan_link_title_le s m : scan_link_title s = Some m -> m <= List.length s.
Proof. intro H. eapply as_opt_usize_cursor_le; [|exact H]. vm_compute. reflexivity. Qed.
(* line_at: bytes[end..] is inside the string as long as the start is; split_off_front_matter starts at 0 and goes on
   from the `next` of the line before *)
Lemma sg7l_fm_line_at s k : k <= List.length s -> sg al7l true (fun r => snd r <= List.length s) (fm_line_at s k).
Proof.
  intro H. unfold fm_line_at. pose proof (BlocksTotal4Fuel.scan_line_end_bounds (skipn k s) k) as B. rewrite skipn_length in B.
  set (e := scan_line_end (skipn k s) k) in *. unfold byte_slice_from.
  destruct (Nat.leb e (List.length s)) eqn:L; [|apply Nat.leb_gt in L; lia]. apply Nat.leb_le in L. cbn [bind].
  unfold fm_slice. destruct (_ && _ && _); [cbn [bind sg snd] | allowed].
  destruct (starts_with (skipn e s) fm_crlf) eqn:Sw.
  - apply starts_with_app in Sw. destruct Sw as [r Er]. apply (f_equal (@List.length byte)) in Er.
    rewrite skipn_length, app_length in Er. change (List.length fm_crlf) with 2 in Er. lia.
  - destruct (Nat.ltb e (List.length s)) eqn:Lt; [apply Nat.ltb_lt in Lt; lia | lia].
Qed.
Lemma sg7l_find_closing_line : forall fuel s d e, e <= List.length s ->
  sg al7l true (fun c => match c with Some e' => e' <= List.length s | None => True end) (find_closing_line fuel s d e).
Proof.
  induction fuel as [|f IH]; intros s d e H; cbn [find_closing_line]; [reflexivity|].
  destruct (Nat.eqb e (List.length s)); [exact I|].
  eapply sg_bind; [now apply sg7l_fm_line_at|]. intros ln _ Hn.
  destruct (bytes_eqb (fst ln) d); [exact Hn | now apply IH].
Qed.
Lemma ng7l_split_off_front_matter s d : ng7l (split_off_front_matter s d).
Proof.
  unfold split_off_front_matter, slice_to, FrontMatter.slice_from.
  eapply sg_bind; [apply sg7l_fm_line_at; lia|]. intros l0 _ H0.
  destruct (_ || _); [exact I|].
  eapply sg_bind; [now apply sg7l_find_closing_line|]. intros [e|] _ He; [|exact I].
  eapply sg_bind; [now apply sg7l_fm_line_at|]. intros l1 _ _. cbv zeta. match goal with |- sg ?a ?f _ ?r => change (ng a f r) end. nggo.
Qed.
#[export] Hint Resolve ng7l_split_off_front_matter : ng7l.
Lemma ng7l_peek s p : ng7l (peek s p). Proof. unfold peek. nggo. Qed.
#[export] Hint Resolve ng7l_peek : ng7l.
Lemma ng7l_skip_spaces : forall s, ng7l (skip_spaces s).
Proof. induction s as [|c r IH]; cbn [skip_spaces]; nggo. Qed.
#[export] Hint Resolve ng7l_skip_spaces : ng7l.
Lemma ng7l_skip_line_end s p : ng7l (skip_line_end s p). Proof. unfold skip_line_end. nggo. Qed.
#[export] Hint Resolve ng7l_skip_line_end : ng7l.
Lemma ng7l_spnl s p : ng7l (spnl s p). Proof. unfold spnl. nggo. Qed.
#[export] Hint Resolve ng7l_spnl : ng7l.
Lemma ng7l_label_loop : forall fuel s pos len c, ng7l (label_loop fuel s pos len c).
Proof. induction fuel as [|f IH]; intros s pos len c; cbn [label_loop]; nggo. Qed.
#[export] Hint Resolve ng7l_label_loop : ng7l.
Lemma ng7l_link_label s : ng7l (link_label s). Proof. unfold link_label. nggo. Qed.
#[export] Hint Resolve ng7l_link_label : ng7l.
Lemma ng7l_parse_reference_inline fold m s : ng7l (parse_reference_inline fold m s).
Proof.
  unfold parse_reference_inline.
  apply ng_bind; [auto with ng7l|]. intros [[lab pos]|] _; [|exact I]. destruct lab as [|l0 lab]; [exact I|].
  apply ng_bind; [auto with ng7l|]. intros [c|] _; [|exact I]. destruct (negb (beqb c x3a)); [exact I|]. cbv zeta.
  apply ng_bind; [auto with ng7l|]. intros pos1 _.
  apply ng_bind; [auto with ng7l|]. intros [[url matchlen]|] _; [|exact I].
  apply ng_bind; [auto with ng7l|]. intros pos2 _.
  match goal with |- ng _ _ (let '(title, pos) := ?tp in _) =>
    assert (HT : List.length (fst tp) <> 1); [|destruct tp as [title pos3]; cbn [fst] in HT] end.
  { destruct (Nat.eqb pos2 (pos1 + matchlen)); [cbn; lia|].
    destruct (scan_link_title (skipn pos2 s)) as [ml|] eqn:Sc; [|cbn; lia].
    pose proof (scan_link_title_ge _ _ Sc). pose proof (scan_link_title_le _ _ Sc). cbn [fst]. rewrite firstn_length. lia. }
  apply ng_bind; [auto with ng7l|]. intros n _.
  apply ng_bind; [auto with ng7l|]. intros [p1 ok] _.
  eapply sg_bind with (P := fun fin : option (nat * bytes) => match fin with Some (_, t) => List.length t <> 1 | None => True end).
  { destruct ok; [exact HT|]. destruct title; [exact I|].
    apply sgb; [auto with ng7l|]. intros n2 _. apply sgb; [auto with ng7l|]. intros [p2 ok2] _.
    destruct ok2; cbn [sg List.length]; [lia | exact I]. }
  intros [[posf t]|] _ Hf; [|exact I].
  destruct (normalize_label fold (l0 :: lab) true); [exact I|].
  apply ng_bind; [auto with ng7l|]. intros cu _.
  apply ng_bind; [now apply ng7l_clean_title|]. intros ct _. nggo.
Qed.
#[export] Hint Resolve ng7l_parse_reference_inline : ng7l.
Lemma ng7l_resolve_loop fold : forall fuel m seek seeked, ng7l (resolve_loop fuel fold m seek seeked).
Proof. induction fuel as [|f IH]; intros m seek seeked; cbn [resolve_loop]; nggo. Qed.
#[export] Hint Resolve ng7l_resolve_loop : ng7l.
Lemma ng7l_resolve_refdefs fold m c : ng7l (resolve_refdefs fold m c).
Proof. unfold resolve_refdefs. nggo. Qed.
#[export] Hint Resolve ng7l_resolve_refdefs : ng7l.
Lemma ng7l_copy_line_offsets : forall n lo k, ng7l (copy_line_offsets n lo k).
Proof. induction n as [|m IH]; intros lo k; cbn [copy_line_offsets]; nggo. Qed.
Lemma ng7l_header_cells : forall cells id ln sl sc po, ng7l (header_cells cells id ln sl sc po).
Proof. induction cells as [|c r IH]; intros; cbn [header_cells]; nggo. Qed.
Lemma ng7l_row_cells : forall n cells id ln sc lc, ng7l (row_cells n cells id ln sc lc).
Proof. induction n as [|m IH]; intros cells id ln sc lc; destruct cells; cbn [row_cells]; nggo. Qed.
#[export] Hint Resolve ng7l_copy_line_offsets ng7l_header_cells ng7l_row_cells : ng7l.
Lemma ng7l_parse_html_block_prefix st t : ng7l (parse_html_block_prefix st t).
Proof. unfold parse_html_block_prefix. nggo. Qed.
#[export] Hint Resolve ng7l_parse_html_block_prefix : ng7l.
Lemma ng7l_after_spaces : forall s, ng7l (after_spaces s).
Proof. induction s as [|b r IH]; cbn [after_spaces]; nggo. Qed.
Lemma ng7l_digits_loop : forall left s start digits, ng7l (digits_loop left s start digits).
Proof.
  induction left as [|l IH]; intros s start digits; destruct s as [|d r]; cbn [digits_loop]; try allowed.
  - destruct (N.ltb _ _); [allowed | exact I].
  - destruct (N.ltb _ _); [allowed|]. destruct l; [exact I|]. destruct r as [|e r']; [allowed|].
    destruct (StrLeafGen.sl_isdigit e); [apply IH | exact I].
Qed.
#[export] Hint Resolve ng7l_after_spaces ng7l_digits_loop : ng7l.
Lemma ng7l_parse_list_marker line pos ip : ng7l (parse_list_marker line pos ip).
Proof. unfold parse_list_marker. nggo. Qed.
#[export] Hint Resolve ng7l_parse_list_marker : ng7l.
Lemma ng7l_alert_title_loop line : forall fuel pos fl, ng7l (alert_title_loop fuel line pos fl).
Proof. induction fuel as [|f IH]; intros pos fl; cbn [alert_title_loop]; nggo. Qed.
Lemma ng7l_count_hashes : forall s, ng7l (count_hashes s).
Proof. induction s as [|b r IH]; cbn [count_hashes]; nggo. Qed.
#[export] Hint Resolve ng7l_alert_title_loop ng7l_count_hashes : ng7l.

(* ---- the cursor *)
Lemma ng7l_find_first_nonspace c line : ng7l (find_first_nonspace c line).
Proof. unfold find_first_nonspace. destruct (if Nat.leb _ _ then _ else _) as [f fc]. nggo. Qed.
Lemma ng7l_advance_loop line columns : forall fuel off col pct count, ng7l (advance_loop fuel line off col pct count columns).
Proof. induction fuel as [|f IH]; intros off col pct count; destruct count; cbn [advance_loop]; nggo. Qed.
#[export] Hint Resolve ng7l_find_first_nonspace ng7l_advance_loop : ng7l.
Lemma ng7l_advance_offset c line count columns : ng7l (advance_offset c line count columns).
Proof. unfold advance_offset. nggo. Qed.
#[export] Hint Resolve ng7l_advance_offset : ng7l.
Lemma ng7l_adv st line n b : ng7l (adv st line n b). Proof. unfold adv. nggo. Qed.
Lemma ng7l_ffn st line : ng7l (ffn st line). Proof. unfold ffn. nggo. Qed.
#[export] Hint Resolve ng7l_adv ng7l_ffn : ng7l.
Lemma ng7l_skip_one_space st line site : al7l site = true -> ng7l (skip_one_space st line site).
Proof. intro H. unfold skip_one_space. nggo. Qed.
Lemma ng7l_skip_fence_offset line site : al7l site = true -> forall i st, ng7l (skip_fence_offset i st line site).
Proof. intro H. induction i as [|j IH]; intro st; cbn [skip_fence_offset]; nggo. Qed.
Lemma ng7l_list_spaces_loop line sc : forall fuel st, ng7l (list_spaces_loop fuel st line sc).
Proof. induction fuel as [|f IH]; intro st; cbn [list_spaces_loop]; nggo. Qed.
#[export] Hint Resolve ng7l_list_spaces_loop : ng7l.
#[export] Hint Extern 1 (ng _ _ (skip_one_space _ _ _)) => (apply ng7l_skip_one_space; first [assumption | allowed]) : ng7l.
#[export] Hint Extern 1 (ng _ _ (skip_fence_offset _ _ _ _)) => (apply ng7l_skip_fence_offset; first [assumption | allowed]) : ng7l.

(* ---- tree primitives *)
Lemma ng7l_get st x : ng7l (get st x).
Proof. unfold get. destruct (find_node x (ps_root st)); [exact I | allowed]. Qed.
Lemma ng7l_modify st x f : ng7l (modify st x f).
Proof. unfold modify. destruct (upd x f (ps_root st)); [exact I | allowed]. Qed.
Lemma ng7l_modify_info st x f : ng7l (modify_info st x f).
Proof. apply ng7l_modify. Qed.
Lemma ng7l_bdetach st x : ng7l (bdetach st x).
Proof. unfold bdetach. destruct (edit_kids _ _ _); exact I. Qed.
Lemma ng7l_retighten st p : ng7l (retighten st p).
Proof. apply ng_ex. apply retighten_total. Qed.
#[export] Hint Resolve ng7l_get ng7l_modify ng7l_modify_info ng7l_bdetach ng7l_retighten : ng7l.
Lemma ng7l_append_child st p c : ng7l (append_child st p c).
Proof. apply ng7l_modify. Qed.
Lemma ng7l_last_child st x : ng7l (last_child st x). Proof. unfold last_child. nggo. Qed.
#[export] Hint Resolve ng7l_append_child ng7l_last_child : ng7l.
Lemma ng7l_last_child_is_open st x : ng7l (last_child_is_open st x).
Proof. unfold last_child_is_open. nggo. Qed.
#[export] Hint Resolve ng7l_last_child_is_open : ng7l.
Lemma ng7l_finalize o st id : ng7l (finalize o st id).
Proof. unfold finalize. nggo. Qed.
#[export] Hint Resolve ng7l_finalize : ng7l.
Lemma ng7l_unwrap_parent site o st id : al7l site = true -> ng7l (unwrap_parent site (finalize o st id)).
Proof. intro H. unfold unwrap_parent. nggo. Qed.
#[export] Hint Extern 1 (ng _ _ (unwrap_parent _ _)) => (apply ng7l_unwrap_parent; first [assumption | allowed]) : ng7l.
Lemma ng7l_add_child_loop o k : forall fuel st parent, ng7l (add_child_loop fuel o st parent k).
Proof. induction fuel as [|f IH]; intros st parent; cbn [add_child_loop]; nggo. Qed.
#[export] Hint Resolve ng7l_add_child_loop : ng7l.
Lemma ng7l_add_child_gen o st parent v col post kids : ng7l (add_child_gen o st parent v col post kids).
Proof. unfold add_child_gen. nggo. Qed.
Lemma ng7l_add_child o st parent v col : ng7l (add_child o st parent v col).
Proof. apply ng7l_add_child_gen. Qed.
#[export] Hint Resolve ng7l_add_child_gen ng7l_add_child : ng7l.
Lemma ng7l_clear_llb_up : forall fuel st id, ng7l (clear_llb_up fuel st id).
Proof. induction fuel as [|f IH]; intros st id; cbn [clear_llb_up]; nggo. Qed.
Lemma ng7l_finalize_up_to o target site : al7l site = true -> forall fuel st, ng7l (finalize_up_to fuel o st target site).
Proof. intro H. induction fuel as [|f IH]; intros st; cbn [finalize_up_to]; nggo. Qed.
Lemma ng7l_reopen : forall fuel st id, ng7l (reopen_ast_nodes fuel st id).
Proof. induction fuel as [|f IH]; intros st id; cbn [reopen_ast_nodes]; nggo. Qed.
#[export] Hint Resolve ng7l_clear_llb_up ng7l_reopen : ng7l.
#[export] Hint Extern 1 (ng _ _ (finalize_up_to _ _ _ _ _)) => (apply ng7l_finalize_up_to; first [assumption | allowed]) : ng7l.
Lemma ng7l_parse_desc_list_details o st c m : ng7l (parse_desc_list_details o st c m).
Proof. unfold parse_desc_list_details. nggo. Qed.
#[export] Hint Resolve ng7l_parse_desc_list_details : ng7l.
Lemma ng7l_try_inserting st c po : ng7l (try_inserting_table_header_paragraph st c po).
Proof. unfold try_inserting_table_header_paragraph. nggo. Qed.
#[export] Hint Resolve ng7l_try_inserting : ng7l.
Lemma ng7l_add_line st id line : ng7l (add_line st id line).
Proof. unfold add_line. nggo. Qed.
#[export] Hint Resolve ng7l_add_line : ng7l.

(* ---- check_open_blocks *)
Lemma ng7l_is_not_greentext o st line : ng7l (is_not_greentext o st line).
Proof. unfold is_not_greentext. nggo. Qed.
#[export] Hint Resolve ng7l_is_not_greentext : ng7l.
Lemma ng7l_pbq o st line : ng7l (parse_block_quote_prefix o st line).
Proof. unfold parse_block_quote_prefix. nggo. Qed.
Lemma ng7l_pfn st line : ng7l (parse_footnote_definition_block_prefix st line).
Proof. unfold parse_footnote_definition_block_prefix. nggo. Qed.
Lemma ng7l_pip st line c mo pad : ng7l (parse_item_prefix st line c mo pad).
Proof. unfold parse_item_prefix. nggo. Qed.
#[export] Hint Resolve ng7l_pbq ng7l_pfn ng7l_pip : ng7l.
Lemma ng7l_pcbp o st line cid cb : ng7l (parse_code_block_prefix o st line cid cb).
Proof. unfold parse_code_block_prefix. nggo. Qed.
Lemma ng7l_pmbq o st line cid fl fo : ng7l (parse_multiline_block_quote_prefix o st line cid fl fo).
Proof. unfold parse_multiline_block_quote_prefix. nggo. Qed.
#[export] Hint Resolve ng7l_pcbp ng7l_pmbq : ng7l.
Lemma ng7l_check_container o st line c : ng7l (check_container o st line c).
Proof. unfold check_container. destruct (bval c); nggo. Qed.
#[export] Hint Resolve ng7l_check_container : ng7l.
Lemma ng7l_cobi o line : forall fuel st c, ng7l (check_open_blocks_inner fuel o st line c).
Proof. induction fuel as [|f IH]; intros st c; cbn [check_open_blocks_inner]; nggo. Qed.
#[export] Hint Resolve ng7l_cobi : ng7l.
Lemma ng7l_check_open_blocks o st line : ng7l (check_open_blocks o st line).
Proof. unfold check_open_blocks. nggo. Qed.
#[export] Hint Resolve ng7l_check_open_blocks : ng7l.

(* ---- open_new_blocks *)
Lemma ng7l_try_opening_header o st c line : ng7l (try_opening_header o st c line).
Proof. unfold try_opening_header. nggo. Qed.
Lemma ng7l_try_opening_row o st c t line : ng7l (try_opening_row o st c t line).
Proof. unfold try_opening_row. nggo. Qed.
Lemma ng7l_try_opening_block o st c line : ng7l (try_opening_block o st c line).
Proof.
  unfold try_opening_block. apply ng_bind; [auto with ng7l|]. intros cn _.
  destruct (bval cn); try exact I; [apply ng7l_try_opening_header | apply ng7l_try_opening_row].
Qed.
#[export] Hint Resolve ng7l_try_opening_block : ng7l.

Section Handlers.
Variables (o : bopts) (line : bytes).
Hypothesis HU : utf8_valid line = true.
Lemma ng7l_handle_alert st c ind : ng7l (handle_alert o st c line ind).
Proof.
  unfold handle_alert. destruct (_ || _); [exact I|].
  apply ng_bind; [auto with ng7l|]. intros b _. destruct (negb _); [exact I|].
  destruct (scan_alert_start _) as [ty|]; [|exact I]. cbv zeta.
  apply ng_bind; [auto with ng7l|]. intros [p fl] E. pose proof (alert_title_loop_at _ _ _ _ _ _ E) as Np.
  destruct (_ || _); [exact I|].
  eapply sg_bind; [apply sg_slice_from; right; allowed|]. intros t0 _ [-> _].
  match goal with |- sg ?a ?f _ ?r => change (ng a f r) end.
  apply ng_bind; [auto with ng7l|]. intros t1 E1.
  pose proof (title_chain_valid _ _ (alert_title_valid _ _ HU Np) E1) as V3.
  rewrite trim_ok. cbn [bind]. rewrite unescape_is_spec. cbn [bind].
  apply ng_bind; [|intros; nggo].
  destruct (unescape_spec (trim_slice t1)) as [|x0 r0] eqn:Eu; [exact I|].
  apply ng_bind; [apply ng_from_utf8; left; exact V3 | intros; exact I].
Qed.
Lemma ng7l_handle_mbq st c ind : ng7l (handle_multiline_blockquote o st c line ind).
Proof. unfold handle_multiline_blockquote, rest_at_fns. nggo. Qed.
Lemma ng7l_handle_blockquote st c ind : ng7l (handle_blockquote o st c line ind).
Proof. unfold handle_blockquote. nggo. Qed.
Lemma ng7l_handle_atx st c ind : ng7l (handle_atx_heading o st c line ind).
Proof. unfold handle_atx_heading, rest_at_fns. nggo. Qed.
Lemma ng7l_handle_code_fence st c ind : ng7l (handle_code_fence o st c line ind).
Proof. unfold handle_code_fence, rest_at_fns. nggo. Qed.
Lemma ng7l_handle_html_block st c ind : ng7l (handle_html_block o st c line ind).
Proof. unfold handle_html_block, rest_at_fns. nggo. Qed.
Lemma ng7l_handle_setext st c ind : ng7l (handle_setext_heading o st c line ind).
Proof. unfold handle_setext_heading, rest_at_fns. nggo. Qed.
Lemma ng7l_handle_thematic_break st c ind am : ng7l (handle_thematic_break o st c line ind am).
Proof. unfold handle_thematic_break. nggo. Qed.
Lemma ng7l_handle_footnote st c ind d : ng7l (handle_footnote o st c line ind d).
Proof.
  unfold handle_footnote, rest_at_fns. destruct (_ || _); [exact I|].
  eapply sg_bind; [apply sg_slice_from; right; allowed|]. intros rest _ [-> _].
  match goal with |- sg ?a ?f _ ?r => change (ng a f r) end.
  destruct (scan_footnote_definition _) as [m|] eqn:Sc; [|exact I].
  destruct (Nat.ltb m 2) eqn:Lm; cbn [orb]; [allowed|]. apply Nat.ltb_ge in Lm.
  destruct (Nat.ltb _ _); [allowed|]. cbv zeta.
  apply ng_bind; [auto with ng7l|]. intros k _.
  apply ng_bind; [auto with ng7l|]. intros st1 _.
  apply ng_bind; [apply ng_from_utf8; left; exact (footnote_name_valid _ _ _ HU Sc Lm) | intros; nggo].
Qed.
Lemma ng7l_handle_description_list st c ind : ng7l (handle_description_list o st c line ind).
Proof. unfold handle_description_list, rest_at_fns. nggo. Qed.
Lemma ng7l_handle_list st c ind d : ng7l (handle_list o st c line ind d).
Proof. unfold handle_list. nggo. Qed.
Lemma ng7l_handle_code_block st c ind ml : ng7l (handle_code_block o st c line ind ml).
Proof. unfold handle_code_block. nggo. Qed.

Lemma ng7l_or_else (r : hres) k : ng7l r -> (forall c s, ng7l (k c s)) -> ng7l (or_else_h r k).
Proof. intros H K. unfold or_else_h. apply ng_bind; [exact H|]. intros [[h c] s] _. destruct h; [exact I | apply K]. Qed.

Lemma ng7l_step st c am ml d : ng7l (open_new_blocks_step o st c line am ml d).
Proof.
  unfold open_new_blocks_step. apply ng_bind; [auto with ng7l|]. intros s0 _.
  apply ng_bind.
  { apply ng7l_or_else; [apply ng7l_handle_alert|]. intros c1 s1.
    apply ng7l_or_else; [apply ng7l_handle_mbq|]. clear c1 s1. intros c1 s1.
    apply ng7l_or_else; [apply ng7l_handle_blockquote|]. clear c1 s1. intros c1 s1.
    apply ng7l_or_else; [apply ng7l_handle_atx|]. clear c1 s1. intros c1 s1.
    apply ng7l_or_else; [apply ng7l_handle_code_fence|]. clear c1 s1. intros c1 s1.
    apply ng7l_or_else; [apply ng7l_handle_html_block|]. clear c1 s1. intros c1 s1.
    apply ng7l_or_else; [apply ng7l_handle_setext|]. clear c1 s1. intros c1 s1.
    apply ng7l_or_else; [apply ng7l_handle_thematic_break|]. clear c1 s1. intros c1 s1.
    apply ng7l_or_else; [apply ng7l_handle_footnote|]. clear c1 s1. intros c1 s1.
    apply ng7l_or_else; [apply ng7l_handle_description_list|]. clear c1 s1. intros c1 s1.
    apply ng7l_or_else; [apply ng7l_handle_list|]. clear c1 s1. intros c1 s1.
    apply ng7l_handle_code_block. }
  intros [[handled c1] s1] _. nggo.
Qed.

Lemma ng7l_loop am : forall fuel st c ml d, ng7l (open_new_blocks_loop fuel o st c line am ml d).
Proof.
  induction fuel as [|f IH]; intros st c ml d; cbn [open_new_blocks_loop]; [reflexivity|].
  apply ng_bind; [auto with ng7l|]. intros n _. destruct (is_code_or_html n); [exact I|].
  apply ng_bind; [apply ng7l_step|]. intros [[go c1] s1] _. destruct go; [apply IH | exact I].
Qed.

Lemma ng7l_open_new_blocks st c am : ng7l (open_new_blocks o st c line am).
Proof. unfold open_new_blocks. apply ng_bind; [auto with ng7l|]. intros n _. apply ng7l_loop. Qed.

Lemma ng7l_add_text_to_container st c lmc : ng7l (add_text_to_container o st c lmc line).
Proof.
  unfold add_text_to_container.
  apply ng_bind; [auto with ng7l|]. intros s0 _.
  apply ng_bind; [auto with ng7l|]. intros cn _.
  apply ng_bind; [nggo|]. intros s1 _.
  apply ng_bind; [auto with ng7l|]. intros s2 _.
  apply ng_bind; [auto with ng7l|]. intros s3 _.
  apply ng_bind; [nggo|]. intros lz _.
  destruct lz; [auto with ng7l|].
  apply ng_bind; [auto with ng7l|]. intros s4 _.
  apply ng_bind; [auto with ng7l|]. intros c4 _.
  apply ng_bind; [|intros; exact I].
  destruct (bval c4); nggo.
Qed.
End Handlers.

Lemma ng7l_process_line o st line0 : utf8_valid (norm_line line0) = true -> ng7l (process_line o st line0).
Proof.
  intro HU. unfold process_line. cbv zeta.
  apply ng_bind; [auto with ng7l|]. intros [r s1] _.
  apply ng_bind; [|intros; exact I].
  destruct r as [[lm am]|]; [|exact I]. cbv zeta.
  apply ng_bind; [now apply ng7l_open_new_blocks|]. intros [c s2] _.
  destruct (Nat.eqb _ _); [apply ng7l_add_text_to_container | exact I].
Qed.

Lemma ng7l_process_lines o : forall ls st, Forall (fun l => utf8_valid (norm_line l) = true) ls -> ng7l (process_lines o st ls).
Proof.
  induction ls as [|l r IH]; intros st F; cbn [process_lines]; [exact I|]. inversion F; subst.
  apply ng_bind; [now apply ng7l_process_line | intros; now apply IH].
Qed.

Lemma ng7l_finalize_document o st : ng7l (finalize_document o st).
Proof. unfold finalize_document. nggo. Qed.

Lemma ng7l_front_matter_prologue o st s : ng7l (front_matter_prologue o st s).
Proof. unfold front_matter_prologue. nggo. Qed.

Theorem parse_blocks_ng7l o x : utf8_valid x = true -> ng7l (parse_blocks o x).
Proof.
  intro V. unfold parse_blocks. apply ng_bind; [apply ng7l_front_matter_prologue|]. intros [st rest] E.
  pose proof (lines_valid rest (prologue_rest_valid _ _ _ _ _ V E)) as F.
  destruct (feed_lines rest) as [lines total]. cbn [fst] in F.
  apply ng_bind; [|intros; exact I]. unfold run_lines.
  apply ng_bind; [now apply ng7l_process_lines | intros; apply ng7l_finalize_document].
Qed.

Theorem parse_blocks_no_loc_panic o x s : utf8_valid x = true -> In s loc_sites -> parse_blocks o x <> Panic s.
Proof. intros V H. eapply sg_no_panic; [now apply parse_blocks_ng7l | exact H]. Qed.
