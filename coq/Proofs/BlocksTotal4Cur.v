(* Proofs/BlocksTotal4Cur.v — totality of the block phase, fourth round, step 2 (cursor), part 1: the cursor-level
   facts the walk of Proofs/BlocksTotal4Walk.v needs, each for ALL cursors and lines.

     fresh_in        on a line that ends with LF, a freshly scanned cursor (fresh_fns) whose offset is inside the line
                     has offset <= first_nonspace < |line| and line[first_nonspace] is neither space nor tab
     adv_cols_in     advance_offset(line, count, true) with count <= indent stays in the white space in front of
                     first_nonspace and KEEPS the cursor fresh (partially consumed tabs included): the cached
                     first_nonspace / first_nonspace_column stay the ones a rescan would compute
     adv_cols_past   advance_offset(line, indent + 1, true) over a byte at first_nonspace that is neither space nor
                     tab lands exactly behind it
     adv_one         advance_offset(line, 1, true) on a space or tab at the offset: the column grows by exactly one
     CI_adv_one      .. and the cursor invariant CI of Proofs/BlocksTotal.v is kept *)
From Coq Require Import List NArith Arith Bool Lia Strings.String.
From V Require Import Base.Bytes Base.Res Gen.BlocksConst Model.Ast Model.Strings Model.Scan Model.Blocks
  Proofs.BlocksCursor Proofs.BlocksTotal Proofs.BlocksTotal3Cur.
Import ListNotations.
Local Open Scope string_scope.
Local Open Scope list_scope.

Lemma sot_eq : forall b, is_space_or_tab b = (beqb b x20 || beqb b x09).
Proof.
  intro b. apply eqb_prop. revert b. apply forall_bytes. vm_compute. reflexivity.
Qed.

Lemma sot_split b : is_space_or_tab b = true -> b = x20 \/ b = x09.
Proof. rewrite sot_eq. intro H. apply orb_true_iff in H. destruct H as [H|H]; apply beqb_eq in H; auto. Qed.

Lemma nth_error_skipn_add {A} (l : list A) : forall k i, nth_error (skipn k l) i = nth_error l (k + i).
Proof. induction l as [|x r IH]; intros [|k] i; cbn; try reflexivity; [now destruct i | apply IH]. Qed.

Lemma ws_len_stop : forall s,
  match nth_error s (ws_len s) with Some b => is_space_or_tab b = false | None => ws_len s = List.length s end.
Proof.
  induction s as [|b r IH]; cbn [ws_len]; [reflexivity|].
  destruct (beqb b x20) eqn:E1; [cbn [nth_error List.length]; destruct (nth_error r (ws_len r)); [exact IH | now f_equal]|].
  destruct (beqb b x09) eqn:E2; [cbn [nth_error List.length]; destruct (nth_error r (ws_len r)); [exact IH | now f_equal]|].
  cbn [nth_error]. rewrite sot_eq, E1, E2. reflexivity.
Qed.

Lemma ws_len_lf : forall l, ws_len (l ++ [x0a]) <= List.length l.
Proof.
  induction l as [|b r IH]; cbn [app ws_len List.length]; [cbn; lia|].
  destruct (beqb b x20); [lia|]. destruct (beqb b x09); lia.
Qed.

Lemma ws_len_ws : forall s k b, k < ws_len s -> nth_error s k = Some b -> is_space_or_tab b = true.
Proof.
  induction s as [|x r IH]; intros k b Hk Hn; cbn [ws_len] in Hk; [lia|].
  destruct (beqb x x20) eqn:E1; [|destruct (beqb x x09) eqn:E2; [|lia]];
    (destruct k as [|k]; [cbn in Hn; inversion Hn; subst; rewrite sot_eq, ?E1, ?E2; reflexivity
                         | cbn in Hn; eapply IH; [|exact Hn]; lia]).
Qed.

Lemma skipn_lf (l : bytes) k : k <= List.length l -> skipn k (l ++ [x0a]) = skipn k l ++ [x0a].
Proof. intro H. rewrite skipn_app. replace (k - List.length l) with 0 by lia. reflexivity. Qed.

(* a freshly scanned cursor inside a line that ends with LF *)
Lemma fresh_in c line : lf_terminated line -> fresh_fns c line -> c_offset c < List.length line ->
  c_offset c <= c_fns c < List.length line /\
  exists b, nth_error line (c_fns c) = Some b /\ is_space_or_tab b = false.
Proof.
  intros [l ->] [F1 _] Ho. rewrite app_length in *. cbn [List.length] in *.
  assert (Hl : c_offset c <= List.length l) by lia.
  pose proof (ws_len_lf (skipn (c_offset c) l)) as W. rewrite <- skipn_lf in W by exact Hl.
  rewrite skipn_length in W.
  assert (Lt : c_fns c < List.length l + 1) by lia.
  split; [lia|].
  pose proof (ws_len_stop (skipn (c_offset c) (l ++ [x0a]))) as S.
  rewrite nth_error_skipn_add, <- F1 in S.
  destruct (nth_error (l ++ [x0a]) (c_fns c)) as [b|] eqn:N; [eauto|].
  apply nth_error_None in N. rewrite app_length in N. cbn in N. lia.
Qed.

(* the last byte of a line that ends with LF is not a space, tab ..: a position that holds another byte is not the last *)
Lemma not_last line k b : lf_terminated line -> nth_error line k = Some b -> b <> x0a -> S k < List.length line.
Proof.
  intros [l ->] N Hb. rewrite app_length. cbn [List.length].
  assert (k < List.length (l ++ [x0a])) by (apply nth_error_Some; congruence). rewrite app_length in H. cbn in H.
  destruct (Nat.eq_dec k (List.length l)) as [->|Ne]; [|lia].
  rewrite nth_error_app2, Nat.sub_diag in N by lia. cbn in N. congruence.
Qed.

Lemma lf_last line : lf_terminated line -> nth_error line (List.length line - 1) = Some x0a /\ 1 <= List.length line.
Proof.
  intros [l ->]. rewrite app_length. cbn [List.length]. replace (List.length l + 1 - 1) with (List.length l) by lia.
  rewrite nth_error_app2, Nat.sub_diag by lia. split; [reflexivity | lia].
Qed.

(* ================================================================== column mode inside the indent *)
Lemma ctt_mid col k : S k < ctt_of col -> col + S k + ctt_of (col + S k) = col + ctt_of col.
Proof.
  unfold ctt_of, tab_stop, gen_tab_stop. intro H.
  pose proof (Nat.div_mod_eq col 4). pose proof (Nat.mod_upper_bound col 4 ltac:(lia)).
  pose proof (Nat.div_mod_eq (col + S k) 4). pose proof (Nat.mod_upper_bound (col + S k) 4 ltac:(lia)).
  lia.
Qed.

Lemma adv_zero fuel line off col pct columns : advance_loop fuel line off col pct 0 columns = Ok (off, col, pct).
Proof. destruct fuel; reflexivity. Qed.

Lemma adv_cols_fresh : forall s pre col pct count fuel,
  count <= fuel -> count <= col_after s col - col ->
  exists k col' pct', advance_loop fuel (pre ++ s) (List.length pre) col pct count true = Ok (List.length pre + k, col', pct')
     /\ k <= ws_len s /\ ws_len (skipn k s) = ws_len s - k /\ col_after (skipn k s) col' = col_after s col
     /\ col' = col + count.
Proof.
  induction s as [|b r IH]; intros pre col pct count fuel Hf Hc.
  - cbn [col_after] in Hc. assert (count = 0) by lia. subst. exists 0, col, pct. rewrite adv_zero, Nat.add_0_r.
    repeat split; cbn; lia.
  - destruct count as [|c].
    { exists 0, col, pct. rewrite adv_zero, Nat.add_0_r. repeat split; cbn [skipn]; lia. }
    destruct fuel as [|f]; [lia|]. cbn [advance_loop]. rewrite idx_mid. cbn [bind].
    assert (EL : pre ++ b :: r = (pre ++ [b]) ++ r) by (rewrite <- app_assoc; reflexivity).
    assert (LL : S (List.length pre) = List.length (pre ++ [b])) by (rewrite app_length; cbn; lia).
    destruct (beqb b x09) eqn:Et.
    + apply beqb_eq in Et. subst b. cbn [col_after ws_len beqb] in *. change (beqb x09 x20) with false in *. cbv iota in *.
      change (beqb x09 x09) with true in *. cbv iota in *.
      change (tab_stop - col mod tab_stop) with (ctt_of col). pose proof (ctt_of_pos col) as P.
      pose proof (col_after_ge r (col + ctt_of col)) as G.
      destruct (Nat.ltb (S c) (ctt_of col)) eqn:Lt.
      * apply Nat.ltb_lt in Lt. rewrite Nat.min_l by lia. replace (S c - S c) with 0 by lia. rewrite adv_zero.
        exists 0, (col + S c), true. rewrite Nat.add_0_r. split; [reflexivity|]. cbn [skipn ws_len col_after].
        change (beqb x09 x20) with false. change (beqb x09 x09) with true. cbv iota.
        rewrite (ctt_mid col c Lt). repeat split; lia.
      * apply Nat.ltb_ge in Lt. rewrite Nat.min_r by lia. rewrite EL, LL.
        destruct (IH (pre ++ [x09]) (col + ctt_of col) false (S c - ctt_of col) f ltac:(lia) ltac:(lia))
          as (k & c' & p' & E & K1 & K2 & K3 & K4).
        exists (S k), c', p'. rewrite E. rewrite <- LL. split; [f_equal; f_equal; f_equal; lia|].
        cbn [skipn]. repeat split; try lia; assumption.
    + assert (Eb : beqb b x20 = true).
      { destruct (beqb b x20) eqn:E2; [reflexivity|]. cbn [col_after] in Hc. rewrite E2, Et in Hc. lia. }
      cbn [col_after ws_len] in *. rewrite Eb in *. pose proof (col_after_ge r (S col)) as G.
      replace (S c - 1) with c by lia. rewrite EL, LL.
      destruct (IH (pre ++ [b]) (S col) false c f ltac:(lia) ltac:(lia)) as (k & c' & p' & E & K1 & K2 & K3 & K4).
      exists (S k), c', p'. rewrite E. rewrite <- LL. split; [f_equal; f_equal; f_equal; lia|].
      cbn [skipn]. repeat split; try lia; assumption.
Qed.

Lemma skipn_firstn_app (l : bytes) k j : k <= List.length l -> skipn (k + j) l = skipn j (skipn k l).
Proof.
  intros _. revert l. induction k as [|k IH]; intro l; [reflexivity|]. destruct l as [|x r]; cbn [Nat.add skipn]; [now destruct j | apply IH].
Qed.

(* advance_offset(line, count, true), count <= indent, from a freshly scanned cursor *)
Theorem adv_cols_in c line count :
  c_offset c <= List.length line -> fresh_fns c line -> count <= c_fnsc c - c_column c ->
  exists c', advance_offset c line count true = Ok c' /\ fresh_fns c' line
             /\ c_offset c <= c_offset c' <= c_fns c /\ c_fns c' = c_fns c /\ c_fnsc c' = c_fnsc c
             /\ c_indent c' = c_indent c /\ c_blank c' = c_blank c /\ c_tbkp c' = c_tbkp c
             /\ c_column c' = c_column c + count.
Proof.
  intros Ho [F1 F2] Hc. unfold advance_offset.
  pose proof (adv_cols_fresh (skipn (c_offset c) line) (firstn (c_offset c) line) (c_column c) (c_pct c) count count (le_n _)) as T.
  rewrite firstn_skipn, firstn_length, Nat.min_l in T by exact Ho.
  destruct T as (k & c' & p' & E & K1 & K2 & K3 & K4); [rewrite <- F2; exact Hc|].
  rewrite E. cbn [bind]. eexists. split; [reflexivity|].
  unfold fresh_fns. cbn [cur_set_oc c_offset c_column c_fns c_fnsc c_indent c_blank c_tbkp].
  rewrite skipn_firstn_app by exact Ho. rewrite K2, K3.
  repeat split; try lia; try reflexivity.
Qed.

(* indent + 1 columns over a byte at first_nonspace that is neither space nor tab *)
Lemma adv_cols_past_loop : forall s pre col pct fuel b,
  nth_error s (ws_len s) = Some b -> is_space_or_tab b = false ->
  col_after s col - col + 1 <= fuel ->
  advance_loop fuel (pre ++ s) (List.length pre) col pct (col_after s col - col + 1) true
  = Ok (List.length pre + ws_len s + 1, col_after s col + 1, false).
Proof.
  induction s as [|x r IH]; intros pre col pct fuel b Hn Hb Hf; [discriminate Hn|].
  assert (EL : pre ++ x :: r = (pre ++ [x]) ++ r) by (rewrite <- app_assoc; reflexivity).
  assert (LL : S (List.length pre) = List.length (pre ++ [x])) by (rewrite app_length; cbn; lia).
  cbn [col_after ws_len] in *.
  destruct (beqb x x20) eqn:E1.
  - apply beqb_eq in E1. subst x. pose proof (col_after_ge r (S col)) as G. cbn [nth_error] in Hn.
    replace (col_after r (S col) - col + 1) with (S (col_after r (S col) - S col + 1)) in * by lia.
    destruct fuel as [|f]; [lia|]. cbn [advance_loop]. rewrite idx_mid. cbn [bind]. change (beqb x20 x09) with false. cbv iota.
    replace (S (col_after r (S col) - S col + 1) - 1) with (col_after r (S col) - S col + 1) by lia.
    rewrite EL, LL. rewrite (IH (pre ++ [x20]) (S col) false f b Hn Hb ltac:(lia)). rewrite <- LL. f_equal. f_equal. f_equal. lia.
  - destruct (beqb x x09) eqn:E2.
    + apply beqb_eq in E2. subst x. pose proof (col_after_ge r (col + ctt_of col)) as G. pose proof (ctt_of_pos col) as P.
      cbn [nth_error] in Hn.
      set (n := col_after r (col + ctt_of col)) in *.
      destruct fuel as [|f]; [lia|].
      replace (n - col + 1) with (S (n - col)) in * by lia.
      cbn [advance_loop]. rewrite idx_mid. cbn [bind]. change (beqb x09 x09) with true. cbv iota.
      change (tab_stop - col mod tab_stop) with (ctt_of col).
      assert (Lt : Nat.ltb (S (n - col)) (ctt_of col) = false) by (apply Nat.ltb_ge; lia). rewrite Lt.
      rewrite Nat.min_r by lia.
      replace (S (n - col) - ctt_of col) with (n - (col + ctt_of col) + 1) by lia.
      rewrite EL, LL. unfold n. rewrite (IH (pre ++ [x09]) (col + ctt_of col) false f b Hn Hb ltac:(fold n; lia)).
      rewrite <- LL. f_equal. f_equal. f_equal. lia.
    + cbn [nth_error] in Hn. inversion Hn; subst b. replace (col - col + 1) with 1 in * by lia.
      destruct fuel as [|f]; [lia|]. cbn [advance_loop]. rewrite idx_mid. cbn [bind]. rewrite E2.
      rewrite adv_zero. f_equal. f_equal. f_equal; lia.
Qed.

Theorem adv_cols_past c line b :
  c_offset c <= List.length line -> fresh_fns c line ->
  nth_error line (c_fns c) = Some b -> is_space_or_tab b = false ->
  exists c', advance_offset c line (c_fnsc c - c_column c + 1) true = Ok c'
             /\ c_offset c' = c_fns c + 1 /\ c_fns c' = c_fns c /\ c_pct c' = false
             /\ c_column c' = c_fnsc c + 1.
Proof.
  intros Ho [F1 F2] Hn Hb. unfold advance_offset.
  assert (Hn' : nth_error (skipn (c_offset c) line) (ws_len (skipn (c_offset c) line)) = Some b).
  { rewrite nth_error_skipn_add, <- F1. exact Hn. }
  pose proof (adv_cols_past_loop (skipn (c_offset c) line) (firstn (c_offset c) line) (c_column c) (c_pct c)
                (c_fnsc c - c_column c + 1) b Hn' Hb) as T.
  rewrite firstn_skipn, firstn_length, Nat.min_l, <- F2 in T by exact Ho.
  rewrite T by lia. cbn [bind]. eexists. split; [reflexivity|].
  cbn [cur_set_oc c_offset c_column c_fns c_fnsc c_pct]. repeat split; lia.
Qed.

(* ================================================================== one column on a space or tab *)
Lemma adv_one c line b :
  nth_error line (c_offset c) = Some b -> is_space_or_tab b = true ->
  exists c', advance_offset c line 1 true = Ok c' /\ c_offset c <= c_offset c' <= S (c_offset c)
             /\ c_column c' = S (c_column c) /\ c_fns c' = c_fns c /\ c_fnsc c' = c_fnsc c
             /\ c_indent c' = c_indent c /\ c_blank c' = c_blank c /\ c_tbkp c' = c_tbkp c.
Proof.
  intros Hn Hb. unfold advance_offset. cbn [advance_loop]. unfold idx. rewrite Hn. cbn [bind].
  pose proof (ctt_of_pos (c_column c)) as P. unfold ctt_of in P.
  destruct (sot_split _ Hb) as [-> | ->].
  - change (beqb x20 x09) with false. cbv iota. cbn [Nat.sub bind]. eexists. split; [reflexivity|].
    cbn [cur_set_oc c_offset c_column c_fns c_fnsc c_indent c_blank c_tbkp]. repeat split; lia.
  - change (beqb x09 x09) with true. cbv iota. rewrite Nat.min_l by lia. replace (1 - 1) with 0 by lia. cbn [bind].
    eexists. split; [reflexivity|].
    cbn [cur_set_oc c_offset c_column c_fns c_fnsc c_indent c_blank c_tbkp].
    destruct (Nat.ltb 1 (tab_stop - c_column c mod tab_stop)); repeat split; lia.
Qed.

Lemma ws_at_offset_indent c line b : fresh_fns c line ->
  nth_error line (c_offset c) = Some b -> is_space_or_tab b = true -> 1 <= c_fnsc c - c_column c.
Proof.
  intros [_ F2] Hn Hb. rewrite F2.
  assert (E : skipn (c_offset c) line = b :: skipn (S (c_offset c)) line) by (now apply skipn_S_cons).
  rewrite E. cbn [col_after]. pose proof (ctt_of_pos (c_column c)) as P.
  destruct (sot_split _ Hb) as [-> | ->].
  - change (beqb x20 x20) with true. cbv iota. pose proof (col_after_ge (skipn (S (c_offset c)) line) (S (c_column c))). lia.
  - change (beqb x09 x20) with false. change (beqb x09 x09) with true. cbv iota.
    pose proof (col_after_ge (skipn (S (c_offset c)) line) (c_column c + ctt_of (c_column c))). lia.
Qed.

Theorem CI_adv_one c line b :
  CI c line -> nth_error line (c_offset c) = Some b -> is_space_or_tab b = true ->
  exists c', advance_offset c line 1 true = Ok c' /\ CI c' line /\ c_offset c <= c_offset c' <= S (c_offset c)
             /\ c_column c' = S (c_column c) /\ c_tbkp c' = c_tbkp c.
Proof.
  intros [Ho Hd] Hn Hb.
  assert (Lt : c_offset c < List.length line) by (apply nth_error_Some; congruence).
  destruct (adv_one c line b Hn Hb) as (c' & E & B & Cl & Fn & Fc & _ & _ & Tb).
  exists c'. split; [exact E|]. split; [|repeat split; try lia].
  destruct Hd as [Hd|Hd].
  - split; [lia | left; lia].
  - pose proof (ws_at_offset_indent c line b Hd Hn Hb) as I1.
    destruct (adv_cols_in c line 1 Ho Hd I1) as (c2 & E2 & F2 & B2 & _).
    rewrite E in E2. inversion E2; subst c2. split; [lia | right; exact F2].
Qed.

(* the position after such an advance is still inside a line that ends with LF *)
Lemma ws_not_lf b : is_space_or_tab b = true -> b <> x0a.
Proof. intros H ->. discriminate H. Qed.
