(* Proofs/ParserShapeCompose.v — the parser as a composition of its modelled phases, and the shape clauses of the
   tree it returns.

     final_tree fn fold pres perm inl1 inl2 act t0 =
        taskify act [] (attach inl2 [] (if fn then process fold pres perm (attach inl1 [] t0) else attach inl1 [] t0))

   t0 = to_node (br_root r), the result of the block phase (Model/Blocks.parse_blocks);
   attach inl1   = Parser::process_inlines (inl1 p = what Model/Inlines.parse_inlines returns for the leaf at p);
   process       = Parser::process_footnotes (Model/Footnotes.process), run iff extension.footnotes;
   attach inl2, taskify act = Parser::postprocess_text_nodes (inl2 p = Model/Inlines.postprocess_block of the
                   children of the leaf at p; act = the tl_effect it reports for the ancestors). *)
From Coq Require Import List NArith Arith Bool Lia Strings.String.
From V Require Import Base.Bytes Base.Res Gen.Nodes Model.Ast Model.Blocks Model.Inlines Model.Footnotes Model.Html Model.Xml
  Spec.Shape Spec.HtmlSpec Spec.XmlLex Spec.Valid Spec.NestSpec
  Proofs.BlocksProofs Proofs.HtmlSafe Proofs.HtmlNest Proofs.XmlProofs
  Proofs.ParserShapeBlocks Proofs.ParserShapeBlocksRead Proofs.ParserShapeTree Proofs.ParserShapeTabPrim
  Proofs.ParserShapeTables Proofs.ParserShapeTablesRead Proofs.ParserShapeInl Proofs.ParserShapeFn Proofs.ParserShapeAttach.
From V Require Proofs.ValidProofs.
Import ListNotations.
Local Open Scope string_scope.
Local Open Scope list_scope.

Definition final_tree (fn : bool) (fold pres : bytes -> bytes) (perm : list fdef -> list fdef)
  (inl1 inl2 : list nat -> list node) (act : list nat -> tl_act) (t0 : node) : node :=
  let t1 := attach inl1 [] t0 in
  let t2 := if fn then process fold pres perm t1 else t1 in
  taskify act [] (attach inl2 [] t2).

Definition inl_ok (inl : list nat -> list node) : Prop := forall p, forallb inl_tree7 (inl p) = true.

(* ---- the block phase: everything C04 asks of the tree *)
Theorem blocks_structurally_valid o x r :
  parse_blocks o x = Ok r -> structurally_valid (to_node (br_root r)) = true.
Proof.
  intro H. rewrite ValidProofs.structurally_valid_reduced. rewrite !andb_true_iff. repeat split.
  - eapply parse_blocks_valid; exact H.
  - eapply parse_blocks_s2; exact H.
  - rewrite ValidProofs.headings_ok_is_s4. eapply parse_blocks_s4; exact H.
  - eapply parse_blocks_tables_ok; exact H.
Qed.

Theorem blocks_shape o x r :
  parse_blocks o x = Ok r ->
  let t := to_node (br_root r) in s2 t = true /\ s3 t = true /\ s4 t = true /\ s7 t = true.
Proof.
  intro H. cbv zeta. split; [eapply parse_blocks_s2; exact H|]. split; [eapply parse_blocks_s3; exact H|].
  split; [eapply parse_blocks_s4; exact H | eapply parse_blocks_s7; exact H].
Qed.

Lemma nofn_s6w t : nofn t = true -> s6w t = true.
Proof.
  destruct t as [v sp ch]. cbn [nofn]. intro H. apply andb_true_iff in H. destruct H as [_ H].
  unfold s6w. cbn [nch]. clear v sp. induction ch as [|x r IH]; [reflexivity|]. cbn [forallb] in H.
  apply andb_true_iff in H. destruct H as [Hx Hr]. cbn [s6w_list]. destruct (is_fndef (nval x)); [reflexivity|].
  rewrite Hx. cbn [andb]. now apply IH.
Qed.

(* ---- the whole parser *)
Theorem final_shape o x r fold pres perm inl1 inl2 act :
  parse_blocks o x = Ok r -> inl_ok inl1 -> inl_ok inl2 ->
  let t := final_tree (bo_footnotes o) fold pres perm inl1 inl2 act (to_node (br_root r)) in
  s2 t = true /\ s3 t = true /\ s4 t = true /\ s7 t = true /\ s6w t = true.
Proof.
  intros H I1 I2. destruct (blocks_shape _ _ _ H) as (A2 & A3 & A4 & A7). cbv zeta in *.
  set (t0 := to_node (br_root r)) in *. unfold final_tree.
  set (t1 := attach inl1 [] t0).
  assert (B2 : s2 t1 = true) by (apply attach_s2; exact A2).
  assert (B3 : s3 t1 = true) by (apply attach_s3; assumption).
  assert (B4 : s4 t1 = true) by (apply attach_s4; assumption).
  assert (B7 : s7 t1 = true) by (apply attach_s7; assumption).
  set (t2 := if bo_footnotes o then process fold pres perm t1 else t1).
  assert (C : s2 t2 = true /\ s3 t2 = true /\ s4 t2 = true /\ s7 t2 = true /\ s6w t2 = true).
  { subst t2. destruct (bo_footnotes o) eqn:F.
    - split; [now apply fnp_s2_process|]. split; [now apply fnp_s3_process|]. split; [now apply fnp_s4_process|].
      split; [now apply fnp_s7_process|]. apply fnp_s6w_process.
      unfold s2 in B2. unfold is_def. destruct (nval t1); try discriminate B2; reflexivity.
    - repeat split; try assumption. apply nofn_s6w. apply attach_nofn; [exact I1|].
      eapply nall_nofn; [exact F|]. eapply parse_blocks_values; exact H. }
  destruct C as (C2 & C3 & C4 & C7 & C6).
  split; [apply taskify_s2; apply attach_s2; exact C2|].
  split; [apply taskify_s3; apply attach_s3; assumption|].
  split; [apply taskify_s4; apply attach_s4; assumption|].
  split; [apply taskify_s7; apply attach_s7; assumption|].
  apply taskify_s6w. apply attach_s6w; assumption.
Qed.

(* ---- the renderer theorems as statements about what the parser produces *)
Theorem final_html_safe o x r fold pres perm inl1 inl2 act slug ro evs :
  parse_blocks o x = Ok r -> inl_ok inl1 -> inl_ok inl2 ->
  o_unsafe ro = false -> (forall h, forallb inert_byte (slug h) = true) ->
  events slug ro (final_tree (bo_footnotes o) fold pres perm inl1 inl2 act (to_node (br_root r))) = Ok evs ->
  forallb safe_ev evs = true.
Proof.
  intros H I1 I2 U S E. destruct (final_shape _ _ _ fold pres perm _ _ act H I1 I2) as (_ & _ & A4 & A7 & _).
  eapply c02_events; eassumption.
Qed.

Theorem final_html_nested o x r fold pres perm inl1 inl2 act slug ro evs :
  parse_blocks o x = Ok r -> inl_ok inl1 -> inl_ok inl2 ->
  events slug ro (final_tree (bo_footnotes o) fold pres perm inl1 inl2 act (to_node (br_root r))) = Ok evs ->
  well_nested evs = true.
Proof.
  intros H I1 I2 E. destruct (final_shape _ _ _ fold pres perm _ _ act H I1 I2) as (A2 & A3 & _ & _ & A6).
  eapply nested_weak; eassumption.
Qed.

Theorem final_html_total o x r fold pres perm inl1 inl2 act slug ro :
  parse_blocks o x = Ok r -> inl_ok inl1 -> inl_ok inl2 ->
  exists evs, events slug ro (final_tree (bo_footnotes o) fold pres perm inl1 inl2 act (to_node (br_root r))) = Ok evs.
Proof.
  intros H I1 I2. destruct (final_shape _ _ _ fold pres perm _ _ act H I1 I2) as (A2 & A3 & _).
  apply total; assumption.
Qed.

Theorem final_xml_total o x r fold pres perm inl1 inl2 act ro :
  parse_blocks o x = Ok r -> inl_ok inl1 -> inl_ok inl2 ->
  exists b, xml ro (final_tree (bo_footnotes o) fold pres perm inl1 inl2 act (to_node (br_root r))) = Ok b.
Proof.
  intros H I1 I2. destruct (final_shape _ _ _ fold pres perm _ _ act H I1 I2) as (_ & A3 & _).
  apply xml_total. apply ValidProofs.s3_cells_ok. exact A3.
Qed.

(* ---- the hypothesis inl_ok holds of the inline-phase model *)
Record iargs := mkIA {
  ia_memo : bool; ia_o : iopts; ia_u : oracle; ia_inp : bytes; ia_lo : list N; ia_sl : N;
  ia_refmap : list (bytes * (bytes * bytes)); ia_maxref : N; ia_rs0 : N }.

Definition inl_of_model (a : list nat -> iargs) (p : list nat) : list node :=
  match parse_inlines (ia_memo (a p)) (ia_o (a p)) (ia_u (a p)) (ia_inp (a p)) (ia_lo (a p)) (ia_sl (a p))
                      (ia_refmap (a p)) (ia_maxref (a p)) (ia_rs0 (a p)) with
  | Ok (ch, _) => ch
  | _ => []
  end.

Theorem inl_of_model_ok a : inl_ok (inl_of_model a).
Proof.
  intro p. unfold inl_of_model.
  match goal with |- context [match ?x with _ => _ end] => destruct x as [[ch rs]| |] eqn:E end; try reflexivity.
  eapply inl_parse_inlines_tree7; exact E.
Qed.

(* the text post-pass applied to lists that are inline trees *)
Definition inl_post_model (io : iopts) (ctx : list nat -> option N) (before : list nat -> list node) (p : list nat) : list node :=
  match postprocess_block io (ctx p) (before p) with
  | Ok (ch, _) => ch
  | _ => before p
  end.

Theorem inl_post_model_ok io ctx before : inl_ok before -> inl_ok (inl_post_model io ctx before).
Proof.
  intros B p. unfold inl_post_model.
  destruct (postprocess_block io (ctx p) (before p)) as [[ch eff]| |] eqn:E; try apply B.
  eapply inl_postprocess_tree7; [apply B | exact E].
Qed.

(* ---- s6 proper (definitions never nested) is NOT a property of the parser: finding F22 *)
Definition o_fn : bopts := mkBO false true false false false false false false None None (fun v => v).
Definition doc_nested : bytes :=
  Eval compute in B "x[^a]" ++ [x0a; x0a] ++ B "[^a]: one" ++ [x0a; x0a] ++ B "    [^b]: two" ++ [x0a].
Definition inl_nested (p : list nat) : list node :=
  match p with
  | [0] => [Node (Text [x78]) (mkSp 1 1 1 1) []; Node (FootnoteReference [x61] 0 0) (mkSp 1 2 1 5) []]
  | _ => []
  end.
Definition act_none (_ : list nat) : tl_act := mkAct None false.

Theorem final_s6_refuted :
  exists r, parse_blocks o_fn doc_nested = Ok r /\ inl_ok inl_nested /\
    let t := final_tree true (fun v => v) (fun v => v) (fun l => l) inl_nested inl_nested act_none (to_node (br_root r)) in
    s6 t = false /\ s6w t = true.
Proof.
  vm_compute. eexists. split; [reflexivity|]. split; [|split; reflexivity].
  intro p. destruct p as [|[|k] [|q r]]; reflexivity.
Qed.

(* ---- statements pinned in Props/ParserShape.v *)
Lemma bvok_spec : forall o v, bvok o v = true ->
  match v with
  | Heading l _ => (1 <= l <= 6)%N
  | FootnoteDefinition _ _ => bo_footnotes o = true
  | Table _ | TableRow _ | TableCell => bo_table o = true
  | Raw _ | EscapedTag _ | Text _ | TaskItem _ | SoftBreak | LineBreak | Code _ _ | HtmlInline _ | Emph | Strong
  | Strikethrough | Superscript | Link _ _ | Image _ _ | FootnoteReference _ _ _ | Math _ _ _ | Escaped | WikiLink _
  | Underline | Subscript | SpoileredText => False
  | _ => True
  end.
Proof.
  intros o v H. destruct v; try exact I; try discriminate H; try exact H.
  cbn [bvok] in H. apply andb_true_iff in H. destruct H as [A B]. apply N.leb_le in A. apply N.leb_le in B. split; assumption.
Qed.

Lemma escaped_tag_payload : forall l, inl_val7 (EscapedTag l) = true -> forallb inert_byte l = true.
Proof. intros l H. unfold inl_val7 in H. apply andb_true_iff in H. exact (proj2 H). Qed.

Lemma inline_tree_clauses : forall n, inl_tree7 n = true ->
  s4 n = true /\ s7 n = true /\ nofn n = true /\ no_table n = true /\ forall pv gv, s3_go pv gv n = true.
Proof.
  intros n H. split; [now apply inl_tree7_s4|]. split; [now apply inl_tree7_s7|]. split; [now apply inl_tree7_nofn|].
  split; [now apply inl_tree7_no_table | now apply inl_tree7_s3_go].
Qed.

Lemma attach_preserves : forall inl path t,
  (forall p, forallb inl_tree7 (inl p) = true) ->
  nval (attach inl path t) = nval t /\
  (s2 t = true -> s2 (attach inl path t) = true) /\ (s3 t = true -> s3 (attach inl path t) = true) /\
  (s4 t = true -> s4 (attach inl path t) = true) /\ (s7 t = true -> s7 (attach inl path t) = true) /\
  (s6w t = true -> s6w (attach inl path t) = true) /\ (s2 t = true -> s6 t = true -> s6 (attach inl path t) = true).
Proof.
  intros inl path t I. split; [apply attach_val|]. split; [apply attach_s2|]. split; [now apply attach_s3|].
  split; [now apply attach_s4|]. split; [now apply attach_s7|]. split; [now apply attach_s6w | now apply attach_s6].
Qed.

Lemma taskify_preserves : forall act path t,
  (s2 t = true -> s2 (taskify act path t) = true) /\ (s3 t = true -> s3 (taskify act path t) = true) /\
  (s4 t = true -> s4 (taskify act path t) = true) /\ (s7 t = true -> s7 (taskify act path t) = true) /\
  (s6w t = true -> s6w (taskify act path t) = true).
Proof.
  intros act path t. split; [apply taskify_s2|]. split; [apply taskify_s3|]. split; [apply taskify_s4|].
  split; [apply taskify_s7 | apply taskify_s6w].
Qed.

Lemma footnotes_preserves : forall (fold pres : bytes -> bytes) (perm : list fdef -> list fdef) root,
  s2 root = true ->
  s2 (process fold pres perm root) = true /\
  (s3 root = true -> s3 (process fold pres perm root) = true) /\
  (s4 root = true -> s4 (process fold pres perm root) = true) /\
  (s7 root = true -> s7 (process fold pres perm root) = true).
Proof.
  intros fold pres perm root H. split; [now apply fnp_s2_process|]. split; [now apply fnp_s3_process|].
  split; [apply fnp_s4_process | apply fnp_s7_process].
Qed.

(* non-vacuity: a heading, a table with a short (autocompleted) and a long (truncated) body row, a footnote *)
Definition ex_opts : bopts := mkBO true true false false false false false false None None (fun v => v).
Definition ex_doc : bytes :=
  Eval compute in B "## h" ++ [x0a; x0a] ++ B "| a | b |" ++ [x0a] ++ B "|---|:-:|" ++ [x0a] ++ B "| c |" ++ [x0a]
                  ++ B "| d | e | f |" ++ [x0a; x0a] ++ B "x[^n]" ++ [x0a; x0a] ++ B "[^n]: y" ++ [x0a].
Definition ex_inl (p : list nat) : list node :=
  match p with
  | [2] => [Node (Text [x78]) (mkSp 7 1 7 1) []; Node (FootnoteReference [x6e] 0 0) (mkSp 7 2 7 5) []]
  | _ => [Node (Text [x74]) (mkSp 1 1 1 1) []]
  end.

Lemma shape_example :
  exists r, parse_blocks ex_opts ex_doc = Ok r /\ inl_ok ex_inl /\
    let t0 := to_node (br_root r) in
    let t := final_tree true (fun v => v) (fun v => v) (fun l => l) ex_inl ex_inl act_none t0 in
    map (fun c => kind_of (nval c)) (nch t0) = [KHeading; KTable; KParagraph; KFootnoteDefinition] /\
    map (fun c => kind_of (nval c)) (nch t) = [KHeading; KTable; KParagraph; KFootnoteDefinition] /\
    map (fun row => List.length (nch row)) (flat_map nch (filter (fun c => is_table_v (nval c)) (nch t))) = [2; 2; 2] /\
    structurally_valid t0 = true /\
    s2 t && s3 t && s4 t && s7 t && s6w t && s6 t = true.
Proof.
  vm_compute. eexists. split; [reflexivity|]. split; [|repeat split].
  intro p. destruct p as [|[|[|[|k]]] [|q r]]; reflexivity.
Qed.
